/-
  Proofs/C20Cmd.lean — proofs of the whole-command agreement theorems of C20 (Props/C20Cmd.lean):
  the bridges between `meaningOf` and the vocabularies of the command-level theorems of trash-rm
  (`EntryAt`), trash-empty (`DatedOld`), trash-list (`lineOf`, `listLines`) and trash-restore
  (`restoreItem`, `restoreEntries`), and the four statements.
-/
import TrashVerif.Props.C20CmdDefs
import TrashVerif.Proofs.C12CmdTop
import TrashVerif.Proofs.C10CmdTop
import TrashVerif.Proofs.C19Cmd
namespace TrashVerif.Proofs.C20Whole
open TrashVerif PutCore Prog FS C09Hist C10Loop C12Cmd C10Cmd C19Cmd ReadDefs C20Cmd
open TrashVerif.Proofs.C12Cmd
open TrashVerif.Proofs.C16IndepHome (pjoin_toStr goodNames_append good_info)
open TrashVerif.Proofs.PutLemmas (isDirAt_get)

/-! ### list helpers -/

theorem filterMap_filter_none {α β : Type} (f : α → Option β) (p : α → Bool) (h : ∀ x, p x = false → f x = none) :
    ∀ l : List α, l.filterMap f = (l.filter p).filterMap f
  | [] => rfl
  | x :: l => by
    cases hp : p x with
    | true => rw [List.filter_cons_of_pos hp, List.filterMap_cons, List.filterMap_cons, filterMap_filter_none f p h l]
    | false =>
      rw [List.filter_cons_of_neg (by rw [hp]; decide), List.filterMap_cons, h x hp]
      exact filterMap_filter_none f p h l

theorem flatMap_filter_nil {α β : Type} (f : α → List β) (p : α → Bool) (h : ∀ x, p x = false → f x = []) :
    ∀ l : List α, l.flatMap f = (l.filter p).flatMap f
  | [] => rfl
  | x :: l => by
    cases hp : p x with
    | true => rw [List.filter_cons_of_pos hp, List.flatMap_cons, List.flatMap_cons, flatMap_filter_nil f p h l]
    | false =>
      rw [List.filter_cons_of_neg (by rw [hp]; decide), List.flatMap_cons, h x hp, List.nil_append]
      exact flatMap_filter_nil f p h l

theorem filterMap_congr_mem {α β : Type} {f g : α → Option β} :
    ∀ {l : List α}, (∀ x ∈ l, f x = g x) → l.filterMap f = l.filterMap g
  | [], _ => rfl
  | x :: l, h => by
    rw [List.filterMap_cons, List.filterMap_cons, h x List.mem_cons_self,
      filterMap_congr_mem fun y hy => h y (List.mem_cons_of_mem _ hy)]

theorem flatMap_congr_mem {α β : Type} {f g : α → List β} :
    ∀ {l : List α}, (∀ x ∈ l, f x = g x) → l.flatMap f = l.flatMap g
  | [], _ => rfl
  | x :: l, h => by
    rw [List.flatMap_cons, List.flatMap_cons, h x List.mem_cons_self,
      flatMap_congr_mem fun y hy => h y (List.mem_cons_of_mem _ hy)]

theorem filterMap_map_opt {α β γ : Type} (f : α → Option β) (g : β → γ) :
    ∀ l : List α, l.filterMap (fun x => (f x).map g) = (l.filterMap f).map g
  | [] => rfl
  | x :: l => by
    rw [List.filterMap_cons, List.filterMap_cons]
    cases f x with
    | none => exact filterMap_map_opt f g l
    | some y => simp only [Option.map_some, List.map_cons, filterMap_map_opt f g l]

theorem flatMap_map' {α β γ : Type} (f : α → List β) (g : β → γ) :
    ∀ l : List α, (l.flatMap f).map g = l.flatMap fun x => (f x).map g
  | [] => rfl
  | x :: l => by rw [List.flatMap_cons, List.flatMap_cons, List.map_append, flatMap_map' f g l]

theorem flatMap_map_left {α β γ : Type} (f : α → β) (g : β → List γ) :
    ∀ l : List α, (l.map f).flatMap g = l.flatMap fun x => g (f x)
  | [] => rfl
  | x :: l => by rw [List.map_cons, List.flatMap_cons, List.flatMap_cons, flatMap_map_left f g l]

theorem filterMap_map_left {α β γ : Type} (f : α → β) (g : β → Option γ) :
    ∀ l : List α, (l.map f).filterMap g = l.filterMap fun x => g (f x)
  | [] => rfl
  | x :: l => by rw [List.map_cons, List.filterMap_cons, List.filterMap_cons, filterMap_map_left f g l]

theorem map_filterMap_retract {α β γ : Type} (f : α → Option β) (g : α → β → γ) (h : γ → β) (hh : ∀ x y, h (g x y) = y) :
    ∀ l : List α, (l.filterMap fun x => (f x).map (g x)).map h = l.filterMap f
  | [] => rfl
  | x :: l => by
    rw [List.filterMap_cons, List.filterMap_cons]
    cases f x with
    | none => exact map_filterMap_retract f g h hh l
    | some y => simp only [Option.map_some, List.map_cons, hh, map_filterMap_retract f g h hh l]

/-! ### the bridges -/

section bridges
variable {fs : FS} {cwd : CPath} {d : TDir} {n : Bytes}

theorem meaningOf_some_iff {m : Bytes × Option Date} :
    meaningOf fs cwd d n = some m ↔
      ∃ text, contentsOf fs cwd (infoStr (toStr d.T) n) = some text ∧ C20.meaningPath d.v text = some m.1 ∧
        C20.meaningDate text = m.2 := by
  constructor
  · intro h
    unfold meaningOf at h
    cases h1 : contentsOf fs cwd (infoStr (toStr d.T) n) with
    | none => rw [h1] at h; exact nomatch (show (none : Option (Bytes × Option Date)) = some m from h)
    | some text =>
      rw [h1] at h
      have h' : (Option.map (fun p => (p, C20.meaningDate text)) (C20.meaningPath d.v text)) = some m := h
      cases h2 : C20.meaningPath d.v text with
      | none => rw [h2] at h'; exact nomatch (show (none : Option (Bytes × Option Date)) = some m from h')
      | some p =>
        rw [h2] at h'
        have h'' : (p, C20.meaningDate text) = m := Option.some.inj h'
        subst h''
        exact ⟨text, rfl, h2, rfl⟩
  · rintro ⟨text, h1, h2, h3⟩
    unfold meaningOf
    rw [h1]
    show Option.map _ (C20.meaningPath d.v text) = some m
    rw [h2]
    cases m with
    | mk a b0 =>
      show some (a, C20.meaningDate text) = some (a, b0)
      rw [h3]

/-- BRIDGE to trash-rm: `EntryAt … loc` says exactly that the meaning of the name has the path `loc` -/
theorem entryAt_iff_meaning {loc : Bytes} :
    EntryAt fs cwd d n loc ↔ ∃ date, meaningOf fs cwd d n = some (loc, date) := by
  constructor
  · rintro ⟨text, rel, h1, h2, rfl⟩
    refine ⟨C20.meaningDate text, meaningOf_some_iff.2 ⟨text, h1, ?_, rfl⟩⟩
    show (parsePath text).map (pjoin d.v) = _
    rw [h2]; rfl
  · rintro ⟨date, h⟩
    obtain ⟨text, h1, h2, _⟩ := meaningOf_some_iff.1 h
    obtain ⟨rel, hr, hp⟩ := Proofs.C20.path_of_meaning h2
    exact ⟨text, rel, h1, hr, hp⟩

theorem no_entry_iff_no_meaning : (¬ ∃ loc, EntryAt fs cwd d n loc) ↔ meaningOf fs cwd d n = none := by
  constructor
  · intro h
    cases hm : meaningOf fs cwd d n with
    | none => rfl
    | some m => exact absurd ⟨m.1, entryAt_iff_meaning.2 ⟨m.2, hm⟩⟩ h
  · rintro h ⟨loc, he⟩
    obtain ⟨date, hd⟩ := entryAt_iff_meaning.1 he
    rw [h] at hd; cases hd

/-- BRIDGE to trash-empty: for a name that has a meaning, `DatedOld` says exactly that the date of the
    meaning — the one trash-list shows — is a date, and old -/
theorem datedOld_iff_listedOld {days : Nat} {o : EmptyOpts} {m : Bytes × Option Date}
    (hm : meaningOf fs cwd d n = some m) : DatedOld fs cwd days o d n ↔ ListedOld days o m := by
  obtain ⟨text, h1, _, h3⟩ := meaningOf_some_iff.1 hm
  constructor
  · rintro ⟨t, dt, ht, hd, ho⟩
    rw [h1] at ht; cases ht
    exact ⟨dt, by rw [← h3]; exact hd, ho⟩
  · rintro ⟨dt, hd, ho⟩
    exact ⟨text, dt, h1, by rw [← h3] at hd; exact hd, ho⟩

/-- in general (also for a name without `Path` line): `DatedOld` is about `meaningDate` of the text -/
theorem datedOld_iff_meaningDate {days : Nat} {o : EmptyOpts} :
    DatedOld fs cwd days o d n ↔ ∃ text dt, contentsOf fs cwd (infoStr (toStr d.T) n) = some text ∧
      C20.meaningDate text = some dt ∧ olderThan days o.now o.nowUs dt = .yes := Iff.rfl

/-- BRIDGE to trash-list: the line of the name is the rendering of its meaning -/
theorem lineOf_meaning : lineOf fs cwd d.v (infoStr (toStr d.T) n) = (meaningOf fs cwd d n).map lineOfMeaning := by
  unfold lineOf meaningOf C20.meaningPath C20.meaningDate
  cases contentsOf fs cwd (infoStr (toStr d.T) n) with
  | none => rfl
  | some text =>
    simp only [Option.bind_some]
    cases parsePath text with
    | none => rfl
    | some rel =>
      simp only [Option.map_some]
      unfold lineOfMeaning shownDate
      rw [Proofs.C20.maybeDateStr_eq]
      cases parseDeletionDate text <;> rfl

theorem listOne_meaning :
    listOne fs cwd d.v (infoStr (toStr d.T) n) =
      (match meaningOf fs cwd d n with
       | some m => .stdout (lineOfMeaning m)
       | none => diagOf fs cwd (infoStr (toStr d.T) n)) := by
  rw [Proofs.C19Cmd.listOne_eq, lineOf_meaning]
  cases meaningOf fs cwd d n <;> rfl

/-- BRIDGE to trash-restore: the entry built from a listed name is the one of its meaning -/
theorem restoreItem_meaning (hn : isTrashinfoName n = true) :
    restoreItem fs cwd (pjoin (toStr d.T) (b "info")) d.v n = entryOf fs cwd d n := by
  unfold restoreItem entryOf meaningOf C20.meaningPath C20.meaningDate
  rw [if_pos hn]
  show (match contentsOf fs cwd (infoStr (toStr d.T) n) with | none => none | some text => _) = _
  cases contentsOf fs cwd (infoStr (toStr d.T) n) with
  | none => rfl
  | some text =>
    simp only [Option.bind_some]
    cases parsePath text <;> rfl

end bridges

/-! ### (1) trash-list -/

theorem selectTrashDirs_nil (fs : FS) (c : ReadCfg) : selectTrashDirs fs c [] = scanTrashDirs fs c := by
  unfold selectTrashDirs
  simp only [if_true, List.map_nil, List.append_nil]

theorem listLines_world {fs : FS} (cwd : CPath) {ds : List TDir} (W : PlainWorld fs ds) :
    listLines fs cwd (ds.map TDir.pair) = (meanings fs cwd ds).map lineOfMeaning := by
  unfold listLines meanings
  rw [flatMap_map_left, flatMap_map']
  refine flatMap_congr_mem fun d hd => ?_
  show (infosList fs cwd (toStr d.T)).filterMap (lineOf fs cwd d.v) = _
  unfold infosList
  rw [infosOf_plain cwd (W.plain d hd)]
  show ((d.names.map (infoStr (toStr d.T))).filterMap (lineOf fs cwd d.v)) = _
  rw [filterMap_map_left, ← filterMap_map_opt]
  exact filterMap_congr_mem fun n _ => lineOf_meaning

theorem list_lines_are_meanings (φ : Oracle) (fs : FS) (c : ReadCfg) (ds : List TDir)
    (hscan : foundDirs (scanTrashDirs fs c) = ds.map TDir.pair) (W : PlainWorld fs ds) :
    (run φ (runList c []) { fs := fs }).1.exit = 0 ∧
    (run φ (runList c []) { fs := fs }).1.crash = none ∧
    (run φ (runList c []) { fs := fs }).2.outs.reverse.filter isStdout =
      ((meanings fs c.cwd ds).map fun m => Out.stdout (lineOfMeaning m)) ∧
    (run φ (runList c []) { fs := fs }).2.outs.reverse.filter (fun o => !isStdout o) =
      listDiags fs c.cwd (scanTrashDirs fs c) := by
  have hls : ∀ tv ∈ foundDirs (selectTrashDirs fs c []), ∃ l, infosOf fs c.cwd tv.1 = .ok l := by
    rw [selectTrashDirs_nil, hscan]
    intro tv htv
    obtain ⟨d, hd, rfl⟩ := List.mem_map.1 htv
    exact ⟨_, infosOf_plain c.cwd (W.plain d hd)⟩
  obtain ⟨h1, h2, h3⟩ := Proofs.C19Cmd.list_neighbours_do_not_matter φ c [] { fs := fs } hls
  rw [h1]
  refine ⟨rfl, rfl, ?_, ?_⟩
  · simp only [List.append_nil, List.reverse_reverse]
    rw [h2, selectTrashDirs_nil, hscan, listLines_world c.cwd W, List.map_map]; rfl
  · simp only [List.append_nil, List.reverse_reverse]
    rw [h3, selectTrashDirs_nil]

/-! ### (2) trash-restore -/

theorem listdir_plain {fs : FS} (cwd : CPath) {d : TDir} (P : PlainDir fs d) :
    listdirStr fs cwd (pjoin (toStr d.T) (b "info")) = some (infoNames fs d.I) := by
  have hd : fs.isDirAt d.I = true := P.hI d.I List.prefix_rfl
  have hT : C07.Plain fs d.T := fun q hq => P.hI q (hq.trans (T_pfx_I d))
  have hres : FS.resolve fs cwd (pjoin (toStr d.T) (b "info")) true = .ok d.I := by
    rw [pjoin_toStr P.hT0 P.hTn _ (by decide +kernel)]
    refine Proofs.C07Cmd.resolve_leaf_nl fs cwd d.T (b "info") true hT (goodNames_append P.hTn good_info) fun t ht => ?_
    obtain ⟨m, t', hg⟩ := isDirAt_get hd
    have : fs.get d.I = some (.link t) := ht
    rw [hg] at this; cases this
  exact Proofs.C20Cmd.listdir_resolved hres hd

theorem restoreEntriesOf_plain {fs : FS} (cwd : CPath) {d : TDir} (P : PlainDir fs d) :
    restoreEntriesOf fs cwd (toStr d.T) d.v = d.names.filterMap (entryOf fs cwd d) := by
  rw [Proofs.C19.restore_scan_itemwise fs cwd _ _ _ (listdir_plain cwd P),
    filterMap_filter_none _ isTrashinfoName (fun x hx => by unfold restoreItem; rw [if_neg (by rw [hx]; decide)]),
    ← P.listed]
  exact filterMap_congr_mem fun n hn => restoreItem_meaning ((plainDir_nodup P).2 n hn)

/-- one half of `hscanR` is automatic: with the same volume list (`C20.bases_agree`), every scanned directory
    of a plain world is among trash-restore's directories with a listable `info/` -/
theorem scan_dirs_are_restore_dirs {fs : FS} (c : ReadCfg) {ds : List TDir} (hvol : listVolumes c = c.mountPoints)
    (hscan : foundDirs (scanTrashDirs fs c) = ds.map TDir.pair) (W : PlainWorld fs ds) :
    ∀ d ∈ ds, d.pair ∈ restoreDirsWithInfo fs c := by
  intro d hd
  unfold restoreDirsWithInfo
  refine List.mem_filter.2 ⟨Proofs.C20.bases_agree fs c hvol _ _ (by rw [hscan]; exact List.mem_map.2 ⟨d, hd, rfl⟩), ?_⟩
  show (listdirStr fs c.cwd (pjoin (toStr d.T) (b "info"))).isSome = true
  rw [listdir_plain c.cwd (W.plain d hd)]; rfl

theorem restoreEntries_world {fs : FS} (c : ReadCfg) (o : RestoreOpts) {ds : List TDir}
    (hscanR : restoreDirsWithInfo fs c = ds.map TDir.pair) (W : PlainWorld fs ds) (ho : o.trashDir = none) :
    restoreEntries fs c o = entries fs c.cwd ds := by
  unfold restoreEntries entries
  rw [ho, flatMap_filter_nil _ (fun tv => (listdirStr fs c.cwd (pjoin tv.1 (b "info"))).isSome) (fun tv h => by
    show restoreEntriesOf fs c.cwd tv.1 tv.2 = []
    unfold restoreEntriesOf
    cases hl : listdirStr fs c.cwd (pjoin tv.1 (b "info")) with
    | none => simp only [hl]
    | some ns => rw [hl] at h; exact Bool.noConfusion h)]
  show (restoreDirsWithInfo fs c).flatMap _ = _
  rw [hscanR, flatMap_map_left]
  exact flatMap_congr_mem fun d hd => restoreEntriesOf_plain c.cwd (W.plain d hd)

theorem scope_root (c : ReadCfg) (o : RestoreOpts) (hp : o.path = [slash]) : C13Cmd.scopeOf c o = [slash] := by
  unfold C13Cmd.scopeOf restoreScopeDir
  rw [hp]
  have : pjoin (toStr c.cwd) [slash] = [slash] := by unfold pjoin; rw [if_pos (by decide)]
  rw [this]; decide +kernel

theorem filter_true {α : Type} (p : α → Bool) : ∀ l : List α, (∀ x ∈ l, p x = true) → l.filter p = l
  | [], _ => rfl
  | x :: l, h => by
    rw [List.filter_cons_of_pos (h x List.mem_cons_self), filter_true p l fun y hy => h y (List.mem_cons_of_mem _ hy)]

theorem offered_world {fs : FS} (c : ReadCfg) (o : RestoreOpts) {ds : List TDir}
    (hscanR : restoreDirsWithInfo fs c = ds.map TDir.pair) (W : PlainWorld fs ds) (ho : o.trashDir = none)
    (hp : o.path = [slash]) : C13Cmd.offered fs c o = sortEntries o.sort (entries fs c.cwd ds) := by
  unfold C13Cmd.offered
  rw [restoreEntries_world c o hscanR W ho, scope_root c o hp]
  rw [filter_true _ _ fun e _ => by unfold inScope; simp only [decide_true, Bool.true_or]]

theorem entries_pairs (fs : FS) (cwd : CPath) (ds : List TDir) : (entries fs cwd ds).map pairOf = meanings fs cwd ds := by
  unfold entries meanings
  rw [flatMap_map']
  refine flatMap_congr_mem fun d _ => ?_
  unfold entryOf
  exact map_filterMap_retract (meaningOf fs cwd d)
    (fun n m => ({ loc := m.1, date := m.2, info := infoStr (toStr d.T) n } : Entry)) pairOf (fun _ _ => rfl) d.names

theorem mem_entries {fs : FS} {cwd : CPath} {ds : List TDir} {e : Entry} (h : e ∈ entries fs cwd ds) :
    ∃ d ∈ ds, ∃ n ∈ d.names, meaningOf fs cwd d n = some (e.loc, e.date) ∧ e.info = infoStr (toStr d.T) n := by
  unfold entries at h
  obtain ⟨d, hd, he⟩ := List.mem_flatMap.1 h
  obtain ⟨n, hn, hen⟩ := List.mem_filterMap.1 he
  unfold entryOf at hen
  cases hm : meaningOf fs cwd d n with
  | none => rw [hm] at hen; cases hen
  | some m =>
    rw [hm] at hen
    simp only [Option.map_some, Option.some.injEq] at hen
    subst hen
    exact ⟨d, hd, n, hn, hm, rfl⟩

theorem restore_offers_the_listed (fs : FS) (c : ReadCfg) (o : RestoreOpts) (ds : List TDir)
    (hscanR : restoreDirsWithInfo fs c = ds.map TDir.pair) (W : PlainWorld fs ds) (ho : o.trashDir = none)
    (hp : o.path = [slash]) :
    (C13Cmd.offered fs c o).Perm (entries fs c.cwd ds) ∧
    ((C13Cmd.offered fs c o).map pairOf).Perm (meanings fs c.cwd ds) ∧
    C13Cmd.offered fs c o = sortEntries o.sort (entries fs c.cwd ds) ∧
    (∀ e ∈ C13Cmd.offered fs c o, ∃ d ∈ ds, ∃ n ∈ d.names,
      meaningOf fs c.cwd d n = some (e.loc, e.date) ∧ e.info = infoStr (toStr d.T) n) := by
  have h := offered_world c o hscanR W ho hp
  have hperm : (C13Cmd.offered fs c o).Perm (entries fs c.cwd ds) := by rw [h]; exact Proofs.C13.offered_perm _ _
  refine ⟨hperm, ?_, h, fun e he => mem_entries (hperm.subset he)⟩
  rw [← entries_pairs]
  exact hperm.map pairOf

/-- … and restoring: the destination of every selected entry is the kernel's resolution of the LISTED path
    string, and the payload ends up there (`C13Cmd.restore_selects_exactly`) -/
theorem restored_to_the_listed_path (fs : FS) (c : ReadCfg) (o : RestoreOpts) (ds : List TDir)
    (hscanR : restoreDirsWithInfo fs c = ds.map TDir.pair) (W : PlainWorld fs ds) (ho : o.trashDir = none)
    (hp : o.path = [slash]) (reply : Bytes) (I F : CPath) (idxs : List Nat) (sel : List C13Cmd.Item)
    (hreply : parseIndexes reply (C13Cmd.offered fs c o).length = .ok idxs)
    (hsel : C13Cmd.selected (C13Cmd.offered fs c o) idxs = sel.map (·.e))
    (S : C13Cmd.RSetting fs c.cwd I F sel) :
    (run noFaults (runRestore c o (some reply)) { fs := fs }).1.exit = 0 ∧
    (run noFaults (runRestore c o (some reply)) { fs := fs }).1.crash = none ∧
    ∀ it ∈ sel,
      (∃ d ∈ ds, ∃ n ∈ d.names, meaningOf fs c.cwd d n = some (it.e.loc, it.e.date) ∧ it.e.info = infoStr (toStr d.T) n) ∧
      FS.resolve fs c.cwd it.e.loc = .ok it.dst ∧
      (∀ rel, (run noFaults (runRestore c o (some reply)) { fs := fs }).2.fs.get (it.dst ++ rel) =
        fs.get (F ++ [stemOf it.name] ++ rel)) := by
  obtain ⟨h1, h2, h3⟩ := Proofs.C13Cmd.restore_selects_exactly fs c o reply I F idxs sel hreply hsel S
  refine ⟨h1, h2, fun it hit => ⟨?_, ((S.resolves fs (Proofs.C13Cmd.reach_refl I F sel fs)) it hit).1, h3.back it hit⟩⟩
  have hmem : it.e ∈ C13Cmd.offered fs c o := by
    have : it.e ∈ sel.map (·.e) := List.mem_map.2 ⟨it, hit, rfl⟩
    rw [← hsel] at this
    unfold C13Cmd.selected at this
    obtain ⟨i, _, hi⟩ := List.mem_filterMap.1 this
    exact List.mem_of_getElem? hi
  exact (restore_offers_the_listed fs c o ds hscanR W ho hp).2.2.2 it.e hmem

/-! ### (3) trash-rm -/

theorem rm_matches_the_listed (fs : FS) (c : ReadCfg) (pattern : Bytes) (more : List Bytes) (ds : List TDir)
    (hscan : foundDirs (scanTrashDirs fs c) = ds.map TDir.pair) (W : PlainWorld fs ds) (hp : pattern ≠ []) :
    (run noFaults (runRm c (pattern :: more)) { fs := fs }).1.exit = 0 ∧
    (run noFaults (runRm c (pattern :: more)) { fs := fs }).1.crash = none ∧
    (∀ d ∈ ds, ∀ n ∈ d.names,
      (∀ m, meaningOf fs c.cwd d n = some m →
        (Gone (run noFaults (runRm c (pattern :: more)) { fs := fs }).2.fs d n ↔ rmMatches pattern m.1 = some true) ∧
        (rmMatches pattern m.1 ≠ some true → Intact fs (run noFaults (runRm c (pattern :: more)) { fs := fs }).2.fs d n)) ∧
      (meaningOf fs c.cwd d n = none → Intact fs (run noFaults (runRm c (pattern :: more)) { fs := fs }).2.fs d n)) := by
  obtain ⟨h1, h2, h3, h4, _⟩ := Proofs.C12Cmd.rm_command_selects_exactly fs c pattern more ds hscan W hp
  refine ⟨h1, h2, fun d hd n hn => ⟨fun m hm => ?_, fun hm => ?_⟩⟩
  · exact h3 d hd n hn m.1 (entryAt_iff_meaning.2 ⟨m.2, hm⟩)
  · exact h4 d hd n hn (no_entry_iff_no_meaning.2 hm)

/-! ### (4) trash-empty DAYS -/

theorem empty_compares_the_listed_date (fs : FS) (c : ReadCfg) (o : EmptyOpts) (reply : Option Bytes) (ds : List TDir)
    (days : Nat) (hscan : foundDirs (scanTrashDirs fs c) = ds.map TDir.pair) (W : EmptyWorld fs ds)
    (hu : o.userDirs = []) (hdays : o.days = some days) (hdry : o.dryRun = false)
    (hgo : o.interactive = false ∨ ∃ r, reply = some r ∧ emptyReplyYes r = true)
    (hno : ∀ dt, olderThan days o.now o.nowUs dt ≠ .overflow) :
    (run noFaults (runEmpty c o reply) { fs := fs }).1.exit = 0 ∧
    (run noFaults (runEmpty c o reply) { fs := fs }).1.crash = none ∧
    (∀ d ∈ ds, ∀ n ∈ d.names, ∀ m, meaningOf fs c.cwd d n = some m →
      (Gone (run noFaults (runEmpty c o reply) { fs := fs }).2.fs d n ↔ ListedOld days o m) ∧
      (¬ ListedOld days o m → Intact fs (run noFaults (runEmpty c o reply) { fs := fs }).2.fs d n)) := by
  have hs : foundDirs (selectTrashDirs fs c o.userDirs) = ds.map TDir.pair := by rw [hu, selectTrashDirs_nil, hscan]
  obtain ⟨h1, h2, h3, _⟩ := Proofs.C10Cmd.empty_days_command_selects_exactly fs c o reply ds days hs W hdays hdry hgo hno
  refine ⟨h1, h2, fun d hd n hn m hm => ?_⟩
  have hb := datedOld_iff_listedOld (days := days) (o := o) hm
  exact ⟨(h3 d hd n hn).1.trans hb, fun hnl => (h3 d hd n hn).2 fun hD => hnl (hb.1 hD)⟩

end TrashVerif.Proofs.C20Whole
