/-
  Proofs/C20.lean — proofs of the statements of Props/C20.lean
  (all commands read a trash directory the same way).
-/
import TrashVerif.Props.ReadDefs
import TrashVerif.Proofs.C08
import TrashVerif.Proofs.C10
namespace TrashVerif.Proofs.C20
open TrashVerif Prog FS ReadDefs Bytes
open TrashVerif.Proofs.C17 (run_bind run_read_bind run_pure)
open TrashVerif.Proofs.C10 (splitOn_append_sep splitOn_not_mem firstSome_append_none)

/-! ### the two parsers, as every reader uses them -/

theorem maybeDateStr_eq (text : Bytes) :
    maybeDateStr text = (match parseDeletionDate text with | some d => d.str | none => unknownDate) := by
  unfold maybeDateStr parseDeletionDate
  cases parseDate text <;> rfl

theorem path_of_meaning {v text p : Bytes} (hp : (parsePath text).map (pjoin v) = some p) :
    ∃ rel, parsePath text = some rel ∧ p = pjoin v rel := by
  cases h : parsePath text with
  | none => rw [h] at hp; cases hp
  | some rel =>
    rw [h] at hp
    simp only [Option.map_some, Option.some.injEq] at hp
    exact ⟨rel, rfl, hp.symm⟩

theorem list_reads (fs : FS) (cwd : CPath) (v i text : Bytes) (h : contentsOf fs cwd i = some text) (p : Bytes)
    (hp : (parsePath text).map (pjoin v) = some p) :
    listOne fs cwd v i = .stdout ((match parseDeletionDate text with | some d => d.str | none => unknownDate) ++ [32] ++ p) := by
  obtain ⟨rel, hr, rfl⟩ := path_of_meaning hp
  unfold listOne
  simp only [h, hr, maybeDateStr_eq]

theorem restore_reads (fs : FS) (cwd : CPath) (infoDir v n text : Bytes) (ht : isTrashinfoName n = true)
    (h : contentsOf fs cwd (pjoin infoDir n) = some text) (p : Bytes) (hp : (parsePath text).map (pjoin v) = some p) :
    restoreItem fs cwd infoDir v n = some { loc := p, date := parseDeletionDate text, info := pjoin infoDir n } := by
  obtain ⟨rel, hr, rfl⟩ := path_of_meaning hp
  unfold restoreItem
  simp only [ht, if_true, h, hr]

theorem rm_reads (φ : Oracle) (cwd : CPath) (pattern v i text : Bytes) (rest : List Bytes) (s : RunState)
    (h : contentsOf s.fs cwd i = some text) (p : Bytes) (hp : (parsePath text).map (pjoin v) = some p)
    (hm : rmMatches pattern p = some false) :
    run φ (rmInfos cwd pattern v (i :: rest)) s = run φ (rmInfos cwd pattern v rest) s := by
  obtain ⟨rel, hr, rfl⟩ := path_of_meaning hp
  rw [rmInfos, run_read_bind]
  simp only [h, hr, hm]

theorem empty_reads (fs : FS) (cwd : CPath) (o : EmptyOpts) (days : Nat) (i text : Bytes) (hd : o.days = some days)
    (h : contentsOf fs cwd i = some text) :
    okToDelete fs cwd o i =
      match parseDeletionDate text with
      | none => .keep
      | some d => (match olderThan days o.now o.nowUs d with | .overflow => .crash .overflow | .yes => .delete | .no => .keep) := by
  unfold okToDelete
  simp only [hd, h]
  cases parseDeletionDate text with
  | none => rfl
  | some d => cases olderThan days o.now o.nowUs d <;> rfl

/-! ### unknown lines are ignored -/

theorem lines_join (pre : List Bytes) (x rest : Bytes)
    (hpre : ∀ l ∈ pre, (10 : UInt8) ∉ l) (hx : (10 : UInt8) ∉ x) :
    lines (joinWith [10] (pre ++ [x]) ++ [10] ++ rest) = pre ++ x :: lines rest := by
  unfold lines
  induction pre with
  | nil =>
    have : joinWith [10] ([] ++ [x]) ++ [10] ++ rest = x ++ 10 :: rest := by simp [joinWith]
    rw [this, splitOn_append_sep, splitOn_not_mem 10 x hx]
    rfl
  | cons l pre ih =>
    have hl : (10 : UInt8) ∉ l := hpre l List.mem_cons_self
    have hj : joinWith [10] (l :: pre ++ [x]) = l ++ [10] ++ joinWith [10] (pre ++ [x]) := by
      cases pre <;> rfl
    have : joinWith [10] (l :: pre ++ [x]) ++ [10] ++ rest =
        l ++ 10 :: (joinWith [10] (pre ++ [x]) ++ [10] ++ rest) := by
      rw [hj]; simp
    rw [this, splitOn_append_sep, splitOn_not_mem 10 l hl,
      ih fun z hz => hpre z (List.mem_cons_of_mem _ hz)]
    rfl

theorem startsWith_append (p s : Bytes) : startsWith (p ++ s) p = true := by
  simp [startsWith]

theorem unknown_lines_ignored (pre : List Bytes) (path rest : Bytes)
    (hpre : ∀ l ∈ pre, Bytes.startsWith l pathKey = false ∧ (10 : UInt8) ∉ l) (hnl : (10 : UInt8) ∉ path) :
    parsePath (Bytes.joinWith [10] (pre ++ [pathKey ++ path]) ++ [10] ++ rest) = some (unquote path) := by
  have hk : (10 : UInt8) ∉ pathKey ++ path := by
    intro hm
    rcases List.mem_append.1 hm with hm | hm
    · revert hm; decide +kernel
    · exact hnl hm
  unfold parsePath parsePathRaw
  rw [lines_join pre _ rest (fun l hl => (hpre l hl).2) hk, firstSome_append_none]
  · simp only [firstSome, startsWith_append, if_true, List.drop_left, Option.map_some]
  · intro l hl
    simp only [(hpre l hl).1, Bool.false_eq_true, if_false]

/-! ### decimal numbers do not start with a slash -/

theorem toList_loop (bs : ByteArray) : ∀ (k i : Nat) (r : List UInt8), bs.size - i = k →
    ByteArray.toList.loop bs i r = r.reverse ++ bs.data.toList.drop i := by
  intro k
  induction k with
  | zero =>
    intro i r hk
    rw [ByteArray.toList.loop.eq_def]
    have hi : ¬ i < bs.size := by omega
    rw [if_neg hi]
    have : bs.data.toList.length ≤ i := by
      have : bs.size = bs.data.toList.length := by cases bs; simp [ByteArray.size]
      omega
    rw [List.drop_eq_nil_of_le this]
    simp
  | succ k ih =>
    intro i r hk
    rw [ByteArray.toList.loop.eq_def]
    have hi : i < bs.size := by omega
    rw [if_pos hi, ih (i + 1) _ (by omega)]
    have hsz : bs.size = bs.data.toList.length := by cases bs; simp [ByteArray.size]
    have hi' : i < bs.data.toList.length := by omega
    have hget : bs.get! i = bs.data.toList[i] := by
      cases bs with
      | mk d =>
        simp only [ByteArray.get!]
        have hd : i < d.size := by simpa using hi'
        simp [getElem!_pos d i hd]
    rw [List.drop_eq_getElem_cons hi', hget]
    simp

theorem toList_eq (bs : ByteArray) : bs.toList = bs.data.toList := by
  unfold ByteArray.toList
  rw [toList_loop bs (bs.size - 0) 0 [] rfl]
  simp

theorem ofNat_eq (n : Nat) : Bytes.ofNat n = (Nat.toDigits 10 n).flatMap String.utf8EncodeChar := by
  show (Nat.repr n).toByteArray.toList = _
  rw [Nat.repr_eq_ofList_toDigits, String.toByteArray_ofList, toList_eq]
  exact List.toList_data_toByteArray

theorem digit_byte : ∀ c : Char, c.isDigit = true → String.utf8EncodeChar c = [c.val.toUInt8] ∧ c.val.toUInt8 ≠ slash := by
  intro c hc
  have h : 48 ≤ c.val.toNat ∧ c.val.toNat ≤ 57 := by
    simp only [Char.isDigit, Bool.and_eq_true, decide_eq_true_eq, ge_iff_le, UInt32.le_iff_toNat_le] at hc
    exact hc
  have hs : c.utf8Size = 1 := by
    unfold Char.utf8Size
    have : c.val ≤ UInt32.ofNatLT 127 (by decide) := by
      rw [UInt32.le_iff_toNat_le]
      show c.val.toNat ≤ 127
      omega
    simp only [this, if_true]
  refine ⟨String.utf8EncodeChar_eq_singleton hs, ?_⟩
  intro he
  have := congrArg UInt8.toNat he
  simp only [UInt32.toNat_toUInt8] at this
  have h47 : (slash : UInt8).toNat = 47 := rfl
  omega

/-- `str(uid)` does not start with '/' -/
theorem ofNat_head (n : Nat) : startsWith (Bytes.ofNat n) [slash] = false := by
  rw [ofNat_eq]
  cases hd : Nat.toDigits 10 n with
  | nil => exact absurd hd Nat.toDigits_ne_nil
  | cons c cs =>
    have hc : c.isDigit = true :=
      Nat.isDigit_of_mem_toDigits (b := 10) (n := n) (by decide) (by decide) (by rw [hd]; exact List.mem_cons_self)
    obtain ⟨h1, h2⟩ := digit_byte c hc
    simp only [List.flatMap_cons, h1, startsWith, List.singleton_append, List.isPrefixOf_cons_cons,
      List.isPrefixOf_nil_left, Bool.and_true, beq_eq_false_iff_ne, ne_eq]
    exact fun e => h2 e.symm

/-! ### the base directory -/

theorem trash_not_slash : startsWith (b ".Trash") [slash] = false := by decide +kernel
theorem trash_not_ends : endsWith (b ".Trash") [slash] = false := by decide +kernel

theorem endsWith_append_trash (a : Bytes) : endsWith (a ++ b ".Trash") [slash] = false := by
  have e : b ".Trash" = [46, 84, 114, 97, 115] ++ [104] := by decide +kernel
  rw [e, ← List.append_assoc]
  simp only [endsWith, List.isSuffixOf, List.reverse_append, List.reverse_cons, List.reverse_nil,
    List.nil_append, List.singleton_append, List.isPrefixOf_cons_cons, List.isPrefixOf_nil_left, Bool.and_true]
  decide

/-- `join(join(v, ".Trash"), u) = join(v, ".Trash/" + u)` when `u` does not start with '/' -/
theorem pjoin_trash (v u : Bytes) (hu : startsWith u [slash] = false) :
    pjoin (pjoin v (b ".Trash")) u = pjoin v (b ".Trash/" ++ u) := by
  have e : b ".Trash/" = b ".Trash" ++ [slash] := by decide +kernel
  have h2 : startsWith (b ".Trash/" ++ u) [slash] = false := by
    have : b ".Trash/" ++ u = 46 :: ([84, 114, 97, 115, 104, 47] ++ u) := by
      have : b ".Trash/" = [46, 84, 114, 97, 115, 104, 47] := by decide +kernel
      rw [this]; rfl
    rw [this]
    rfl
  have hne : ∀ a : Bytes, a ++ b ".Trash" ≠ [] := by
    intro a h
    have := congrArg List.length h
    have hl : (b ".Trash").length = 6 := by decide +kernel
    simp [hl] at this
  unfold pjoin
  simp only [hu, h2, trash_not_slash, Bool.false_eq_true, if_false]
  by_cases hv : v = [] ∨ endsWith v [slash] = true
  · simp only [hv, if_true, hne, endsWith_append_trash, false_or, Bool.false_eq_true, if_false, e]
    simp
  · simp only [hv, if_false]
    have hne' := hne (v ++ [slash])
    have hend := endsWith_append_trash (v ++ [slash])
    simp only [hne', hend, false_or, Bool.false_eq_true, if_false, e]
    simp

theorem mem_foundDirs {p v : Bytes} : ∀ {evs : List ScanEvent}, (p, v) ∈ foundDirs evs → ScanEvent.found p v ∈ evs := by
  intro evs
  induction evs with
  | nil => intro h; cases h
  | cons ev rest ih =>
    intro h
    cases ev with
    | found q w =>
      simp only [foundDirs, List.mem_cons, Prod.mk.injEq] at h
      rcases h with ⟨rfl, rfl⟩ | h
      · exact List.mem_cons_self
      · exact List.mem_cons_of_mem _ (ih h)
    | skippedNotSticky q => exact List.mem_cons_of_mem _ (ih h)
    | skippedSymlink q => exact List.mem_cons_of_mem _ (ih h)

theorem bases_agree (fs : FS) (c : ReadCfg) (h : listVolumes c = c.mountPoints) (p v : Bytes)
    (hf : (p, v) ∈ foundDirs (scanTrashDirs fs c)) : (p, v) ∈ restoreTrashDirs fs c none := by
  have hs := TrashVerif.Proofs.C08.scan_found_only_valid fs c p v (mem_foundDirs hf)
  unfold restoreTrashDirs
  simp only [ne_eq, not_true_eq_false, if_false, List.mem_append, List.mem_map, List.mem_flatMap]
  rcases hs with ⟨hp, rfl⟩ | ⟨hv, rfl, _⟩ | ⟨hv, rfl, hval⟩
  · exact .inl ⟨p, hp, rfl⟩
  · rw [h] at hv
    exact .inr ⟨v, hv, .inr (List.mem_singleton.2 rfl)⟩
  · rw [h] at hv
    rw [pjoin_trash v _ (ofNat_head c.uid)] at hval ⊢
    refine .inr ⟨v, hv, .inl ?_⟩
    rw [if_pos hval]
    exact List.mem_singleton.2 rfl

theorem custom_base_agrees (fs : FS) (c : ReadCfg) (d : Bytes) (hd : d ≠ []) :
    foundDirs (selectTrashDirs fs c [d]) = restoreTrashDirs fs c (some d) := by
  unfold selectTrashDirs restoreTrashDirs
  simp [hd, foundDirs]

end TrashVerif.Proofs.C20
