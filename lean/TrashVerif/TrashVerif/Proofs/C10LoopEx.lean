/-
  Proofs/C10LoopEx.lean — concrete worlds for Props/C10Loop.lean: non-vacuity of the setting of the
  loop-level selection theorems (a trash directory with an old, a recent and an undated entry),
  the loops evaluated through the kernel-evaluable twins of Proofs/C10LoopEval.lean, and
  kernel-checked counterexamples to the statements without `notLink` / `payTree`.
-/
import TrashVerif.Proofs.C10Loop
import TrashVerif.Proofs.C10LoopEval
namespace TrashVerif.Proofs.C10LoopEx
open TrashVerif Prog FS PutCore C09Hist C10Loop
open TrashVerif.Proofs.C16Eval TrashVerif.Proofs.C02CmdEval TrashVerif.Proofs.C10LoopEval
open TrashVerif.Proofs.C10Loop

/-! ### tools -/

deriving instance DecidableEq for Except

/-- a decidable check of `Plain` -/
def plainCheck (fs : FS) (p : CPath) : Bool := (List.range (p.length + 1)).all fun k => fs.isDirAt (p.take k)

theorem plain_of_check {fs : FS} {p : CPath} (h : plainCheck fs p = true) : Proofs.C07.Plain fs p := by
  intro q hq
  unfold plainCheck at h
  rw [List.all_eq_true] at h
  have e := List.prefix_iff_eq_take.1 hq
  have := h q.length (List.mem_range.2 (Nat.lt_succ_of_le hq.length_le))
  rw [← e] at this
  exact this

/-- the first half of `treeCheck`: a tree (mount points not looked at) -/
def closedCheck (fs : FS) (P : CPath) : Bool :=
  fs.dom.all fun p => !((fs.get p).isSome && FS.under P p.dropLast && p != []) || fs.isDirAt p.dropLast

/-- every hypothesis of `plain_setting` but `DomWf`, as one decidable check; `links`: symbolic links
    are tolerated in `info/`; `mounts`: mount points are tolerated inside payloads -/
def settingCheck (fs : FS) (T : CPath) (names : List Bytes) (links mounts : Bool) : Bool :=
  decide (T ≠ []) && decide (∀ n ∈ T, n ≠ [] ∧ slash ∉ n ∧ n ≠ [dot] ∧ n ≠ dotdot ∧ n.length ≤ 255) &&
  plainCheck fs (T ++ [b "info"]) && plainCheck fs (T ++ [b "files"]) && decide names.Nodup &&
  names.all (fun n => isTrashinfoName n && decide (slash ∉ n) && decide (n.length ≤ 255) &&
    (links || !fs.isLinkAt (T ++ [b "info"] ++ [n])) &&
    treeCheck fs (T ++ [b "info"] ++ [n]) &&
    (if mounts then closedCheck fs (T ++ [b "files"] ++ [stemOf n]) else treeCheck fs (T ++ [b "files"] ++ [stemOf n])))

theorem closed_of_check {fs : FS} {P : CPath} (hw : DomWf fs) (h : closedCheck fs P = true) :
    ∀ q x, FS.under P q = true → (fs.get (q ++ [x])).isSome = true → fs.isDirAt q = true := by
  unfold closedCheck at h
  rw [List.all_eq_true] at h
  intro q x hq hs
  have := h (q ++ [x]) (hw _ hs)
  rw [PutLemmas.dropLast_concat, hs, hq] at this
  simpa using this

theorem hyps_of_check {fs : FS} {T : CPath} {names : List Bytes} {links mounts : Bool} (hw : DomWf fs)
    (h : settingCheck fs T names links mounts = true) :
    PlainHyps fs T names ∧
    (links = false → ∀ n ∈ names, fs.isLinkAt (T ++ [b "info"] ++ [n]) = false) ∧
    (mounts = false → ∀ n ∈ names, TreeOk fs (T ++ [b "files"] ++ [stemOf n])) ∧
    (∀ n ∈ names, ∀ q x, FS.under (T ++ [b "files"] ++ [stemOf n]) q = true → (fs.get (q ++ [x])).isSome = true →
      fs.isDirAt q = true) := by
  unfold settingCheck at h
  simp only [Bool.and_eq_true, decide_eq_true_eq, List.all_eq_true, Bool.or_eq_true, Bool.not_eq_true'] at h
  obtain ⟨⟨⟨⟨⟨h0, hg⟩, hI⟩, hF⟩, hnd⟩, hall⟩ := h
  refine ⟨⟨h0, hg, plain_of_check hI, plain_of_check hF, hw, hnd, fun n hn => (hall n hn).1.1.1.1.1,
    fun n hn => ⟨(hall n hn).1.1.1.1.2, (hall n hn).1.1.1.2⟩, fun n hn => treeOk_of_check hw (hall n hn).1.2⟩,
    fun hl n hn => ?_, fun hm n hn => ?_, fun n hn => ?_⟩
  · rcases (hall n hn).1.1.2 with e | e
    · rw [hl] at e; cases e
    · exact e
  · have := (hall n hn).2
    rw [hm] at this
    exact treeOk_of_check hw this
  · have := (hall n hn).2
    cases mounts with
    | true => exact closed_of_check hw this
    | false => exact (treeOk_of_check hw this).closed

theorem setting_of_check {fs : FS} (cwd : CPath) {T : CPath} {names : List Bytes} (hw : DomWf fs)
    (h : settingCheck fs T names false false = true) :
    Setting fs cwd (toStr T) (T ++ [b "info"]) (T ++ [b "files"]) names := by
  obtain ⟨⟨h0, hg, hI, hF, _, hnd, hi, hgd, hit⟩, hl, hp, _⟩ := hyps_of_check hw h
  exact plain_setting fs cwd T names h0 hg hI hF hw hnd hi hgd (hl rfl) hit (hp rfl)

/-! ### the demo world: `/t` with an old, a recent and an undated entry -/

namespace Demo

def dirN : Node := .dir 0o755 7
/-- `/t`, `/t/info`, `/t/files` -/
def T : CPath := [b "t"]
def I : CPath := T ++ [b "info"]
def F : CPath := T ++ [b "files"]
def oldN : Bytes := b "old.trashinfo"
def newN : Bytes := b "new.trashinfo"
def undN : Bytes := b "und.trashinfo"

/-- `old` (trashed 2020-01-01, payload a directory holding a file), `new` (trashed 2024-03-01 12:00),
    `und` (no DeletionDate line); an orphan payload `files/orphan`; a file `/home/keep` outside.
    `/` is the only mount point. -/
def W : FS := FS.ofList [
  ([], dirN), (T, dirN), (I, dirN), (F, dirN),
  (I ++ [oldN], .file (b "[Trash Info]\nPath=/home/a/old\nDeletionDate=2020-01-01T00:00:00\n") 0o600 3),
  (I ++ [newN], .file (b "[Trash Info]\nPath=/home/a/new\nDeletionDate=2024-03-01T12:00:00\n") 0o600 3),
  (I ++ [undN], .file (b "[Trash Info]\nPath=/home/a/und\n") 0o600 3),
  (F ++ [b "old"], dirN), (F ++ [b "old", b "x"], .file [120] 0o644 3),
  (F ++ [b "new"], .file [121] 0o644 3), (F ++ [b "und"], .file [122] 0o644 3),
  (F ++ [b "orphan"], .file [123] 0o644 3),
  ([b "home"], dirN), ([b "home", b "keep"], .file [124] 0o644 3)] [[]]

/-- the listing of `info/`, sorted -/
def names : List Bytes := [newN, oldN, undN]

/-- `trash-empty 1` on 2024-03-02 00:00:00: the limit is 2024-03-01 00:00:00 -/
def o1 : EmptyOpts := { days := some 1, now := ⟨2024, 3, 2, 0, 0, 0⟩ }

theorem tStr : toStr T = b "/t" := by decide +kernel

theorem W_wf : DomWf W := Proofs.C09Hist.domwf_ofList _ _

theorem W_setting (cwd : CPath) : Setting W cwd (b "/t") I F names := by
  rw [← tStr]
  exact setting_of_check cwd W_wf (by decide +kernel)

/-- the scan of `/t` yields exactly the strings the loops are given -/
theorem W_infos : infosOf W [] (b "/t") = .ok (infoStrs (b "/t") names) := by
  rw [infosOf_eq]; decide +kernel

/-- DAYS = 1 selects exactly the old entry -/
theorem W_selected : emptySelected W [] o1 (b "/t") names = [oldN] := by
  unfold emptySelected; simp only [okToDelete_eq]; decide +kernel

theorem W_decisions :
    okToDelete W [] o1 (infoStr (b "/t") oldN) = .delete ∧
    okToDelete W [] o1 (infoStr (b "/t") newN) = .keep ∧
    okToDelete W [] o1 (infoStr (b "/t") undN) = .keep := by
  simp only [okToDelete_eq]; decide +kernel

end Demo

namespace Demo

/-- the run of the loop, evaluated: no crash; four calls (`unlink files/old` fails with EISDIR,
    `unlink files/old/x`, `rmdir files/old`, `unlink info/old.trashinfo`); the old entry is gone
    whole, the two others, the orphan and the file outside are as before -/
theorem W_run :
    (run noFaults (emptyInfos [] o1 (infoStrs (b "/t") names)) { fs := W }).1 = none ∧
    (run noFaults (emptyInfos [] o1 (infoStrs (b "/t") names)) { fs := W }).2.trace.length = 4 ∧
    (run noFaults (emptyInfos [] o1 (infoStrs (b "/t") names)) { fs := W }).2.fs.toList =
      [([], dirN), (T, dirN), (I, .dir 0o755 0), (F, .dir 0o755 0),
       (I ++ [newN], .file (b "[Trash Info]\nPath=/home/a/new\nDeletionDate=2024-03-01T12:00:00\n") 0o600 3),
       (I ++ [undN], .file (b "[Trash Info]\nPath=/home/a/und\n") 0o600 3),
       (F ++ [b "new"], .file [121] 0o644 3), (F ++ [b "und"], .file [122] 0o644 3),
       (F ++ [b "orphan"], .file [123] 0o644 3),
       ([b "home"], dirN), ([b "home", b "keep"], .file [124] 0o644 3)] := by
  rw [emptyInfos_eq]; decide +kernel

theorem W_nocrash : ∀ n ∈ names, ∀ c, okToDelete W [] o1 (infoStr (b "/t") n) ≠ .crash c := by
  intro n hn c
  simp only [names, List.mem_cons, List.not_mem_nil, or_false] at hn
  rcases hn with rfl | rfl | rfl
  · rw [W_decisions.2.1]; exact fun h => nomatch h
  · rw [W_decisions.1]; exact fun h => nomatch h
  · rw [W_decisions.2.2]; exact fun h => nomatch h

/-- the selection theorem instantiated on the demo world -/
theorem W_theorem :
    PurgedExactly W (run noFaults (emptyInfos [] o1 (infoStrs (b "/t") names)) { fs := W }).2.fs I F [oldN] := by
  have := (empty_selects_exactly W [] (b "/t") I F names o1 (W_setting []) rfl W_nocrash).2.2.2
  rwa [W_selected] at this

/-! #### trash-rm on the same directory with two more names: a file without `Path=` line and a directory -/

def badN : Bytes := b "bad.trashinfo"
def dirI : Bytes := b "dir.trashinfo"

def W2 : FS := FS.ofList (W.toList ++ [(I ++ [badN], .file (b "junk\n") 0o600 3), (I ++ [dirI], dirN)]) [[]]

def names2 : List Bytes := [badN, dirI, newN, oldN, undN]

theorem W2_setting (cwd : CPath) : Setting W2 cwd (b "/t") I F names2 := by
  rw [← tStr]
  exact setting_of_check cwd (Proofs.C09Hist.domwf_ofList _ _) (by decide +kernel)

theorem W2_infos : infosOf W2 [] (b "/t") = .ok (infoStrs (b "/t") names2) := by
  rw [infosOf_eq]; decide +kernel

/-- `trash-rm 'n*'` (volume `/`) selects exactly `new` … -/
theorem W2_selected : rmSelected W2 [] (b "n*") (b "/") (b "/t") names2 = [newN] := by
  unfold rmSelected rmSelects; simp only [contentsOf_eq]; decide +kernel

/-- … reports the two unparsable names (newest first) and removes `new` whole, nothing else -/
theorem W2_run :
    (run noFaults (rmInfos [] (b "n*") (b "/") (infoStrs (b "/t") names2)) { fs := W2 }).1 = none ∧
    (run noFaults (rmInfos [] (b "n*") (b "/") (infoStrs (b "/t") names2)) { fs := W2 }).2.outs =
      [.stderr "unparsable" (b "/t/info/dir.trashinfo"), .stderr "unparsable" (b "/t/info/bad.trashinfo")] ∧
    (run noFaults (rmInfos [] (b "n*") (b "/") (infoStrs (b "/t") names2)) { fs := W2 }).2.fs.get (I ++ [newN]) = none ∧
    (run noFaults (rmInfos [] (b "n*") (b "/") (infoStrs (b "/t") names2)) { fs := W2 }).2.fs.get (F ++ [b "new"]) = none ∧
    (run noFaults (rmInfos [] (b "n*") (b "/") (infoStrs (b "/t") names2)) { fs := W2 }).2.fs.get (I ++ [oldN]) = W2.get (I ++ [oldN]) ∧
    (run noFaults (rmInfos [] (b "n*") (b "/") (infoStrs (b "/t") names2)) { fs := W2 }).2.fs.get (F ++ [b "old", b "x"]) =
      W2.get (F ++ [b "old", b "x"]) ∧
    (run noFaults (rmInfos [] (b "n*") (b "/") (infoStrs (b "/t") names2)) { fs := W2 }).2.fs.get (I ++ [dirI]) = some dirN := by
  rw [rmInfos_eq]; decide +kernel

theorem W2_theorem :
    PurgedExactly W2 (run noFaults (rmInfos [] (b "n*") (b "/") (infoStrs (b "/t") names2)) { fs := W2 }).2.fs I F [newN] := by
  have := (rm_selects_exactly W2 [] (b "/t") I F names2 (b "n*") (b "/") (W2_setting []) (by decide +kernel)).2.2.2.1
  rwa [W2_selected] at this

end Demo

/-! ### the hypotheses matter -/

namespace Cex
open Demo (dirN T I F o1)

def aN : Bytes := b "a.trashinfo"
def bN : Bytes := b "b.trashinfo"
def oldText : Bytes := b "[Trash Info]\nPath=/home/a/aa\nDeletionDate=2020-01-01T00:00:00\n"

/-- `info/b.trashinfo` is a symbolic link to `a.trashinfo`, an old entry -/
def WL : FS := FS.ofList [
  ([], dirN), (T, dirN), (I, dirN), (F, dirN),
  (I ++ [aN], .file oldText 0o600 3), (I ++ [bN], .link aN),
  (F ++ [b "a"], .file [120] 0o644 3), (F ++ [b "b"], .file [121] 0o644 3)] [[]]

/-- `files/a` holds the mount point `files/a/m` -/
def WM : FS := FS.ofList [
  ([], dirN), (T, dirN), (I, dirN), (F, dirN),
  (I ++ [aN], .file oldText 0o600 3),
  (F ++ [b "a"], dirN), (F ++ [b "a", b "m"], dirN)] [[], F ++ [b "a", b "m"]]

end Cex

open Cex Demo in
/-- Without `notLink` the selection theorem of trash-empty is FALSE: in `WL` every other hypothesis
    of `plain_setting` holds (`payTree` included), no decision crashes, `b.trashinfo` is to be deleted
    according to the initial state (its text is the old entry's) — but when its turn comes the link
    dangles (the old entry `a` is gone), it is "unreadable" and kept. -/
theorem symlink_info_counterexample :
    ∃ (fs : FS) (T : CPath) (names : List Bytes) (o : EmptyOpts) (n : Bytes),
      PlainHyps fs T names ∧ (∀ m ∈ names, TreeOk fs (T ++ [b "files"] ++ [stemOf m])) ∧
      o.dryRun = false ∧ (∀ m ∈ names, ∀ c, okToDelete fs [] o (infoStr (toStr T) m) ≠ .crash c) ∧
      n ∈ names ∧ okToDelete fs [] o (infoStr (toStr T) n) = .delete ∧
      (run noFaults (emptyInfos [] o (infoStrs (toStr T) names)) { fs := fs }).2.fs.get (T ++ [b "info"] ++ [n]) ≠ none := by
  obtain ⟨h1, _, h3, _⟩ := hyps_of_check (fs := WL) (T := T) (names := [aN, bN]) (links := true) (mounts := false)
    (Proofs.C09Hist.domwf_ofList _ _) (by decide +kernel)
  refine ⟨WL, T, [aN, bN], o1, bN, h1, h3 rfl, rfl, ?_, by simp, ?_, ?_⟩
  · have ha : okToDelete WL [] o1 (infoStr (toStr T) aN) = .delete := by simp only [okToDelete_eq]; decide +kernel
    have hb : okToDelete WL [] o1 (infoStr (toStr T) bN) = .delete := by simp only [okToDelete_eq]; decide +kernel
    intro m hm c
    simp only [List.mem_cons, List.not_mem_nil, or_false] at hm
    rcases hm with rfl | rfl
    · rw [ha]; exact fun h => nomatch h
    · rw [hb]; exact fun h => nomatch h
  · simp only [okToDelete_eq]; decide +kernel
  · rw [emptyInfos_eq]; decide +kernel

open Cex Demo in
/-- Without the "no mount point" half of `payTree` an entry is NOT removed whole by trash-empty: in
    `WM` every other hypothesis holds (the payload is a well-formed tree), the entry `a` is to be
    deleted; the removal of the payload fails (EBUSY on the mount point, reported as
    "cannot-remove"), the info file is removed all the same — the payload stays behind without it.
    trash-rm on the same world stops with an `OSError` instead and keeps the info file. -/
theorem mount_in_payload_counterexample :
    ∃ (fs : FS) (T : CPath) (names : List Bytes) (o : EmptyOpts) (n : Bytes),
      PlainHyps fs T names ∧ (∀ m ∈ names, fs.isLinkAt (T ++ [b "info"] ++ [m]) = false) ∧
      (∀ m ∈ names, ∀ q x, FS.under (T ++ [b "files"] ++ [stemOf m]) q = true → (fs.get (q ++ [x])).isSome = true →
        fs.isDirAt q = true) ∧
      o.dryRun = false ∧ n ∈ names ∧ okToDelete fs [] o (infoStr (toStr T) n) = .delete ∧
      (run noFaults (emptyInfos [] o (infoStrs (toStr T) names)) { fs := fs }).1 = none ∧
      (run noFaults (emptyInfos [] o (infoStrs (toStr T) names)) { fs := fs }).2.fs.get (T ++ [b "info"] ++ [n]) = none ∧
      (run noFaults (emptyInfos [] o (infoStrs (toStr T) names)) { fs := fs }).2.fs.get (T ++ [b "files"] ++ [stemOf n]) ≠ none ∧
      Out.stderr "cannot-remove" (pathOfBackupCopy (infoStr (toStr T) n)) ∈
        (run noFaults (emptyInfos [] o (infoStrs (toStr T) names)) { fs := fs }).2.outs ∧
      rmSelects fs [] (b "aa") (b "/") (infoStr (toStr T) n) = true ∧
      (run noFaults (rmInfos [] (b "aa") (b "/") (infoStrs (toStr T) names)) { fs := fs }).1 = some .osError ∧
      (run noFaults (rmInfos [] (b "aa") (b "/") (infoStrs (toStr T) names)) { fs := fs }).2.fs.get (T ++ [b "info"] ++ [n]) =
        fs.get (T ++ [b "info"] ++ [n]) := by
  obtain ⟨h1, h2, _, h4⟩ := hyps_of_check (fs := WM) (T := T) (names := [aN]) (links := false) (mounts := true)
    (Proofs.C09Hist.domwf_ofList _ _) (by decide +kernel)
  refine ⟨WM, T, [aN], o1, aN, h1, h2 rfl, h4, rfl, by simp, ?_, ?_, ?_, ?_, ?_, ?_, ?_, ?_⟩
  · simp only [okToDelete_eq]; decide +kernel
  · rw [emptyInfos_eq]; decide +kernel
  · rw [emptyInfos_eq]; decide +kernel
  · rw [emptyInfos_eq]; decide +kernel
  · rw [emptyInfos_eq]; decide +kernel
  · unfold rmSelects; simp only [contentsOf_eq]; decide +kernel
  · rw [rmInfos_eq]; decide +kernel
  · rw [rmInfos_eq]; decide +kernel

end TrashVerif.Proofs.C10LoopEx
