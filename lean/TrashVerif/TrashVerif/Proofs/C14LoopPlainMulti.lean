/-
  Proofs/C14LoopPlainMulti.lean — `DirsSetting` discharged for trash directories given by their canonical
  spellings: the hypotheses of `plain_dir_setting` on the INITIAL state carry over to every state that
  differs only beside the directory.
-/
import TrashVerif.Proofs.C14LoopPlain
import TrashVerif.Proofs.C14LoopMulti
namespace TrashVerif.Proofs.C14LoopPlainMulti
open TrashVerif Prog FS PutCore PutLemmas C09Hist C10Loop C14Loop
open TrashVerif.Proofs.C14LoopPlain TrashVerif.Proofs.C14LoopMulti

theorem plain_dir_of_hyps (fs : FS) (cwd T : CPath) (H : PlainDirHyps fs T) (wf : DomWf fs) :
    DirSetting fs cwd (toStr T) (T ++ [b "info"]) (T ++ [b "files"]) :=
  plain_dir_setting fs cwd T H.ne H.good H.plainI H.plainF wf H.goodL H.notLink H.infoTree H.payTree H.goodP H.orphTree

theorem treeOk_beside {I F : CPath} {fs fs' : FS} (B : Beside I F fs fs') {P : CPath} (hP : I <+: P ∨ F <+: P)
    (h : TreeOk fs P) : TreeOk fs' P := by
  have reg : ∀ q, P <+: q → Region I F q := fun q hq => by
    rcases hP with hP | hP
    · exact Or.inl (hP.trans hq)
    · exact Or.inr (Or.inl (hP.trans hq))
  refine ⟨fun q x hq hs => ?_, fun q hq => ?_⟩
  · have hq' := (under_iff _ _).1 hq
    rw [B.same _ (reg _ (hq'.trans (List.prefix_append _ _)))] at hs
    have := h.closed q x hq hs
    unfold isDirAt at this ⊢
    rw [B.same _ (reg _ hq')]
    exact this
  · rw [isMount_congr B.mounts]
    exact h.noMount q hq

theorem hyps_beside {fs fs' : FS} {T : CPath} (H : PlainDirHyps fs T)
    (B : Beside (T ++ [b "info"]) (T ++ [b "files"]) fs fs') : PlainDirHyps fs' T := by
  have hl := listed_beside B
  have ho := orphanNames_beside B
  refine ⟨H.ne, H.good, fun q hq => ?_, fun q hq => ?_, ?_, ?_, ?_, ?_, fun m hm => ?_, ?_⟩
  · have := H.plainI q hq
    unfold isDirAt at this ⊢
    rw [B.same q (Or.inr (Or.inr (Or.inl hq)))]; exact this
  · have := H.plainF q hq
    unfold isDirAt at this ⊢
    rw [B.same q (Or.inr (Or.inr (Or.inr hq)))]; exact this
  · rw [hl]; exact H.goodL
  · rw [hl]
    intro n hn
    have := H.notLink n hn
    unfold isLinkAt at this ⊢
    rw [B.same _ (region_under_I [n])]; exact this
  · rw [hl]; exact fun n hn => treeOk_beside B (Or.inl (List.prefix_append _ _)) (H.infoTree n hn)
  · rw [hl]; exact fun n hn => treeOk_beside B (Or.inr (List.prefix_append _ _)) (H.payTree n hn)
  · rw [B.same _ (region_under_F [m])] at hm; exact H.goodP m hm
  · rw [ho]
    exact fun m hm => ⟨treeOk_beside B (Or.inr (List.prefix_append _ _)) (H.orphTree m hm).1,
      treeOk_beside B (Or.inl (List.prefix_append _ _)) (H.orphTree m hm).2⟩

/-- several canonical trash directories that lie apart -/
theorem plain_dirs_setting (fs : FS) (cwd : CPath) (l : List (CPath × Bytes)) (wf : DomWf fs)
    (H : ∀ Tv ∈ l, PlainDirHyps fs Tv.1)
    (hap : (l.map fun Tv => plainDir Tv.1 Tv.2).Pairwise TDir.Apart) :
    DirsSetting fs cwd (l.map fun Tv => plainDir Tv.1 Tv.2) := by
  refine ⟨wf, fun d hd fs' B w' => ?_, hap⟩
  obtain ⟨Tv, hTv, rfl⟩ := List.mem_map.1 hd
  exact plain_dir_of_hyps fs' cwd Tv.1 (hyps_beside (H Tv hTv) B) w'

end TrashVerif.Proofs.C14LoopPlainMulti
