/-
  Proofs/C20CmdEx.lean — non-vacuity of Props/C20Cmd.lean: a world with the home trash and a volume
  trash directory, an entry with an absolute Path, one with a relative Path, one with duplicate
  `Path` / `DeletionDate` lines and unknown lines, one without date, one without Path; the
  hypotheses checked and the four commands evaluated by the kernel, side by side.
-/
import TrashVerif.Proofs.C20Cmd
import TrashVerif.Proofs.C10CmdEx
import TrashVerif.Proofs.C13CmdEx
namespace TrashVerif.Proofs.C20CmdEx
open TrashVerif Prog FS PutCore C09Hist C10Loop C12Cmd C10Cmd C19Cmd C20Cmd
open TrashVerif.Proofs.C16Eval TrashVerif.Proofs.C02CmdEval TrashVerif.Proofs.C08CmdEval
open TrashVerif.Proofs.C08CmdEx (dN TH TA rc)
open TrashVerif.Proofs.C11CmdEval (emptyT empty_twin rmT rm_twin)
open TrashVerif.Proofs.C12CmdEx (HF HI AF AI)
open TrashVerif.Proofs.C14LoopEx (dirCheck hyps_of_dirCheck)
open TrashVerif.Proofs.C10CmdEx (world_of_hyps)
open TrashVerif.Proofs.C10Cmd

/-! World `WQ`: two volumes, `/` and the mount point `/m`; HOME=/h, uid 1000, cwd `/`; the clock says
    2024-03-31 12:00:00 (`trash-empty 30`: older than 2024-03-01 12:00:00).
    Home trash `/h/.local/share/Trash` (paired with `/`):
      `doc`  — `Path=/q/doc` (absolute), `DeletionDate=2024-01-05T10:00:00`;
      `dup`  — written by "another implementation": an unknown line before the header, `Path=/q/first`, an
               unknown key, `DeletionDate=2024-03-25T08:00:00`, then a SECOND `Path=/q/second` and a SECOND
               `DeletionDate=2020-01-01T00:00:00` (old!): the first lines count.
    Volume trash `/m/.Trash-1000` (paired with `/m`):
      `rel`    — `Path=src/rel` (relative: `/m/src/rel`), `DeletionDate=2024-02-01T00:00:00`;
      `nodate` — `Path=src/nd`, no date;
      `nopath` — no `Path` line, `DeletionDate=2020-01-01T00:00:00`. -/

def docText : Bytes := b "[Trash Info]\nPath=/q/doc\nDeletionDate=2024-01-05T10:00:00\n"
def dupText : Bytes :=
  b "X-Foreign=1\n[Trash Info]\nPath=/q/first\nFoo=bar\nDeletionDate=2024-03-25T08:00:00\nPath=/q/second\nDeletionDate=2020-01-01T00:00:00\n"
def relText : Bytes := b "[Trash Info]\nPath=src/rel\nDeletionDate=2024-02-01T00:00:00\n"
def nodateText : Bytes := b "[Trash Info]\nPath=src/nd\n"
def nopathText : Bytes := b "[Trash Info]\nDeletionDate=2020-01-01T00:00:00\n"

def nodesQ : List (CPath × Node) :=
  [([], dN), ([b "h"], dN), ([b "h", b ".local"], dN), ([b "h", b ".local", b "share"], dN), (TH, dN),
   (HF, dN), (HI, dN),
   (HI ++ [b "doc.trashinfo"], .file docText 0o600 3), (HF ++ [b "doc"], .file [1] 0o644 3),
   (HI ++ [b "dup.trashinfo"], .file dupText 0o600 3), (HF ++ [b "dup"], .file [2] 0o644 3),
   ([b "q"], dN), ([b "q", b "keep"], .file [9] 0o644 5),
   ([b "m"], dN), ([b "m", b "keep"], .file [75] 0o644 0), (TA, .dir 0o700 0),
   (AF, dN), (AI, dN),
   (AI ++ [b "rel.trashinfo"], .file relText 0o600 3), (AF ++ [b "rel"], .file [3] 0o644 3),
   (AI ++ [b "nodate.trashinfo"], .file nodateText 0o600 3), (AF ++ [b "nodate"], .file [4] 0o644 3),
   (AI ++ [b "nopath.trashinfo"], .file nopathText 0o600 3), (AF ++ [b "nopath"], .file [5] 0o644 3)]

def WQ : FS := FS.ofList nodesQ [[], [b "m"]]

def dH : TDir := { T := TH, v := [slash], names := [b "doc.trashinfo", b "dup.trashinfo"] }
def dA : TDir := { T := TA, v := b "/m", names := [b "nodate.trashinfo", b "nopath.trashinfo", b "rel.trashinfo"] }

def nowQ : Date := ⟨2024, 3, 31, 12, 0, 0⟩
/-- `trash-empty 30` -/
def o30 : EmptyOpts := { days := some 30, now := nowQ }
/-- `trash-restore /` (sorted by date, the default) and `trash-restore --sort none /` -/
def op : RestoreOpts := { path := b "/" }
def opN : RestoreOpts := { path := b "/", sort := .none }

theorem WQ_wf : DomWf WQ := Proofs.C09Hist.domwf_ofList _ _

/-- the scanner of trash-list / trash-rm / trash-empty finds the two directories … -/
theorem WQ_scan : foundDirs (scanTrashDirs WQ rc) = [dH, dA].map TDir.pair := by
  rw [scanTrashDirs_eq]; decide +kernel

/-- … and so does trash-restore (its third candidate `/m/.Trash/1000` does not exist) -/
theorem WQ_scanR : restoreDirsWithInfo WQ rc = [dH, dA].map TDir.pair := by
  unfold restoreDirsWithInfo
  rw [restoreTrashDirs_eq]
  simp only [listdirStr_eq]
  decide +kernel

theorem WQ_listed : C14Loop.listed WQ dH.I = dH.names ∧ C14Loop.listed WQ dA.I = dA.names := by
  constructor <;> (unfold C14Loop.listed infoNames; rw [sortedChildren_eq]; decide +kernel)

theorem WQ_orphans : orphans WQ dH = [] ∧ orphans WQ dA = [] := by
  constructor <;> (unfold orphans C14Loop.orphanNames infoNames; rw [sortedChildren_eq]; decide +kernel)

theorem WQ_dH : PlainDir WQ dH ∧ OrphansOk WQ dH :=
  world_of_hyps (hyps_of_dirCheck (names := dH.names) (orph := []) WQ_wf WQ_listed.1 WQ_orphans.1 (by decide +kernel)) WQ_listed.1

theorem WQ_dA : PlainDir WQ dA ∧ OrphansOk WQ dA :=
  world_of_hyps (hyps_of_dirCheck (names := dA.names) (orph := []) WQ_wf WQ_listed.2 WQ_orphans.2 (by decide +kernel)) WQ_listed.2

theorem WQ_apart : [dH, dA].Pairwise Apart := by
  refine List.pairwise_cons.2 ⟨fun e he => ?_, List.pairwise_cons.2 ⟨fun _ h => (nomatch h), List.Pairwise.nil⟩⟩
  have e1 : e = dA := List.mem_singleton.1 he
  subst e1
  refine ⟨fun h => ?_, fun h => ?_⟩
  · have := (PutLemmas.under_iff _ _).2 h; revert this; decide +kernel
  · have := (PutLemmas.under_iff _ _).2 h; revert this; decide +kernel

theorem WQ_world : EmptyWorld WQ [dH, dA] :=
  ⟨⟨WQ_wf, fun d hd => by
      rcases List.mem_cons.1 hd with e | hd
      · rw [e]; exact WQ_dH.1
      · rw [List.mem_singleton.1 hd]; exact WQ_dA.1, WQ_apart⟩,
   fun d hd => by
      rcases List.mem_cons.1 hd with e | hd
      · rw [e]; exact WQ_dH.2
      · rw [List.mem_singleton.1 hd]; exact WQ_dA.2⟩

theorem WQ_no_overflow : ∀ dt, olderThan 30 o30.now o30.nowUs dt ≠ .overflow := by
  intro dt h
  have := (overflow_indep 30 o30.now o30.nowUs dt nowQ).1 h
  revert this
  decide +kernel

/-! ### the meanings -/

/-- the meanings of the five listed names: `dup` means its FIRST Path and FIRST date, `rel` is joined to
    `/m`, `nodate` has a path and no date, `nopath` has no meaning -/
theorem WQ_meaningOf :
    meaningOf WQ rc.cwd dH (b "doc.trashinfo") = some (b "/q/doc", some ⟨2024, 1, 5, 10, 0, 0⟩) ∧
    meaningOf WQ rc.cwd dH (b "dup.trashinfo") = some (b "/q/first", some ⟨2024, 3, 25, 8, 0, 0⟩) ∧
    meaningOf WQ rc.cwd dA (b "nodate.trashinfo") = some (b "/m/src/nd", none) ∧
    meaningOf WQ rc.cwd dA (b "nopath.trashinfo") = none ∧
    meaningOf WQ rc.cwd dA (b "rel.trashinfo") = some (b "/m/src/rel", some ⟨2024, 2, 1, 0, 0, 0⟩) := by
  unfold meaningOf C20.meaningPath C20.meaningDate
  simp only [contentsOf_eq]
  decide +kernel

theorem WQ_meanings : meanings WQ rc.cwd [dH, dA] =
    [(b "/q/doc", some ⟨2024, 1, 5, 10, 0, 0⟩), (b "/q/first", some ⟨2024, 3, 25, 8, 0, 0⟩),
     (b "/m/src/nd", none), (b "/m/src/rel", some ⟨2024, 2, 1, 0, 0, 0⟩)] := by
  unfold meanings meaningOf C20.meaningPath C20.meaningDate
  simp only [contentsOf_eq]
  decide +kernel

/-! ### the four commands, evaluated -/

/-- trash-list: four lines (question marks for `nodate`), one diagnostic on stderr for `nopath` -/
theorem WQ_list_run :
    (run noFaults (runList rc []) { fs := WQ }).1.exit = 0 ∧
    (run noFaults (runList rc []) { fs := WQ }).2.outs.reverse =
      [.stdout (b "2024-01-05 10:00:00 /q/doc"),
       .stdout (b "2024-03-25 08:00:00 /q/first"),
       .stdout (b "????-??-?? ??:??:?? /m/src/nd"),
       .stderr "parse-error" (b "/m/.Trash-1000/info/nopath.trashinfo"),
       .stdout (b "2024-02-01 00:00:00 /m/src/rel")] := by
  rw [Proofs.C08CmdEx.list_twin]; decide +kernel

/-- trash-restore `--sort none /`: the same four (path, date) pairs, in the same order -/
theorem WQ_offered_none : C13Cmd.offered WQ rc opN =
    [{ loc := b "/q/doc", date := some ⟨2024, 1, 5, 10, 0, 0⟩, info := b "/h/.local/share/Trash/info/doc.trashinfo" },
     { loc := b "/q/first", date := some ⟨2024, 3, 25, 8, 0, 0⟩, info := b "/h/.local/share/Trash/info/dup.trashinfo" },
     { loc := b "/m/src/nd", date := none, info := b "/m/.Trash-1000/info/nodate.trashinfo" },
     { loc := b "/m/src/rel", date := some ⟨2024, 2, 1, 0, 0, 0⟩, info := b "/m/.Trash-1000/info/rel.trashinfo" }] := by
  rw [Proofs.C13CmdEx.offered_twin]; decide +kernel

/-- trash-restore `/` sorted by date (the default): the same four pairs, undated first -/
theorem WQ_offered_date : (C13Cmd.offered WQ rc op).map pairOf =
    [(b "/m/src/nd", none), (b "/q/doc", some ⟨2024, 1, 5, 10, 0, 0⟩),
     (b "/m/src/rel", some ⟨2024, 2, 1, 0, 0, 0⟩), (b "/q/first", some ⟨2024, 3, 25, 8, 0, 0⟩)] := by
  rw [Proofs.C13CmdEx.offered_twin]; decide +kernel

theorem WQ_nopath_not_offered : ∀ e ∈ C13Cmd.offered WQ rc op, e.info ≠ b "/m/.Trash-1000/info/nopath.trashinfo" := by
  rw [Proofs.C13CmdEx.offered_twin]; decide +kernel

theorem WQ_nopath_old : DatedOld WQ rc.cwd 30 o30 dA (b "nopath.trashinfo") :=
  ⟨nopathText, ⟨2020, 1, 1, 0, 0, 0⟩, by rw [contentsOf_eq]; decide +kernel, by decide +kernel, by decide +kernel⟩

theorem WQ_nopath_diag : diagOf WQ rc.cwd (infoStr (toStr dA.T) (b "nopath.trashinfo")) =
    .stderr "parse-error" (b "/m/.Trash-1000/info/nopath.trashinfo") := by
  unfold diagOf
  simp only [contentsOf_eq]
  decide +kernel

/-- `trash-rm /m/src/rel` (full-path pattern): exactly `rel` is gone, info file and payload -/
theorem WQ_rm_run :
    (rmT rc [b "/m/src/rel"] WQ).1.exit = 0 ∧
    (rmT rc [b "/m/src/rel"] WQ).2.fs.toList = nodesQ.filter (fun pn =>
      pn.1 ∉ [AI ++ [b "rel.trashinfo"], AF ++ [b "rel"]]) := by
  decide +kernel

/-- `trash-empty 30` on 2024-03-31 12:00: `doc` (January) and `rel` (1 February) are gone; `dup` (FIRST date
    25 March; its second date, 2020, is not looked at) and `nodate` stay; `nopath` — not listed, yet dated
    2020 — is gone too -/
theorem WQ_empty_run :
    (emptyT rc o30 WQ).1.exit = 0 ∧
    (emptyT rc o30 WQ).2.fs.toList = nodesQ.filter (fun pn =>
      pn.1 ∉ [HI ++ [b "doc.trashinfo"], HF ++ [b "doc"], AI ++ [b "rel.trashinfo"], AF ++ [b "rel"],
               AI ++ [b "nopath.trashinfo"], AF ++ [b "nopath"]]) := by
  decide +kernel

theorem WQ_verdicts :
    rmMatches (b "/m/src/rel") (b "/q/doc") = some false ∧ rmMatches (b "/m/src/rel") (b "/q/first") = some false ∧
    rmMatches (b "/m/src/rel") (b "/m/src/nd") = some false ∧ rmMatches (b "/m/src/rel") (b "/m/src/rel") = some true ∧
    olderThan 30 nowQ 0 ⟨2024, 1, 5, 10, 0, 0⟩ = .yes ∧ olderThan 30 nowQ 0 ⟨2024, 3, 25, 8, 0, 0⟩ = .no ∧
    olderThan 30 nowQ 0 ⟨2024, 2, 1, 0, 0, 0⟩ = .yes := by decide +kernel

end TrashVerif.Proofs.C20CmdEx
