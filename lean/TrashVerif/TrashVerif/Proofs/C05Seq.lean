/-
  Proofs/C05Seq.lean — the composition law of crash states over argument lists (proofs for Props/C05Seq.lean).
-/
import TrashVerif.Props.C05SeqDefs
import TrashVerif.Proofs.C16Seq
import TrashVerif.Proofs.C05CmdHome
namespace TrashVerif.Proofs.C05Seq
open TrashVerif Prog FS PutLemmas C16Seq C05Seq
open TrashVerif.Proofs.C16Seq

/-- no run looks at the recorded history: two run states that agree on everything an oracle and the program
    can see produce the same new history and the same final file system -/
theorem run_hist_any {α} (φ : Oracle) (p : Prog α) : ∀ (s s' : RunState), s.fs = s'.fs → s.trace = s'.trace →
    s.n = s'.n →
    ∃ new, (run φ p s).2.hist = new ++ s.hist ∧ (run φ p s').2.hist = new ++ s'.hist ∧
      (run φ p s).2.fs = (run φ p s').2.fs := by
  induction p with
  | ret a => intro s s' h _ _; exact ⟨[], rfl, rfl, h⟩
  | get k ih => intro s s' h ht hn; simp only [run]; rw [h]; exact ih _ _ _ h ht hn
  | emit o k ih => intro s s' h ht hn; simp only [run]; exact ih _ _ h ht hn
  | call c k ih =>
    intro s s' h ht hn
    simp only [run]
    rw [← h, ← ht, ← hn]
    have okCase : ∀ fs', ∃ new,
        (run φ (k (.ok ())) ⟨fs', s.fs :: s.hist, (c, .ok ()) :: s.trace, s.outs, s.n + 1⟩).2.hist = new ++ s.hist ∧
        (run φ (k (.ok ())) ⟨fs', s.fs :: s'.hist, (c, .ok ()) :: s.trace, s'.outs, s.n + 1⟩).2.hist = new ++ s'.hist ∧
        (run φ (k (.ok ())) ⟨fs', s.fs :: s.hist, (c, .ok ()) :: s.trace, s.outs, s.n + 1⟩).2.fs =
        (run φ (k (.ok ())) ⟨fs', s.fs :: s'.hist, (c, .ok ()) :: s.trace, s'.outs, s.n + 1⟩).2.fs := by
      intro fs'
      obtain ⟨new, h1, h2, h3⟩ := ih (.ok ()) ⟨fs', s.fs :: s.hist, (c, .ok ()) :: s.trace, s.outs, s.n + 1⟩
        ⟨fs', s.fs :: s'.hist, (c, .ok ()) :: s.trace, s'.outs, s.n + 1⟩ rfl rfl rfl
      exact ⟨new ++ [s.fs], by rw [h1]; simp, by rw [h2]; simp, h3⟩
    have errCase : ∀ e, ∃ new,
        (run φ (k (.error e)) ⟨s.fs, s.fs :: s.hist, (c, .error e) :: s.trace, s.outs, s.n + 1⟩).2.hist = new ++ s.hist ∧
        (run φ (k (.error e)) ⟨s.fs, s.fs :: s'.hist, (c, .error e) :: s.trace, s'.outs, s.n + 1⟩).2.hist = new ++ s'.hist ∧
        (run φ (k (.error e)) ⟨s.fs, s.fs :: s.hist, (c, .error e) :: s.trace, s.outs, s.n + 1⟩).2.fs =
        (run φ (k (.error e)) ⟨s.fs, s.fs :: s'.hist, (c, .error e) :: s.trace, s'.outs, s.n + 1⟩).2.fs := by
      intro e
      obtain ⟨new, h1, h2, h3⟩ := ih (.error e) ⟨s.fs, s.fs :: s.hist, (c, .error e) :: s.trace, s.outs, s.n + 1⟩
        ⟨s.fs, s.fs :: s'.hist, (c, .error e) :: s.trace, s'.outs, s.n + 1⟩ rfl rfl rfl
      exact ⟨new ++ [s.fs], by rw [h1]; simp, by rw [h2]; simp, h3⟩
    cases hφ : φ s.n (kindCount s.trace c.kind) c with
    | some e => exact errCase e
    | none =>
      cases hc : c.apply s.fs with
      | ok fs' => exact okCase fs'
      | error e => exact errCase e

theorem crashStates_def {α} (φ : Oracle) (p : Prog α) (fs : FS) :
    crashStates φ p fs = ((run φ p { fs := fs }).2.fs :: (run φ p { fs := fs }).2.hist).reverse := rfl

theorem crashStates_eq_from {α} (φ : Oracle) (p : Prog α) (fs : FS) :
    crashStates φ p fs = crashStatesFrom φ p { fs := fs } := rfl

/-- the states recorded by a run from `s`: what was recorded before, then the crash states from `s` -/
theorem run_states_from {α} (φ : Oracle) (p : Prog α) (s : RunState) :
    ((run φ p s).2.fs :: (run φ p s).2.hist).reverse = s.hist.reverse ++ crashStatesFrom φ p s := by
  obtain ⟨new, h1, h2, h3⟩ := run_hist_any φ p s { s with hist := [] } rfl rfl rfl
  unfold crashStatesFrom
  rw [h1, h2, h3]; simp

/-- without faults only the file system matters -/
theorem crashStatesFrom_noFaults {α} (p : Prog α) (s : RunState) :
    crashStatesFrom noFaults p s = crashStates noFaults p s.fs := by
  obtain ⟨new, h1, h2⟩ := C05CmdHome.run_hist_two p { s with hist := [] } { fs := s.fs } rfl
  have h3 := (C16Indep.run_noFaults_fs p { s with hist := [] } { fs := s.fs } rfl).2
  unfold crashStatesFrom
  rw [crashStates_def, h1, h2, h3]

/-- what the fold leaves in scripted input, abort status and run state does not depend on the outcomes so far -/
theorem foldl_indep (φ : Oracle) (c : PutCfg) : ∀ (args : List Bytes) (σ σ' : SeqSt), σ.crash = σ'.crash →
    σ.st = σ'.st → σ.s = σ'.s →
    (args.foldl (stepArg φ c) σ).crash = (args.foldl (stepArg φ c) σ').crash ∧
    (args.foldl (stepArg φ c) σ).st = (args.foldl (stepArg φ c) σ').st ∧
    (args.foldl (stepArg φ c) σ).s = (args.foldl (stepArg φ c) σ').s := by
  intro args
  induction args with
  | nil => intro σ σ' h1 h2 h3; exact ⟨h1, h2, h3⟩
  | cons a rest ih =>
    intro σ σ' h1 h2 h3
    have key : (stepArg φ c σ a).crash = (stepArg φ c σ' a).crash ∧ (stepArg φ c σ a).st = (stepArg φ c σ' a).st ∧
        (stepArg φ c σ a).s = (stepArg φ c σ' a).s := by
      obtain ⟨o, cr, st, s⟩ := σ
      obtain ⟨o', cr', st', s'⟩ := σ'
      simp only at h1 h2 h3
      subst h1 h2 h3
      cases cr with
      | some e => exact ⟨rfl, rfl, rfl⟩
      | none =>
        simp only [stepArg]
        cases (run φ (putOne c a st) s).1.1 <;> exact ⟨rfl, rfl, rfl⟩
    rw [List.foldl_cons, List.foldl_cons]
    exact ih _ _ key.1 key.2.1 key.2.2

/-- THE COMPOSITION LAW, every oracle -/
theorem crashStates_append (φ : Oracle) (c : PutCfg) (args1 args2 : List Bytes) (st : PutSt) (fs : FS) :
    crashStates φ (runPut c (args1 ++ args2) st) fs =
      match (putSeq φ c args1 st { fs := fs }).crash with
      | some _ => crashStates φ (runPut c args1 st) fs
      | none => (crashStates φ (runPut c args1 st) fs).dropLast ++
          crashStatesFrom φ (runPut c args2 (putSeq φ c args1 st { fs := fs }).st) (putSeq φ c args1 st { fs := fs }).s := by
  rw [crashStates_def, crashStates_def, run_is_fold, run_is_fold, putSeq_append]
  generalize putSeq φ c args1 st { fs := fs } = σ
  cases hc : σ.crash with
  | some e =>
    rw [foldl_crashed φ c args2 σ (by rw [hc]; simp)]
  | none =>
    simp only
    have hi := (foldl_indep φ c args2 σ (initSt σ.st σ.s) hc rfl rfl).2.2
    have hf : (finish (args2.foldl (stepArg φ c) σ)).2 = (run φ (runPut c args2 σ.st) σ.s).2 := by
      rw [run_is_fold]; exact hi
    rw [hf, run_states_from]
    show _ = (σ.s.fs :: σ.s.hist).reverse.dropLast ++ _
    rw [List.reverse_cons, List.dropLast_concat]

end TrashVerif.Proofs.C05Seq
