/-
  Props/C15Loop.lean — C15 at the level of the LOOPS: killing trash-empty (`emptyInfos`) or trash-rm
  (`rmInfos`) at any point while it works through the entries of one trash directory — any number of
  entries, every kind of payload — never leaves a payload under `files/` whose info file has already
  been removed, and re-running the command completes the purge.  (Props/C15.lean has the statement for
  ONE entry: `purge_info_last`; Props/C10Loop.lean says WHICH entries the loops purge.)

  The setting is `C10Loop.Setting fs cwd t I F names` (Props/C10LoopDefs.lean): the trash directory `t`
  with canonical `info/` = `I` and `files/` = `F`, `names` the listed `*.trashinfo` names, the loops
  being given `infoStrs t names`.  `crashStates φ p fs` (Model/Prog.lean) are the states a kill can
  leave behind: the file system before each call of the run, and the final one.

    * `loop_states_are_prefix_states` (`empty_…`, `rm_…`; fault-free): every crash state of the loop is
      a PREFIX STATE (`PrefixState`, Props/C15LoopDefs.lean) — the first k selected entries purged
      completely, the next one somewhere inside its own `purgePair` (a crash state of the one-entry
      purge of Props/C15.lean), every other entry exactly what it was.  No hypothesis on the
      decisions is needed (a DAYS overflow or an empty pattern stops the loop in a prefix state).
    * `rm_loop_crash_inv` — the crash invariant of trash-rm, under EVERY fault oracle.
    * `empty_loop_crash_inv_partial` — the crash invariant of trash-empty, fault-free.  Under a fault
      oracle it is FALSE (`empty_fault_counterexample`): trash-empty catches the `OSError` of the
      payload removal, prints "cannot-remove" and removes the info file all the same.
    * `prefix_state_info_last`, `prefix_state_one_half_purged` — what a prefix state implies: the crash
      invariant, and at most one entry between "intact" and "gone".
    * `empty_rerun_completes`, `rm_rerun_completes` — re-running the loop (fault-free) on any crash
      state of a fault-free run ends in the state the uninterrupted run ends in, on every path but
      the two directories `info/` and `files/` themselves (which keep kind and mode; the model's mtime
      of a directory is refreshed by each removal in it).  The re-run may be given any sub-list
      `names'` of the names that misses only names whose info file is gone — the same list, or
      (`…_rerun_rescanned`) what a new scan of `info/` finds.  No hypothesis beyond the setting:
      `Setting.wf` / `infoTree` / `payTree` are, for every entry, the `hwf` / `htree` / `hmnt` of
      C15 `purge_rerun_completes_partial`; its `hout` follows from the geometry of the trash
      directory; its `hi` (the info path is not a directory) is not needed — trash-empty removes an
      info path that is a directory with `rmtree`, trash-rm never selects one.
    * non-vacuity and the batched loop: see the end of the file.
-/
import TrashVerif.Props.C15LoopDefs
import TrashVerif.Props.C10Loop
import TrashVerif.Props.C15
import TrashVerif.Proofs.C15Loop
import TrashVerif.Proofs.C15LoopRerun
import TrashVerif.Proofs.C15LoopEx
namespace TrashVerif.C15Loop
open TrashVerif PutCore Prog FS C09Hist C10Loop C19Cmd

/-! ### prefix states -/

/-- Every state a kill can leave behind while trash-empty (not `--dry-run`) works through the listed
    entries is a prefix state of the purge of the selected entries — `emptySelected`, the decisions
    evaluated on the INITIAL state, in listing order: the first k of them purged completely, the
    (k+1)-th somewhere inside its own `purgePair`, every other entry (selected later, kept, unlisted)
    exactly what it was. -/
theorem empty_loop_states_are_prefix_states (fs : FS) (cwd : CPath) (t : Bytes) (I F : CPath) (names : List Bytes)
    (o : EmptyOpts) (S : Setting fs cwd t I F names) (hdry : o.dryRun = false) :
    ∀ s ∈ crashStates noFaults (emptyInfos cwd o (infoStrs t names)) fs,
      PrefixState fs I F (emptySelected fs cwd o t names) s :=
  Proofs.C15Loop.empty_loop_states_are_prefix_states fs cwd t I F names o S hdry

/-- The same for trash-rm, the selected entries being `rmSelected` (readable, with a `Path=` line the
    pattern matches; evaluated on the initial state). -/
theorem rm_loop_states_are_prefix_states (fs : FS) (cwd : CPath) (t : Bytes) (I F : CPath) (names : List Bytes)
    (pattern volume : Bytes) (S : Setting fs cwd t I F names) :
    ∀ s ∈ crashStates noFaults (rmInfos cwd pattern volume (infoStrs t names)) fs,
      PrefixState fs I F (rmSelected fs cwd pattern volume t names) s :=
  Proofs.C15Loop.rm_loop_states_are_prefix_states fs cwd t I F names pattern volume S

/-- In a prefix state every payload that is still there (its root exists) has its info file
    untouched — for every `*.trashinfo` name `n`, listed or not. -/
theorem prefix_state_info_last (fs s : FS) (I F : CPath) (sel : List Bytes) (inv : TrashInv fs I F)
    (hsel : ∀ d ∈ sel, isTrashinfoName d = true) (h : PrefixState fs I F sel s)
    (n : Bytes) (hn : isTrashinfoName n = true) :
    (s.get (F ++ [stemOf n])).isSome = true → s.get (I ++ [n]) = fs.get (I ++ [n]) :=
  Proofs.C15Loop.prefix_infoLast (Proofs.C09Hist.GeoI.of_inv inv) hsel h n hn

/-- In a prefix state at most one entry is half purged (neither what it was nor gone whole). -/
theorem prefix_state_one_half_purged (fs s : FS) (I F : CPath) (sel : List Bytes) (inv : TrashInv fs I F)
    (hsel : ∀ d ∈ sel, isTrashinfoName d = true) (h : PrefixState fs I F sel s)
    (n m : Bytes) (hn : isTrashinfoName n = true) (hm : isTrashinfoName m = true)
    (h1 : HalfPurged fs s I F n) (h2 : HalfPurged fs s I F m) : n = m :=
  Proofs.C15Loop.prefix_one_half (Proofs.C09Hist.GeoI.of_inv inv) hsel h n m hn hm h1 h2

/-! ### the crash invariant -/

/-- trash-rm, under EVERY fault oracle: in every state a kill can leave behind, for every
    `*.trashinfo` name `n` (the listed names are such: `Setting.isInfo`), if anything of the payload of
    `n` is still there then its info file is untouched — whatever the number of entries, whichever
    calls fail. -/
theorem rm_loop_crash_inv (φ : Oracle) (fs : FS) (cwd : CPath) (t : Bytes) (I F : CPath) (names : List Bytes)
    (pattern volume : Bytes) (S : Setting fs cwd t I F names) :
    ∀ s ∈ crashStates φ (rmInfos cwd pattern volume (infoStrs t names)) fs,
      ∀ n, isTrashinfoName n = true →
        (s.get (F ++ [stemOf n])).isSome = true → s.get (I ++ [n]) = fs.get (I ++ [n]) :=
  Proofs.C15Loop.rm_loop_crash_inv φ fs cwd t I F names pattern volume S

/- As first stated — `empty_loop_crash_inv`, under every fault oracle:

     theorem empty_loop_crash_inv (φ : Oracle) … (S : Setting fs cwd t I F names) (hdry : o.dryRun = false) :
         ∀ s ∈ crashStates φ (emptyInfos cwd o (infoStrs t names)) fs, ∀ n ∈ names,
           (s.get (F ++ [stemOf n])).isSome = true → s.get (I ++ [n]) = fs.get (I ++ [n])

   the claim is FALSE: `empty_fault_counterexample` below.  `Emptier.do_empty` wraps the removal of each
   path in its own `try … except OSError: print_cannot_remove_error`, so a payload whose removal
   fails is followed by the removal of its info file.  (The same behaviour, without any fault, on a
   payload that holds a mount point: C10Loop `mount_in_payload_counterexample`.)  The fault-free
   statement: -/

/-- trash-empty (not `--dry-run`), fault-free: in every state a kill can leave behind, for every
    `*.trashinfo` name `n`, if anything of the payload of `n` is still there then its info file is
    untouched. -/
theorem empty_loop_crash_inv_partial (fs : FS) (cwd : CPath) (t : Bytes) (I F : CPath) (names : List Bytes)
    (o : EmptyOpts) (S : Setting fs cwd t I F names) (hdry : o.dryRun = false) :
    ∀ s ∈ crashStates noFaults (emptyInfos cwd o (infoStrs t names)) fs,
      ∀ n, isTrashinfoName n = true →
        (s.get (F ++ [stemOf n])).isSome = true → s.get (I ++ [n]) = fs.get (I ++ [n]) :=
  Proofs.C15Loop.empty_loop_crash_inv_partial fs cwd t I F names o S hdry

open Proofs.C10LoopEx.Demo Proofs.C15LoopEx in
/-- The full statement is false.  Demo world, `trash-empty` without DAYS, the first call
    (`unlink files/new`) answered with EIO: the setting holds, and there is a crash state — and so is
    the final state — in which `files/new` is there and `info/new.trashinfo` is gone; "cannot-remove"
    was printed for the payload. -/
theorem empty_fault_counterexample :
    ∃ (φ : Oracle) (fs : FS) (t : Bytes) (I F : CPath) (names : List Bytes) (o : EmptyOpts),
      Setting fs [] t I F names ∧ o.dryRun = false ∧
      (∃ s ∈ crashStates φ (emptyInfos [] o (infoStrs t names)) fs, ∃ n ∈ names,
        (s.get (F ++ [stemOf n])).isSome = true ∧ s.get (I ++ [n]) ≠ fs.get (I ++ [n])) ∧
      (∃ n ∈ names, Out.stderr "cannot-remove" (pathOfBackupCopy (infoStr t n)) ∈
        (run φ (emptyInfos [] o (infoStrs t names)) { fs := fs }).2.outs) := by
  obtain ⟨⟨s, hs, n, hn, hinv⟩, _, _, hout⟩ := Proofs.C15LoopEx.empty_fault_counterexample
  refine ⟨faultFirst, W, b "/t", I, F, names, o0, W_setting [], rfl, ⟨s, hs, n, hn, ?_⟩, newN, by decide +kernel, hout⟩
  cases hp : (s.get (F ++ [stemOf n])).isSome with
  | true => exact ⟨rfl, fun e => hinv fun _ => e⟩
  | false => exact absurd (fun h => by rw [hp] at h; cases h) hinv

/-! ### re-running completes the purge -/

/-- Re-running trash-empty (fault-free, same options) on ANY crash state `s` of a fault-free run, over a
    list `names'` of names of the first run that misses only names whose info file was there and is
    gone (`hcov`; e.g. the same list, or what a new scan finds: `empty_rerun_rescanned`): the re-run
    does not crash, and it ends in the state the uninterrupted run ends in — equal on every path
    other than the directories `info/` and `files/` themselves (so: on every info file and every
    payload path of the directory, on the orphans, on everything outside), which keep kind and
    mode; same mount table.  `hnc`: no decision crashes on the initial state (C10Loop `empty_no_crash`). -/
theorem empty_rerun_completes (fs : FS) (cwd : CPath) (t : Bytes) (I F : CPath) (names : List Bytes) (o : EmptyOpts)
    (S : Setting fs cwd t I F names) (hdry : o.dryRun = false)
    (hnc : ∀ n ∈ names, ∀ c, okToDelete fs cwd o (infoStr t n) ≠ .crash c)
    (s : FS) (hs : s ∈ crashStates noFaults (emptyInfos cwd o (infoStrs t names)) fs)
    (names' : List Bytes) (hnd : names'.Nodup) (hsub : ∀ m ∈ names', m ∈ names)
    (hcov : ∀ m ∈ names, m ∉ names' → (fs.get (I ++ [m])).isSome = true ∧ s.get (I ++ [m]) = none) :
    let r := run noFaults (emptyInfos cwd o (infoStrs t names')) { fs := s }
    let r0 := run noFaults (emptyInfos cwd o (infoStrs t names)) { fs := fs }
    r.1 = none ∧ (∀ q, q ≠ I → q ≠ F → r.2.fs.get q = r0.2.fs.get q) ∧
    keptDir r0.2.fs r.2.fs I ∧ keptDir r0.2.fs r.2.fs F ∧ r.2.fs.mounts = r0.2.fs.mounts :=
  Proofs.C15Loop.empty_rerun_completes fs cwd t I F names o S hdry hnc s hs names' hnd hsub hcov

/-- … in particular over the same list -/
theorem empty_rerun_same_list (fs : FS) (cwd : CPath) (t : Bytes) (I F : CPath) (names : List Bytes) (o : EmptyOpts)
    (S : Setting fs cwd t I F names) (hdry : o.dryRun = false)
    (hnc : ∀ n ∈ names, ∀ c, okToDelete fs cwd o (infoStr t n) ≠ .crash c)
    (s : FS) (hs : s ∈ crashStates noFaults (emptyInfos cwd o (infoStrs t names)) fs) :
    let r := run noFaults (emptyInfos cwd o (infoStrs t names)) { fs := s }
    let r0 := run noFaults (emptyInfos cwd o (infoStrs t names)) { fs := fs }
    r.1 = none ∧ (∀ n ∈ names, EntryIntact r0.2.fs r.2.fs I F n) ∧
    (∀ q, q ≠ I → q ≠ F → r.2.fs.get q = r0.2.fs.get q) := by
  obtain ⟨a, c, _⟩ := Proofs.C15Loop.empty_rerun_completes fs cwd t I F names o S hdry hnc s hs names S.nodup
    (fun _ h => h) (fun m hm hn => absurd hm hn)
  have g := Proofs.C09Hist.GeoI.of_inv S.inv
  refine ⟨a, fun n _ => ⟨fun rel => ?_, fun rel => ?_⟩, c⟩
  · exact c _ (Proofs.C10Loop.EP.ne_I g (Proofs.C10Loop.EP.info I F n rel)) (Proofs.C10Loop.EP.ne_F g (Proofs.C10Loop.EP.info I F n rel))
  · exact c _ (Proofs.C10Loop.EP.ne_I g (Proofs.C10Loop.EP.payload I F n rel)) (Proofs.C10Loop.EP.ne_F g (Proofs.C10Loop.EP.payload I F n rel))

/-- … and over what a new scan of `info/` finds in the crash state, when the first run was given what
    the scan of the initial state found (C10Loop `scan_names`) -/
theorem empty_rerun_rescanned (fs : FS) (cwd : CPath) (t : Bytes) (I F : CPath) (o : EmptyOpts)
    (S : Setting fs cwd t I F ((infoNames fs I).filter isTrashinfoName)) (hdry : o.dryRun = false)
    (hnc : ∀ n ∈ (infoNames fs I).filter isTrashinfoName, ∀ c, okToDelete fs cwd o (infoStr t n) ≠ .crash c)
    (s : FS) (hs : s ∈ crashStates noFaults (emptyInfos cwd o (infoStrs t ((infoNames fs I).filter isTrashinfoName))) fs) :
    let r := run noFaults (emptyInfos cwd o (infoStrs t ((infoNames s I).filter isTrashinfoName))) { fs := s }
    let r0 := run noFaults (emptyInfos cwd o (infoStrs t ((infoNames fs I).filter isTrashinfoName))) { fs := fs }
    r.1 = none ∧ ∀ q, q ≠ I → q ≠ F → r.2.fs.get q = r0.2.fs.get q :=
  Proofs.C15Loop.empty_rerun_rescanned fs cwd t I F o S hdry hnc s hs

/-- The same for trash-rm (non-empty pattern).  (Given the old list, the re-run reports the names whose
    info file is gone as "unparsable"; given the rescanned list it does not meet them.) -/
theorem rm_rerun_completes (fs : FS) (cwd : CPath) (t : Bytes) (I F : CPath) (names : List Bytes)
    (pattern volume : Bytes) (S : Setting fs cwd t I F names) (hp : pattern ≠ [])
    (s : FS) (hs : s ∈ crashStates noFaults (rmInfos cwd pattern volume (infoStrs t names)) fs)
    (names' : List Bytes) (hnd : names'.Nodup) (hsub : ∀ m ∈ names', m ∈ names)
    (hcov : ∀ m ∈ names, m ∉ names' → (fs.get (I ++ [m])).isSome = true ∧ s.get (I ++ [m]) = none) :
    let r := run noFaults (rmInfos cwd pattern volume (infoStrs t names')) { fs := s }
    let r0 := run noFaults (rmInfos cwd pattern volume (infoStrs t names)) { fs := fs }
    r.1 = none ∧ (∀ q, q ≠ I → q ≠ F → r.2.fs.get q = r0.2.fs.get q) ∧
    keptDir r0.2.fs r.2.fs I ∧ keptDir r0.2.fs r.2.fs F ∧ r.2.fs.mounts = r0.2.fs.mounts :=
  Proofs.C15Loop.rm_rerun_completes fs cwd t I F names pattern volume S hp s hs names' hnd hsub hcov

theorem rm_rerun_rescanned (fs : FS) (cwd : CPath) (t : Bytes) (I F : CPath) (pattern volume : Bytes)
    (S : Setting fs cwd t I F ((infoNames fs I).filter isTrashinfoName)) (hp : pattern ≠ [])
    (s : FS) (hs : s ∈ crashStates noFaults (rmInfos cwd pattern volume (infoStrs t ((infoNames fs I).filter isTrashinfoName))) fs) :
    let r := run noFaults (rmInfos cwd pattern volume (infoStrs t ((infoNames s I).filter isTrashinfoName))) { fs := s }
    let r0 := run noFaults (rmInfos cwd pattern volume (infoStrs t ((infoNames fs I).filter isTrashinfoName))) { fs := fs }
    r.1 = none ∧ ∀ q, q ≠ I → q ≠ F → r.2.fs.get q = r0.2.fs.get q :=
  Proofs.C15Loop.rm_rerun_rescanned fs cwd t I F pattern volume S hp s hs

/-! ### non-vacuity: the demo directory of C10Loop (`new`, `old` with a directory payload, `und`; an
    orphan; a file outside), plain `trash-empty`: all three entries are selected.  Everything below
    is checked by the kernel, the loops being run through the twins of Proofs/C10LoopEval.lean. -/

open Proofs.C10LoopEx.Demo Proofs.C15LoopEx in
/-- the setting holds, the names are what the scan yields, all three are selected -/
example : Setting W [] (b "/t") I F names ∧ infosOf W [] (b "/t") = .ok (infoStrs (b "/t") names) ∧
    emptySelected W [] o0 (b "/t") names = names := ⟨W_setting [], W_infos, W_selected0⟩

open Proofs.C10LoopEx.Demo Proofs.C15LoopEx in
/-- EVERY crash state of the loop, evaluated (`row s`: for `new`, `old`, `und`, whether the payload
    root is there and whether the info file is what it was): eight calls, nine states; the fourth and
    fifth are inside the removal of the directory payload `files/old`. -/
example : (crashStates noFaults (emptyInfos [] o0 (infoStrs (b "/t") names)) W).map row =
    [[(true, true), (true, true), (true, true)],
     [(false, true), (true, true), (true, true)],
     [(false, false), (true, true), (true, true)],
     [(false, false), (true, true), (true, true)],
     [(false, false), (true, true), (true, true)],
     [(false, false), (false, true), (true, true)],
     [(false, false), (false, false), (true, true)],
     [(false, false), (false, false), (false, true)],
     [(false, false), (false, false), (false, false)]] := W_rows

open Proofs.C10LoopEx.Demo Proofs.C15LoopEx in
/-- the fifth state: `files/old/x` is gone, the directory `files/old` (touched) and the info file are there -/
example : ((crashStates noFaults (emptyInfos [] o0 (infoStrs (b "/t") names)) W)[4]?.map fun s =>
    (s.get (F ++ [b "old"]), s.get (F ++ [b "old", b "x"]), decide (s.get (I ++ [oldN]) = W.get (I ++ [oldN])))) =
    some (some (.dir 0o755 0), none, true) := W_fifth

open Proofs.C10LoopEx.Demo Proofs.C15LoopEx in
/-- the theorems instantiated: every crash state is a prefix state and satisfies the invariant -/
example : ∀ s ∈ crashStates noFaults (emptyInfos [] o0 (infoStrs (b "/t") names)) W,
    PrefixState W I F names s ∧
    ∀ n ∈ names, (s.get (F ++ [stemOf n])).isSome = true → s.get (I ++ [n]) = W.get (I ++ [n]) := by
  intro s hs
  have h := empty_loop_states_are_prefix_states W [] (b "/t") I F names o0 (W_setting []) rfl s hs
  rw [W_selected0] at h
  exact ⟨h, fun n hn => empty_loop_crash_inv_partial W [] (b "/t") I F names o0 (W_setting []) rfl s hs n (names_info n hn)⟩

open Proofs.C10LoopEx.Demo Proofs.C15LoopEx in
/-- re-running on each of the nine crash states: the theorem instantiated, and the runs evaluated
    (here even `info/` and `files/` end up identical) -/
example : (∀ s ∈ crashStates noFaults (emptyInfos [] o0 (infoStrs (b "/t") names)) W,
      (run noFaults (emptyInfos [] o0 (infoStrs (b "/t") names)) { fs := s }).1 = none ∧
      ∀ n ∈ names, EntryIntact (run noFaults (emptyInfos [] o0 (infoStrs (b "/t") names)) { fs := W }).2.fs
        (run noFaults (emptyInfos [] o0 (infoStrs (b "/t") names)) { fs := s }).2.fs I F n) ∧
    ((crashStates noFaults (emptyInfos [] o0 (infoStrs (b "/t") names)) W).all fun s =>
      decide ((run noFaults (emptyInfos [] o0 (infoStrs (b "/t") names)) { fs := s }).2.fs.toList =
        (run noFaults (emptyInfos [] o0 (infoStrs (b "/t") names)) { fs := W }).2.fs.toList)) = true := by
  refine ⟨fun s hs => ?_, W_reruns⟩
  have h := empty_rerun_same_list W [] (b "/t") I F names o0 (W_setting []) rfl
    (fun n _ c => by unfold okToDelete; exact fun h => nomatch h) s hs
  exact ⟨h.1, h.2.1⟩

open Proofs.C10LoopEx.Demo Proofs.C15LoopEx in
/-- trash-rm under a fault (`W2`, pattern `*`, the first call answered with EIO): the invariant
    instantiated, and the run evaluated — the loop stops with an `OSError`, nothing was removed -/
example : (∀ s ∈ crashStates faultFirst (rmInfos [] (b "*") (b "/") (infoStrs (b "/t") names2)) W2,
      ∀ n ∈ names2, (s.get (F ++ [stemOf n])).isSome = true → s.get (I ++ [n]) = W2.get (I ++ [n])) ∧
    (run faultFirst (rmInfos [] (b "*") (b "/") (infoStrs (b "/t") names2)) { fs := W2 }).1 = some .osError :=
  ⟨fun s hs n hn => rm_loop_crash_inv faultFirst W2 [] (b "/t") I F names2 (b "*") (b "/") (W2_setting []) s hs n
      ((W2_setting []).isInfo n hn), rm_fault_keeps_info.1⟩

/-! ### what the theorems forbid: a loop that batches the removals of the info files

  `Proofs.C15LoopEx.emptyInfosBatched k` (a VARIANT, not part of the model; after the seeded change
  C15-6): the payloads are removed as `info/` is walked, the info files are collected and removed when
  more than `k` are pending and at the end — the current entry's info file joining the pending list
  before its payload is removed.  Uninterrupted, it ends in the state the real loop ends in
  (`batched_same_end`). -/

open Proofs.C10LoopEx.Demo Proofs.C15LoopEx in
/-- Batch size 2, three entries: a crash state with the payload of `und` under `files/` and its info
    file gone — the crash invariant (`empty_loop_crash_inv_partial`) is violated. -/
theorem batched_breaks_invariant :
    ∃ s ∈ crashStates noFaults (emptyInfosBatched 2 [] o0 (infoStrs (b "/t") names) []) W, ∃ n ∈ names,
      (s.get (F ++ [stemOf n])).isSome = true ∧ s.get (I ++ [n]) ≠ W.get (I ++ [n]) := by
  obtain ⟨s, hs, n, hn, hinv⟩ := Proofs.C15LoopEx.batched_breaks_invariant
  refine ⟨s, hs, n, hn, ?_⟩
  cases hp : (s.get (F ++ [stemOf n])).isSome with
  | true => exact ⟨rfl, fun e => hinv fun _ => e⟩
  | false => exact absurd (fun h => by rw [hp] at h; cases h) hinv

open Proofs.C10LoopEx.Demo Proofs.C15LoopEx in
/-- Batch size not reached (all payloads first, all info files afterwards): the crash invariant
    survives (`Proofs.C15LoopEx.batched100_rows`: every payload still there has its info file), but the
    states are no prefix states — there is a crash state with two entries half purged at once. -/
theorem batched_leaves_prefix_states :
    ∃ s ∈ crashStates noFaults (emptyInfosBatched 100 [] o0 (infoStrs (b "/t") names) []) W,
      HalfPurged W s I F newN ∧ HalfPurged W s I F oldN ∧ ¬ PrefixState W I F names s :=
  Proofs.C15LoopEx.batched_not_prefix

end TrashVerif.C15Loop
