/-
  Props/C18Cmd.lean — COMMAND-level theorems for C18: whole runs of the real `runPut` (Model/Put.lean),
  fault-free, for an argument that names a SYMBOLIC LINK.

  "trash-put acts on the named entry itself and never follows a final symlink: when the argument is a
   symbolic link (to a file, a directory, nothing, an absolute target, another link, the top of
   another volume), with or without trailing slashes, the LINK is moved to the trash (same link
   node, same target string), its target is untouched, the .trashinfo records the link's own
   location (parent resolved, the link not followed), and the trash directory is chosen by the
   link's own volume, not its target's.  Restoring it recreates the same link."

  Props/C18.lean proves this at the string layer and at the resolved layer (`putCore`).  Here it is
  lifted to the command, in the settings of Props/C07Cmd.lean and Props/C16Indep.lean (canonical
  absolute spelling `toStr (P ++ [n])` of the link, its parent `P` reached without symbolic links),
  EXTENDED by `k ≥ 0` trailing slashes (`spelled P n k`).  The link's target string `t` is arbitrary
  throughout (`IsLink`).

  0. `put_trailing_slashes_same_run`, `put_trailing_slashes_any_oracle` — `trash-put P/n///` IS
     `trash-put P/n` (same system calls, same states, same result) reported under the spelling
     given — for every kind of entry, provided the spelling with slashes `lexists` (`SlashOk`).
  1. `put_link_home_partial`, `put_link_home_first_use_partial` — a link of the home trash's volume.
     PARTIAL: the statement for EVERY target and EVERY `k` is false — `link/` does not `lexists`
     when the link is dangling or leads to a file: `put_link_full_counterexample_dangling_slash`,
     `put_link_full_counterexample_file_slash` (REAL behaviour of trash-cli, replayed).
  2. `put_link_volume_follows_link_not_target`, `put_link_volume_follows_link_not_target_other` — the
     trash directory is on the device of the link's parent; nothing changes on any other device,
     in particular not on the device the link leads to.
  3. `put_link_trailing_slash_dir_target` — `link/` with the link leading to a directory.
  4. `put_through_link` — `link/inside` names the entry THROUGH the link: its volume is the one the link
     leads to; `put_through_link_then_link` — `link/inside` then `link/` in one run: the first goes to
     the trash directory of the TARGET's volume, the second to that of the link's own
     (`put_through_link_then_link_evaluated`: the same, and the reversed order, evaluated by the kernel).
  5. `put_link_restore_identity` — put, then restore answered "0": the same link is back.
  6. Non-vacuity on a concrete two-volume world (Proofs/C18CmdEx.lean), every theorem instantiated,
     and whole runs evaluated by the kernel through the twins of Proofs/C16Eval.lean.
-/
import TrashVerif.Props.C18CmdDefs
import TrashVerif.Props.C02Cmd
import TrashVerif.Props.C07Cmd
import TrashVerif.Proofs.C18Cmd
import TrashVerif.Proofs.C18CmdHome
import TrashVerif.Proofs.C18CmdVol
import TrashVerif.Proofs.C18CmdThrough
import TrashVerif.Proofs.C18CmdSeq
import TrashVerif.Proofs.C18CmdEx
namespace TrashVerif.C18Cmd
open TrashVerif Prog FS PutCore C16Indep C07Cmd
open TrashVerif.C07 (Plain GoodNames)

/-! ### 0. trailing slashes -/

/-- `os.path.lexists("P/n///")` when `P/n` is there and leads to a directory (`os.path.isdir`): the
    kernel follows the final link before the empty components and finds the directory. -/
theorem lexists_with_trailing_slashes (fs : FS) (cwd P : CPath) (n : Name) (hn : GoodNames (P ++ [n])) (k : Nat)
    (hk : SlashOk fs cwd P n k) (hex : pLexists fs cwd (toStr (P ++ [n])) = true) :
    pLexists fs cwd (spelled P n k) = true :=
  Proofs.C18Cmd.pLexists_spelled hn k hk hex

/-- Under ANY fault oracle, without prompts: for the canonical spelling of an existing entry of any
    kind followed by `k` slashes that `lexists` (`SlashOk`), the run of `trash-put` is the run for
    the spelling without slashes — same outcome (trash directory, name or failure), abort status, exit
    status, final file system, system calls with their results, intermediate states.  (The only
    difference is the spelling under which the argument is reported.)  So `rstrip('/')`, `normpath`
    and the kernel never make `name/` mean anything else than `name`. -/
theorem put_trailing_slashes_any_oracle (φ : Oracle) (c : PutCfg) (fs : FS) (P : CPath) (n : Name)
    (hn : GoodNames (P ++ [n])) (hnp : c.mode ≠ .interactive) (k : Nat) (hk : SlashOk fs c.cwd P n k)
    (hex : pLexists fs c.cwd (toStr (P ++ [n])) = true) (st : PutSt) :
    let r' := run φ (runPut c [spelled P n k] st) { fs := fs }
    let r := run φ (runPut c [toStr (P ++ [n])] st) { fs := fs }
    r'.1.outcomes.map (·.2) = r.1.outcomes.map (·.2) ∧ r'.1.crash = r.1.crash ∧ r'.1.exit = r.1.exit ∧
    r'.2.fs = r.2.fs ∧ r'.2.trace = r.2.trace ∧ r'.2.hist = r.2.hist :=
  Proofs.C18Cmd.runPut_respell_any φ c _ _ st _
    (Proofs.C18Cmd.trashSingle_spelled φ hn hnp k st { fs := fs } hk hex)

/-- Fault-free, the whole result: when `trash-put P/n` trashes the entry into `d` as `nm`, then
    `trash-put P/n///` reports exactly that for the spelling given, exits 0, and ends in the SAME run
    state (file system, calls, intermediate states, output). -/
theorem put_trailing_slashes_same_run (c : PutCfg) (fs : FS) (P : CPath) (n : Name)
    (hn : GoodNames (P ++ [n])) (hnp : c.mode ≠ .interactive) (k : Nat) (hk : SlashOk fs c.cwd P n k) (st : PutSt)
    (d nm : Bytes)
    (h : (run noFaults (runPut c [toStr (P ++ [n])] st) { fs := fs }).1.outcomes = [(toStr (P ++ [n]), .trashed d nm)]) :
    run noFaults (runPut c [spelled P n k] st) { fs := fs } =
      ({ outcomes := [(spelled P n k, .trashed d nm)], crash := none, exit := 0 },
       (run noFaults (runPut c [toStr (P ++ [n])] st) { fs := fs }).2) :=
  Proofs.C18Cmd.runPut_spelled hn hnp k hk st d nm h

/-! ### 1. a link on the volume of the home trash

FULL STATEMENT asked for (FALSE, see the counterexamples at the end of this section):

    theorem put_link_home (… W : HomeWorld c fs H) (A : GoodArg fs H P n) (L : IsLink fs (P ++ [n]) t) (k : Nat) … :
        let r := run noFaults (runPut c [spelled P n k] st) { fs := fs }
        r.1.exit = 0 ∧ r.2.fs.get (filesC H ++ [n]) = some (.link t) ∧ …        -- for EVERY target `t` and EVERY `k`

What holds (`_partial`): the same with the hypothesis `SlashOk fs c.cwd P n k` — no trailing slash
(then `t` is arbitrary: dangling, a file, a directory, another volume, another link), or the link
leads to a directory.  Without it the argument is reported "non existent" and nothing is done. -/

/-- `put_link_home_partial`.  Everyday world with an existing home trash (`HomeWorld`: no `--trash-dir`,
    no `--force-volume`, no prompts, HOME = `H`, `files/` and `info/` there); the argument is
    `P/n` followed by `k` slashes (`SlashOk`), where `P/n` is a symbolic link with the ARBITRARY target
    string `t`, on the volume of the home trash (`GoodArg`); the names `n` / `n.trashinfo` are free in
    `files/` / `info/` and `n.trashinfo` fits in a file name.  Then the run reports "trashed into the
    home trash as `n.trashinfo`", exits 0; in the final state
    * `files/n` IS that link node, same target string, and nothing is below it;
    * nothing is left at `P/n`;
    * `info/n.trashinfo` holds the formatted text whose `Path=` line decodes to the canonical
      spelling of `P/n` — the link's own location, not where it leads;
    * EVERY path other than the link, `files/n`, `info/n.trashinfo` and the three directories whose
      entry lists changed (`P`, `files/`, `info/`) is as it was — so is whatever the target string
      names, wherever it is (`put_link_target_subtree_untouched`); those three directories keep kind
      and mode. -/
theorem put_link_home_partial (c : PutCfg) (fs : FS) (H P : CPath) (n : Name) (t : Bytes)
    (W : HomeWorld c fs H) (A : GoodArg fs H P n) (L : IsLink fs (P ++ [n]) t)
    (k : Nat) (hk : SlashOk fs c.cwd P n k)
    (hlen : n.length + 10 ≤ 255) (hfree : ∀ rel, fs.get (filesC H ++ [n] ++ rel) = none)
    (hfreeI : fs.get (infoC H ++ [n ++ trashinfoExt]) = none) (st : PutSt) :
    let r := run noFaults (runPut c [spelled P n k] st) { fs := fs }
    let fs' := r.2.fs
    r.1.outcomes = [(spelled P n k, .trashed (homeStr H) (n ++ trashinfoExt))] ∧ r.1.crash = none ∧ r.1.exit = 0 ∧
    fs'.get (filesC H ++ [n]) = some (.link t) ∧ (∀ z rel, fs'.get (filesC H ++ [n] ++ z :: rel) = none) ∧
    fs'.get (P ++ [n]) = none ∧
    (fs'.get (infoC H ++ [n ++ trashinfoExt]) =
        some (.file (formatTrashinfoWith (toStr (P ++ [n])) c.dateStr) 0o600 0) ∧
      parsePath (universalNewlines (formatTrashinfoWith (toStr (P ++ [n])) c.dateStr)) = some (toStr (P ++ [n]))) ∧
    (∀ q, q ≠ P ++ [n] → q ≠ filesC H ++ [n] → q ≠ infoC H ++ [n ++ trashinfoExt] → q ≠ P → q ≠ filesC H → q ≠ infoC H →
      fs'.get q = fs.get q) ∧
    keptDir fs fs' P ∧ keptDir fs fs' (filesC H) ∧ keptDir fs fs' (infoC H) := by
  intro r fs'
  obtain ⟨o1, o2, o3, l1, l2, l3, l4, l5, l6⟩ := Proofs.C18CmdHome.put_link_home W A L hlen hfree hfreeI k hk st
  exact ⟨o1, o2, o3, l1, l5, l2, ⟨l3, C02Cmd.path_read_back _ _⟩, l4, l6⟩

/-- … in particular the whole subtree of wherever the target leads: for every canonical path `D` that is
    not on the way to the link nor to the two new names in the trash (`Aside`) — the directory or file
    the link points to, the top of another volume, … — every path at or below `D` is as it was. -/
theorem put_link_target_subtree_untouched (c : PutCfg) (fs : FS) (H P : CPath) (n : Name) (t : Bytes)
    (W : HomeWorld c fs H) (A : GoodArg fs H P n) (L : IsLink fs (P ++ [n]) t)
    (k : Nat) (hk : SlashOk fs c.cwd P n k)
    (hlen : n.length + 10 ≤ 255) (hfree : ∀ rel, fs.get (filesC H ++ [n] ++ rel) = none)
    (hfreeI : fs.get (infoC H ++ [n ++ trashinfoExt]) = none) (st : PutSt) (D : CPath)
    (ha : Aside D (P ++ [n]) (filesC H ++ [n]) (infoC H ++ [n ++ trashinfoExt])) :
    ∀ rel, (run noFaults (runPut c [spelled P n k] st) { fs := fs }).2.fs.get (D ++ rel) = fs.get (D ++ rel) := by
  intro rel
  obtain ⟨_, _, _, _, _, _, fr, _⟩ := Proofs.C18CmdHome.put_link_home W A L hlen hfree hfreeI k hk st
  obtain ⟨a1, a2, a3, a4, a5, a6⟩ := Proofs.C18CmdHome.aside_ne ha rel
  have hpar : FS.parent (P ++ [n]) = P := by simp [FS.parent]
  rw [hpar] at a4
  exact fr _ a1 a2 a3 a4 a5 a6

/-- `put_link_home_first_use_partial`.  The same when the home trash does not exist yet (the setting of
    `C07Cmd.home_first_use`: `$HOME/.local/share/Trash = Q ++ x :: R`, `Q` there, nothing at or below
    `Q/x`): the directories are made and the LINK goes to `files/n`; every path other than the
    link, the new `Q/x…`, `Q` and `P` is as it was; nothing changes on another device. -/
theorem put_link_home_first_use_partial (c : PutCfg) (fs : FS) (H Q : CPath) (x : Name) (R P : CPath) (n : Name) (t : Bytes)
    (C : HomeCfg c H) (hsplit : trashC H = Q ++ x :: R) (S : FreshSite fs Q x R) (A : Arg fs P n)
    (hm : MountsOk fs) (hvol : dev fs P = dev fs Q) (hapart : ¬ (P ++ [n]) <+: Q)
    (L : IsLink fs (P ++ [n]) t) (k : Nat) (hk : SlashOk fs c.cwd P n k) (st : PutSt) :
    let r := run noFaults (runPut c [spelled P n k] st) { fs := fs }
    let fs' := r.2.fs
    r.1.outcomes = [(spelled P n k, .trashed (homeStr H) (n ++ trashinfoExt))] ∧ r.1.crash = none ∧ r.1.exit = 0 ∧
    fs'.get (filesC H ++ [n]) = some (.link t) ∧ (∀ z rel, fs'.get (filesC H ++ [n] ++ z :: rel) = none) ∧
    fs'.get (P ++ [n]) = none ∧
    fs'.get (infoC H ++ [n ++ trashinfoExt]) = some (.file (formatTrashinfoWith (toStr (P ++ [n])) c.dateStr) 0o600 0) ∧
    (∀ q, q ≠ P ++ [n] → ¬ Q ++ [x] <+: q → q ≠ Q → q ≠ P → fs'.get q = fs.get q) ∧
    keptDir fs fs' Q ∧ keptDir fs fs' P ∧
    (∀ q, dev fs q ≠ dev fs P → fs'.get q = fs.get q) :=
  Proofs.C18CmdVol.put_link_home_first_use C hsplit S A hm hvol hapart L k hk st

/-- COUNTEREXAMPLE to the full statement (REAL behaviour of trash-cli, replayed on /repo's code:
    `ln -s nowhere dang; trash-put dang/` → "cannot trash non existent 'dang/'", exit status 74).
    World `fsW` of Proofs/C18CmdEx.lean; every hypothesis of `put_link_home_partial` but `SlashOk`
    holds for the dangling link `/p/dang -> nowhere`; the argument `/p/dang/`
    (= `spelled [p] dang 1`) is reported non-existent (`Trasher.trash_single`: `os.path.lexists` is
    `lstat`, and `lstat("dang/")` follows the link: ENOENT), exit status 74, not a single system call.
    The property's "with or without trailing slashes" holds for a DANGLING link only without. -/
theorem put_link_full_counterexample_dangling_slash :
    (HomeWorld Proofs.C18CmdEx.cfgH Proofs.C18CmdEx.fsW Proofs.C18CmdEx.H ∧
      GoodArg Proofs.C18CmdEx.fsW Proofs.C18CmdEx.H [b "p"] (b "dang") ∧
      IsLink Proofs.C18CmdEx.fsW ([b "p"] ++ [b "dang"]) (b "nowhere")) ∧
    spelled [b "p"] (b "dang") 1 = b "/p/dang/" ∧
    (run noFaults (runPut Proofs.C18CmdEx.cfgH [b "/p/dang/"] Proofs.C18CmdEx.st0) { fs := Proofs.C18CmdEx.fsW }).1.outcomes =
      [(b "/p/dang/", .failedMissing)] ∧
    (run noFaults (runPut Proofs.C18CmdEx.cfgH [b "/p/dang/"] Proofs.C18CmdEx.st0) { fs := Proofs.C18CmdEx.fsW }).1.exit = 74 ∧
    (run noFaults (runPut Proofs.C18CmdEx.cfgH [b "/p/dang/"] Proofs.C18CmdEx.st0) { fs := Proofs.C18CmdEx.fsW }).2.trace = [] :=
  have h := Proofs.C18CmdEx.evalRefused
  ⟨⟨h.1.1, h.1.2.1, h.1.2.2.1⟩, h.2.1, h.2.2.2.1, h.2.2.2.2.1, h.2.2.2.2.2.1⟩

/-- COUNTEREXAMPLE to the full statement (REAL behaviour, replayed: `touch f; ln -s $PWD/f lf;
    trash-put lf/` → "cannot trash non existent 'lf/'", 74): a link to a FILE, spelled with trailing
    slashes (`lstat("lf//")`: ENOTDIR). -/
theorem put_link_full_counterexample_file_slash :
    (GoodArg Proofs.C18CmdEx.fsW Proofs.C18CmdEx.H [b "p"] (b "lf") ∧
      IsLink Proofs.C18CmdEx.fsW ([b "p"] ++ [b "lf"]) (b "/p/f")) ∧
    spelled [b "p"] (b "lf") 2 = b "/p/lf//" ∧
    (run noFaults (runPut Proofs.C18CmdEx.cfgH [b "/p/lf//"] Proofs.C18CmdEx.st0) { fs := Proofs.C18CmdEx.fsW }).1.outcomes =
      [(b "/p/lf//", .failedMissing)] ∧
    (run noFaults (runPut Proofs.C18CmdEx.cfgH [b "/p/lf//"] Proofs.C18CmdEx.st0) { fs := Proofs.C18CmdEx.fsW }).1.exit = 74 ∧
    (run noFaults (runPut Proofs.C18CmdEx.cfgH [b "/p/lf//"] Proofs.C18CmdEx.st0) { fs := Proofs.C18CmdEx.fsW }).2.trace = [] :=
  have h := Proofs.C18CmdEx.evalRefused
  ⟨⟨h.1.2.2.2.1, h.1.2.2.2.2⟩, h.2.2.1, h.2.2.2.2.2.2.1, h.2.2.2.2.2.2.2.1, h.2.2.2.2.2.2.2.2⟩

/-! ### 2. the volume is the link's, not its target's -/

/-- `put_link_volume_follows_link_not_target`.  A link `P/n` that lives on the volume of the home trash
    (`GoodArg.sameVolume`), in a world with a well-formed mount table where `info/` is not itself a
    mount point, is trashed into the HOME trash — a directory on the device of the link's parent
    (`dev fs (trashC H) = dev fs P`) — with an ABSOLUTE `Path=` (`put_link_home_partial`), and
    NO path on any other device changes.  So, wherever the link leads when followed (`LeadsTo … D`: the
    top of another volume, something on it): if `D` is on another device than the link, the trash
    directory used is not on `D`'s device, and every path on `D`'s device is as it was — nothing is
    created in `$topdir/.Trash-$uid` or `$topdir/.Trash/$uid` of the target's volume.
    ("On the device of `B`" rather than "under the mount point `B`": the two differ only by nested
    mount points, and for a link on `/m` that leads to `/` the second would be false.) -/
theorem put_link_volume_follows_link_not_target (c : PutCfg) (fs : FS) (H P : CPath) (n : Name) (t : Bytes)
    (W : HomeWorld c fs H) (A : GoodArg fs H P n) (L : IsLink fs (P ++ [n]) t)
    (k : Nat) (hk : SlashOk fs c.cwd P n k)
    (hlen : n.length + 10 ≤ 255) (hfree : ∀ rel, fs.get (filesC H ++ [n] ++ rel) = none)
    (hfreeI : fs.get (infoC H ++ [n ++ trashinfoExt]) = none)
    (hm : MountsOk fs) (hinm : fs.isMount (infoC H) = false) (st : PutSt) :
    let r := run noFaults (runPut c [spelled P n k] st) { fs := fs }
    r.1.outcomes = [(spelled P n k, .trashed (homeStr H) (n ++ trashinfoExt))] ∧ r.1.exit = 0 ∧
    r.2.fs.get (filesC H ++ [n]) = some (.link t) ∧
    dev fs (trashC H) = dev fs P ∧
    (∀ q, dev fs q ≠ dev fs P → r.2.fs.get q = fs.get q) ∧
    ∀ D, LeadsTo fs c.cwd P n D → dev fs D ≠ dev fs P →
      dev fs (trashC H) ≠ dev fs D ∧ ∀ q, dev fs q = dev fs D → r.2.fs.get q = fs.get q := by
  intro r
  obtain ⟨o1, _, o3, l1, _⟩ := Proofs.C18CmdHome.put_link_home W A L hlen hfree hfreeI k hk st
  obtain ⟨d1, d2⟩ := Proofs.C18CmdHome.put_link_home_devices W A L hlen hfree hfreeI hm hinm k hk st
  exact ⟨o1, o3, l1, d1, d2, fun D _ hD => ⟨fun e => hD (e.symm.trans d1), fun q hq => d2 q (hq ▸ hD)⟩⟩

/-- `put_link_volume_follows_link_not_target_other`.  A link `V/P'/n` that lives on ANOTHER volume `V`
    than the home trash (the setting of `C07Cmd.other_volume_alt`: no `V/.Trash`, nothing at
    `V/.Trash-$uid`), whatever its target — e.g. something on the volume of the home trash: it is
    trashed into `V/.Trash-$uid` (made on demand), NOT into the home trash; `files/n` is the link;
    the recorded `Path=` is `P'/n`, RELATIVE to the top directory `V` of the link's volume; and no
    path on any other device than `V` changes — in particular none on the device the link leads to. -/
theorem put_link_volume_follows_link_not_target_other (c : PutCfg) (fs : FS) (H Qh Rh V P' : CPath) (n : Name) (t : Bytes)
    (C : HomeCfg c H) (W : OtherVolume fs H Qh Rh V) (hm : MountsOk fs) (S : FreshSite fs V (altName c.uid) [])
    (A : Arg fs (V ++ P') n) (hon : dev fs (V ++ P') = V) (hu : GoodNames [uidName c.uid])
    (hnoTop : fs.get (V ++ [b ".Trash"]) = none)
    (L : IsLink fs ((V ++ P') ++ [n]) t) (k : Nat) (hk : SlashOk fs c.cwd (V ++ P') n k) (st : PutSt) :
    let r := run noFaults (runPut c [spelled (V ++ P') n k] st) { fs := fs }
    let fs' := r.2.fs
    r.1.outcomes = [(spelled (V ++ P') n k, .trashed (toStr (V ++ [altName c.uid])) (n ++ trashinfoExt))] ∧
    r.1.crash = none ∧ r.1.exit = 0 ∧
    fs'.get (filesOf (V ++ [altName c.uid]) ++ [n]) = some (.link t) ∧
    (∀ z rel, fs'.get (filesOf (V ++ [altName c.uid]) ++ [n] ++ z :: rel) = none) ∧
    fs'.get ((V ++ P') ++ [n]) = none ∧
    (fs'.get (infoOf (V ++ [altName c.uid]) ++ [n ++ trashinfoExt]) =
        some (.file (formatTrashinfoWith (relLoc P' n) c.dateStr) 0o600 0) ∧
      parsePath (universalNewlines (formatTrashinfoWith (relLoc P' n) c.dateStr)) = some (relLoc P' n)) ∧
    (∀ q, q ≠ (V ++ P') ++ [n] → ¬ V ++ [altName c.uid] <+: q → q ≠ V → q ≠ V ++ P' → fs'.get q = fs.get q) ∧
    keptDir fs fs' V ∧ keptDir fs fs' (V ++ P') ∧
    (∀ q, dev fs q ≠ V → fs'.get q = fs.get q) ∧
    ∀ D, LeadsTo fs c.cwd (V ++ P') n D → dev fs D ≠ V → ∀ q, dev fs q = dev fs D → fs'.get q = fs.get q := by
  intro r fs'
  obtain ⟨o1, o2, o3, l1, l2, l3, l4, l5, l6, l7, l8⟩ :=
    Proofs.C18CmdVol.put_link_other_volume C W hm S A hon hu hnoTop L k hk st
  exact ⟨o1, o2, o3, l1, l2, l3, ⟨l4, C02Cmd.path_read_back _ _⟩, l5, l6, l7, l8, fun D _ hD q hq => l8 q (hq ▸ hD)⟩

/-! ### 3. `link/` where the link points to a directory -/

/-- `put_link_trailing_slash_dir_target`.  The case the kernel makes hard: the argument is `link/`
    (one trailing slash — or `k` of them), and the link leads to the directory `D` (`stat` of the
    argument is a directory; to the kernel `link/` IS that directory).  Everyday world, home trash
    there, free name; `D` not on the way to the link nor to the new names in the trash (`Aside`).
    Still the LINK is moved: `files/n` is the link node with its target string and NOTHING below it
    (not the directory, not its content); nothing is left at `P/n`; and the directory `D` with its
    whole content is where and what it was. -/
theorem put_link_trailing_slash_dir_target (c : PutCfg) (fs : FS) (H P : CPath) (n : Name) (t : Bytes)
    (W : HomeWorld c fs H) (A : GoodArg fs H P n) (L : IsLink fs (P ++ [n]) t)
    (D : CPath) (m tt : Nat) (hlead : LeadsTo fs c.cwd P n D) (hD : fs.get D = some (.dir m tt))
    (ha : Aside D (P ++ [n]) (filesC H ++ [n]) (infoC H ++ [n ++ trashinfoExt]))
    (hlen : n.length + 10 ≤ 255) (hfree : ∀ rel, fs.get (filesC H ++ [n] ++ rel) = none)
    (hfreeI : fs.get (infoC H ++ [n ++ trashinfoExt]) = none) (k : Nat) (st : PutSt) :
    let r := run noFaults (runPut c [toStr (P ++ [n]) ++ List.replicate (k + 1) slash] st) { fs := fs }
    let fs' := r.2.fs
    r.1.outcomes = [(toStr (P ++ [n]) ++ List.replicate (k + 1) slash, .trashed (homeStr H) (n ++ trashinfoExt))] ∧
    r.1.crash = none ∧ r.1.exit = 0 ∧
    fs'.get (filesC H ++ [n]) = some (.link t) ∧ (∀ z rel, fs'.get (filesC H ++ [n] ++ z :: rel) = none) ∧
    fs'.get (P ++ [n]) = none ∧
    fs'.get D = some (.dir m tt) ∧ (∀ rel, fs'.get (D ++ rel) = fs.get (D ++ rel)) := by
  intro r fs'
  obtain ⟨o1, o2, o3, l1, l2, l3, l4⟩ := Proofs.C18CmdHome.put_link_slash_dir W A L hlen hfree hfreeI hlead hD ha (k + 1) st
  refine ⟨o1, o2, o3, l1, l2, l3, ?_, l4⟩
  have := l4 []
  rw [List.append_nil] at this
  exact this.trans hD

/-! ### 4. `link/inside`, then `link/`, in one run -/

/-- `put_through_link`.  The contrast to section 2: the argument `P/n/e` goes THROUGH the link `P/n`, whose
    target string is the canonical spelling of the directory `B/D'` of ANOTHER volume `B` than the home
    trash's (`Through`, `OtherVolume`; no `B/.Trash`, nothing at `B/.Trash-$uid`), and names the entry
    `B/D'/e` there (`Arg`).  `trash-put P/n/e` computes the volume from the RESOLVED parent
    (`realpath("P/n") = B/D'`): the home trash is skipped (volume gate), `B/.Trash-$uid` is made and
    the entry `B/D'/e` — not anything at `P` — is moved there with ONE `rename` (`firstUseTrace`, no copy);
    the recorded `Path=` is `D'/e`, relative to the top directory `B` of the TARGET's volume. -/
theorem put_through_link (c : PutCfg) (fs : FS) (H Qh Rh B D' P : CPath) (n e : Name) (C : HomeCfg c H)
    (W : OtherVolume fs H Qh Rh B) (hm : MountsOk fs) (S : FreshSite fs B (altName c.uid) [])
    (T : Through fs P n (B ++ D')) (A : Arg fs (B ++ D') e) (hon : dev fs (B ++ D') = B)
    (hu : GoodNames [uidName c.uid]) (hnoTop : fs.get (B ++ [b ".Trash"]) = none) (st : PutSt) :
    let r := run noFaults (runPut c [toStr ((P ++ [n]) ++ [e])] st) { fs := fs }
    r.1.outcomes = [(toStr ((P ++ [n]) ++ [e]), .trashed (toStr (B ++ [altName c.uid])) (e ++ trashinfoExt))] ∧
    r.1.crash = none ∧ r.1.exit = 0 ∧ r.2.outs = [] ∧
    r.2.trace = firstUseTrace B (altName c.uid) [] ((B ++ D') ++ [e]) e (formatTrashinfoWith (relLoc D' e) c.dateStr) ∧
    ∃ fs1, SiteCreated fs fs1 B (altName c.uid) [] ∧
      Trashed fs1 r.2.fs (infoOf (B ++ [altName c.uid])) (filesOf (B ++ [altName c.uid])) ((B ++ D') ++ [e])
        (e ++ trashinfoExt) (formatTrashinfoWith (relLoc D' e) c.dateStr) :=
  Proofs.C18CmdThrough.put_through_link C W hm S T A hon hu hnoTop st

/-- Two arguments in one run never share anything but the file system: when `trash-put a1` trashes
    `a1`, then `trash-put a1 a2` reports that for `a1` and, for `a2`, exactly what `trash-put a2` reports
    from the file system the first run leaves (with the scripted input `st1` it left): outcomes,
    abort and exit status, final file system. -/
theorem put_then (c : PutCfg) (a1 a2 : Bytes) (st : PutSt) (fs : FS) (d1 n1 : Bytes)
    (h : (run noFaults (runPut c [a1] st) { fs := fs }).1.outcomes = [(a1, .trashed d1 n1)]) :
    ∃ st1,
      (run noFaults (runPut c [a1, a2] st) { fs := fs }).1.outcomes =
        (a1, .trashed d1 n1) ::
          (run noFaults (runPut c [a2] st1) { fs := (run noFaults (runPut c [a1] st) { fs := fs }).2.fs }).1.outcomes ∧
      (run noFaults (runPut c [a1, a2] st) { fs := fs }).1.crash =
        (run noFaults (runPut c [a2] st1) { fs := (run noFaults (runPut c [a1] st) { fs := fs }).2.fs }).1.crash ∧
      (run noFaults (runPut c [a1, a2] st) { fs := fs }).1.exit =
        (run noFaults (runPut c [a2] st1) { fs := (run noFaults (runPut c [a1] st) { fs := fs }).2.fs }).1.exit ∧
      (run noFaults (runPut c [a1, a2] st) { fs := fs }).2.fs =
        (run noFaults (runPut c [a2] st1) { fs := (run noFaults (runPut c [a1] st) { fs := fs }).2.fs }).2.fs :=
  Proofs.C18CmdSeq.runPut_then c a1 a2 st fs d1 n1 h

/-- `put_through_link_then_link`.  `trash-put P/n/e P/n[///]` where `P/n` is a link on the volume of the
    (existing) home trash whose target is the directory `B/D'` of another volume `B` (the settings of
    `put_through_link` and of `put_link_home_partial` together; the entry `B/D'/e` is not an ancestor of
    the link nor of the home trash's `files/`, `info/`; `info/` is not a mount point).  One run, exit 0:
    * the FIRST argument trashes the entry `B/D'/e` on the TARGET's volume — its whole subtree is under
      `B/.Trash-$uid/files/e`, `Path=D'/e` relative to `B`, nothing is left at `B/D'/e`;
    * the SECOND trashes the LINK on ITS OWN volume — `files/n` of the HOME trash is the link node with
      its target string, `Path=` the absolute location of the link, nothing is left at `P/n` — although
      by then the same link has just been used to reach another volume: no state carried from the
      first argument (volume, candidate list, names) leaks into the second;
    * the directory `B/D'` the link pointed to is still a directory. -/
theorem put_through_link_then_link (c : PutCfg) (fs : FS) (H Qh Rh B D' P : CPath) (n e : Name) (C : HomeCfg c H)
    (W : OtherVolume fs H Qh Rh B) (hm : MountsOk fs) (S : FreshSite fs B (altName c.uid) [])
    (T : Through fs P n (B ++ D')) (A : Arg fs (B ++ D') e) (hon : dev fs (B ++ D') = B)
    (hu : GoodNames [uidName c.uid]) (hnoTop : fs.get (B ++ [b ".Trash"]) = none)
    (Wh : HomeWorld c fs H) (Al : GoodArg fs H P n) (Lk : IsLink fs (P ++ [n]) (toStr (B ++ D')))
    (hlen : n.length + 10 ≤ 255) (hfree : ∀ rel, fs.get (filesC H ++ [n] ++ rel) = none)
    (hfreeI : fs.get (infoC H ++ [n ++ trashinfoExt]) = none) (hinm : fs.isMount (infoC H) = false)
    (hs1 : ¬ ((B ++ D') ++ [e]) <+: P ++ [n]) (hs2 : ¬ ((B ++ D') ++ [e]) <+: filesC H)
    (hs3 : ¬ ((B ++ D') ++ [e]) <+: infoC H) (k : Nat) (st : PutSt) :
    let r := run noFaults (runPut c [toStr ((P ++ [n]) ++ [e]), spelled P n k] st) { fs := fs }
    let fs2 := r.2.fs
    r.1.outcomes = [(toStr ((P ++ [n]) ++ [e]), .trashed (toStr (B ++ [altName c.uid])) (e ++ trashinfoExt)),
                    (spelled P n k, .trashed (homeStr H) (n ++ trashinfoExt))] ∧
    r.1.crash = none ∧ r.1.exit = 0 ∧
    (∀ rel, fs2.get (filesOf (B ++ [altName c.uid]) ++ [e] ++ rel) = fs.get ((B ++ D') ++ [e] ++ rel)) ∧
    fs2.get (infoOf (B ++ [altName c.uid]) ++ [e ++ trashinfoExt]) =
      some (.file (formatTrashinfoWith (relLoc D' e) c.dateStr) 0o600 0) ∧
    fs2.get ((B ++ D') ++ [e]) = none ∧
    fs2.get (filesC H ++ [n]) = some (.link (toStr (B ++ D'))) ∧
    fs2.get (infoC H ++ [n ++ trashinfoExt]) = some (.file (formatTrashinfoWith (toStr (P ++ [n])) c.dateStr) 0o600 0) ∧
    fs2.get (P ++ [n]) = none ∧
    fs2.isDirAt (B ++ D') = true :=
  Proofs.C18CmdSeq.put_through_link_then_link C W hm S T A hon hu hnoTop Wh Al Lk hlen hfree hfreeI hinm hs1 hs2 hs3 k st

/-- Non-vacuity and the theorem at work: world `fsW`, `/p/lsub -> /m/sub`, `trash-put /p/lsub/in /p/lsub/`. -/
example :
    (Through Proofs.C18CmdEx.fsW [b "p"] (b "lsub") (Proofs.C18CmdEx.M ++ [b "sub"]) ∧
      Arg Proofs.C18CmdEx.fsW (Proofs.C18CmdEx.M ++ [b "sub"]) (b "in") ∧
      GoodArg Proofs.C18CmdEx.fsW Proofs.C18CmdEx.H [b "p"] (b "lsub") ∧
      IsLink Proofs.C18CmdEx.fsW ([b "p"] ++ [b "lsub"]) (toStr (Proofs.C18CmdEx.M ++ [b "sub"]))) ∧
    (run noFaults (runPut Proofs.C18CmdEx.cfgH
        [toStr (([b "p"] ++ [b "lsub"]) ++ [b "in"]), spelled [b "p"] (b "lsub") 1] Proofs.C18CmdEx.st0)
        { fs := Proofs.C18CmdEx.fsW }).1.outcomes =
      [(toStr (([b "p"] ++ [b "lsub"]) ++ [b "in"]),
          .trashed (toStr (Proofs.C18CmdEx.M ++ [altName Proofs.C18CmdEx.cfgH.uid])) (b "in" ++ trashinfoExt)),
       (spelled [b "p"] (b "lsub") 1, .trashed (homeStr Proofs.C18CmdEx.H) (b "lsub" ++ trashinfoExt))] :=
  ⟨⟨Proofs.C18CmdEx.throughLsub, Proofs.C18CmdEx.argIn, Proofs.C18CmdEx.argLsub, Proofs.C18CmdEx.linkLsub⟩,
   (put_through_link_then_link _ _ _ _ _ _ _ _ _ _ Proofs.C18CmdEx.homeCfg Proofs.C18CmdEx.otherM Proofs.C18CmdEx.mountsW
      Proofs.C18CmdEx.altM Proofs.C18CmdEx.throughLsub Proofs.C18CmdEx.argIn (by decide +kernel) Proofs.C18CmdEx.uidGood
      (by decide +kernel) Proofs.C18CmdEx.world Proofs.C18CmdEx.argLsub Proofs.C18CmdEx.linkLsub (by decide +kernel)
      (Proofs.C18CmdEx.freeFiles _) (Proofs.C18CmdEx.infoEmpty _) Proofs.C18CmdEx.infoNotMount
      (by decide +kernel) (by decide +kernel) (by decide +kernel) 1 Proofs.C18CmdEx.st0).1⟩

/-- The same run, and the REVERSED order, evaluated by the kernel through the twins, independently of
    the theorems.  World `fsW`: `/p/lsub -> /m/sub`, the link on the root volume (where the home trash
    is), its target a directory of the volume `/m`.  `trash-put /p/lsub/in /p/lsub/`: `/m/sub/in` goes to
    `/m/.Trash-0` (made on demand) with `Path=sub/in`; the link goes to the home trash with
    `Path=/p/lsub`; `/m/sub` and the rest of its content stay; nothing of the one lands in the trash
    directory of the other.  In the other order the link goes first and `/p/lsub/in` no longer exists
    ("non existent": the way to it is gone), `/m/sub/in` is untouched. -/
theorem put_through_link_then_link_evaluated :
    (let r := run noFaults (runPut Proofs.C18CmdEx.cfgH [b "/p/lsub/in", b "/p/lsub/"] Proofs.C18CmdEx.st0)
        { fs := Proofs.C18CmdEx.fsW }
     r.1.outcomes = [(b "/p/lsub/in", .trashed (b "/m/.Trash-0") (b "in.trashinfo")),
                     (b "/p/lsub/", .trashed (b "/h/.local/share/Trash") (b "lsub.trashinfo"))] ∧
     r.1.exit = 0 ∧
     r.2.fs.get (Proofs.C18CmdEx.M ++ [altName 0, b "files", b "in"]) = some (.file [105] 0o644 9) ∧
     r.2.fs.get (Proofs.C18CmdEx.M ++ [altName 0, b "info", b "in.trashinfo"]) =
       some (.file (formatTrashinfoWith (b "sub/in") (b "D")) 0o600 0) ∧
     r.2.fs.get (Proofs.C18CmdEx.M ++ [b "sub", b "in"]) = none ∧
     r.2.fs.get (filesC Proofs.C18CmdEx.H ++ [b "lsub"]) = some (.link (b "/m/sub")) ∧
     r.2.fs.get (infoC Proofs.C18CmdEx.H ++ [b "lsub.trashinfo"]) =
       some (.file (formatTrashinfoWith (b "/p/lsub") (b "D")) 0o600 0) ∧
     r.2.fs.get [b "p", b "lsub"] = none ∧
     r.2.fs.get (Proofs.C18CmdEx.M ++ [b "sub"]) = some Proofs.C18CmdEx.dN ∧
     r.2.fs.get (Proofs.C18CmdEx.M ++ [b "sub", b "back"]) = some (.link (b "/p/d")) ∧
     r.2.fs.get (Proofs.C18CmdEx.M ++ [altName 0, b "files", b "lsub"]) = none ∧
     r.2.fs.get (filesC Proofs.C18CmdEx.H ++ [b "in"]) = none) ∧
    (let r := run noFaults (runPut Proofs.C18CmdEx.cfgH [b "/p/lsub/", b "/p/lsub/in"] Proofs.C18CmdEx.st0)
        { fs := Proofs.C18CmdEx.fsW }
     r.1.outcomes = [(b "/p/lsub/", .trashed (b "/h/.local/share/Trash") (b "lsub.trashinfo")),
                     (b "/p/lsub/in", .failedMissing)] ∧
     r.2.fs.get (Proofs.C18CmdEx.M ++ [b "sub", b "in"]) = some (.file [105] 0o644 9)) :=
  ⟨Proofs.C18CmdEx.evalThrough, Proofs.C18CmdEx.evalThroughReversed⟩

/-! ### 5. put, then restore -/

/-- `put_link_restore_identity`.  `C02Cmd.put_restore_identity_everyday` accepts a link entry (`GoodArg`
    is for an entry of any kind), and by `put_trailing_slashes_same_run` the put with trailing slashes
    leaves the state of the put without: `trash-put P/n[///]`, then `trash-restore` (same
    environment, no mount point listed, directory argument "/" or `P` or none from a directory on the
    way) answered "0": both exit 0; after the put `files/n` is the link and `P/n` is gone; after
    the restore the SAME link node (same target string) is back at `P/n`, payload and info file are
    gone, every path other than `P`, `files/`, `info/` is as in `fs`, and these three are the
    directories they were with the canonical fresh mtime. -/
theorem put_link_restore_identity (c : PutCfg) (fs : FS) (H P : CPath) (n : Name) (t : Bytes)
    (W : HomeWorld c fs H) (A : GoodArg fs H P n) (L : IsLink fs (P ++ [n]) t)
    (k : Nat) (hk : SlashOk fs c.cwd P n k) (st : PutSt) (rc : ReadCfg) (o : RestoreOpts)
    (hlen : n.length + 10 ≤ 255)
    (hinfoEmpty : ∀ x, fs.get (infoC H ++ [x]) = none)
    (hfree : ∀ rel, fs.get (filesC H ++ [n] ++ rel) = none)
    (hnotMount : fs.isMount (filesC H ++ [n]) = false)
    (henv : rc.env = c.env) (hmp : rc.mountPoints = []) (hd : o.trashDir = none ∨ o.trashDir = some [])
    (hpath : o.path = b "/" ∨ o.path = toStr P ∨ (o.path = [] ∧ GoodNames rc.cwd ∧ rc.cwd <+: P)) :
    let p := run noFaults (runPut c [spelled P n k] st) { fs := fs }
    let r := run noFaults (runRestore rc o (some (b "0"))) { fs := p.2.fs }
    p.1.outcomes = [(spelled P n k, .trashed (homeStr H) (n ++ trashinfoExt))] ∧ p.1.crash = none ∧ p.1.exit = 0 ∧
    p.2.fs.get (filesC H ++ [n]) = some (.link t) ∧ p.2.fs.get (P ++ [n]) = none ∧
    r.1.exit = 0 ∧ r.1.crash = none ∧
    r.2.fs.get (P ++ [n]) = some (.link t) ∧
    r.2.fs.get (filesC H ++ [n]) = none ∧ r.2.fs.get (infoC H ++ [n ++ trashinfoExt]) = none ∧
    (∀ q, q ≠ P → q ≠ filesC H → q ≠ infoC H → r.2.fs.get q = fs.get q) ∧
    (∀ q, q = P ∨ q = filesC H ∨ q = infoC H → ∃ m t, fs.get q = some (.dir m t) ∧ r.2.fs.get q = some (.dir m 0)) :=
  Proofs.C18CmdHome.put_link_restore W A L hlen hfree k hk st rc o hinfoEmpty hnotMount henv hmp hd hpath

/-! ### 6. non-vacuity: the world `fsW` (Proofs/C18CmdEx.lean)

HOME=/h with an existing empty trash on the root volume, a second volume `/m`; in `/p`: the file `f`,
the directory `d` with `d/c`, the links `dang -> nowhere`, `lf -> /p/f`, `ld -> /p/d`, `lm -> /m`,
`ll -> ld`, `lsub -> /m/sub`; on `/m`: `sub/in` and the link `sub/back -> /p/d`. -/

section examples
open TrashVerif.Proofs.C18CmdEx

/-- the hypotheses hold: five links of `/p` (dangling, to a file, to a directory, to the top of `/m`,
    to another link); trailing slashes (any number) on those that lead to a directory -/
example :
    HomeWorld cfgH fsW H ∧ MountsOk fsW ∧
    (GoodArg fsW H [b "p"] (b "dang") ∧ IsLink fsW ([b "p"] ++ [b "dang"]) (b "nowhere") ∧ SlashOk fsW cfgH.cwd [b "p"] (b "dang") 0) ∧
    (GoodArg fsW H [b "p"] (b "lf") ∧ IsLink fsW ([b "p"] ++ [b "lf"]) (b "/p/f") ∧ SlashOk fsW cfgH.cwd [b "p"] (b "lf") 0) ∧
    (GoodArg fsW H [b "p"] (b "ld") ∧ IsLink fsW ([b "p"] ++ [b "ld"]) (b "/p/d") ∧ SlashOk fsW cfgH.cwd [b "p"] (b "ld") 1) ∧
    (GoodArg fsW H [b "p"] (b "lm") ∧ IsLink fsW ([b "p"] ++ [b "lm"]) (b "/m") ∧ SlashOk fsW cfgH.cwd [b "p"] (b "lm") 2) ∧
    (GoodArg fsW H [b "p"] (b "ll") ∧ IsLink fsW ([b "p"] ++ [b "ll"]) (b "ld") ∧ SlashOk fsW cfgH.cwd [b "p"] (b "ll") 1) ∧
    LeadsTo fsW cfgH.cwd [b "p"] (b "ld") [b "p", b "d"] ∧ LeadsTo fsW cfgH.cwd [b "p"] (b "ll") [b "p", b "d"] ∧
    LeadsTo fsW cfgH.cwd [b "p"] (b "lm") M :=
  ⟨world, mountsW, ⟨argDang, linkDang, slash0 _ _⟩, ⟨argLf, linkLf, slash0 _ _⟩, ⟨argLd, linkLd, slashLd 1⟩,
   ⟨argLm, linkLm, slashLm 2⟩, ⟨argLl, linkLl, slashLl 1⟩, leadsLd, leadsLl, leadsLm⟩

/-- `put_link_home_partial` at work: `/p/dang`, `/p/lf`, `/p/ld/`, `/p/lm//`, `/p/ll/` -/
example :
    (run noFaults (runPut cfgH [spelled [b "p"] (b "dang") 0] st0) { fs := fsW }).2.fs.get (filesC H ++ [b "dang"]) =
      some (.link (b "nowhere")) ∧
    (run noFaults (runPut cfgH [spelled [b "p"] (b "lf") 0] st0) { fs := fsW }).2.fs.get (filesC H ++ [b "lf"]) =
      some (.link (b "/p/f")) ∧
    (run noFaults (runPut cfgH [spelled [b "p"] (b "ld") 1] st0) { fs := fsW }).2.fs.get (filesC H ++ [b "ld"]) =
      some (.link (b "/p/d")) ∧
    (run noFaults (runPut cfgH [spelled [b "p"] (b "lm") 2] st0) { fs := fsW }).2.fs.get (filesC H ++ [b "lm"]) =
      some (.link (b "/m")) ∧
    (run noFaults (runPut cfgH [spelled [b "p"] (b "ll") 1] st0) { fs := fsW }).2.fs.get (filesC H ++ [b "ll"]) =
      some (.link (b "ld")) :=
  ⟨(put_link_home_partial _ _ _ _ _ _ world argDang linkDang 0 (slash0 _ _) (by decide +kernel) (freeFiles _) (infoEmpty _) st0).2.2.2.1,
   (put_link_home_partial _ _ _ _ _ _ world argLf linkLf 0 (slash0 _ _) (by decide +kernel) (freeFiles _) (infoEmpty _) st0).2.2.2.1,
   (put_link_home_partial _ _ _ _ _ _ world argLd linkLd 1 (slashLd 1) (by decide +kernel) (freeFiles _) (infoEmpty _) st0).2.2.2.1,
   (put_link_home_partial _ _ _ _ _ _ world argLm linkLm 2 (slashLm 2) (by decide +kernel) (freeFiles _) (infoEmpty _) st0).2.2.2.1,
   (put_link_home_partial _ _ _ _ _ _ world argLl linkLl 1 (slashLl 1) (by decide +kernel) (freeFiles _) (infoEmpty _) st0).2.2.2.1⟩

/-- `put_link_volume_follows_link_not_target` at work: `/p/lm//` leads to the top of `/m`; the home
    trash is not on the device `/m`, and `/m` with everything on it is as it was -/
example :
    dev fsW (trashC H) ≠ dev fsW M ∧
    ∀ q, dev fsW q = dev fsW M →
      (run noFaults (runPut cfgH [spelled [b "p"] (b "lm") 2] st0) { fs := fsW }).2.fs.get q = fsW.get q :=
  (put_link_volume_follows_link_not_target _ _ _ _ _ _ world argLm linkLm 2 (slashLm 2) (by decide +kernel) (freeFiles _)
    (infoEmpty _) mountsW infoNotMount st0).2.2.2.2.2 M leadsLm (by decide +kernel)

/-- `put_link_volume_follows_link_not_target_other` at work: `/m/sub/back/` (→ `/p/d` on the root
    volume) goes to `/m/.Trash-0`; hypotheses, outcome, and nothing changed outside the device `/m` -/
example :
    (OtherVolume fsW H (trashC H) [] M ∧ FreshSite fsW M (altName cfgH.uid) [] ∧ Arg fsW (M ++ [b "sub"]) (b "back") ∧
      IsLink fsW ((M ++ [b "sub"]) ++ [b "back"]) (b "/p/d") ∧ LeadsTo fsW cfgH.cwd (M ++ [b "sub"]) (b "back") [b "p", b "d"]) ∧
    (run noFaults (runPut cfgH [spelled (M ++ [b "sub"]) (b "back") 1] st0) { fs := fsW }).1.outcomes =
      [(spelled (M ++ [b "sub"]) (b "back") 1, .trashed (toStr (M ++ [altName cfgH.uid])) (b "back" ++ trashinfoExt))] ∧
    ∀ q, dev fsW q ≠ M →
      (run noFaults (runPut cfgH [spelled (M ++ [b "sub"]) (b "back") 1] st0) { fs := fsW }).2.fs.get q = fsW.get q :=
  have h := put_link_volume_follows_link_not_target_other _ _ _ _ _ _ _ _ _ homeCfg otherM mountsW altM argBack
    (by decide +kernel) uidGood (by decide +kernel) linkBack 1 (slashBack 1) st0
  ⟨⟨otherM, altM, argBack, linkBack, leadsBack⟩, h.1, h.2.2.2.2.2.2.2.2.2.2.1⟩

/-- `put_link_trailing_slash_dir_target` at work: `/p/ld/` and `/p/ll/` (a link to the link) lead to
    `/p/d`: the directory and `d/c` stay -/
example :
    (run noFaults (runPut cfgH [toStr ([b "p"] ++ [b "ld"]) ++ List.replicate (0 + 1) slash] st0) { fs := fsW }).2.fs.get
      ([b "p", b "d"] ++ [b "c"]) = fsW.get ([b "p", b "d"] ++ [b "c"]) ∧
    (run noFaults (runPut cfgH [toStr ([b "p"] ++ [b "ll"]) ++ List.replicate (0 + 1) slash] st0) { fs := fsW }).2.fs.get
      (filesC H ++ [b "ll"]) = some (.link (b "ld")) :=
  ⟨(put_link_trailing_slash_dir_target _ _ _ _ _ _ world argLd linkLd _ 0o750 5 leadsLd (by decide +kernel)
      (asideD _ (by decide +kernel)) (by decide +kernel) (freeFiles _) (infoEmpty _) 0 st0).2.2.2.2.2.2.2 [b "c"],
   (put_link_trailing_slash_dir_target _ _ _ _ _ _ world argLl linkLl _ 0o750 5 leadsLl (by decide +kernel)
      (asideD _ (by decide +kernel)) (by decide +kernel) (freeFiles _) (infoEmpty _) 0 st0).2.2.2.1⟩

/-- `put_link_restore_identity` at work: `trash-put /p/ld/`, then `trash-restore /` answered "0", for
    every sort mode, with or without `--overwrite`: the link `/p/ld -> /p/d` is back -/
example (sort : SortMode) (ov : Bool) :
    (run noFaults (runRestore (C02Cmd.readCfgOf cfgH []) { path := b "/", sort := sort, overwrite := ov } (some (b "0")))
      { fs := (run noFaults (runPut cfgH [spelled [b "p"] (b "ld") 1] st0) { fs := fsW }).2.fs }).2.fs.get ([b "p"] ++ [b "ld"]) =
      some (.link (b "/p/d")) :=
  (put_link_restore_identity _ _ _ _ _ _ world argLd linkLd 1 (slashLd 1) st0 (C02Cmd.readCfgOf cfgH []) _ (by decide +kernel)
    infoEmpty (freeFiles _) (by decide +kernel) rfl rfl (Or.inl rfl) (Or.inl rfl)).2.2.2.2.2.2.2.1

/-- the model itself, evaluated by the kernel through the twins (independently of the theorems): every
    kind of link, spellings with 0, 1 and 2 trailing slashes — the link node with its target string
    is in `files/`, gone from `/p`; `/p/f`, `/p/d`, `/p/d/c`, `/m`, `/p/ld` (the target of `ll`) are as
    they were; nothing is made on `/m` for `/p/lm//`; the recorded location is the link's own -/
example :
    (put1 (b "/p/dang")).1.outcomes = [(b "/p/dang", .trashed (b "/h/.local/share/Trash") (b "dang.trashinfo"))] ∧
    (put1 (b "/p/dang")).2.fs.get (tF ++ [b "dang"]) = some (.link (b "nowhere")) ∧
    (put1 (b "/p/lf")).1.outcomes = [(b "/p/lf", .trashed (b "/h/.local/share/Trash") (b "lf.trashinfo"))] ∧
    (put1 (b "/p/lf")).2.fs.get (tF ++ [b "lf"]) = some (.link (b "/p/f")) ∧
    (put1 (b "/p/lf")).2.fs.get [b "p", b "f"] = some (.file [120] 0o644 7) ∧
    (put1 (b "/p/ld/")).1.outcomes = [(b "/p/ld/", .trashed (b "/h/.local/share/Trash") (b "ld.trashinfo"))] ∧
    (put1 (b "/p/ld/")).2.fs.get (tF ++ [b "ld"]) = some (.link (b "/p/d")) ∧
    (put1 (b "/p/ld/")).2.fs.get (tF ++ [b "ld", b "c"]) = none ∧
    (put1 (b "/p/ld/")).2.fs.get [b "p", b "ld"] = none ∧
    (put1 (b "/p/ld/")).2.fs.get [b "p", b "d"] = some (.dir 0o750 5) ∧
    (put1 (b "/p/ld/")).2.fs.get [b "p", b "d", b "c"] = some (.file [99] 0o600 3) ∧
    (put1 (b "/p/ld/")).2.fs.get (tI ++ [b "ld.trashinfo"]) = some (.file (formatTrashinfoWith (b "/p/ld") (b "D")) 0o600 0) ∧
    (put1 (b "/p/lm//")).1.outcomes = [(b "/p/lm//", .trashed (b "/h/.local/share/Trash") (b "lm.trashinfo"))] ∧
    (put1 (b "/p/lm//")).2.fs.get (tF ++ [b "lm"]) = some (.link (b "/m")) ∧
    (put1 (b "/p/lm//")).2.fs.get (M ++ [altName 0]) = none ∧ (put1 (b "/p/lm//")).2.fs.get (M ++ [b ".Trash"]) = none ∧
    (put1 (b "/p/lm//")).2.fs.get M = some dN ∧
    (put1 (b "/p/ll/")).1.outcomes = [(b "/p/ll/", .trashed (b "/h/.local/share/Trash") (b "ll.trashinfo"))] ∧
    (put1 (b "/p/ll/")).2.fs.get (tF ++ [b "ll"]) = some (.link (b "ld")) ∧
    (put1 (b "/p/ll/")).2.fs.get [b "p", b "ld"] = some (.link (b "/p/d")) := evalHome

/-- … and the link of `/m` whose target is on the root volume: `/m/.Trash-0`, `Path=sub/back` -/
example :
    (put1 (b "/m/sub/back/")).1.outcomes = [(b "/m/sub/back/", .trashed (b "/m/.Trash-0") (b "back.trashinfo"))] ∧
    (put1 (b "/m/sub/back/")).2.fs.get (M ++ [altName 0, b "files", b "back"]) = some (.link (b "/p/d")) ∧
    (put1 (b "/m/sub/back/")).2.fs.get (M ++ [altName 0, b "info", b "back.trashinfo"]) =
      some (.file (formatTrashinfoWith (b "sub/back") (b "D")) 0o600 0) ∧
    (put1 (b "/m/sub/back/")).2.fs.get (tF ++ [b "back"]) = none ∧
    (put1 (b "/m/sub/back/")).2.fs.get [b "p", b "d"] = some (.dir 0o750 5) := evalBack

end examples

end TrashVerif.C18Cmd
