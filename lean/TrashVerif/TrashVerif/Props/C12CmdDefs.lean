/-
  Props/C12CmdDefs.lean — vocabulary of the COMMAND-level selection theorem of trash-rm
  (Props/C12Cmd.lean): several trash directories, each in the plain setting of Props/C10Loop.lean.
-/
import TrashVerif.Props.C10LoopDefs
namespace TrashVerif.C12Cmd
open TrashVerif PutCore Prog FS C09Hist C10Loop

/-- One trash directory of the run: its canonical path `T` (the scan yields the string `toStr T`),
    the volume `v` the scan pairs it with — the base the relative `Path=` values of ITS info files
    are joined to (`pjoin v rel`; an absolute `Path=` stays as it is) — and the `*.trashinfo` names
    its `info/` lists. -/
structure TDir where
  T : CPath
  v : Bytes
  names : List Bytes

def TDir.I (d : TDir) : CPath := d.T ++ [b "info"]
def TDir.F (d : TDir) : CPath := d.T ++ [b "files"]
/-- the pair `rmDirs` receives -/
def TDir.pair (d : TDir) : Bytes × Bytes := (toStr d.T, d.v)

/-- neither trash directory lies inside (or is) the other -/
def Apart (d e : TDir) : Prop := ¬ d.T <+: e.T ∧ ¬ e.T <+: d.T

/-- The plain setting of `C10Loop.plain_setting` for the directory `d` in the state `fs`, with the
    names being exactly what the listing of `info/` yields: the trash directory is the canonical path
    `T ≠ /` with good names, `T/info` and `T/files` are directories reached through directories only;
    the listed names hold no '/' and are at most 255 bytes long; no listed info is a symbolic link;
    what is at `info/N.trashinfo` and at `files/N` is a tree without mount point.  Nothing else is
    asked of the entries: an info may be unreadable, a directory, without `Path=`, without payload. -/
structure PlainDir (fs : FS) (d : TDir) : Prop where
  hT0 : d.T ≠ []
  hTn : C07.GoodNames d.T
  hI : C07.Plain fs d.I
  hF : C07.Plain fs d.F
  listed : d.names = (infoNames fs d.I).filter isTrashinfoName
  good : ∀ n ∈ d.names, slash ∉ n ∧ n.length ≤ 255
  notLink : ∀ n ∈ d.names, fs.isLinkAt (d.I ++ [n]) = false
  infoTree : ∀ n ∈ d.names, TreeOk fs (d.I ++ [n])
  payTree : ∀ n ∈ d.names, TreeOk fs (d.F ++ [stemOf n])

/-- the world of the command: `dom` lists every present path, every directory is plain, and the
    directories are pairwise apart -/
structure PlainWorld (fs : FS) (ds : List TDir) : Prop where
  wf : DomWf fs
  plain : ∀ d ∈ ds, PlainDir fs d
  apart : ds.Pairwise Apart

/-- what trash-rm selects in the directory `d`, evaluated on the state `fs` -/
def selected (fs : FS) (cwd : CPath) (pattern : Bytes) (d : TDir) : List Bytes :=
  rmSelected fs cwd pattern d.v (toStr d.T) d.names

/-- "`fs'` is `fs` with exactly the entries `sel d` of every directory `d` of `ds` removed":
    each of them is gone whole — `info/N.trashinfo` and everything at or below `files/N`; every path
    that is not at or below one of them and is not `info/` or `files/` of one of the directories is
    exactly as before; `info/` and `files/` keep kind and mode; the mount table is the same. -/
structure PurgedAll (fs fs' : FS) (ds : List TDir) (sel : TDir → List Bytes) : Prop where
  infoGone : ∀ d ∈ ds, ∀ n ∈ sel d, ∀ rel, fs'.get (d.I ++ [n] ++ rel) = none
  payloadGone : ∀ d ∈ ds, ∀ n ∈ sel d, ∀ rel, fs'.get (d.F ++ [stemOf n] ++ rel) = none
  frame : ∀ q, (∀ d ∈ ds, q ≠ d.I ∧ q ≠ d.F ∧
      ∀ n ∈ sel d, ¬ FS.under (d.I ++ [n]) q = true ∧ ¬ FS.under (d.F ++ [stemOf n]) q = true) →
    fs'.get q = fs.get q
  dirs : ∀ d ∈ ds, keptDir fs fs' d.I ∧ keptDir fs fs' d.F
  mounts : fs'.mounts = fs.mounts

/-- the listed name `n` of `d` is an ENTRY with original location `loc`: its info file is readable
    and has a `Path=` line `rel`; `loc` is `rel` joined to the volume of `d` (`pjoin`: `rel` itself when
    it is absolute — the home trash —, `v/rel` otherwise) -/
def EntryAt (fs : FS) (cwd : CPath) (d : TDir) (n loc : Bytes) : Prop :=
  ∃ text rel, contentsOf fs cwd (infoStr (toStr d.T) n) = some text ∧ parsePath text = some rel ∧
    loc = pjoin d.v rel

/-- the info file and the whole payload of the name `n` of `d` are gone -/
def Gone (fs' : FS) (d : TDir) (n : Bytes) : Prop :=
  (∀ rel, fs'.get (d.I ++ [n] ++ rel) = none) ∧ (∀ rel, fs'.get (d.F ++ [stemOf n] ++ rel) = none)

/-- the info file and the whole payload of the name `n` of `d` are exactly as before -/
def Intact (fs fs' : FS) (d : TDir) (n : Bytes) : Prop :=
  (∀ rel, fs'.get (d.I ++ [n] ++ rel) = fs.get (d.I ++ [n] ++ rel)) ∧
  (∀ rel, fs'.get (d.F ++ [stemOf n] ++ rel) = fs.get (d.F ++ [stemOf n] ++ rel))

end TrashVerif.C12Cmd
