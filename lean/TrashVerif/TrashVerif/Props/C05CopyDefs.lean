/-
  Props/C05CopyDefs.lean — hypotheses and conclusions of the theorems about the COPY FALLBACK of
  `shutil.move` (Props/C05Copy.lean).  Everything is phrased on `FS.get`.
-/
import TrashVerif.Model.Cmds
import TrashVerif.Props.PutCoreDefs
namespace TrashVerif.MoveCopy
open TrashVerif Prog

/-- The setting of one `shutil.move(src, dst)` that falls back to copying: the entry exists, and
    what is at or below it is listed in `dom` and tree-shaped (the parent of every present path is
    a directory); nothing is at or below `dst`; `dst`'s parent is a directory; `src` and `dst`
    are apart (neither at or below the other). -/
structure Setting (fs : FS) (src dst : CPath) : Prop where
  srcExists : (fs.get src).isSome = true
  srcListed : ∀ q, FS.under src q = true → (fs.get q).isSome = true → q ∈ fs.dom
  srcTree : ∀ q x, FS.under src q = true → (fs.get (q ++ [x])).isSome = true → fs.isDirAt q = true
  dstFree : ∀ rel, fs.get (dst ++ rel) = none
  dstParent : fs.isDirAt (FS.parent dst) = true
  apart : ¬ FS.under src dst = true ∧ ¬ FS.under dst src = true

/-- The first call of `move`, `rename(src, dst)`, fails: the oracle answers it with an errno, or
    the model's kernel refuses it because the two parents live on different devices (`EXDEV`;
    `EBUSY`/`ENOENT` come first when `src` is a mount point / absent — errors all the same). -/
def RenameFails (φ : Oracle) (fs : FS) (src dst : CPath) : Prop :=
  (∃ e, φ 0 0 (.rename src dst) = some e) ∨ fs.dev (FS.parent src) ≠ fs.dev (FS.parent dst)

/-- the oracle faults nothing but (possibly) renames -/
def Quiet (φ : Oracle) : Prop := ∀ n k c, (∀ a b, c ≠ .rename a b) → φ n k c = none

/-- equal, or the same directory (same mode) with another mtime -/
def SameButMtime (a b : Option Node) : Prop :=
  a = b ∨ ∃ m t t', a = some (.dir m t) ∧ b = some (.dir m t')

/-- The invariant of every state a kill can leave behind: the entry is complete at `src` — and
    then nothing but the tree at `dst` and the mtime of `dst`'s parent differs from the initial
    state (the source side is touched only once the copy is complete) — or an exact copy of it
    (data, kinds, link targets, modes AND mtimes, of every node) is complete at `dst`; outside the
    two trees only the mtimes of the two parent directories may differ. -/
structure CrashOk (fs s : FS) (src dst : CPath) : Prop where
  whole : ((∀ rel, s.get (src ++ rel) = fs.get (src ++ rel)) ∧
            ∀ q, ¬ FS.under dst q = true → q ≠ FS.parent dst → s.get q = fs.get q) ∨
          (∀ rel, s.get (dst ++ rel) = fs.get (src ++ rel))
  frame : ∀ q, ¬ FS.under src q = true → ¬ FS.under dst q = true → q ≠ FS.parent src → q ≠ FS.parent dst →
      s.get q = fs.get q
  parents : SameButMtime (s.get (FS.parent src)) (fs.get (FS.parent src)) ∧
      SameButMtime (s.get (FS.parent dst)) (fs.get (FS.parent dst))

/-- the outcome of a `move` that reports success: the entry is gone from `src`, an exact copy is
    at `dst`, nothing else changed but the mtimes of the two parents -/
structure Moved (fs s : FS) (src dst : CPath) : Prop where
  gone : ∀ rel, s.get (src ++ rel) = none
  whole : ∀ rel, s.get (dst ++ rel) = fs.get (src ++ rel)
  frame : ∀ q, ¬ FS.under src q = true → ¬ FS.under dst q = true → q ≠ FS.parent src → q ≠ FS.parent dst →
      s.get q = fs.get q
  parents : SameButMtime (s.get (FS.parent src)) (fs.get (FS.parent src)) ∧
      SameButMtime (s.get (FS.parent dst)) (fs.get (FS.parent dst))

/-- what makes the copy fallback succeed when nothing but the rename fails: every present path is
    listed, names at or below `src` and the last name of `dst` fit NAME_MAX, no mount point at or
    below `src` -/
structure Healthy (fs : FS) (src dst : CPath) : Prop where
  listed : ∀ q, (fs.get q).isSome = true → q ∈ fs.dom
  shortNames : ∀ q x, FS.under src q = true → (fs.get (q ++ [x])).isSome = true → x.length ≤ 255
  shortDst : ∀ n, dst.getLast? = some n → n.length ≤ 255
  noMount : ∀ q, FS.under src q = true → fs.isMount q = false

/-- The setting of one `Janitor.trash_file_in` whose move crosses volumes (e.g. the home trash
    directory used as a fallback for an entry of another volume): as `PutCore.Setting`, with the
    entry on ANOTHER device than `files/`; the entry is a listed, tree-shaped tree with names
    within NAME_MAX and without mount points; a free name in `files/` has nothing below it. -/
structure PutSetting (fs : FS) (infoC filesC src : CPath) : Prop where
  infoDir : fs.isDirAt infoC = true
  filesDir : fs.isDirAt filesC = true
  distinct : ¬ FS.under infoC filesC = true ∧ ¬ FS.under filesC infoC = true
  srcExists : (fs.get src).isSome = true
  srcNotRoot : src ≠ []
  otherDev : fs.dev (FS.parent src) ≠ fs.dev filesC
  notAncestor : ¬ FS.under src infoC = true ∧ ¬ FS.under src filesC = true
  notInside : ¬ FS.under infoC src = true ∧ ¬ FS.under filesC src = true
  listed : ∀ q, (fs.get q).isSome = true → q ∈ fs.dom
  srcTree : ∀ q x, FS.under src q = true → (fs.get (q ++ [x])).isSome = true → fs.isDirAt q = true
  filesTree : ∀ n rel, fs.get (filesC ++ [n]) = none → fs.get (filesC ++ [n] ++ rel) = none
  shortNames : ∀ q x, FS.under src q = true → (fs.get (q ++ [x])).isSome = true → x.length ≤ 255
  noMount : ∀ q, FS.under src q = true → fs.isMount q = false

/-! ### concrete two-device worlds (non-vacuity examples, counterexample) -/
namespace Example

/-- Two devices: "/" and the mount point "/m".  "/h/d" is a directory tree: a regular file, a
    symbolic link, a subdirectory with a file (all with distinctive modes and mtimes); "/h/i" is
    a regular file (an info file). -/
def W : FS := FS.ofList
  [([], .dir 0o755 7), ([[104]], .dir 0o755 7), ([[109]], .dir 0o700 3),
   ([[104], [100]], .dir 0o750 11),
   ([[104], [100], [102]], .file [1, 2, 3] 0o600 5),
   ([[104], [100], [108]], .link [47, 120]),
   ([[104], [100], [115]], .dir 0o711 13),
   ([[104], [100], [115], [103]], .file [] 0o644 17),
   ([[104], [105]], .file [9] 0o600 0)]
  [[], [[109]]]
def dirS : CPath := [[104], [100]]
def fileS : CPath := [[104], [100], [102]]
def linkS : CPath := [[104], [100], [108]]
def info : CPath := [[104], [105]]
/-- the free name "/m/x" on the other device -/
def D : CPath := [[109], [120]]
/-- a free name on the SAME device ("/h/x"), for the oracle that answers every rename with EXDEV -/
def D' : CPath := [[104], [120]]
def exdev : Oracle := fun _ _ c => match c with | .rename .. => some .EXDEV | _ => none

/-- "/" and the mount point "/m"; a trash directory "/t" with "/t/i" (info) and "/t/f" (files) on
    "/"; the entry "/m/f", a regular file, on the other volume -/
def P : FS := FS.ofList
  [([], .dir 0o755 0), ([[116]], .dir 0o755 0), ([[116], [105]], .dir 0o700 0), ([[116], [102]], .dir 0o700 0),
   ([[109]], .dir 0o755 0), ([[109], [102]], .file [1] 0o644 9)]
  [[], [[109]]]
def I : CPath := [[116], [105]]
def F : CPath := [[116], [102]]
def entry : CPath := [[109], [102]]
/-- every `write` below "/t/f" answers ENOSPC (nothing else is faulted) -/
def full : Oracle := fun _ _ c =>
  match c with
  | .write p _ => if F.isPrefixOf p then some .ENOSPC else none
  | _ => none

end Example

end TrashVerif.MoveCopy
