/-
  Props/C17SingleDefs.lean — vocabulary of the SINGLE-FAULT theorems of C17
  (Props/C17Single.lean): what "the file system answers at most one operation with an error"
  means for a fault oracle, the extra well-formedness the copy fallback of `shutil.move` needs, the
  shape of the names the name search can produce, a uniform bound on the calls of a program, and
  the concrete worlds / oracles of the non-vacuity examples and of the double-fault witnesses.
-/
import TrashVerif.Model.Put
import TrashVerif.Props.PutCoreDefs
namespace TrashVerif.SingleFault
open TrashVerif Prog

/-- The oracle answers with an errno at AT MOST ONE position of a run.  `run` asks the oracle
    `φ s.n (kindCount s.trace c.kind) c`, where `s.n` is the number of calls issued so far: one
    global index is asked about exactly one call in a run, so the same-kind index and the call need
    not agree — "whatever the 6th call is, answer EIO" is a single-fault oracle. -/
def AtMostOneFault (φ : Oracle) : Prop :=
  ∀ n k c n' k' c', (φ n k c).isSome = true → (φ n' k' c').isSome = true → n = n'

/-- positive form: nothing but the call with global index `i` can be answered with an errno -/
def FaultOnlyAt (φ : Oracle) (i : Nat) : Prop := ∀ n k c, n ≠ i → φ n k c = none

/-- no call with global index `i` or later is faulted -/
def QuietFrom (φ : Oracle) (i : Nat) : Prop := ∀ n k c, i ≤ n → φ n k c = none

/-- the oracle never answers with one of the two errnos the name search reacts to (EEXIST: "name
    taken, next suffix"; ENAMETOOLONG: "once more with a truncated base") -/
def Incurable (φ : Oracle) : Prop := ∀ n k c e, φ n k c = some e → e ≠ .EEXIST ∧ e ≠ .ENAMETOOLONG

/-- the oracle of a fault sweep: the call with global index `i`, whatever it is, answers `e` -/
def faultAt (i : Nat) (e : Errno) : Oracle := fun n _ _ => if n = i then some e else none

/-- two faults: index `i` answers `e`, index `j` answers `e'` -/
def faultAt2 (i : Nat) (e : Errno) (j : Nat) (e' : Errno) : Oracle :=
  fun n _ _ => if n = i then some e else if n = j then some e' else none

/-- What the COPY FALLBACK of `shutil.move` needs to succeed when it runs undisturbed (the extra
    fields of `MoveCopy.PutSetting` over `PutCore.Setting`): every present path is listed in
    `dom`; at or below the entry the parent of every present path is a directory, names fit
    NAME_MAX and there is no mount point; a free name in `files/` has nothing below it. -/
structure Copyable (fs : FS) (filesC src : CPath) : Prop where
  listed : ∀ q, (fs.get q).isSome = true → q ∈ fs.dom
  srcTree : ∀ q x, FS.under src q = true → (fs.get (q ++ [x])).isSome = true → fs.isDirAt q = true
  filesTree : ∀ n rel, fs.get (filesC ++ [n]) = none → fs.get (filesC ++ [n] ++ rel) = none
  shortNames : ∀ q x, FS.under src q = true → (fs.get (q ++ [x])).isSome = true → x.length ≤ 255
  noMount : ∀ q, FS.under src q = true → fs.isMount q = false

/-- The names the name search can end with: `base` (possibly truncated — the reaction to
    ENAMETOOLONG) followed by the suffix of some index and ".trashinfo". -/
def NameShape (base : Bytes) (name : Bytes) : Prop :=
  ∃ (index : Nat) (st : PutSt) (tooLong : Bool), name = trashinfoBasename base (suffixFor index st).1 tooLong

/-- "no stray info file": every path directly inside `info/` is as before -/
def NoStrayInfo (fs fs' : FS) (infoC : CPath) : Prop := ∀ n, fs'.get (infoC ++ [n]) = fs.get (infoC ++ [n])

/-- What a run of the put core must satisfy (C01 under faults).  Success: the entry is wholly under
    `files/<name>` next to its complete info file, gone from its place, the name was free, nothing
    else changed (`Trashed`), and the name has the expected shape.  Failure: it is a failure of the
    name search (never of the move, never an escaping clean-up error), every path is as before
    except for the mtime of `info/` (`Untouched`) — in particular no info file is left behind. -/
def Honest (fs : FS) (infoC filesC src : CPath) (base content : Bytes)
    (res : (Except Reason Bytes × PutSt) × RunState) : Prop :=
  (∀ name, res.1.1 = .ok name →
    PutCore.Trashed fs res.2.fs infoC filesC src name content ∧ NameShape base name) ∧
  (∀ r, res.1.1 = .error r →
    (∃ e, r = .persistError e) ∧ PutCore.Untouched fs res.2.fs infoC ∧ NoStrayInfo fs res.2.fs infoC)

/-! ### a bound on the number of calls that does not depend on the oracle -/

/-- the largest value of `f` over the errnos -/
def supErrno (f : Errno → Nat) : Nat :=
  [Errno.ENOENT, .EEXIST, .ENOTDIR, .EISDIR, .ENOTEMPTY, .EXDEV, .EBUSY, .EINVAL, .ELOOP, .ENAMETOOLONG,
   .EACCES, .EPERM, .EROFS, .ENOSPC, .EDQUOT, .EIO, .EMLINK, .OTHER].foldl (fun m e => max m (f e)) 0

/-- The longest run of `p` from the state `fs`, over ALL answers the file system and a fault
    oracle can give: every call either fails with one of the errnos (state kept) or is executed.
    A natural number determined by the program and the initial state alone. -/
def maxCalls {α} : Prog α → FS → Nat
  | .ret _, _ => 0
  | .get k, fs => maxCalls (k fs) fs
  | .emit _ k, fs => maxCalls k fs
  | .call c k, fs =>
    1 + max (supErrno fun e => maxCalls (k (.error e)) fs)
            (match c.apply fs with
             | .ok fs' => maxCalls (k (.ok ())) fs'
             | .error _ => 0)

/-! ### concrete worlds -/

-- to evaluate results of concrete runs with `decide +kernel`
deriving instance DecidableEq for Except

namespace Example

/-- ONE device.  A trash directory "/t" with "/t/i" (info) and "/t/f" (files); the entry "/h/f", a
    regular file with a distinctive mode and mtime. -/
def W : FS := FS.ofList
  [([], .dir 0o755 0), ([[116]], .dir 0o755 0), ([[116], [105]], .dir 0o700 0), ([[116], [102]], .dir 0o700 0),
   ([[104]], .dir 0o755 0), ([[104], [102]], .file [1, 2] 0o640 9)]
  [[]]
def I : CPath := [[116], [105]]
def F : CPath := [[116], [102]]
def entry : CPath := [[104], [102]]
/-- "f" -/
def base : Bytes := [102]
def content : Bytes := [99]
def st0 : PutSt := ⟨[], []⟩
/-- "f.trashinfo" -/
def name0 : Bytes := base ++ trashinfoExt
/-- "f_1.trashinfo" -/
def name1 : Bytes := base ++ [95, 49] ++ trashinfoExt

/-- the run of the put core on `W` under `φ` -/
def runW (φ : Oracle) := run φ (putCore I F base content (fun _ => .ok entry) st0) { fs := W }

/-- `W` with a DIRECTORY entry "/h/d" holding a file "a" and a subdirectory "m" -/
def WD : FS := FS.ofList
  [([], .dir 0o755 0), ([[116]], .dir 0o755 0), ([[116], [105]], .dir 0o700 0), ([[116], [102]], .dir 0o700 0),
   ([[104]], .dir 0o755 0), ([[104], [100]], .dir 0o750 5), ([[104], [100], [97]], .file [7] 0o644 3),
   ([[104], [100], [109]], .dir 0o755 0)]
  [[]]
/-- `WD` where "/h/d/m" is a MOUNT POINT (another volume mounted inside the entry) -/
def WM : FS := { WD with mounts := [[], [[104], [100], [109]]] }
def dirD : CPath := [[104], [100]]
/-- "d" -/
def baseD : Bytes := [100]
def nameD : Bytes := baseD ++ trashinfoExt
def runWD (φ : Oracle) := run φ (putCore I F baseD content (fun _ => .ok dirD) st0) { fs := WD }
def runWM (φ : Oracle) := run φ (putCore I F baseD content (fun _ => .ok dirD) st0) { fs := WM }

end Example

end TrashVerif.SingleFault
