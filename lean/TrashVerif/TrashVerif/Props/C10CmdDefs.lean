/-
  Props/C10CmdDefs.lean — vocabulary of the COMMAND-level theorems of trash-empty (Props/C10Cmd.lean):
  the trash directories of Props/C12CmdDefs.lean (`TDir`, `PlainDir`, `PlainWorld`, `Gone`, `Intact`,
  `PurgedAll`), plus what the ORPHAN pass of trash-empty needs (`OrphansOk`, `EmptyWorld`).
-/
import TrashVerif.Props.C12CmdDefs
import TrashVerif.Props.C14LoopDefs
namespace TrashVerif.C10Cmd
open TrashVerif PutCore Prog FS C09Hist C10Loop C12Cmd

/-- the ORPHANS of the directory `d` in the state `fs`: the names of `files/` for which `info/` holds
    nothing at `NAME.trashinfo` -/
def orphans (fs : FS) (d : TDir) : List Bytes := C14Loop.orphanNames fs d.I d.F

/-- the info name that belongs to the payload name `m`: `m.trashinfo` -/
abbrev infoNameOf (m : Bytes) : Bytes := C14Loop.infoNameOf m

/-- What the orphan pass asks of the INITIAL state, beyond `PlainDir`: the names of `files/` are file
    names of at most 245 bytes (so that `NAME.trashinfo` is a name: true of every real listing, the
    flat model has to be told); an orphan payload is a tree without mount point, and nothing lies
    below its absent info path. -/
structure OrphansOk (fs : FS) (d : TDir) : Prop where
  goodP : ∀ m, (fs.get (d.F ++ [m])).isSome = true → m ≠ [] ∧ slash ∉ m ∧ m ≠ [dot] ∧ m ≠ dotdot ∧ m.length ≤ 245
  orphTree : ∀ m ∈ orphans fs d, TreeOk fs (d.F ++ [m]) ∧ TreeOk fs (d.I ++ [infoNameOf m])

/-- the world of the command `trash-empty`: the `PlainWorld` of trash-rm (every directory plain, with
    `names` the actual listing of `info/`; the directories pairwise apart; `dom` lists every present
    path) in which, moreover, every directory is `OrphansOk` -/
structure EmptyWorld (fs : FS) (ds : List TDir) : Prop where
  world : PlainWorld fs ds
  orph : ∀ d ∈ ds, OrphansOk fs d

/-- the listed name `n` of `d` is DATED AND OLD: its info file is readable, its text has a parsable
    DeletionDate `dt`, and `olderThan days now dt` says yes (C10 `olderThan_spec`: `dt` is strictly
    earlier than now − DAYS days) -/
def DatedOld (fs : FS) (cwd : CPath) (days : Nat) (o : EmptyOpts) (d : TDir) (n : Bytes) : Prop :=
  ∃ text dt, contentsOf fs cwd (infoStr (toStr d.T) n) = some text ∧ parseDeletionDate text = some dt ∧
    olderThan days o.now o.nowUs dt = .yes

/-- the listed name `n` of `d` is DATED: readable info file with a parsable DeletionDate -/
def Dated (fs : FS) (cwd : CPath) (d : TDir) (n : Bytes) : Prop :=
  ∃ text dt, contentsOf fs cwd (infoStr (toStr d.T) n) = some text ∧ parseDeletionDate text = some dt

/-- what trash-empty selects among the listed names of `d`, evaluated on the state `fs` -/
def emptySel (fs : FS) (cwd : CPath) (o : EmptyOpts) (d : TDir) : List Bytes :=
  emptySelected fs cwd o (toStr d.T) d.names

/-- everything one pass over `d` removes: the selected entries, then the orphans (an orphan `m` counted
    as the entry `m.trashinfo`, whose info file is absent and whose payload is `files/m`) -/
def swept (fs : FS) (cwd : CPath) (o : EmptyOpts) (d : TDir) : List Bytes :=
  emptySel fs cwd o d ++ (orphans fs d).map infoNameOf

/-- the hypotheses of the DAYS theorems, bundled: `trash-empty DAYS` (not `--dry-run`; not interactive, or a
    reply beginning with 'y'/'Y') visits the directories `ds` of the `EmptyWorld`, and now − DAYS days is
    representable (`olderThan` overflows for no date — equivalently for one: `overflow_indep`) -/
structure DaysRun (fs : FS) (c : ReadCfg) (o : EmptyOpts) (reply : Option Bytes) (ds : List TDir) (days : Nat) : Prop where
  scan : foundDirs (selectTrashDirs fs c o.userDirs) = ds.map TDir.pair
  world : EmptyWorld fs ds
  hdays : o.days = some days
  real : o.dryRun = false
  go : o.interactive = false ∨ ∃ r, reply = some r ∧ emptyReplyYes r = true
  noOverflow : ∀ dt, olderThan days o.now o.nowUs dt ≠ .overflow

/-- the payload `files/m` of `d` is gone, with everything below it -/
def PayloadGone (fs' : FS) (d : TDir) (m : Bytes) : Prop := ∀ rel, fs'.get (d.F ++ [m] ++ rel) = none

/-- the payload `files/m` of `d` is exactly as before, with everything below it -/
def PayloadIntact (fs fs' : FS) (d : TDir) (m : Bytes) : Prop :=
  ∀ rel, fs'.get (d.F ++ [m] ++ rel) = fs.get (d.F ++ [m] ++ rel)

end TrashVerif.C10Cmd
