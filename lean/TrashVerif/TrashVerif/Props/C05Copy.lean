/-
  Props/C05Copy.lean — property theorems for C05/C15 on the COPY FALLBACK of `shutil.move`
  (the branch taken when `rename` fails, e.g. EXDEV across volumes: trash-put with the home
  fallback, trash-restore across volumes).  Definitions: Props/C05CopyDefs.lean.

  `move` in this branch: a symlink is re-created then unlinked; a regular file is `copy2`-ed
  (createTrunc, write, utime, chmod) then unlinked; a directory is `copytree`-d (mkdir, the entries
  in name order, recursively, then utime+chmod of the directory) and then `rmtree`-d.  In the model
  `copy2`/`copystat` reproduce data, mode AND mtime of files, mode and mtime of directories, and the
  target of links: the copy, once complete, equals the source node for node.
-/
import TrashVerif.Props.C05CopyDefs
import TrashVerif.Proofs.C05Copy
namespace TrashVerif.C05Copy
open TrashVerif Prog FS MoveCopy

/-- Crash safety of the copy fallback, for a regular file, a symbolic link or a directory tree of
    ANY depth, under EVERY fault oracle (besides the rename, any later call may fail as well): in
    every state a kill can leave behind, the entry is complete at `src` (and then nothing but the
    tree at `dst` and the mtime of `dst`'s parent differs from the initial state), or an exact
    copy — data, kinds, link targets, modes and mtimes of every node — is complete at `dst`;
    outside the two trees only the mtimes of the two parents may differ. -/
theorem move_copy_crash_inv (φ : Oracle) (fs : FS) (src dst : CPath) (h : Setting fs src dst)
    (hr : RenameFails φ fs src dst) :
    ∀ s ∈ crashStates φ (move src dst) fs, CrashOk fs s src dst :=
  Proofs.C05Copy.move_copy_crash_inv φ fs src dst h hr

/-- Whenever the move reports success (under every oracle), the entry is gone from `src` and the
    exact copy is at `dst`. -/
theorem move_copy_final (φ : Oracle) (fs : FS) (src dst : CPath) (h : Setting fs src dst)
    (hr : RenameFails φ fs src dst) :
    (run φ (move src dst) { fs := fs }).1 = .ok () →
      Moved fs (run φ (move src dst) { fs := fs }).2.fs src dst :=
  Proofs.C05Copy.move_copy_final φ fs src dst h hr

/-- It does report success when nothing but the rename fails, in a healthy world. -/
theorem move_copy_succeeds (φ : Oracle) (fs : FS) (src dst : CPath) (hq : Quiet φ) (h : Setting fs src dst)
    (hr : RenameFails φ fs src dst) (hh : Healthy fs src dst) :
    (run φ (move src dst) { fs := fs }).1 = .ok () :=
  Proofs.C05Copy.move_copy_succeeds φ fs src dst hq h hr hh

/-- `Setting` follows from the global well-formedness of the world (every present path is listed
    and hangs from a directory), `src` present, `dst` absent with a directory as parent, and
    `src`, `dst` apart. -/
theorem setting_of_tree (fs : FS) (src dst : CPath) (hwf : ∀ q, (fs.get q).isSome = true → q ∈ fs.dom)
    (htree : ∀ q x, (fs.get (q ++ [x])).isSome = true → fs.isDirAt q = true)
    (hsrc : (fs.get src).isSome = true) (hdst : fs.get dst = none) (hpar : fs.isDirAt (FS.parent dst) = true)
    (hapart : ¬ FS.under src dst = true ∧ ¬ FS.under dst src = true) : Setting fs src dst :=
  Proofs.C05Copy.setting_of_tree fs src dst hwf htree hsrc hdst hpar hapart

/-- C15 across volumes, under EVERY fault oracle: in every state a kill of trash-restore can leave
    behind, the entry is complete in the trash together with its info file, or complete at its
    original location.  (`hinfo`: the info path holds no directory — as in
    `C15.restore_crash_inv_partial`, whose counterexample applies here too.) -/
theorem restore_copy_crash_inv (φ : Oracle) (fs : FS) (src dst info : CPath) (h : Setting fs src dst)
    (hr : RenameFails φ fs src dst) (hinfo : ∀ m t, fs.get info ≠ some (.dir m t))
    (hapart : ¬ FS.under src info = true ∧ ¬ FS.under dst info = true) :
    ∀ s ∈ crashStates φ (restoreCore (.ok src) (.ok dst) (.ok info)) fs,
      ((∀ rel, s.get (src ++ rel) = fs.get (src ++ rel)) ∧ s.get info = fs.get info) ∨
      (∀ rel, s.get (dst ++ rel) = fs.get (src ++ rel)) :=
  Proofs.C05Copy.restore_copy_crash_inv φ fs src dst info h hr hinfo hapart

/-- C05 across volumes (the entry lives on another device than `files/`), WITHOUT faults: every
    state a kill of the put core can leave behind keeps the entry complete at its origin or
    complete under `files/N`, and shows a payload only next to its complete `.trashinfo`.
    `_partial`: unlike `move_copy_crash_inv` this does NOT extend to fault oracles — see
    `put_copy_fault_strands_payload`. -/
theorem put_copy_crash_inv_partial (fs : FS) (infoC filesC src : CPath) (base content : Bytes) (st : PutSt)
    (h : PutSetting fs infoC filesC src) :
    ∀ s ∈ crashStates noFaults (putCore infoC filesC base content (fun _ => .ok src) st) fs,
      PutCore.CrashOk fs s infoC filesC src content :=
  Proofs.C05Copy.put_copy_crash_inv fs infoC filesC src base content st h

open MoveCopy.Example in
/-- The put-level invariant FAILS under a fault oracle (kernel-checked on a concrete world): one
    `write` of the cross-device copy answers ENOSPC; `copy2` has already created `files/f`
    (empty); `shutil.move` raises; trash-put's cleanup removes `info/f.trashinfo`; nothing removes
    the partial payload.  The final state shows `files/f` without any `.trashinfo` (second clause
    of `PutCore.CrashOk`); the entry is intact at its origin (nothing is lost). -/
theorem put_copy_fault_strands_payload :
    PutSetting P I F entry ∧
    ∃ s ∈ crashStates full (putCore I F [102] [99] (fun _ => .ok entry) ⟨[], []⟩) P,
      s.get entry = P.get entry ∧
      s.get (F ++ [[102]]) = some (.file [] 0o644 0) ∧
      s.get (I ++ [[102] ++ trashinfoExt]) = none ∧
      ¬ PutCore.CrashOk P s I F entry [99] :=
  Proofs.C05Copy.put_copy_fault_strands_payload

/-! ### non-vacuity: the hypotheses hold in concrete two-device worlds -/
section nonvacuity
open MoveCopy.Example Proofs.C05Copy

/-- a directory tree (depth 2, with a file, a link and a subdirectory) moved to the other device -/
example : Setting W dirS D ∧ RenameFails noFaults W dirS D ∧ Healthy W dirS D ∧ Quiet noFaults :=
  ⟨setting_of_check (wf_ofList _ _) (by decide +kernel), Or.inr (by decide +kernel),
    healthy_of_check (wf_ofList _ _) (by decide +kernel), quiet_noFaults⟩
/-- a regular file -/
example : Setting W fileS D ∧ RenameFails noFaults W fileS D ∧ Healthy W fileS D :=
  ⟨setting_of_check (wf_ofList _ _) (by decide +kernel), Or.inr (by decide +kernel),
    healthy_of_check (wf_ofList _ _) (by decide +kernel)⟩
/-- a symbolic link -/
example : Setting W linkS D ∧ RenameFails noFaults W linkS D ∧ Healthy W linkS D :=
  ⟨setting_of_check (wf_ofList _ _) (by decide +kernel), Or.inr (by decide +kernel),
    healthy_of_check (wf_ofList _ _) (by decide +kernel)⟩
/-- the same device, the rename answered with EXDEV by a quiet oracle -/
example : Setting W dirS D' ∧ RenameFails exdev W dirS D' ∧ Healthy W dirS D' ∧ Quiet exdev :=
  ⟨setting_of_check (wf_ofList _ _) (by decide +kernel), Or.inl ⟨.EXDEV, rfl⟩,
    healthy_of_check (wf_ofList _ _) (by decide +kernel), fun _ _ c hc => by
      cases c <;> first | rfl | exact absurd rfl (hc _ _)⟩

/-- the theorems, instantiated: every crash state of the move of the tree is fine, and the move ends
    with the tree gone from "/h/d" and complete at "/m/x" -/
example : (∀ s ∈ crashStates noFaults (move dirS D) W, CrashOk W s dirS D) ∧
    Moved W (run noFaults (move dirS D) { fs := W }).2.fs dirS D :=
  have hs : Setting W dirS D := setting_of_check (wf_ofList _ _) (by decide +kernel)
  have hr : RenameFails noFaults W dirS D := Or.inr (by decide +kernel)
  ⟨move_copy_crash_inv _ _ _ _ hs hr,
    move_copy_final _ _ _ _ hs hr (move_copy_succeeds _ _ _ _ quiet_noFaults hs hr
      (healthy_of_check (wf_ofList _ _) (by decide +kernel)))⟩

/-- restore: the info file "/h/i" is a regular file outside both trees -/
example : Setting W dirS D ∧ RenameFails noFaults W dirS D ∧ (∀ m t, W.get info ≠ some (.dir m t)) ∧
    (¬ FS.under dirS info = true ∧ ¬ FS.under D info = true) :=
  ⟨setting_of_check (wf_ofList _ _) (by decide +kernel), Or.inr (by decide +kernel),
    fun m t h => (by
      have : W.get info = some (.file [9] 0o600 0) := by decide +kernel
      rw [this] at h; cases h),
    by decide +kernel⟩

/-- put: the home trash "/t" on "/", the entry "/m/f" on the other volume -/
example : PutSetting P I F entry := putSetting_of_check (wf_ofList _ _) (by decide +kernel)

end nonvacuity

end TrashVerif.C05Copy
