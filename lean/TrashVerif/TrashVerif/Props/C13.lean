/-
  Props/C13.lean — property theorems for C13 (pure part: reply grammar, scope, ordering).
-/
import TrashVerif.Spec.C13
import TrashVerif.Proofs.C13
namespace TrashVerif.C13
open TrashVerif Bytes

/-- `int()` as modelled accepts exactly the integer literals of the grammar. -/
theorem pyInt_iff (s : Bytes) (n : Nat) : pyInt s = .nat n ↔ IntLit s n := Proofs.C13.pyInt_iff s n

/-- The parser accepts a reply iff the reply denotes a list of indices that are all within the
    list; it then returns exactly the denoted indices, in order, with repetitions.
    In every other case (`invalid`, `crash`) nothing is selected. -/
theorem parseIndexes_iff (r : Bytes) (n : Nat) (is : List Nat) :
    parseIndexes r n = .ok is ↔ (Denotes r is ∧ ∀ i ∈ is, i < n) := Proofs.C13.parseIndexes_iff r n is

/-- every accepted index is in range (what makes `trashed_files[index]` safe) -/
theorem parseIndexes_in_range (r : Bytes) (n : Nat) (is : List Nat) (h : parseIndexes r n = .ok is) :
    ∀ i ∈ is, i < n := ((parseIndexes_iff r n is).1 h).2

/-- The scope test, characterised … -/
theorem inScope_iff (dir loc : Bytes) :
    inScope dir loc = true ↔ dir = [slash] ∨ loc = dir ∨ (dir ++ [slash]) <+: loc :=
  Proofs.C13.inScope_iff dir loc

/-- … it cuts at a component boundary: for normalised absolute paths (no empty, '.' or '..'
    component, as `normpath` produces) "in scope" is "component-wise prefix". -/
theorem inScope_components (dir loc : Bytes) (hd : isAbs dir = true) (hl : isAbs loc = true)
    (hnd : normpath dir = dir) (hnl : normpath loc = loc) (h2 : ¬ startsWith dir [slash, slash] = true)
    (h3 : ¬ startsWith loc [slash, slash] = true) :
    inScope dir loc = true ↔ comps dir <+: comps loc := Proofs.C13.inScope_components dir loc hd hl hnd hnl h2 h3

/-- /a/foo does not capture its sibling /a/foobar -/
theorem not_prefix_sibling (dir ext : Bytes) (hne : ext ≠ []) (hs : ext.head? ≠ some slash) (hd : dir ≠ [slash]) :
    inScope dir (dir ++ ext) = false := Proofs.C13.not_prefix_sibling dir ext hne hs hd

/-- The offered list is a permutation of the entries in scope, for every sort mode … -/
theorem offered_perm (m : SortMode) (es : List Entry) : (sortEntries m es).Perm es :=
  Proofs.C13.offered_perm m es

/-- … ordered by the requested key … -/
theorem offered_sorted_date (es : List Entry) :
    (sortEntries .date es).Pairwise fun a c => dateRank a ≤ dateRank c := Proofs.C13.offered_sorted_date es

theorem offered_sorted_path (es : List Entry) :
    (sortEntries .path es).Pairwise fun a c => cpsLe (pathKeyOf a) (pathKeyOf c) = true :=
  Proofs.C13.offered_sorted_path es

/-- … and `--sort none` keeps the scan order. -/
theorem offered_none (es : List Entry) : sortEntries .none es = es := rfl

example : parseIndexes (b "0, 2-3,+1") 4 = .ok [0, 2, 3, 1] ∧ parseIndexes (b "1-2-3") 9 = .crash ∧
          parseIndexes (b "3-1") 9 = .ok [] ∧ parseIndexes (b "4") 4 = .invalid := by decide +kernel

end TrashVerif.C13
