/-
  Props/C13.lean — property theorems for C13 (pure part: reply grammar, scope, ordering, and the
  directory `trash-restore` restores from).
-/
import TrashVerif.Spec.C13
import TrashVerif.Model.Cmds
import TrashVerif.Props.C07
import TrashVerif.Proofs.C13
namespace TrashVerif.C13
open TrashVerif Bytes FS

/-- `int()` as modelled accepts exactly the integer literals of the grammar. -/
theorem pyInt_iff (s : Bytes) (n : Nat) : pyInt s = .nat n ↔ IntLit s n := Proofs.C13.pyInt_iff s n

/-- The parser accepts a reply iff the reply denotes a list of indices that are all within the
    list; it then returns exactly the denoted indices, in order, with repetitions.
    In every other case (`invalid`, `crash`) nothing is selected. -/
theorem parseIndexes_iff (r : Bytes) (n : Nat) (is : List Nat) :
    parseIndexes r n = .ok is ↔ (Denotes r is ∧ ∀ i ∈ is, i < n) := Proofs.C13.parseIndexes_iff r n is

/-- every accepted index is in range (what makes `trashed_files[index]` safe) -/
theorem parseIndexes_in_range (r : Bytes) (n : Nat) (is : List Nat) (h : parseIndexes r n = .ok is) :
    ∀ i ∈ is, i < n := ((parseIndexes_iff r n is).1 h).2

/-- The scope test, characterised … -/
theorem inScope_iff (dir loc : Bytes) :
    inScope dir loc = true ↔ dir = [slash] ∨ loc = dir ∨ (dir ++ [slash]) <+: loc :=
  Proofs.C13.inScope_iff dir loc

/-- … it cuts at a component boundary: for normalised absolute paths (no empty, '.' or '..'
    component, as `normpath` produces) "in scope" is "component-wise prefix". -/
theorem inScope_components (dir loc : Bytes) (hd : isAbs dir = true) (hl : isAbs loc = true)
    (hnd : normpath dir = dir) (hnl : normpath loc = loc) (h2 : ¬ startsWith dir [slash, slash] = true)
    (h3 : ¬ startsWith loc [slash, slash] = true) :
    inScope dir loc = true ↔ comps dir <+: comps loc := Proofs.C13.inScope_components dir loc hd hl hnd hnl h2 h3

/-- /a/foo does not capture its sibling /a/foobar -/
theorem not_prefix_sibling (dir ext : Bytes) (hne : ext ≠ []) (hs : ext.head? ≠ some slash) (hd : dir ≠ [slash]) :
    inScope dir (dir ++ ext) = false := Proofs.C13.not_prefix_sibling dir ext hne hs hd

/-- The offered list is a permutation of the entries in scope, for every sort mode … -/
theorem offered_perm (m : SortMode) (es : List Entry) : (sortEntries m es).Perm es :=
  Proofs.C13.offered_perm m es

/-- … ordered by the requested key … -/
theorem offered_sorted_date (es : List Entry) :
    (sortEntries .date es).Pairwise fun a c => dateRank a ≤ dateRank c := Proofs.C13.offered_sorted_date es

theorem offered_sorted_path (es : List Entry) :
    (sortEntries .path es).Pairwise fun a c => cpsLe (pathKeyOf a) (pathKeyOf c) = true :=
  Proofs.C13.offered_sorted_path es

/-- … and `--sort none` keeps the scan order. -/
theorem offered_none (es : List Entry) : sortEntries .none es = es := rfl

/-! ### the directory to restore from

`RestoreArgParser` turns the working directory and the positional argument into the directory whose
entries are offered: `restoreScopeDir curdir path = normpath(join(curdir, path))`.  (Until the fix
"trash-restore from / offered nothing" the code normalised `curdir + "/" + path`, which from the
working directory "/" without argument gave "//", in whose scope no location lies — a defect found by
the counterexample theorem `root_cwd_no_argument_offers_nothing` of Props/C02Cmd.lean, now
`C02Cmd.root_cwd_no_argument_offers_everything`.)  A canonical working directory is a list of names
that are non-empty, free of '/', not "." or ".." (`C07.GoodNames`); `toStr` is its spelling, "/" for
the root `[]`. -/

/-- (a) Without a directory argument the scope is the working directory itself — for EVERY canonical
    working directory, the root `cwd = []` included. -/
theorem scope_dir_default (cwd : CPath) (hn : C07.GoodNames cwd) :
    restoreScopeDir (toStr cwd) [] = toStr cwd := Proofs.C13.scope_dir_default cwd hn

/-- (b) An absolute directory argument is taken as it is (normalised); the working directory —
    whatever string it is — plays no part. -/
theorem scope_dir_absolute (cwdStr path : Bytes) (h : startsWith path [slash] = true) :
    restoreScopeDir cwdStr path = normpath path := Proofs.C13.scope_dir_absolute cwdStr path h

/-- (c) A plain relative directory argument `c₁/…/cₖ` (canonical names joined by '/') extends the
    working directory by its components — again for every canonical working directory, the root
    included (`comps = []` is (a)). -/
theorem scope_dir_relative (cwd comps : CPath) (hn : C07.GoodNames cwd) (hc : C07.GoodNames comps) :
    restoreScopeDir (toStr cwd) (joinWith [slash] comps) = toStr (cwd ++ comps) :=
  Proofs.C13.scope_dir_relative cwd comps hn hc

/-- (d) From the root without a directory argument EVERY location is in scope (no hypothesis on
    `loc` is needed: the scope is "/", which `inScope` accepts outright). -/
theorem scope_root_offers_all (loc : Bytes) : inScope (restoreScopeDir (toStr []) []) loc = true :=
  Proofs.C13.scope_root_offers_all loc

example : restoreScopeDir (b "/") [] = b "/" ∧ restoreScopeDir (b "/p/q") [] = b "/p/q" ∧
          restoreScopeDir (toStr [b "p", b "q"]) [] = toStr [b "p", b "q"] := by decide +kernel
example : restoreScopeDir (b "/p") (b "/q//r/../s/") = b "/q/s" ∧ restoreScopeDir (b "/") (b "/") = b "/" ∧
          restoreScopeDir (b "/p") (b "//q") = b "//q" := by decide +kernel
example : restoreScopeDir (b "/") (b "q/r") = b "/q/r" ∧ restoreScopeDir (b "/p") (b "q/r") = b "/p/q/r" ∧
          restoreScopeDir (toStr [b "p"]) (joinWith [slash] [b "q", b "r"]) = toStr ([b "p"] ++ [b "q", b "r"]) := by
  decide +kernel
example : inScope (restoreScopeDir (b "/") []) (b "/p/x") = true ∧ inScope (restoreScopeDir (b "/") []) (b "/") = true ∧
          inScope (restoreScopeDir (b "/q") []) (b "/p/x") = false := by decide +kernel

example : parseIndexes (b "0, 2-3,+1") 4 = .ok [0, 2, 3, 1] ∧ parseIndexes (b "1-2-3") 9 = .crash ∧
          parseIndexes (b "3-1") 9 = .ok [] ∧ parseIndexes (b "4") 4 = .invalid := by decide +kernel

/-! ### the trash directory `trash-restore` reads

`InfoFiles.all_info_files(trash_dir)` lists `join(trash_dir, "info")` with the trash directory AS
SPELLED, so it is the kernel that decides which directory the string names (symlinks followed, `..`
taken in the directory reached).  Until the fix the code applied `os.path.normpath` first: the
textual collapse of `link/..` made `--trash-dir link/../T` read the info directory of ANOTHER
directory. -/

/-- Every entry `trash-restore` builds for the trash directory `t` comes from a trashinfo name of
    the listing of `pjoin t "info"` — the string as given, resolved by the kernel (`listdirStr`) —
    and its info path is that string joined with the name. -/
theorem restore_reads_named_trash_dir (fs : FS) (cwd : CPath) (t v : Bytes) (ns : List Bytes)
    (h : listdirStr fs cwd (pjoin t (b "info")) = some ns) :
    ∀ e ∈ restoreEntriesOf fs cwd t v,
      ∃ n ∈ ns, isTrashinfoName n = true ∧ e.info = pjoin (pjoin t (b "info")) n :=
  Proofs.C13.restore_reads_named_trash_dir fs cwd t v ns h

section NamedEx
open Proofs.C13.NamedEx

/-- The world `W`: `/jump -> /deep/inner`, the trash directory `/ct` holds the entry `a`, the trash
    directory `/deep/ct` the entry `b`.  `--trash-dir /jump/../../ct`: the kernel follows `/jump`
    to `/deep/inner`, goes up twice and names `/ct`; the entries come from `/ct/info`, their info
    paths are built on the string as spelled. -/
theorem restore_named_example :
    (FS.resolve W [] (b "/jump/../../ct/info") true).toOption = some [b "ct", b "info"] ∧
    listdirStr W [] (pjoin (b "/jump/../../ct") (b "info")) = some [b "a.trashinfo"] ∧
    restoreEntriesOf W [] (b "/jump/../../ct") (b "/") =
      [{ loc := b "/x/a", date := dateEx, info := b "/jump/../../ct/info/a.trashinfo" }] :=
  Proofs.C13.NamedEx.named_up_up

/-- The spelling on which kernel and textual collapse DISAGREE, same world: `/jump/../ct` is
    `/deep/ct` for the kernel (entry `b`: what the scan returns), while
    `normpath "/jump/../ct" = "/ct"` is the other trash directory (entry `a`: what the code read
    before the fix). -/
theorem restore_named_not_collapsed :
    (FS.resolve W [] (b "/jump/../ct/info") true).toOption = some [b "deep", b "ct", b "info"] ∧
    normpath (b "/jump/../ct") = b "/ct" ∧
    listdirStr W [] (pjoin (b "/jump/../ct") (b "info")) = some [b "b.trashinfo"] ∧
    listdirStr W [] (pjoin (normpath (b "/jump/../ct")) (b "info")) = some [b "a.trashinfo"] ∧
    restoreEntriesOf W [] (b "/jump/../ct") (b "/") =
      [{ loc := b "/x/b", date := dateEx, info := b "/jump/../ct/info/b.trashinfo" }] ∧
    restoreEntriesOf W [] (normpath (b "/jump/../ct")) (b "/") =
      [{ loc := b "/x/a", date := dateEx, info := b "/ct/info/a.trashinfo" }] :=
  Proofs.C13.NamedEx.named_not_collapsed

example : dateEx.isSome = true := by decide +kernel
end NamedEx

end TrashVerif.C13
