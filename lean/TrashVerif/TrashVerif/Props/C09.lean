/-
  Props/C09.lean — property theorems for C09 (trash-list shows exactly what is in the trash after
  any history).  The trash is abstracted to its *bag*: for each trash directory the set of info
  names with their contents.  trash-list is a function of the bag; every command's core changes
  the bag by exactly its own entry.  The induction over whole histories of operations on one trash
  directory (resolved layer) is Props/C09Hist.lean (`C09Hist.history`, `list_after_history`); what
  remains validated rather than proved is the string-level front of each command (which canonical
  arguments a command line resolves to) — the check's history runs.
-/
import TrashVerif.Props.PutCoreDefs
import TrashVerif.Model.Cmds
import TrashVerif.Proofs.C09
namespace TrashVerif.C09
open TrashVerif PutCore Prog FS

/-- the bag of one trash directory: which info names exist, with which node -/
def bag (fs : FS) (infoC : CPath) : Bytes → Option Node := fun n => fs.get (infoC ++ [n])

/- The history-level statement — "after every finite sequence of operations the bag is the initial bag
   with `put adds one, restore/rm/empty remove the selected` applied" — is `C09Hist.history` (resolved
   layer, one trash directory, invariant + local side conditions).  The step theorems below are its
   ingredients.  Composing them over *string-level* command lines needs the path-resolution bridge of
   every command; the check validates that composition on seeded histories (listing = Spec reading
   of the on-disk bag after every step, every step's effect = Effects.check). -/

/-- trash-list's output is a function of what the scan finds and the bags: one event per
    trashinfo name, in directory order, no file-system call. -/
theorem list_is_bag (φ : Oracle) (cwd : CPath) (p v : Bytes) (s : RunState) (infos : List Bytes)
    (h : infosOf s.fs cwd p = .ok infos) :
    (run φ (listEvents cwd [.found p v]) s).2.outs = (infos.map (listOne s.fs cwd v)).reverse ++ s.outs ∧
    (run φ (listEvents cwd [.found p v]) s).2.trace = s.trace :=
  Proofs.C09.list_is_bag φ cwd p v s infos h

/-- put adds exactly one element to the bag of the chosen directory … -/
theorem put_adds_one (fs : FS) (infoC filesC src : CPath) (base content : Bytes) (st st' : PutSt)
    (h : Setting fs infoC filesC src) (name : Bytes) (s' : RunState)
    (hr : run noFaults (putCore infoC filesC base content (fun _ => .ok src) st) { fs := fs } = ((.ok name, st'), s')) :
    bag fs infoC name = none ∧ bag s'.fs infoC name = some (.file content 0o600 0) ∧
    ∀ n, n ≠ name → bag s'.fs infoC n = bag fs infoC n := Proofs.C09.put_adds_one fs infoC filesC src base content st st' h name s' hr

/-- … and leaves the bag of every other directory alone — every directory other than `info/` itself,
    the directory the entry was taken from (`parent src`: it lost the entry) and `files/` (it gained
    the payload).  The statement without the last two hypotheses is FALSE
    (`Proofs.C09.put_other_bags_counterexample`: trashing `/a` into `/t`, `other := /`, `n := a` —
    `h1`, `h2`, `h3` hold, yet the bag of `/` lost `a`; likewise `other := /t/files` gained `a`). -/
theorem put_other_bags_partial (fs : FS) (infoC filesC src other : CPath) (base content : Bytes) (st st' : PutSt)
    (h : Setting fs infoC filesC src) (name : Bytes) (s' : RunState)
    (hr : run noFaults (putCore infoC filesC base content (fun _ => .ok src) st) { fs := fs } = ((.ok name, st'), s'))
    (ho : other ≠ infoC) (h1 : ¬ FS.under src other = true) (h2 : ¬ FS.under (filesC ++ [stemOf name]) other = true)
    (h3 : ∀ n, other ++ [n] ≠ FS.parent src ∧ other ++ [n] ≠ filesC ∧ other ++ [n] ≠ infoC)
    (hnotParentOfSrc : other ≠ FS.parent src) (hnotFiles : other ≠ filesC) :
    ∀ n, bag s'.fs other n = bag fs other n :=
  Proofs.C09.put_other_bags_partial fs infoC filesC src other base content st st' h name s' hr ho h1 h2 h3
    hnotParentOfSrc hnotFiles

/-- purging (trash-rm, trash-empty) removes exactly the selected element, fault-free, when the info
    file is a regular file -/
theorem purge_removes_one (fs : FS) (infoC : CPath) (name : Bytes) (payload : CPath) (d : Bytes) (m t : Nat)
    (hi : fs.get (infoC ++ [name]) = some (.file d m t)) (hp : ¬ FS.under payload infoC = true ∧ ¬ FS.under infoC payload = true)
    (hwf : ∀ q, (fs.get q).isSome = true → q ∈ fs.dom) :
    let r := run noFaults (purgePair (.ok payload) (.ok (infoC ++ [name]))) { fs := fs }
    r.1 = .ok () → bag r.2.fs infoC name = none ∧ ∀ n, n ≠ name → bag r.2.fs infoC n = bag fs infoC n :=
  Proofs.C09.purge_removes_one fs infoC name payload d m t hi hp hwf

/-- restoring removes exactly the restored element from the bag (same-volume case) -/
theorem restore_removes_one (fs : FS) (infoC : CPath) (name : Bytes) (src dst : CPath) (d : Bytes) (m t : Nat)
    (hi : fs.get (infoC ++ [name]) = some (.file d m t))
    (hsrc : (fs.get src).isSome = true) (hnm : fs.isMount src = false) (hdst : fs.get dst = none)
    (hpar : fs.isDirAt (FS.parent dst) = true) (hdev : fs.dev (FS.parent src) = fs.dev (FS.parent dst))
    (hname : ∀ n, dst.getLast? = some n → n.length ≤ 255) (hnr : dst ≠ [])
    (hapart : ¬ FS.under src dst = true ∧ ¬ FS.under dst src = true ∧ ¬ FS.under src infoC = true ∧ ¬ FS.under dst infoC = true ∧
              ¬ FS.under infoC src = true ∧ ¬ FS.under infoC dst = true) :
    let r := run noFaults (restoreCore (.ok src) (.ok dst) (.ok (infoC ++ [name]))) { fs := fs }
    r.1 = .ok () ∧ bag r.2.fs infoC name = none ∧ (∀ n, n ≠ name → bag r.2.fs infoC n = bag fs infoC n) ∧
    (∀ rel, r.2.fs.get (dst ++ rel) = fs.get (src ++ rel)) :=
  Proofs.C09.restore_removes_one fs infoC name src dst d m t hi hsrc hnm hdst hpar hdev hname hnr hapart

end TrashVerif.C09
