/-
  Props/C13Cmd.lean — C13 at the COMMAND level: what `runRestore` does for a given reply.

  Props/C13.lean proves the listing side (which entries are offered, in which order) and the reply
  grammar as pure functions.  Here: the effect of the run on the file system.
  `offered fs c o` is the list `trash-restore` prints, numbered from 0 (the expression `runRestore`
  evaluates: scan, scope filter, sort); `selected es idxs` the entries printed at the indices `idxs`.

  (1) Replies that select nothing — under EVERY fault oracle, from every run state:
      `restore_invalid_reply_changes_nothing` (not accepted by the grammar, or an index out of range:
      `invalid` and `crash` alike), `restore_empty_reply_changes_nothing`, `restore_eof_changes_nothing`,
      `restore_nothing_offered`: no call is issued, the file system is what it was; exit status 1 for
      a reply that is not accepted and for EOF, 0 for the empty reply and when nothing is offered.
  (2) `restore_selects_exactly` (fault-free, resolved layer, same-volume case): with a reply that is
      accepted, exactly the entries printed at the denoted indices are restored — each whole, to its
      recorded location, payload and info file gone — and everything else is untouched
      (`RestoredExactly`, Props/C13CmdDefs.lean); exit status 0.  `restored_other`: every entry that
      is not selected keeps its info file and its whole payload; `restored_outside`.
      `plain_rsetting` discharges the resolved layer for canonical spellings from conditions on the
      INITIAL state only.
  (3) `restore_stops_at_first_refusal_cmd`: the run stops at the first selected entry whose
      destination exists (no `--overwrite`): the entries selected before it are restored, it and all
      later ones are not touched, exit status 1.  `restore_same_index_twice` ("2,2"): the second round
      finds the destination occupied (no `--overwrite`: refused, no call) resp. the payload gone
      (`--overwrite`: the `rename` fails, the restored destination survives) — exit status 1, the
      entry restored once, nothing else touched.
  (4) Non-vacuity on a trash directory with three entries (replies "0,2", "1-2", "2,2", "0-2" against an
      occupied destination), evaluated by the kernel through the twins of Proofs/C02CmdEval.lean.

  There is no `_partial` statement: (2) is stated with the hypotheses the property itself names
  (destinations free, pairwise apart, outside the trash directory, parents existing on the volume
  of `files/`), each shown to matter by a kernel-checked counterexample: `same_destination_counterexample`,
  `nested_destination_counterexample` (which also shows `os.makedirs` of a missing parent at work),
  `through_restored_link_counterexample`; a destination inside `info/` is
  `C09Hist.restore_into_info_counterexample`.
  Not covered: restoring across volumes (the copy fallback of `shutil.move`), a missing parent
  (`os.makedirs`), an info file that is a symbolic link, faults during a restore, several trash
  directories holding selected entries.
-/
import TrashVerif.Props.C13
import TrashVerif.Props.C06
import TrashVerif.Props.C10Loop
import TrashVerif.Props.C13CmdDefs
import TrashVerif.Proofs.C13Cmd
import TrashVerif.Proofs.C13CmdEx
namespace TrashVerif.C13Cmd
open TrashVerif PutCore Prog FS C09Hist

/-! ### (1) replies that select nothing -/

/-- A reply that is not accepted — it does not denote a list of indices, or one of them is outside
    the list (`parseIndexes … = .invalid`), or an item has two '-' (`.crash`, an uncaught
    ValueError) — restores NOTHING: under every fault oracle, from every run state, no call is
    issued (trace, history and call counter are unchanged) and the file system is what it was.
    When something was offered and the reply is not the empty line, the exit status is 1 and exactly
    one message follows the listing on stderr ("Invalid entry", resp. the traceback). -/
theorem restore_invalid_reply_changes_nothing (φ : Oracle) (c : ReadCfg) (o : RestoreOpts) (reply : Bytes) (s : RunState)
    (h : ∀ is, parseIndexes reply (offered s.fs c o).length ≠ .ok is) :
    let r := run φ (runRestore c o (some reply)) s
    r.2.fs = s.fs ∧ r.2.trace = s.trace ∧ r.2.hist = s.hist ∧ r.2.n = s.n ∧
    (offered s.fs c o ≠ [] → reply ≠ [] →
      r.1.exit = 1 ∧
      r.1.crash = (if parseIndexes reply (offered s.fs c o).length = .crash then some .typeError else none) ∧
      r.2.outs = Out.stderr (if parseIndexes reply (offered s.fs c o).length = .crash then "traceback" else "invalid-entry") reply ::
        (listing (offered s.fs c o)).reverse ++ s.outs) :=
  Proofs.C13Cmd.invalid_reply φ c o reply s h

/-- … where "not accepted" is, in the words of the reply grammar (Spec/C13.lean): the reply denotes
    no list of indices that are all within the list. -/
theorem not_accepted_iff (r : Bytes) (n : Nat) :
    (∀ is, parseIndexes r n ≠ .ok is) ↔ ¬ ∃ is, C13.Denotes r is ∧ ∀ i ∈ is, i < n :=
  Proofs.C13Cmd.not_accepted_iff r n

/-- The empty reply (the user just pressed Enter; `input()` strips the newline) restores nothing:
    no call, same file system, exit status 0, "No files were restored" after the listing. -/
theorem restore_empty_reply_changes_nothing (φ : Oracle) (c : ReadCfg) (o : RestoreOpts) (s : RunState) :
    let r := run φ (runRestore c o (some [])) s
    r.2.fs = s.fs ∧ r.2.trace = s.trace ∧ r.2.hist = s.hist ∧ r.2.n = s.n ∧ r.1.exit = 0 ∧ r.1.crash = none ∧
    (offered s.fs c o ≠ [] →
      r.2.outs = Out.stdout (b "No files were restored") :: (listing (offered s.fs c o)).reverse ++ s.outs) :=
  Proofs.C13Cmd.empty_reply φ c o s

/-- "Empty" is the empty string only: a reply consisting of a newline — had it not been stripped — is
    an invalid entry (`int("\n")` raises), so by `restore_invalid_reply_changes_nothing` it restores
    nothing either, but with exit status 1. -/
theorem newline_reply_is_invalid (n : Nat) : parseIndexes [10] n = .invalid := Proofs.C13Cmd.newline_reply_invalid n

/-- End of input instead of a reply: no call, same file system; exit status 1 ("quit") when something
    was offered, 0 when nothing was. -/
theorem restore_eof_changes_nothing (φ : Oracle) (c : ReadCfg) (o : RestoreOpts) (s : RunState) :
    let r := run φ (runRestore c o none) s
    r.2.fs = s.fs ∧ r.2.trace = s.trace ∧ r.2.hist = s.hist ∧ r.2.n = s.n ∧
    r.1.exit = (if offered s.fs c o = [] then 0 else 1) ∧ r.1.crash = none ∧
    (offered s.fs c o ≠ [] → r.2.outs = Out.stderr "quit" [] :: (listing (offered s.fs c o)).reverse ++ s.outs) :=
  Proofs.C13Cmd.eof_reply φ c o s

/-- Nothing in scope: one message, exit status 0, no call — whatever the reply. -/
theorem restore_nothing_offered (φ : Oracle) (c : ReadCfg) (o : RestoreOpts) (reply : Option Bytes) (s : RunState)
    (h : offered s.fs c o = []) :
    let r := run φ (runRestore c o reply) s
    r.2.fs = s.fs ∧ r.2.trace = s.trace ∧ r.2.hist = s.hist ∧ r.2.n = s.n ∧ r.1.exit = 0 ∧ r.1.crash = none :=
  Proofs.C13Cmd.nothing_offered φ c o reply s h

/-! ### (2) a reply that is accepted -/

/-- THE SELECTION THEOREM of trash-restore (fault-free; with or without `--overwrite`; every sort mode).
    `idxs` = the indices the reply denotes, all within the list (`hreply`; `C13.parseIndexes_iff`);
    `sel` = the entries printed at these indices, in reply order, each with its resolved layer
    (`hsel`); `S` = the setting: one trash directory `(I, F)`, and for every selected entry the local
    conditions of `C09Hist.Op.ok (.restore …)` in the INITIAL state — info file a regular file,
    payload there and not a mount point, destination free, outside the trash directory, its parent an
    existing directory on the device of `files/` —, destinations pairwise apart, info names distinct,
    and the resolved layer.  Then the run exits 0 without crash and the final file system is the
    initial one with EXACTLY the selected entries restored (`RestoredExactly`):
    for every selected entry and every `rel`, what was at `files/stem/rel` is at `dst/rel`; its info
    file and everything at or below its payload are gone; every other path is as before — except
    that `info/`, `files/` and the parents of the destinations keep kind and mode only (fresh mtime). -/
theorem restore_selects_exactly (fs : FS) (c : ReadCfg) (o : RestoreOpts) (reply : Bytes) (I F : CPath)
    (idxs : List Nat) (sel : List Item)
    (hreply : parseIndexes reply (offered fs c o).length = .ok idxs)
    (hsel : selected (offered fs c o) idxs = sel.map (·.e))
    (S : RSetting fs c.cwd I F sel) :
    let r := run noFaults (runRestore c o (some reply)) { fs := fs }
    r.1.exit = 0 ∧ r.1.crash = none ∧ RestoredExactly fs r.2.fs I F sel :=
  Proofs.C13Cmd.restore_selects_exactly fs c o reply I F idxs sel hreply hsel S

/-- Every entry of the trash directory that is NOT among the restored ones — offered or not — is
    intact: its info file and its whole payload. -/
theorem restored_other (fs fs' : FS) (cwd I F : CPath) (D : List Item) (S : RSetting fs cwd I F D)
    (P : RestoredExactly fs fs' I F D) (m : Bytes) (hm : isTrashinfoName m = true) (hmD : ∀ d ∈ D, d.name ≠ m) :
    (∀ rel, fs'.get (I ++ [m] ++ rel) = fs.get (I ++ [m] ++ rel)) ∧
    (∀ rel, fs'.get (F ++ [stemOf m] ++ rel) = fs.get (F ++ [stemOf m] ++ rel)) :=
  Proofs.C13Cmd.restored_other (Proofs.C09Hist.GeoI.of_inv S.inv) P (fun _ hd => Proofs.C13Cmd.rsetting_gi S hd) hm hmD

/-- Nothing outside the trash directory changes, except at or below the destinations and the mtimes
    of their parent directories. -/
theorem restored_outside (fs fs' : FS) (I F : CPath) (D : List Item) (P : RestoredExactly fs fs' I F D) (q : CPath)
    (hq : Outside I F q) (hd : ∀ d ∈ D, ¬ d.dst <+: q ∧ q ≠ FS.parent d.dst) : fs'.get q = fs.get q :=
  Proofs.C13Cmd.restored_outside P q hq hd

/-- … and the touched directories are still the directories they were (same mode) -/
theorem restored_dirs (fs fs' : FS) (cwd I F : CPath) (D : List Item) (S : RSetting fs cwd I F D)
    (P : RestoredExactly fs fs' I F D) :
    keptDir fs fs' I ∧ keptDir fs fs' F ∧ ∀ d ∈ D, keptDir fs fs' (FS.parent d.dst) :=
  Proofs.C13Cmd.restored_dirs S P

/-- The resolved layer discharged: for the trash directory with canonical path `T` (≠ `/`), scanned
    under its canonical spelling (`--trash-dir`, or a home / volume trash directory spelled
    canonically), and entries whose recorded location is the canonical spelling of `dst`, all of
    `RSetting` follows from facts about the INITIAL state: `T/info`, `T/files` and the parents of
    the destinations are reached through directories only, names are good. -/
theorem plain_rsetting (fs : FS) (cwd T : CPath) (items : List Item)
    (hT0 : T ≠ []) (hTn : C07.GoodNames T)
    (hI : C07.Plain fs (T ++ [b "info"])) (hF : C07.Plain fs (T ++ [b "files"]))
    (isInfo : ∀ it ∈ items, isTrashinfoName it.name = true)
    (good : ∀ it ∈ items, slash ∉ it.name ∧ it.name.length ≤ 255)
    (hinfo : ∀ it ∈ items, it.e.info = C10Loop.infoStr (toStr T) it.name)
    (hloc : ∀ it ∈ items, it.e.loc = toStr it.dst)
    (hdst : ∀ it ∈ items, C07.GoodNames it.dst ∧ C07.Plain fs (FS.parent it.dst))
    (ok : ∀ it ∈ items, Op.ok fs (T ++ [b "info"]) (T ++ [b "files"]) (.restore it.name it.dst))
    (apart : items.Pairwise Apart) :
    RSetting fs cwd (T ++ [b "info"]) (T ++ [b "files"]) items :=
  Proofs.C13Cmd.plain_rsetting fs cwd T items hT0 hTn hI hF isInfo good hinfo hloc hdst ok apart

/-- What the scan yields (ties `Item.name` to the entries): every entry of one trash directory comes
    from a listed `*.trashinfo` name `n`; its info path is the string the readers join for `n`
    (`C10Loop.infoStr`), its location and date are read from that file's text. -/
theorem scanned_entry_shape (fs : FS) (cwd : CPath) (t v : Bytes) (e : Entry) (h : e ∈ restoreEntriesOf fs cwd t v) :
    ∃ n text rel, isTrashinfoName n = true ∧ e.info = C10Loop.infoStr t n ∧
      contentsOf fs cwd e.info = some text ∧ parsePath text = some rel ∧ e.loc = pjoin v rel ∧
      e.date = parseDeletionDate text :=
  Proofs.C13Cmd.scanned_entry_shape fs cwd t v e h

/-- the offered list holds exactly the scanned entries in scope (`C13.offered_perm`, `C13.inScope_iff`) -/
theorem mem_offered (fs : FS) (c : ReadCfg) (o : RestoreOpts) (e : Entry) :
    e ∈ offered fs c o ↔ e ∈ restoreEntries fs c o ∧ inScope (scopeOf c o) e.loc = true :=
  Proofs.C13Cmd.mem_offered fs c o e

/-! ### (3) refusals -/

/-- `C06.restore_stops_at_refusal` lifted to the command.  No `--overwrite`; the selection is
    `pre ++ ek :: post`; the entries `pre` are in the setting of (2); the destination of `ek` exists
    (`lexists`) in every state in which exactly `pre` have been restored (`lexists_stays` discharges
    this for a destination that exists initially, outside the footprints of `pre`).  Then `pre` are
    restored — exactly they (`RestoredExactly`) —, `ek` and everything selected after it stay in the
    trash untouched (`restored_other`), "die" is reported and the exit status is 1. -/
theorem restore_stops_at_first_refusal_cmd (fs : FS) (c : ReadCfg) (o : RestoreOpts) (reply : Bytes) (I F : CPath)
    (idxs : List Nat) (pre : List Item) (ek : Entry) (post : List Entry)
    (hov : o.overwrite = false)
    (hreply : parseIndexes reply (offered fs c o).length = .ok idxs)
    (hsel : selected (offered fs c o) idxs = pre.map (·.e) ++ ek :: post)
    (S : RSetting fs c.cwd I F pre)
    (hk : ∀ fs', RestoredExactly fs fs' I F pre → pLexists fs' c.cwd ek.loc = true) :
    let r := run noFaults (runRestore c o (some reply)) { fs := fs }
    r.1.exit = 1 ∧ r.1.crash = none ∧ RestoredExactly fs r.2.fs I F pre ∧ Out.stderr "die" [] ∈ r.2.outs :=
  Proofs.C13Cmd.restore_stops_at_first_refusal_cmd fs c o reply I F idxs pre ek post hov hreply hsel S hk

/-- what exists initially outside the footprints of `items`, at a canonical spelling whose way is
    outside them too, exists in every reachable state -/
theorem lexists_stays (I F : CPath) (items : List Item) (fs fs' : FS) (hR : Reach I F items fs fs') (cwd : CPath)
    (P : CPath) (x : Name) (hp : C07.Plain fs P) (gn : C07.GoodNames (P ++ [x]))
    (hsome : (fs.get (P ++ [x])).isSome = true)
    (hfree : ∀ q, q <+: P ++ [x] → ∀ it ∈ items, ¬ Foot I F it q) :
    pLexists fs' cwd (toStr (P ++ [x])) = true :=
  Proofs.C13Cmd.lexists_stays hR cwd hp gn hsome hfree

theorem restored_reach (fs fs' : FS) (I F : CPath) (D : List Item) (P : RestoredExactly fs fs' I F D) :
    Reach I F D fs fs' := Proofs.C13Cmd.reach_of_restored P

/-- The same index twice ("2,2", "0,1,0", "1-2,2" …): the selection is `pre ++ it.e :: post` with `it`
    already among `pre`.  WITH OR WITHOUT `--overwrite` the run stops there with exit status 1: the
    entries `pre` — `it` included, once — are restored, exactly they; everything selected after
    the repetition is not touched.  (Without `--overwrite` the second round is refused — the
    destination exists now — and issues no call; with it the `rename` of the payload, which is
    gone, fails, and the restored destination survives: `C06.overwrite_keeps_destination_when_payload_missing`.) -/
theorem restore_same_index_twice (fs : FS) (c : ReadCfg) (o : RestoreOpts) (reply : Bytes) (I F : CPath)
    (idxs : List Nat) (pre : List Item) (it : Item) (post : List Entry)
    (hreply : parseIndexes reply (offered fs c o).length = .ok idxs)
    (hsel : selected (offered fs c o) idxs = pre.map (·.e) ++ it.e :: post)
    (S : RSetting fs c.cwd I F pre) (hit : it ∈ pre) :
    let r := run noFaults (runRestore c o (some reply)) { fs := fs }
    r.1.exit = 1 ∧ r.1.crash = none ∧ RestoredExactly fs r.2.fs I F pre ∧ Out.stderr "die" [] ∈ r.2.outs :=
  Proofs.C13Cmd.restore_same_index_twice fs c o reply I F idxs pre it post hreply hsel S hit

/-! ### (4) non-vacuity: `/t` holds `b` (2024-01-01, a directory with a file), `c` (2024-01-02, a symbolic
    link), `a` (2024-01-03, a file), all trashed from `/home`; `trash-restore / --trash-dir /t`.
    Everything below is checked by the kernel, the command being run through the twins
    (`run noFaults (runRestore …) = restoreS …`: `C02Cmd.twins`). -/

section examples
open Proofs.C13CmdEx Proofs.C13CmdEx.Demo

/-- the listing, by deletion date: 0 = `/home/b`, 1 = `/home/c`, 2 = `/home/a` -/
example : offered W rc op = [eB, eC, eA] := W_offered

/-- the setting holds for every sub-selection of the three entries -/
example : RSetting W [] I F [itB, itC, itA] := W_setting _ (List.Sublist.refl _)

/-- reply "0,2": the hypotheses of the selection theorem … -/
example : parseIndexes (b "0,2") (offered W rc op).length = .ok [0, 2] ∧
    selected (offered W rc op) [0, 2] = [itB, itA].map (·.e) ∧ RSetting W rc.cwd I F [itB, itA] :=
  ⟨reply_0_2.1, reply_0_2.2, W_setting _ (by decide +kernel)⟩

/-- … its conclusion … -/
example :
    let r := run noFaults (runRestore rc op (some (b "0,2"))) { fs := W }
    r.1.exit = 0 ∧ r.1.crash = none ∧ RestoredExactly W r.2.fs I F [itB, itA] := W_theorem_0_2

/-- … and the run evaluated: four calls; `/home/b` (with `/home/b/x`) and `/home/a` are back, their
    payloads and info files gone; entry `c`, `/home/keep` as before; `info/`, `files/`, `/home` with the
    fresh mtime 0. -/
example :
    (Proofs.C02CmdEx.restoreS rc op (b "0,2") W).1.exit = 0 ∧ (Proofs.C02CmdEx.restoreS rc op (b "0,2") W).2.trace.length = 4 ∧
    (Proofs.C02CmdEx.restoreS rc op (b "0,2") W).2.fs.toList =
      [([b "home", b "a"], .file [65] 0o644 3), ([b "home", b "b"], dirN), ([b "home", b "b", b "x"], .file [66] 0o644 3),
       ([], dirN), (T, dirN), (I, .dir 0o755 0), (F, .dir 0o755 0),
       (I ++ [cN], .file (b "[Trash Info]\nPath=/home/c\nDeletionDate=2024-01-02T00:00:00\n") 0o600 3),
       (F ++ [b "c"], .link (b "/home/keep")), ([b "home"], .dir 0o755 0), ([b "home", b "keep"], .file [124] 0o644 3)] :=
  W_run_0_2

/-- reply "1-2": hypotheses, conclusion, evaluation (the symbolic link `c` is moved, not followed) -/
example : parseIndexes (b "1-2") (offered W rc op).length = .ok [1, 2] ∧
    selected (offered W rc op) [1, 2] = [itC, itA].map (·.e) := reply_1_2

example :
    let r := run noFaults (runRestore rc op (some (b "1-2"))) { fs := W }
    r.1.exit = 0 ∧ r.1.crash = none ∧ RestoredExactly W r.2.fs I F [itC, itA] := W_theorem_1_2

example :
    (Proofs.C02CmdEx.restoreS rc op (b "1-2") W).1.exit = 0 ∧
    (Proofs.C02CmdEx.restoreS rc op (b "1-2") W).2.fs.toList =
      [([b "home", b "a"], .file [65] 0o644 3), ([b "home", b "c"], .link (b "/home/keep")),
       ([], dirN), (T, dirN), (I, .dir 0o755 0), (F, .dir 0o755 0),
       (I ++ [bN], .file (b "[Trash Info]\nPath=/home/b\nDeletionDate=2024-01-01T00:00:00\n") 0o600 3),
       (F ++ [b "b"], dirN), (F ++ [b "b", b "x"], .file [66] 0o644 3),
       ([b "home"], .dir 0o755 0), ([b "home", b "keep"], .file [124] 0o644 3)] := W_run_1_2

/-- replies that are not accepted there ("3", "0,3": out of range; "0-1-2": crash; "x"), and one that
    is accepted and denotes nothing ("2-1") -/
example : parseIndexes (b "3") (offered W rc op).length = .invalid ∧
    parseIndexes (b "0,3") (offered W rc op).length = .invalid ∧
    parseIndexes (b "0-1-2") (offered W rc op).length = .crash ∧
    parseIndexes (b "x") (offered W rc op).length = .invalid ∧
    parseIndexes (b "2-1") (offered W rc op).length = .ok [] := W_no_selection

/-- "2,2", with and without `--overwrite`: exit status 1, exactly `a` restored (theorem instantiated) … -/
example (ov : Bool) :
    (run noFaults (runRestore rc { op with overwrite := ov } (some (b "2,2"))) { fs := W }).1.exit = 1 ∧
    RestoredExactly W (run noFaults (runRestore rc { op with overwrite := ov } (some (b "2,2"))) { fs := W }).2.fs I F [itA] :=
  W_theorem_2_2 ov

/-- … and evaluated: two calls without `--overwrite` (the second round issues none), three with it (the
    failing `rename`) -/
example :
    (Proofs.C02CmdEx.restoreS rc op (b "2,2") W).1.exit = 1 ∧ (Proofs.C02CmdEx.restoreS rc op (b "2,2") W).2.trace.length = 2 ∧
    (Proofs.C02CmdEx.restoreS rc op (b "2,2") W).2.fs.get [b "home", b "a"] = some (.file [65] 0o644 3) ∧
    (Proofs.C02CmdEx.restoreS rc { op with overwrite := true } (b "2,2") W).1.exit = 1 ∧
    (Proofs.C02CmdEx.restoreS rc { op with overwrite := true } (b "2,2") W).2.trace.length = 3 ∧
    (Proofs.C02CmdEx.restoreS rc { op with overwrite := true } (b "2,2") W).2.fs.get [b "home", b "a"] = some (.file [65] 0o644 3) :=
  W_run_2_2

/-- a refusal in the middle: `WR` = `W` plus a file at `/home/c`; reply "0-2".  The refusal theorem
    instantiated (its hypothesis `hk` through `lexists_stays`) … -/
example :
    (run noFaults (runRestore rc op (some (b "0-2"))) { fs := WR }).1.exit = 1 ∧
    RestoredExactly WR (run noFaults (runRestore rc op (some (b "0-2"))) { fs := WR }).2.fs I F [itB] := WR_theorem

/-- … and evaluated: `b` is restored; `c` and `a` are still in the trash, `/home/c` is what it was,
    `/home/a` is not there -/
example :
    (Proofs.C02CmdEx.restoreS rc op (b "0-2") WR).1.exit = 1 ∧ (Proofs.C02CmdEx.restoreS rc op (b "0-2") WR).2.trace.length = 2 ∧
    (Proofs.C02CmdEx.restoreS rc op (b "0-2") WR).2.fs.get [b "home", b "b", b "x"] = some (.file [66] 0o644 3) ∧
    (Proofs.C02CmdEx.restoreS rc op (b "0-2") WR).2.fs.get [b "home", b "c"] = some (.file [99] 0o644 3) ∧
    (Proofs.C02CmdEx.restoreS rc op (b "0-2") WR).2.fs.get (F ++ [b "c"]) = some (.link (b "/home/keep")) ∧
    (Proofs.C02CmdEx.restoreS rc op (b "0-2") WR).2.fs.get (I ++ [cN]) = WR.get (I ++ [cN]) ∧
    (Proofs.C02CmdEx.restoreS rc op (b "0-2") WR).2.fs.get (F ++ [b "a"]) = some (.file [65] 0o644 3) ∧
    (Proofs.C02CmdEx.restoreS rc op (b "0-2") WR).2.fs.get (I ++ [aN]) = WR.get (I ++ [aN]) ∧
    (Proofs.C02CmdEx.restoreS rc op (b "0-2") WR).2.fs.get [b "home", b "a"] = none := WR_run

/-- the twins ARE the command -/
theorem twin (c : ReadCfg) (o : RestoreOpts) (reply : Bytes) (fs : FS) :
    run noFaults (runRestore c o (some reply)) { fs := fs } = Proofs.C02CmdEx.restoreS c o reply fs := run_twin c o reply fs

end examples

/-! ### the side conditions matter (kernel-checked by evaluating the model) -/

section counterexamples
open Proofs.C13CmdEx Proofs.C13CmdEx.Cex Proofs.C13CmdEx.Demo

/-- Without "the destinations are pairwise apart" `restore_selects_exactly` is FALSE.  World `WS`: two
    entries `a` (2024-01-01) and `a_1` (2024-01-02) trashed from the SAME location `/home/a`.  Both
    satisfy every local condition in the initial state, their info names differ.  Answered "0,1" the
    first is restored, the second is refused (its destination exists by then): exit status 1, and
    the second entry stays in the trash.  REAL behaviour of trash-cli, not a modelling artefact. -/
theorem same_destination_counterexample :
    Op.ok WS I F (.restore (b "a.trashinfo") [b "home", b "a"]) ∧
    Op.ok WS I F (.restore (b "a_1.trashinfo") [b "home", b "a"]) ∧
    (offered WS rc op).map (·.loc) = [b "/home/a", b "/home/a"] ∧
    parseIndexes (b "0,1") 2 = .ok [0, 1] ∧
    (run noFaults (runRestore rc op (some (b "0,1"))) { fs := WS }).1.exit = 1 ∧
    (run noFaults (runRestore rc op (some (b "0,1"))) { fs := WS }).2.fs.get [b "home", b "a"] = some (.file [65] 0o644 3) ∧
    (run noFaults (runRestore rc op (some (b "0,1"))) { fs := WS }).2.fs.get (F ++ [b "a_1"]) = some (.file [66] 0o644 3) ∧
    (run noFaults (runRestore rc op (some (b "0,1"))) { fs := WS }).2.fs.get (I ++ [b "a_1.trashinfo"]) =
      WS.get (I ++ [b "a_1.trashinfo"]) := by
  rw [run_twin]; exact same_destination

/-- Without "the parent of every destination exists initially" (which, with "free", keeps a destination
    from lying inside another one) the claim "every selected entry is back WHOLE" is FALSE.
    World `WN`: the empty directory `d` trashed from `/home/d` (2024-01-01) and the file `z` trashed from
    `/home/d/z` (2024-01-02).  `d` satisfies every local condition; `z` all but the existence of its
    parent.  Answered "0,1": `d` is restored, then `z` goes INTO it — exit status 0, and `/home/d/z` is
    there although the payload of `d` held no `z`.  Answered "1,0": `os.makedirs` creates `/home/d` for
    `z`; then `d` is refused, its destination exists now: exit status 1, `d` stays in the trash. -/
theorem nested_destination_counterexample :
    Op.ok WN I F (.restore (b "d.trashinfo") [b "home", b "d"]) ∧
    WN.get [b "home", b "d", b "z"] = none ∧ WN.isDirAt [b "home", b "d"] = false ∧
    (offered WN rc op).map (·.loc) = [b "/home/d", b "/home/d/z"] ∧
    (run noFaults (runRestore rc op (some (b "0,1"))) { fs := WN }).1.exit = 0 ∧
    (run noFaults (runRestore rc op (some (b "0,1"))) { fs := WN }).2.fs.get ([b "home", b "d"] ++ [b "z"]) =
      some (.file [90] 0o644 3) ∧
    WN.get (F ++ [b "d"] ++ [b "z"]) = none ∧
    (run noFaults (runRestore rc op (some (b "1,0"))) { fs := WN }).1.exit = 1 ∧
    (run noFaults (runRestore rc op (some (b "1,0"))) { fs := WN }).2.fs.get [b "home", b "d", b "z"] =
      some (.file [90] 0o644 3) ∧
    (run noFaults (runRestore rc op (some (b "1,0"))) { fs := WN }).2.fs.get (F ++ [b "d"]) = some dirN := by
  rw [run_twin, run_twin]; exact nested_destination

/-- Without the STABILITY of the resolved layer (`RSetting.resolves` speaks of every reachable state)
    "everything outside the destinations is unchanged" is FALSE.  World `WL`: the symbolic link
    `l -> /home` trashed from `/home/l` (2024-01-01) and the file `w` trashed from `/home/l/w`
    (2024-01-02; initially that string does not resolve).  Answered "0,1" the link is restored first,
    and the location of the second entry then resolves THROUGH it: the file lands at `/home/w` — at
    or below neither `/home/l` nor `/home/l/w`.  Exit status 0. -/
theorem through_restored_link_counterexample :
    (offered WL rc op).map (·.loc) = [b "/home/l", b "/home/l/w"] ∧
    FS.resolve WL [] (b "/home/l/w") = .error .ENOENT ∧
    (run noFaults (runRestore rc op (some (b "0,1"))) { fs := WL }).1.exit = 0 ∧
    (run noFaults (runRestore rc op (some (b "0,1"))) { fs := WL }).2.fs.get [b "home", b "l"] = some (.link (b "/home")) ∧
    WL.get [b "home", b "w"] = none ∧
    (run noFaults (runRestore rc op (some (b "0,1"))) { fs := WL }).2.fs.get [b "home", b "w"] = some (.file [87] 0o644 3) ∧
    (run noFaults (runRestore rc op (some (b "0,1"))) { fs := WL }).2.fs.get [b "home", b "l", b "w"] = none := by
  rw [run_twin]; exact through_restored_link

end counterexamples

end TrashVerif.C13Cmd
