/-
  Props/C05CmdDefs.lean — vocabulary of the COMMAND-level theorems of C05 (Props/C05Cmd.lean):
  the states a kill can leave behind during a WHOLE run of `trash-put`, replayed from the list of
  system calls, and the invariant of C05 on resolved paths.
-/
import TrashVerif.Props.C07CmdDefs
import TrashVerif.Spec.C03
import TrashVerif.Spec.Trash
import TrashVerif.Props.C03CmdDefs
namespace TrashVerif.C05Cmd
open TrashVerif Prog FS
open TrashVerif.C07Cmd (filesOf infoOf firstUseTrace)

/-- the file system after the system call `c` (unchanged when the call fails) -/
def stepFS (fs : FS) (c : Call) : FS :=
  match c.apply fs with
  | .ok fs' => fs'
  | .error _ => fs

/-- the states a sequence of system calls (oldest first) goes through, the initial one included:
    `[fs, after the 1st call, after the 2nd, …, after the last]` -/
def statesAlong (fs : FS) : List Call → List FS
  | [] => [fs]
  | c :: cs => fs :: statesAlong (stepFS fs c) cs

/-- the system calls a run issued, oldest first -/
def callsOf (tr : List (Call × Res)) : List Call := (tr.map (·.1)).reverse

/-- the `mkdir` calls of a first use of `T = Q ++ x :: R`, oldest first: the missing ancestors (default
    mode), then `T`, `T/files`, `T/info` (0o700) -/
def mkdirCalls (Q : CPath) (x : Name) (R : CPath) : List Call :=
  ((List.range R.length).map fun k => Call.mkdir (Q ++ x :: R.take k) 0o777) ++
  [Call.mkdir (Q ++ x :: R) 0o700, Call.mkdir (filesOf (Q ++ x :: R)) 0o700, Call.mkdir (infoOf (Q ++ x :: R)) 0o700]

/-- the complete list of system calls of a first use (`C07Cmd.firstUseTrace`), oldest first -/
def firstUseCalls (Q : CPath) (x : Name) (R : CPath) (src : CPath) (stem content : Bytes) : List Call :=
  mkdirCalls Q x R ++
  [Call.createExcl (infoOf (Q ++ x :: R) ++ [stem ++ trashinfoExt]) 0o600,
   Call.write (infoOf (Q ++ x :: R) ++ [stem ++ trashinfoExt]) content,
   Call.close (infoOf (Q ++ x :: R) ++ [stem ++ trashinfoExt]),
   Call.rename src (filesOf (Q ++ x :: R) ++ [stem])]

/-- the state after a successful exclusive create of `p` (mode 0o600): an EMPTY regular file, the
    parent directory's mtime refreshed -/
def afterCreate (fs : FS) (p : CPath) : FS := touchDir (setNode fs p (.file [] 0o600 0)) (FS.parent p)

/-- … and after the one `write` of `content` -/
def afterWrite (fs : FS) (p : CPath) (content : Bytes) : FS := setNode (afterCreate fs p) p (.file content 0o600 0)

/-- `p` is a regular file whose bytes are a conformant `.trashinfo` for the location `loc` (Spec
    predicate `C03.Holds`), complete in the sense of the C05 Spec (`Spec.infoComplete`), and which
    every reader parses: `parsePath` gives back `loc`, `parseDeletionDate` gives back `d`. -/
def InfoParses (s : FS) (p : CPath) (loc : Bytes) (d : Date) : Prop :=
  ∃ data m t, s.get p = some (.file data m t) ∧ C03.Holds data loc = true ∧ Spec.infoComplete data = true ∧
    (readText data).bind parsePath = some loc ∧ (readText data).bind parseDeletionDate = some d

/-- The invariant of C05 for one state `s` a kill can leave behind while `trash-put` moves the entry
    `src` of the initial state `fs` to `files/<stem>` (`F = …/files`, `I = …/info`):
    * `whole`: the entry is complete at its original location — EVERY node of its subtree as before —
      and the slot `files/<stem>` is as it was (empty), OR the entry is complete under `files/<stem>`
      — every node — and NOTHING is left at the original location: never missing from both, never
      partly in each;
    * `others`: every other slot of `files/` is as it was;
    * `infoFirst`: whenever `files/<stem>` exists, `info/<stem>.trashinfo` exists, is a regular file
      and parses. -/
structure CrashInv (fs s : FS) (I F src : CPath) (stem loc : Bytes) (d : Date) : Prop where
  whole :
    ((∀ rel, s.get (src ++ rel) = fs.get (src ++ rel)) ∧ (∀ rel, s.get (F ++ [stem] ++ rel) = fs.get (F ++ [stem] ++ rel))) ∨
    ((∀ rel, s.get (F ++ [stem] ++ rel) = fs.get (src ++ rel)) ∧ (∀ rel, s.get (src ++ rel) = none))
  others : ∀ z, z ≠ stem → ∀ rel, s.get (F ++ z :: rel) = fs.get (F ++ z :: rel)
  infoFirst : (s.get (F ++ [stem])).isSome = true → InfoParses s (I ++ [stem ++ trashinfoExt]) loc d

/-- a state of the `mkdir` phase of a first use of `T = Q ++ x :: R`: outside `Q` (whose mtime is
    refreshed) and the subtree `Q/x` nothing differs from `fs`; at or below `Q/x` there are only
    directories, and only where the run makes them: on the way to `T`, `T/files`, `T/info` -/
structure DirsOnly (fs s : FS) (Q : CPath) (x : Name) (R : CPath) : Prop where
  frame : ∀ q, q ≠ Q → ¬ Q ++ [x] <+: q → s.get q = fs.get q
  base : PutCore.keptDir fs s Q
  below : ∀ q, Q ++ [x] <+: q → s.get q = none ∨
    ((q <+: Q ++ x :: R ∨ q = filesOf (Q ++ x :: R) ∨ q = infoOf (Q ++ x :: R)) ∧ ∃ m, s.get q = some (.dir m 0))

end TrashVerif.C05Cmd
