/-
  Props/C13OrderDefs.lean — definitions for Props/C13Order.lean: the ORDER in which `trash-restore`
  restores the chosen entries.
-/
import TrashVerif.Props.C13CmdDefs
namespace TrashVerif.C13Order
open TrashVerif Prog FS C13Cmd

/-- Restoring the entries `es` ONE AFTER THE OTHER, in list order: `restoreOne` on the first in the
    state `s`, on the second in the state the first left, …; the first failure ends the loop (its
    error and the state it left are returned, the later entries are not looked at). -/
def restoreSeq (φ : Oracle) (cwd : CPath) (ov : Bool) : List Entry → RunState → Res × RunState
  | [], s => (.ok (), s)
  | e :: es, s =>
    match (run φ (restoreOne cwd ov e) s).1 with
    | .ok () => restoreSeq φ cwd ov es (run φ (restoreOne cwd ov e) s).2
    | .error er => (.error er, (run φ (restoreOne cwd ov e) s).2)

/-- how `trash-restore` ends after the loop: exit status 0, or "die" on stderr and exit status 1 -/
def finish (r : Res × RunState) : CmdResult × RunState :=
  match r.1 with
  | .ok () => ({ exit := 0 }, r.2)
  | .error _ => ({ exit := 1 }, { r.2 with outs := Out.stderr "die" [] :: r.2.outs })

/-- the state after the numbered listing was printed -/
def afterListing (c : ReadCfg) (o : RestoreOpts) (s : RunState) : RunState :=
  { s with outs := (listing (offered s.fs c o)).reverse ++ s.outs }

/-- two file systems that no call can tell apart: the same node at every path, the same mount table
    (the field `dom` — the enumeration order `toList` uses — is bookkeeping and may differ) -/
def SameFS (a b : FS) : Prop := (∀ q, a.get q = b.get q) ∧ a.mounts = b.mounts

end TrashVerif.C13Order
