/-
  Props/C17Seq.lean — C17 for argument lists of ANY length under ONE fault: where the single fault of a
  single-fault oracle (`SingleFault.FaultOnlyAt φ k`: nothing but the call with GLOBAL index `k` can be
  answered with an errno; `SingleFault.faultAt k e` for every errno `e` is one) lands in the fold
  `C16Seq.putSeq` of an N-argument run of `trash-put`, and what follows from it in the everyday setting
  of Props/C16Seq.lean / Props/C01Seq.lean.

  Props/C17Single.lean treats ONE run of the put core; Props/C16Seq.lean shows that the N-argument run is
  the fold of the one-argument step for EVERY oracle; here the two are put together.

  (1) `single_fault_lands_in_one_argument` (every configuration, scripted input, argument list, start
      state): the argument list splits as `pre ++ a :: suf` — the rounds of `pre` run EXACTLY as under
      `noFaults` and end with the call counter (`RunState.n`, carried from round to round) at or below
      `k`; the round of `a` starts at or below `k` and ends above it (the call with index `k`, the only one
      that can be faulted, is issued in this round); the rounds of `suf` run exactly as under
      `noFaults` from the state the round of `a` left; the split is UNIQUE — or the counter never reaches
      `k` and the whole run is the fault-free run.  `round_before_fault` / `round_after_fault`: the
      round-by-round form (the oracle as each round sees it through the counter it starts with).
  (2) `n_args_single_fault_conserves_partial` (`HomeWorld`, `HomeItems`, `st.ints = []`, any `k`, any
      single-fault oracle, so any errno): the run is the fault-free run (everything trashed whole, exit 0),
      or the items split as `pre ++ x :: suf` with the fault in the round of `x`: all of `pre` is trashed
      whole (`C01Seq.AllTrashed` between the initial file system and the one `x` is handled in), reported
      as trashed, no exception; `HomeWorld` and `HomeItems (x :: suf)` hold in that state; the rest of the
      run is the round of `x` under the fault followed by the FAULT-FREE fold over `suf`.
      `fault_in_last_argument_partial`: when the fault is not delivered to the prefix of a list `pre ++ [x]`:
      the prefix is trashed whole, the final run state is that of `putOne` on `x` under the fault from the
      state the prefix left, the exit status is 0 iff the outcome of `x` is not a failure, else 74 with a
      "cannot trash" line naming `x` (1 with a traceback when the clean-up unlink crashed).
      `_partial` — what is NOT proved, and why the intended statement is FALSE as worded:

        INTENDED: "… and argument j is either trashed whole under `files/<name_j>` of the HOME trash or
        untouched (origin subtree as initially, no `files/<name_j>`, no `info/<name_j>.trashinfo`); the
        exit status is 0 iff argument j was trashed; when it is not, the diagnostic names j; every
        argument behind j is trashed whole in the home trash."

        FALSE in the everyday setting: `single_fault_falls_through_to_next_candidate` (kernel-checked).
        A fault on a call of the name search in the home trash (EACCES on the exclusive create) makes
        `trash_file_in` fail for the HOME candidate only; `trash-put` goes on to the next candidate of
        the volume, creates `/.Trash-0` and trashes the argument THERE: exit status 0, no diagnostic,
        nothing of it in the home trash, origin gone.  The argument IS trashed whole — in another trash
        directory.  REAL behaviour of /repo's code (`Trasher.trash_single` tries every candidate in
        turn and only reports when all failed); it is what C17 permits ("fully trashed"), but not the
        home-trash form of the statement.  A true general statement has to range over all candidates.
        NOTE also: `AllTrashed … pre` is stated between the initial file system and the one round j
        STARTS in, not the final one: that round j under a fault (and the rounds behind it) leave the
        payloads of `pre` alone needs a frame theorem for `trashSingle` under faults, which is missing.
        What blocks the rest: (a) `C17Single.put_single_fault_conserves` speaks of the put CORE started
        with call counter 0, whereas round j runs `trash_single` (three `mkdir -p` calls in front of the
        core, then possibly further candidates) with the counter the prefix left — no single-fault
        theorem about `trashSingle`/`tryCandidates` exists yet; (b) for the arguments BEHIND j the
        hypotheses `HomeWorld`/`HomeItems` would have to be carried through a round that left
        `PutCore.Untouched` (mtime of `info/` changed) or a trashing in another trash directory; only the
        carrying through a fault-free home trashing (`C16Seq.home_items_after`) is available.
  (2') `run_from_any_state`, `put_single_fault_conserves_any_state`: blocker (a), first half, removed — a run
      from ANY run state is the run from the fresh state under the oracle re-indexed by the counter and
      trace carried in `RunState` (`seenFrom`), so the single-fault theorem of the put core holds from
      the state any prefix of rounds left.
  (3) non-vacuity, kernel-checked (HOME=/h with its trash, `/p/x`, `/p/y`; `--trash-dir` makes the home
      trash the only candidate): EACCES on the exclusive create of the first argument's info file —
      exit 74, `/p/x` untouched and named on stderr, `/p/y` trashed; ENOSPC on the write of the second's —
      exit 74, `/p/y` untouched (clean-up unlink ran), `/p/x` trashed.
-/
import TrashVerif.Props.C17Single
import TrashVerif.Props.C16Seq
import TrashVerif.Props.C01Seq
import TrashVerif.Proofs.C17Seq
import TrashVerif.Proofs.C17SeqHome
import TrashVerif.Proofs.C17SeqEx
namespace TrashVerif.C17Seq
open TrashVerif Prog FS C16Indep C16Seq C01Seq SingleFault

/-! ### (1) the fault lands in exactly one round -/

/-- a round that ENDS at or below the faulted index is the fault-free round -/
theorem round_before_fault (φ : Oracle) (k : Nat) (h : FaultOnlyAt φ k) (c : PutCfg) (σ : SeqSt) (a : Bytes)
    (hk : (stepArg φ c σ a).s.n ≤ k) : stepArg φ c σ a = stepArg noFaults c σ a :=
  Proofs.C17Seq.step_before h c σ a hk

/-- a round that STARTS above the faulted index is the fault-free round, and so are all that follow -/
theorem round_after_fault (φ : Oracle) (k : Nat) (h : FaultOnlyAt φ k) (c : PutCfg) (σ : SeqSt) (a : Bytes)
    (hk : k < σ.s.n) : stepArg φ c σ a = stepArg noFaults c σ a := Proofs.C17Seq.step_after h c σ a hk

theorem rounds_after_fault (φ : Oracle) (k : Nat) (h : FaultOnlyAt φ k) (c : PutCfg) (args : List Bytes) (σ : SeqSt)
    (hk : k < σ.s.n) : args.foldl (stepArg φ c) σ = args.foldl (stepArg noFaults c) σ :=
  Proofs.C17Seq.foldl_after h c args σ hk

/-- the call counter never decreases from round to round -/
theorem counter_monotone (φ : Oracle) (c : PutCfg) (args : List Bytes) (σ : SeqSt) :
    σ.s.n ≤ (args.foldl (stepArg φ c) σ).s.n := Proofs.C17Seq.foldl_n_le φ c args σ

/-- THE SINGLE FAULT LANDS IN EXACTLY ONE ARGUMENT.  `φ` faults at most the call with global index `k`
    (any errno), the run starts with the counter at or below `k`.  Either the counter never passes `k`
    and the whole fold is the fault-free fold; or `args = pre ++ a :: suf`, uniquely, with: the fold over
    `pre` is the fault-free fold and ends with the counter `≤ k`; the round of `a`, run under `φ` from
    that state, ends with the counter `> k`; the fold over `suf` is the FAULT-FREE fold from the state the
    round of `a` left. -/
theorem single_fault_lands_in_one_argument (φ : Oracle) (k : Nat) (h : FaultOnlyAt φ k) (c : PutCfg)
    (args : List Bytes) (st : PutSt) (s : RunState) (hs : s.n ≤ k) :
    (putSeq φ c args st s = putSeq noFaults c args st s ∧ (putSeq φ c args st s).s.n ≤ k) ∨
    (∃ pre a suf, args = pre ++ a :: suf ∧
      putSeq φ c pre st s = putSeq noFaults c pre st s ∧
      (putSeq noFaults c pre st s).s.n ≤ k ∧
      k < (stepArg φ c (putSeq noFaults c pre st s) a).s.n ∧
      putSeq φ c (pre ++ [a]) st s = stepArg φ c (putSeq noFaults c pre st s) a ∧
      putSeq φ c args st s = suf.foldl (stepArg noFaults c) (stepArg φ c (putSeq noFaults c pre st s) a) ∧
      (∀ pre' a' suf', args = pre' ++ a' :: suf' → (putSeq φ c pre' st s).s.n ≤ k →
        k < (putSeq φ c (pre' ++ [a']) st s).s.n → pre' = pre ∧ a' = a ∧ suf' = suf)) := by
  rcases Proofs.C17Seq.fold_split h c args (initSt st s) hs with h1 | ⟨pre, a, suf, e, h2, h3, h4, h5⟩
  · exact .inl h1
  · refine .inr ⟨pre, a, suf, e, h2, h3, h4, ?_, h5, ?_⟩
    · show (pre ++ [a]).foldl (stepArg φ c) (initSt st s) = _
      rw [List.foldl_append, List.foldl_cons, List.foldl_nil, h2]; rfl
    · intro pre' a' suf' e' g1 g2
      have g2' : k < (stepArg φ c (pre'.foldl (stepArg φ c) (initSt st s)) a').s.n := by
        have : putSeq φ c (pre' ++ [a']) st s = stepArg φ c (pre'.foldl (stepArg φ c) (initSt st s)) a' := by
          show (pre' ++ [a']).foldl (stepArg φ c) (initSt st s) = _
          rw [List.foldl_append, List.foldl_cons, List.foldl_nil]
        rw [this] at g2; exact g2
      have h3' : (pre.foldl (stepArg φ c) (initSt st s)).s.n ≤ k := by rw [h2]; exact h3
      have h4' : k < (stepArg φ c (pre.foldl (stepArg φ c) (initSt st s)) a).s.n := by rw [h2]; exact h4
      have hl := Proofs.C17Seq.interval_unique φ c (initSt st s) pre' pre a' a suf' suf k (by rw [← e', ← e])
        g1 g2' h3' h4'
      have := List.append_inj (by rw [← e', ← e]) hl
      obtain ⟨p1, p2⟩ := this
      cases p2
      exact ⟨p1, rfl, rfl⟩

/-- … and when the run starts beyond `k`, nothing is faulted at all -/
theorem fault_before_start (φ : Oracle) (k : Nat) (h : FaultOnlyAt φ k) (c : PutCfg)
    (args : List Bytes) (st : PutSt) (s : RunState) (hs : k < s.n) :
    run φ (runPut c args st) s = run noFaults (runPut c args st) s := by
  rw [put_run_is_fold, put_run_is_fold]
  exact congrArg finish (Proofs.C17Seq.foldl_after h c args (initSt st s) hs)

/-! ### (2) the everyday setting -/

/-- `n_args_single_fault_conserves_partial` — see the header for what is proved and why the intended
    statement about argument j itself is false in the home-trash form. -/
theorem n_args_single_fault_conserves_partial (c : PutCfg) (fs : FS) (H : CPath) (st : PutSt) (items : List Item)
    (φ : Oracle) (k : Nat) (W : HomeWorld c fs H) (hints : st.ints = []) (HI : HomeItems c fs H st items)
    (h : FaultOnlyAt φ k) :
    let r := run φ (runPut c (items.map Item.arg) st) { fs := fs }
    (r = run noFaults (runPut c (items.map Item.arg) st) { fs := fs } ∧ r.2.n ≤ k ∧
      AllTrashed c H fs r.2.fs items ∧ r.1.crash = none ∧ r.1.exit = 0) ∨
    (∃ pre x suf s1, items = pre ++ x :: suf ∧
      putSeq φ c (pre.map Item.arg) st { fs := fs } =
        ⟨pre.map (fun y => (y.arg, ArgOutcome.trashed (homeStr H) y.name)), none, st, s1⟩ ∧
      putSeq noFaults c (pre.map Item.arg) st { fs := fs } =
        ⟨pre.map (fun y => (y.arg, ArgOutcome.trashed (homeStr H) y.name)), none, st, s1⟩ ∧
      AllTrashed c H fs s1.fs pre ∧ HomeWorld c s1.fs H ∧ HomeItems c s1.fs H st (x :: suf) ∧
      s1.n ≤ k ∧ k < (run φ (putOne c x.arg st) s1).2.n ∧
      r = finish ((suf.map Item.arg).foldl (stepArg noFaults c)
        (stepArg φ c ⟨pre.map (fun y => (y.arg, ArgOutcome.trashed (homeStr H) y.name)), none, st, s1⟩ x.arg))) := by
  intro r
  have hr : r = finish (putSeq φ c (items.map Item.arg) st { fs := fs }) := put_run_is_fold φ c _ st _
  rcases Proofs.C17SeqHome.home_split W hints HI h with ⟨h1, h2⟩ | ⟨pre, x, suf, s1, e, g1, g2, g3, g4, g5, g6, g7, g8⟩
  · have e0 : r = run noFaults (runPut c (items.map Item.arg) st) { fs := fs } := by
      rw [hr, h1, put_run_is_fold]
    have A := n_args_all_trashed_whole c fs H st items W hints HI
    have B := n_args_independent_partial c fs H st items W hints HI
    refine .inl ⟨e0, ?_, ?_, ?_, ?_⟩
    · rw [hr]; exact h2
    · rw [e0]; exact A
    · rw [e0]; exact B.2.2.1
    · rw [e0]; exact B.2.2.2
  · exact .inr ⟨pre, x, suf, s1, e, by rw [g1, g2], g2, g3, g4, g5, g6, g7, by rw [hr, g8]⟩

/-- THE FAULT IS NOT DELIVERED TO THE PREFIX of `pre ++ [x]` (it lands in the last argument, or nowhere).
    The prefix is trashed whole and reported so; the final run state is that of `putOne` on `x` under `φ`
    from the state `s1` the prefix left, where `HomeWorld` and `HomeItems [x]` hold; the exit status is 0
    iff the outcome of `x` is not a failure, otherwise 74 and "cannot trash x" is on stderr; when the
    clean-up unlink crashed (`.error e`, as in `C17Single`), the exit status is 1. -/
theorem fault_in_last_argument_partial (c : PutCfg) (fs : FS) (H : CPath) (st : PutSt) (pre : List Item) (x : Item)
    (φ : Oracle) (k : Nat) (W : HomeWorld c fs H) (hints : st.ints = []) (HI : HomeItems c fs H st (pre ++ [x]))
    (h : FaultOnlyAt φ k) (hk : (putSeq noFaults c (pre.map Item.arg) st { fs := fs }).s.n ≤ k) :
    let r := run φ (runPut c ((pre ++ [x]).map Item.arg) st) { fs := fs }
    ∃ s1, putSeq φ c (pre.map Item.arg) st { fs := fs } =
        ⟨pre.map (fun y => (y.arg, ArgOutcome.trashed (homeStr H) y.name)), none, st, s1⟩ ∧
      AllTrashed c H fs s1.fs pre ∧ HomeWorld c s1.fs H ∧ HomeItems c s1.fs H st [x] ∧
      r.2 = (run φ (putOne c x.arg st) s1).2 ∧
      (∀ o, (run φ (putOne c x.arg st) s1).1.1 = .ok o →
        r.1.outcomes = pre.map (fun y => (y.arg, ArgOutcome.trashed (homeStr H) y.name)) ++ [(x.arg, o)] ∧
        r.1.crash = none ∧ (r.1.exit = 0 ↔ o.failed = false) ∧
        (o.failed = true → r.1.exit = 74 ∧ Out.stderr "cannot-trash" x.arg ∈ r.2.outs)) ∧
      (∀ e, (run φ (putOne c x.arg st) s1).1.1 = .error e → r.1.crash = some e ∧ r.1.exit = 1) := by
  intro r
  obtain ⟨s1, a1, a2, a3, a4, a5, a6, a7⟩ := Proofs.C17SeqHome.last_arg W hints HI h hk
  refine ⟨s1, a1, a2, a3, a4, a5, fun o ho => ?_, a7⟩
  obtain ⟨b1, b2, b3, b4⟩ := a6 o ho
  refine ⟨b1, b2, b3, fun hf => ⟨(b4 hf).1, ?_⟩⟩
  show _ ∈ r.2.outs
  rw [a5]; exact (b4 hf).2

/-! ### (2') the single-fault theorem of the put core from ANY run state

  A step towards the round of argument j: `C17Single.put_single_fault_conserves` is stated for a run that
  starts with the call counter 0 and empty logs.  A round of the loop starts with the counter and the
  trace the earlier rounds left; the oracle it sees is `φ` re-indexed (`seenFrom`).  The run from `s` IS
  the run from the fresh state on `s.fs` under the re-indexed oracle, put on top of `s`. -/

/-- the oracle `φ` as seen by a program started in the run state `s0`: global index and same-kind index
    count on from `s0.n` resp. from the calls of that kind in `s0.trace` -/
abbrev seenFrom (φ : Oracle) (s0 : RunState) : Oracle := Proofs.C17Seq.shift φ s0

theorem seenFrom_apply (φ : Oracle) (s0 : RunState) (n k : Nat) (c : Call) :
    seenFrom φ s0 n k c = φ (n + s0.n) (k + kindCount s0.trace c.kind) c := rfl

/-- every run from a run state `s` is the run from the fresh state on `s.fs` under the oracle as seen
    from `s`: same result, same final file system, logs and counter stacked on those of `s` -/
theorem run_from_any_state {α} (φ : Oracle) (p : Prog α) (s : RunState) :
    let loc := run (seenFrom φ s) p { fs := s.fs }
    (run φ p s).1 = loc.1 ∧ (run φ p s).2.fs = loc.2.fs ∧ (run φ p s).2.n = loc.2.n + s.n ∧
    (run φ p s).2.trace = loc.2.trace ++ s.trace ∧ (run φ p s).2.hist = loc.2.hist ++ s.hist ∧
    (run φ p s).2.outs = loc.2.outs ++ s.outs := by
  intro loc
  rw [Proofs.C17Seq.run_from φ p s]
  exact ⟨rfl, rfl, rfl, rfl, rfl, rfl⟩

/-- a single-fault oracle is one from every state; a fault at global index `k` is seen at `k - s.n` by a
    run that starts at or below `k`, and not at all by one that starts beyond it -/
theorem seenFrom_single (φ : Oracle) (s : RunState) (h : AtMostOneFault φ) : AtMostOneFault (seenFrom φ s) :=
  Proofs.C17Seq.atMostOne_shift h s
theorem seenFrom_faultOnlyAt (φ : Oracle) (k : Nat) (s : RunState) (h : FaultOnlyAt φ k) (hs : s.n ≤ k) :
    FaultOnlyAt (seenFrom φ s) (k - s.n) := Proofs.C17Seq.faultOnlyAt_shift h s hs
theorem seenFrom_quiet (φ : Oracle) (k : Nat) (s : RunState) (h : FaultOnlyAt φ k) (hs : k < s.n) :
    ∀ n k' c, seenFrom φ s n k' c = none := Proofs.C17Seq.quiet_shift h s hs

/-- `C17Single.put_single_fault_conserves` FROM ANY RUN STATE `s` (any counter, any trace): under an oracle
    that faults at most one call of the whole run, the put core started in `s` ends honestly with respect
    to `s.fs`. -/
theorem put_single_fault_conserves_any_state (φ : Oracle) (s : RunState) (infoC filesC src : CPath)
    (base content : Bytes) (st : PutSt) (h : PutCore.Setting s.fs infoC filesC src)
    (hc : Copyable s.fs filesC src) (h1 : AtMostOneFault φ) :
    let res := run φ (putCore infoC filesC base content (fun _ => .ok src) st) s
    (∀ name, res.1.1 = .ok name →
      PutCore.Trashed s.fs res.2.fs infoC filesC src name content ∧ NameShape base name) ∧
    (∀ r, res.1.1 = .error r →
      (∃ e, r = .persistError e) ∧ PutCore.Untouched s.fs res.2.fs infoC ∧
      ∀ n, res.2.fs.get (infoC ++ [n]) = s.fs.get (infoC ++ [n])) := by
  intro res
  have e : res = _ := Proofs.C17Seq.run_from φ _ s
  rw [e]
  exact C17Single.put_single_fault_conserves (seenFrom φ s) s.fs infoC filesC src base content st h hc
    (Proofs.C17Seq.atMostOne_shift h1 s)

/-! ### (3) non-vacuity, and the counterexample -/
section examples
open Proofs.C17SeqEx
open TrashVerif.Proofs.C16IndepHome.Ex (H cfgH fsH st0)

/-- the oracles of the examples are single-fault oracles -/
example (i : Nat) (e : Errno) : FaultOnlyAt (faultAt i e) i := Proofs.C17Single.faultOnlyAt_faultAt i e

/-- `trash-put --trash-dir /h/.local/share/Trash /p/x /p/y`, EACCES on the exclusive create of the first
    argument's info file (global call 3): exit 74, `/p/x` untouched and named on stderr, nothing of it in
    the trash, `/p/y` trashed whole; the run ends after 11 calls. -/
theorem first_argument_faulted_example :
    let r := run (faultAt 3 .EACCES) (runPut cfgT [b "/p/x", b "/p/y"] st0) { fs := fsH }
    r.1.outcomes = [(b "/p/x", .failedAll [.persistError .EACCES]), (b "/p/y", .trashed (homeStr H) (b "y.trashinfo"))] ∧
    r.1.crash = none ∧ r.1.exit = 74 ∧ r.2.outs = [.stderr "cannot-trash" (b "/p/x")] ∧ r.2.n = 11 ∧
    r.2.fs.get [b "p", b "x"] = some (.file [120] 0o644 0) ∧
    r.2.fs.get (filesC H ++ [b "x"]) = none ∧ r.2.fs.get (infoC H ++ [b "x.trashinfo"]) = none ∧
    r.2.fs.get [b "p", b "y"] = none ∧ r.2.fs.get (filesC H ++ [b "y"]) = some (.file [121] 0o644 0) ∧
    r.2.fs.get (infoC H ++ [b "y.trashinfo"]) = some (.file (b "[Trash Info]\nPath=p/y\nDeletionDate=D\n") 0o600 0) := by
  intro r
  have hr : r = runT (faultAt 3 .EACCES) := by
    show run _ (runPut cfgT argsXY st0) _ = _
    rw [Proofs.C16Eval.runPut_eq]; rfl
  rw [hr]; exact first_create_faulted

/-- … ENOSPC on the write of the SECOND argument's info file (global call 11): exit 74, `/p/y` untouched
    (the clean-up unlink — the last call — removed the empty info file), `/p/x` trashed whole. -/
theorem second_argument_faulted_example :
    let r := run (faultAt 11 .ENOSPC) (runPut cfgT [b "/p/x", b "/p/y"] st0) { fs := fsH }
    r.1.outcomes = [(b "/p/x", .trashed (homeStr H) (b "x.trashinfo")), (b "/p/y", .failedAll [.persistError .ENOSPC])] ∧
    r.1.crash = none ∧ r.1.exit = 74 ∧ r.2.outs = [.stderr "cannot-trash" (b "/p/y")] ∧ r.2.n = 14 ∧
    r.2.trace.head?.map (·.1.kind) = some "unlink" ∧
    r.2.fs.get [b "p", b "y"] = some (.file [121] 0o644 0) ∧
    r.2.fs.get (filesC H ++ [b "y"]) = none ∧ r.2.fs.get (infoC H ++ [b "y.trashinfo"]) = none ∧
    r.2.fs.get [b "p", b "x"] = none ∧ r.2.fs.get (filesC H ++ [b "x"]) = some (.file [120] 0o644 0) ∧
    r.2.fs.get (infoC H ++ [b "x.trashinfo"]) = some (.file (b "[Trash Info]\nPath=p/x\nDeletionDate=D\n") 0o600 0) := by
  intro r
  have hr : r = runT (faultAt 11 .ENOSPC) := by
    show run _ (runPut cfgT argsXY st0) _ = _
    rw [Proofs.C16Eval.runPut_eq]; rfl
  rw [hr]; exact second_write_faulted

/-- THE COUNTEREXAMPLE (everyday setting: `HomeWorld`, `HomeItems` hold; one fault, EACCES on call 3).
    The faulted argument is neither under `files/x` of the home trash nor untouched: the run goes on to
    the volume's `/.Trash-0`, which it creates, and trashes `/p/x` there; exit status 0, stderr empty.
    Real behaviour of `Trasher.trash_single` (every candidate is tried in turn). -/
theorem single_fault_falls_through_to_next_candidate :
    let r := run (faultAt 3 .EACCES) (runPut cfgH [b "/p/x", b "/p/y"] st0) { fs := fsH }
    HomeWorld cfgH fsH H ∧ HomeItems cfgH fsH H st0 [Proofs.C16SeqHome.Ex.ix, Proofs.C16SeqHome.Ex.iy] ∧
    [Proofs.C16SeqHome.Ex.ix, Proofs.C16SeqHome.Ex.iy].map Item.arg = [b "/p/x", b "/p/y"] ∧
    FaultOnlyAt (faultAt 3 .EACCES) 3 ∧
    r.1.outcomes = [(b "/p/x", .trashed (b "/.Trash-0") (b "x.trashinfo")), (b "/p/y", .trashed (homeStr H) (b "y.trashinfo"))] ∧
    r.1.crash = none ∧ r.1.exit = 0 ∧ r.2.outs = [] ∧ r.2.n = 18 ∧
    fsH.get [b ".Trash-0"] = none ∧
    r.2.fs.get [b "p", b "x"] = none ∧
    r.2.fs.get (filesC H ++ [b "x"]) = none ∧ r.2.fs.get (infoC H ++ [b "x.trashinfo"]) = none ∧
    r.2.fs.get [b ".Trash-0", b "files", b "x"] = some (.file [120] 0o644 0) ∧
    r.2.fs.get [b ".Trash-0", b "info", b "x.trashinfo"] = some (.file (b "[Trash Info]\nPath=p/x\nDeletionDate=D\n") 0o600 0) ∧
    r.2.fs.get (filesC H ++ [b "y"]) = some (.file [121] 0o644 0) := by
  intro r
  have hr : r = runH (faultAt 3 .EACCES) := by
    show run _ (runPut cfgH argsXY st0) _ = _
    rw [Proofs.C16Eval.runPut_eq]; rfl
  rw [hr]
  exact ⟨Proofs.C16IndepHome.Ex.world, Proofs.C16SeqHome.Ex.itemsXY, by decide +kernel,
    Proofs.C17Single.faultOnlyAt_faultAt _ _, first_create_faulted_everyday⟩

/-- the split theorem at work on that run: the fault-free alternative is excluded (18 calls, not 14), so
    the fault is delivered in the round of one of the two arguments and the rounds behind it are fault-free -/
theorem split_example :
    ∃ pre a suf, [b "/p/x", b "/p/y"] = pre ++ a :: suf ∧
      (putSeq noFaults cfgH pre st0 { fs := fsH }).s.n ≤ 3 ∧
      3 < (stepArg (faultAt 3 .EACCES) cfgH (putSeq noFaults cfgH pre st0 { fs := fsH }) a).s.n ∧
      putSeq (faultAt 3 .EACCES) cfgH [b "/p/x", b "/p/y"] st0 { fs := fsH } =
        suf.foldl (stepArg noFaults cfgH)
          (stepArg (faultAt 3 .EACCES) cfgH (putSeq noFaults cfgH pre st0 { fs := fsH }) a) := by
  rcases single_fault_lands_in_one_argument (faultAt 3 .EACCES) 3 (Proofs.C17Single.faultOnlyAt_faultAt _ _) cfgH
    [b "/p/x", b "/p/y"] st0 { fs := fsH } (Nat.zero_le _) with ⟨h1, _⟩ | ⟨pre, a, suf, e, _, h3, h4, _, h5, _⟩
  · exfalso
    have e1 : run (faultAt 3 .EACCES) (runPut cfgH argsXY st0) { fs := fsH } =
        run noFaults (runPut cfgH argsXY st0) { fs := fsH } := by
      rw [put_run_is_fold, put_run_is_fold]; exact congrArg finish h1
    rw [Proofs.C16Eval.runPut_eq] at e1
    have n1 : (runH (faultAt 3 .EACCES)).2.n = 18 := first_create_faulted_everyday.2.2.2.2.1
    have n2 : (runH noFaults).2.n = 14 := clean_runs.2.1
    have : (runH (faultAt 3 .EACCES)).2.n = (runH noFaults).2.n := congrArg (·.2.n) e1
    omega
  · exact ⟨pre, a, suf, e, h3, h4, h5⟩

end examples

section audit
#print axioms round_before_fault
#print axioms round_after_fault
#print axioms rounds_after_fault
#print axioms counter_monotone
#print axioms single_fault_lands_in_one_argument
#print axioms fault_before_start
#print axioms n_args_single_fault_conserves_partial
#print axioms fault_in_last_argument_partial
#print axioms run_from_any_state
#print axioms seenFrom_single
#print axioms seenFrom_faultOnlyAt
#print axioms seenFrom_quiet
#print axioms put_single_fault_conserves_any_state
#print axioms first_argument_faulted_example
#print axioms second_argument_faulted_example
#print axioms single_fault_falls_through_to_next_candidate
#print axioms split_example
end audit

end TrashVerif.C17Seq
