/-
  Props/C16Indep.lean — property theorems for the second half of C16:
  "Arguments that designate unrelated entries are handled independently: a failing, refused,
   nonexistent or un-encodable argument never prevents, and never changes the outcome of, the
   arguments before or after it."

  1. `C16.C16_independence_full` (Props/C16.lean) is FALSE as stated: kernel-checked counterexamples,
     each classified (modelling artefact / exclusion the property text already makes / real
     dependence in trash-cli).
  2. What holds: what follows an argument never matters to it (any fault oracle); an argument that
     is given up without a system call — dot entry, nonexistent, refused by every candidate trash
     directory — is transparent wherever it stands in the argument list (any fault oracle); so is,
     without faults, every argument whose handling leaves the file system as it was.
  3. For two arguments that are both really trashed: independence at the resolved layer
     (`putCore` in a `Setting`, the layer of C01/C05/C17) — `core_independent_partial`: the
     path-resolution half (that the `Setting` of the second argument is what `trashSingle` computes,
     before and after the first) is not part of it.
  4. The two-argument theorem at the level of `runPut` for the everyday case — both arguments are
     canonical absolute spellings reached without symlinks and go to an existing home trash on
     their own volume — `home_pair_independent_partial`: the WHOLE outcome (trash directory and
     name) of each argument is the one it has alone.
  (Un-encodable arguments do not exist in this model: arguments are byte strings.)
-/
import TrashVerif.Props.C16
import TrashVerif.Props.C16IndepDefs
import TrashVerif.Proofs.C16Indep
import TrashVerif.Proofs.C16IndepCore
import TrashVerif.Proofs.C16IndepHome
namespace TrashVerif.C16Indep
open TrashVerif Prog FS PutCore

/-! ### the arguments before: what follows an argument never matters to it -/

/-- Under ANY fault oracle: the outcomes reported for a list of arguments are an initial segment of
    the outcomes reported when more arguments follow; they are exactly the first ones unless the
    run is aborted, and an aborted run is the same whatever would have followed. -/
theorem earlier_unaffected (φ : Oracle) (c : PutCfg) (pre suf : List Bytes) (st : PutSt) (s : RunState) :
    (run φ (runPut c pre st) s).1.outcomes <+: (run φ (runPut c (pre ++ suf) st) s).1.outcomes ∧
    ((run φ (runPut c pre st) s).1.crash = none →
      (run φ (runPut c (pre ++ suf) st) s).1.outcomes.take pre.length = (run φ (runPut c pre st) s).1.outcomes) ∧
    ((run φ (runPut c pre st) s).1.crash ≠ none →
      run φ (runPut c (pre ++ suf) st) s = run φ (runPut c pre st) s) :=
  Proofs.C16Indep.earlier_unaffected φ c pre suf st s

/-! ### the arguments after: arguments that are given up without a system call -/

/-- Under ANY fault oracle, without prompts: an inert argument (dot entry, nonexistent, or refused by
    every candidate trash directory) issues no system call, leaves the state alone and is reported
    with its `inertOutcome`. -/
theorem inert_run (φ : Oracle) (c : PutCfg) (hm : c.mode ≠ .interactive) (a : Bytes) (st : PutSt) (s : RunState)
    (h : Inert c s.fs a) :
    run φ (trashSingle c a st) s = ((.ok (inertOutcome c s.fs a), st), s) :=
  Proofs.C16Indep.inert_run φ c hm a st s h

/-- Under ANY fault oracle, without prompts: any number of inert arguments in front change nothing
    for the arguments after them — same outcomes, same abort status, same final file system, same
    system calls with the same results, same intermediate states. -/
theorem inert_prefix_transparent (φ : Oracle) (c : PutCfg) (hm : c.mode ≠ .interactive) (pre suf : List Bytes)
    (st : PutSt) (s : RunState) (h : ∀ a ∈ pre, Inert c s.fs a) :
    let r := run φ (runPut c (pre ++ suf) st) s
    let r0 := run φ (runPut c suf st) s
    r.1.outcomes = (pre.map fun a => (a, inertOutcome c s.fs a)) ++ r0.1.outcomes ∧
    r.1.crash = r0.1.crash ∧ r.2.fs = r0.2.fs ∧ r.2.trace = r0.2.trace ∧ r.2.hist = r0.2.hist :=
  Proofs.C16Indep.inert_prefix φ c hm pre suf st s h

/-- Under ANY fault oracle, without prompts: an argument that is inert where it stands (in the file
    system reached after the arguments before it) can be deleted from the command line without any
    effect on the others: the outcomes of the arguments before and after it, the abort status, the
    final file system, the system calls and the intermediate states are the same. -/
theorem inert_argument_transparent (φ : Oracle) (c : PutCfg) (hm : c.mode ≠ .interactive) (pre : List Bytes)
    (a : Bytes) (suf : List Bytes) (st : PutSt) (s : RunState) :
    let before := run φ (runPut c pre st) s
    before.1.crash = none → Inert c before.2.fs a →
    let r := run φ (runPut c (pre ++ a :: suf) st) s
    let r0 := run φ (runPut c (pre ++ suf) st) s
    r.1.outcomes = r0.1.outcomes.take pre.length ++ (a, inertOutcome c before.2.fs a) :: r0.1.outcomes.drop pre.length ∧
    r.1.crash = r0.1.crash ∧ r.2.fs = r0.2.fs ∧ r.2.trace = r0.2.trace ∧ r.2.hist = r0.2.hist :=
  Proofs.C16Indep.inert_anywhere φ c hm pre a suf st s

/-- Without faults: any number of arguments in front whose handling leaves the file system exactly
    as it was (`Silent`: whatever they are reported as — missing, refused, no trash directory could
    be created, …) change nothing for the arguments after them, and each of them is reported as it
    is when handled alone. -/
theorem silent_prefix_transparent (c : PutCfg) (pre suf : List Bytes) (st : PutSt) (fs : FS)
    (h : ∀ a ∈ pre, Silent c fs st a) :
    let r := run noFaults (runPut c (pre ++ suf) st) { fs := fs }
    let r0 := run noFaults (runPut c suf st) { fs := fs }
    r.1.outcomes = (pre.map fun a => (a, aloneOutcome c fs st a)) ++ r0.1.outcomes ∧
    r.1.crash = r0.1.crash ∧ r.2.fs = r0.2.fs :=
  Proofs.C16Indep.silent_prefix c pre suf st fs h


/-- Without prompts every inert argument is silent. -/
theorem silent_of_inert (c : PutCfg) (hm : c.mode ≠ .interactive) (fs : FS) (st : PutSt) (a : Bytes)
    (h : Inert c fs a) : Silent c fs st a := Proofs.C16Indep.silent_of_inert c hm fs st a h

/-- Non-vacuity: a dot entry, a nonexistent path, and a file that the only candidate
    (`--trash-dir` on another volume) refuses are inert. -/
example : Inert Proofs.C16Indep.Cex.cfg0 Proofs.C16Indep.Cex.fsDotdot (b "/a/..") ∧
    Inert Proofs.C16Indep.Cex.cfg0 Proofs.C16Indep.Cex.fsDotdot (b "/nope") ∧
    Inert Proofs.C16Indep.Cex.cfgOther Proofs.C16Indep.Cex.fsOther (b "/x") ∧
    inertOutcome Proofs.C16Indep.Cex.cfgOther Proofs.C16Indep.Cex.fsOther (b "/x") = .failedAll [.differentVolumes] :=
  Proofs.C16Indep.Cex.inert_examples

/-! ### `C16.C16_independence_full` is false

Each theorem exhibits a configuration `c`, a world `fs` and two arguments `a`, `d` that are
`C16.Unrelated`, without prompts, for which the outcome class of `d` after `a` differs from the
class of `d` alone; the two class lists are part of the statement (classes: 0 trashed, 4 failed as
nonexistent, 5 failed in every candidate).  `classesS` evaluates the model through the
kernel-evaluable twins of Proofs/C16Eval.lean (`runPut = runPutS` is proved there).
Worlds: HOME=/h, XDG_DATA_HOME unset, uid 0, one volume unless said otherwise. -/

section counterexamples
open TrashVerif.Proofs.C16Indep.Cex

/-- ALLOWED EXCLUSION (ancestor), `Unrelated` too weak.  `trash-put /a /a/../x` with the directory
    `/a` and the file `/x`: `Unrelated` compares the resolved NORMALISED paths (`/a` and `/x`), but
    existence is tested on the raw string: once `/a` is gone `/a/../x` does not resolve
    ("cannot trash non existent"), alone it is trashed.  `a` is a lexical ancestor of `d`.
    Replays on real trash-cli: `mkdir a; touch x; trash-put a a/../x`. -/
theorem independence_full_counterexample_dotdot :
    (classesS cfg0 [b "/a", b "/a/../x"] st0 fsDotdot = [0, 4] ∧ classesS cfg0 [b "/a/../x"] st0 fsDotdot = [0]) ∧
    ¬ C16.C16_independence_full := Proofs.C16Indep.Cex.dotdot

/-- REAL DEPENDENCE (d names the place where a's copy appears).  `trash-put /x
    /h/.local/share/Trash/files/x` in a fresh home: alone the second argument does not exist
    (class 4); after `/x` was trashed it does, and is trashed again as `x_1` (leaving
    `info/x.trashinfo` orphaned).  Replay: `cd $(mktemp -d); export HOME=$PWD/h XDG_DATA_HOME=;
    mkdir h; touch x; trash-put x h/.local/share/Trash/files/x`.  `Indep` must keep `d` out of the
    candidate trash directories of `a`. -/
theorem independence_full_counterexample_into_trash :
    (classesS cfg0 [b "/x", b "/h/.local/share/Trash/files/x"] st0 fsDotdot = [0, 0] ∧
     classesS cfg0 [b "/h/.local/share/Trash/files/x"] st0 fsDotdot = [4]) ∧
    ¬ C16.C16_independence_full := Proofs.C16Indep.Cex.into_trash

/-- REAL DEPENDENCE (d is an ancestor of the trash directory that a's trashing creates).
    `trash-put /x /h/.local` in a home without `.local`: alone `/h/.local` does not exist; after
    `/x` was trashed `mkdir_p` has created it, and it is trashed (into `/.Trash-0`).
    Replay as above with `trash-put x h/.local`. -/
theorem independence_full_counterexample_trash_ancestor :
    (classesS cfg0 [b "/x", b "/h/.local"] st0 fsDotdot = [0, 0] ∧ classesS cfg0 [b "/h/.local"] st0 fsDotdot = [4]) ∧
    ¬ C16.C16_independence_full := Proofs.C16Indep.Cex.trash_ancestor

/-- REAL DEPENDENCE, and `a` FAILS: `trash-put /m /h/.local` where `/m` is a mount point.  `/m` is
    refused in every candidate (EBUSY) — but only after `mkdir_p` created
    `/h/.local/share/Trash/{files,info}`; these stay, so `/h/.local`, nonexistent alone, exists and
    is trashed.  A failing argument does change what happens to a later one when that one names
    the trash infrastructure.  Replay (needs a mount point, e.g. the harness's virtual mounts):
    fresh home, `trash-put /some/mountpoint $HOME/.local`. -/
theorem independence_full_counterexample_failing_arg_creates_dirs :
    (classesS cfg0 [b "/m", b "/h/.local"] st0 fsFailing = [5, 0] ∧ classesS cfg0 [b "/h/.local"] st0 fsFailing = [4]) ∧
    ¬ C16.C16_independence_full := Proofs.C16Indep.Cex.failing_arg_creates_dirs

/-- ALLOWED EXCLUSION (ancestor — of the working directory), partly a MODELLING ARTEFACT.
    cwd `/a/c`, `trash-put /a ../../x`: once `/a` is gone the model's path-valued cwd does not
    resolve, so `../../x` is nonexistent.  On a real kernel the process keeps its cwd inode, now
    `…/Trash/files/a/c`, and `../../x` names `…/Trash/files/x`: nonexistent too — the dependence is
    real, its mechanism is only approximated.  Replay: `mkdir -p a/c; touch x; cd a/c;
    trash-put "$OLDPWD/a" ../../x`.  `Unrelated` must relate `a` to the cwd when `d` is relative. -/
theorem independence_full_counterexample_cwd_removed :
    (classesS cfgCwd [b "/a", b "../../x"] st0 fsCwd = [0, 4] ∧ classesS cfgCwd [b "../../x"] st0 fsCwd = [0]) ∧
    ¬ C16.C16_independence_full := Proofs.C16Indep.Cex.cwd_removed

/-- ALLOWED EXCLUSION (link target).  `/l -> /a/sub`, `trash-put /a /l/`: `Unrelated` resolves
    `normpath "/l/" = "/l"` without following the link, but the existence test on `/l/` follows it:
    dangling once `/a` is gone.  Replay: `mkdir -p a/sub; ln -s a/sub l; trash-put a l/`. -/
theorem independence_full_counterexample_link_target :
    (classesS cfg0 [b "/a", b "/l/"] st0 fsLink = [0, 4] ∧ classesS cfg0 [b "/l/"] st0 fsLink = [0]) ∧
    ¬ C16.C16_independence_full := Proofs.C16Indep.Cex.link_target

/-- ALLOWED EXCLUSION (link target on the way).  `/l -> /a/l2`, `/a/l2 -> /z`, `trash-put /a /l/x`:
    `/l/x` resolves to `/z/x`, unrelated to `/a`, but only BY WAY OF `/a`.  `Unrelated` must look at
    every path the resolution visits, not only at its end.
    Replay: `mkdir a z; touch z/x; ln -s $PWD/z a/l2; ln -s a/l2 l; trash-put a l/x`. -/
theorem independence_full_counterexample_link_through :
    (classesS cfg0 [b "/a", b "/l/x"] st0 fsThrough = [0, 4] ∧ classesS cfg0 [b "/l/x"] st0 fsThrough = [0]) ∧
    ¬ C16.C16_independence_full := Proofs.C16Indep.Cex.link_through

/-- REAL DEPENDENCE (a stands in the way of d's trash directory).  `--home-fallback` with
    TRASH_ENABLE_HOME_FALLBACK=1; `/h/.local` is a regular FILE; `/m` is a second volume with the file
    `/m/x` and a regular file `/m/.Trash-0`.  Alone `/m/x` fails everywhere (class 5: the fallback
    `mkdir_p /h/.local/share/Trash` hits the file).  `trash-put --home-fallback /h/.local /m/x`
    first moves the obstacle away (into `/.Trash-0`), then `/m/x` is trashed into the home trash.
    Replay with the harness's virtual mounts (two volumes are needed so that `a` has a trash
    directory `d` has not).  `Indep` must keep `a` off every candidate trash directory path of `d`. -/
theorem independence_full_counterexample_blocking_file :
    (classesS cfgFallback [b "/h/.local", b "/m/x"] st0 fsBlock = [0, 0] ∧
     classesS cfgFallback [b "/m/x"] st0 fsBlock = [5]) ∧
    ¬ C16.C16_independence_full := Proofs.C16Indep.Cex.blocking_file

/-- MODELLING ARTEFACT.  The mount table is a list of paths and may name a path that does not exist
    (here `/h/.local/share/Trash`).  `volume_of` ignores it while the path is absent; once the
    first argument's `mkdir_p` has created the directory it counts as a mount point, the volume
    gate refuses the home trash for the second argument, and (with `/.Trash-0` blocked) it fails.
    No such state exists on a real system; a well-formedness hypothesis (every mount-table entry is
    an existing directory) removes it. -/
theorem independence_full_counterexample_absent_mount_entry :
    (classesS cfg0 [b "/f1", b "/f2"] st0 fsMount = [0, 5] ∧ classesS cfg0 [b "/f2"] st0 fsMount = [0]) ∧
    ¬ C16.C16_independence_full := Proofs.C16Indep.Cex.absent_mount_entry

/-- MODELLING ARTEFACT (scripted randomness), with a real but astronomically unlikely core.  The home
    trash already holds `x`, `x_1` … `x_99` and `x_4242`; from the 100th collision on the suffix is
    `random.randint`, scripted by `PutSt.ints = [500]` and answering 4242 when the script is
    used up.  Alone `/q/x` draws 500 and is trashed as `x_500`; after `/p/x` took that draw, every
    further draw is 4242 (occupied), the persist loop gives up, and with `/.Trash-0` blocked the
    argument fails.  `Unrelated` says nothing about the shared supply of random numbers nor about
    names: two entries with the same basename do compete for names in one trash directory. -/
theorem independence_full_counterexample_random_supply :
    (classesS cfg0 [b "/p/x", b "/q/x"] stRandom fsCrowded = [0, 5] ∧ classesS cfg0 [b "/q/x"] stRandom fsCrowded = [0]) ∧
    ¬ C16.C16_independence_full := Proofs.C16Indep.Cex.random_supply

end counterexamples

/-! ### two arguments that are both really trashed: the resolved layer -/

/-- `core_independent_partial`.  Resolved layer, no faults.  `a` and `d` are each in a `Setting`
    (C01) in the same file system; the two settings are `Apart` (the entry of `a` is unrelated to
    the entry of `d` and to `d`'s `info/` and `files/`; nothing of `d` lies inside `files/` of `a`;
    the `files/` of one is not the `info/` of the other); and where the directories coincide the
    trash name `a` receives is not a variant (`_<n>` suffix, truncation) of `d`'s basename
    (`NamesApart`; always true when the trash directories differ, see
    `names_apart_of_other_dirs`).  Then, after the core run for `a` — whatever its result — `d` is
    still in its `Setting`, and the core run for `d` gives the SAME result as on the original
    file system: success under the same name, or the same failure, consuming the same scripted
    input.  (By C01 `put_ok_moves_whole` both entries are then whole in the trash.)
    PARTIAL: this is the layer below path resolution.  Not proved here: that `trashSingle c d`
    computes the same directories `infoC`/`filesC`, the same basename and content, and passes the
    same checks before and after `a` was handled — the counterexamples above all live in that
    half; for the everyday case it is proved in `home_pair_independent_partial`. -/
theorem core_independent_partial (fs : FS) (Ia Fa Sa Id Fd Sd : CPath) (ba ca bd cd : Bytes) (st : PutSt)
    (hA : Setting fs Ia Fa Sa) (hD : Setting fs Id Fd Sd) (ap : Apart Ia Fa Sa Id Fd Sd) :
    let ra := run noFaults (putCore Ia Fa ba ca (fun _ => .ok Sa) st) { fs := fs }
    (∀ na, ra.1.1 = .ok na → NamesApart Ia Fa Id Fd na bd) →
    Setting ra.2.fs Id Fd Sd ∧
    (run noFaults (putCore Id Fd bd cd (fun _ => .ok Sd) ra.1.2) { fs := ra.2.fs }).1 =
      (run noFaults (putCore Id Fd bd cd (fun _ => .ok Sd) ra.1.2) { fs := fs }).1 :=
  Proofs.C16IndepCore.core_independent fs Ia Fa Sa Id Fd Sd ba ca bd cd st hA hD ap

/-- special case (2) of the task: `a` goes to another trash directory than `d` -/
theorem names_apart_of_other_dirs {Ia Fa Id Fd : CPath} (h1 : Fd ≠ Fa) (h2 : Id ≠ Ia) (na base : Bytes) :
    NamesApart Ia Fa Id Fd na base := Proofs.C16IndepCore.namesApart_of_other_dirs h1 h2 na base

/-- Non-vacuity: `/p/x` and `/p/y`, both into `/h/.local/share/Trash`. -/
example : Setting Proofs.C16IndepHome.Ex.fsH (infoC Proofs.C16IndepHome.Ex.H) (filesC Proofs.C16IndepHome.Ex.H) ([b "p"] ++ [b "x"]) ∧
    Setting Proofs.C16IndepHome.Ex.fsH (infoC Proofs.C16IndepHome.Ex.H) (filesC Proofs.C16IndepHome.Ex.H) ([b "p"] ++ [b "y"]) ∧
    Apart (infoC Proofs.C16IndepHome.Ex.H) (filesC Proofs.C16IndepHome.Ex.H) ([b "p"] ++ [b "x"])
      (infoC Proofs.C16IndepHome.Ex.H) (filesC Proofs.C16IndepHome.Ex.H) ([b "p"] ++ [b "y"]) :=
  ⟨Proofs.C16IndepHome.Ex.settingX, Proofs.C16IndepHome.Ex.settingY, Proofs.C16IndepHome.Ex.apartXY⟩

/-! ### two arguments that are both really trashed: `runPut`, the everyday case -/

/-- In the everyday world an everyday argument comes down to its core run: when that succeeds
    under `name`, `trash-put <arg>` alone reports "trashed into `$HOME/.local/share/Trash` as
    `name`", exits 0, and leaves the file system the core run leaves (so C01 applies to it). -/
theorem home_alone (c : PutCfg) (fs : FS) (H P : CPath) (n : Name) (W : HomeWorld c fs H)
    (A : GoodArg fs H P n) (st : PutSt) (name : Bytes)
    (hok : (run noFaults (homeCore c H P n st) { fs := fs }).1.1 = .ok name) :
    let r := run noFaults (runPut c [toStr (P ++ [n])] st) { fs := fs }
    r.1.outcomes = [(toStr (P ++ [n]), .trashed (homeStr H) name)] ∧ r.1.crash = none ∧ r.1.exit = 0 ∧
    r.2.fs = (run noFaults (homeCore c H P n st) { fs := fs }).2.fs :=
  Proofs.C16IndepHome.alone_home W A st name hok

/-- `home_pair_independent_partial`.  `C16_independence_full` for the everyday case, and for the
    WHOLE outcome rather than its class: in a `HomeWorld`, for two `GoodArg`s whose entries are
    unrelated (neither canonical path is a prefix of the other), with no scripted random numbers,
    when each argument's core run alone succeeds (in this world it can only fail for want of a
    free name, C01 `put_fail_untouched`) and the name `a` receives is not a variant of `d`'s
    name: `trash-put a d` reports for `a` exactly what `trash-put a` reports and for `d` exactly
    what `trash-put d` reports — both trashed into the home trash under the names they get alone.
    PARTIAL with respect to the intent: `a` must itself be an everyday argument that is trashed
    (not failing/refused — for those see `inert_…`/`silent_…` above); both arguments must be
    canonical absolute spellings without symlinks on the way; only the home-trash candidate is
    covered (same volume, trash directory already there), not `$topdir/.Trash/$uid`,
    `$topdir/.Trash-$uid`, `--trash-dir`, fallback, nor trash directories yet to be created. -/
theorem home_pair_independent_partial (c : PutCfg) (fs : FS) (H Pa Pd : CPath) (na nd : Name)
    (W : HomeWorld c fs H) (Aa : GoodArg fs H Pa na) (Ad : GoodArg fs H Pd nd)
    (hu : ¬ (Pa ++ [na]) <+: (Pd ++ [nd]) ∧ ¬ (Pd ++ [nd]) <+: (Pa ++ [na]))
    (st : PutSt) (hints : st.ints = []) (nameA nameD : Bytes)
    (hcoreA : (run noFaults (homeCore c H Pa na st) { fs := fs }).1.1 = .ok nameA)
    (hcoreD : (run noFaults (homeCore c H Pd nd st) { fs := fs }).1.1 = .ok nameD)
    (hv : ∀ suffix, IsSuffix suffix → ∀ tooLong, trashinfoBasename nd suffix tooLong ≠ nameA) :
    let both := run noFaults (runPut c [toStr (Pa ++ [na]), toStr (Pd ++ [nd])] st) { fs := fs }
    let aloneA := run noFaults (runPut c [toStr (Pa ++ [na])] st) { fs := fs }
    let aloneD := run noFaults (runPut c [toStr (Pd ++ [nd])] st) { fs := fs }
    both.1.outcomes = aloneA.1.outcomes ++ aloneD.1.outcomes ∧
    aloneA.1.outcomes = [(toStr (Pa ++ [na]), .trashed (homeStr H) nameA)] ∧
    aloneD.1.outcomes = [(toStr (Pd ++ [nd]), .trashed (homeStr H) nameD)] ∧
    both.1.crash = none ∧ both.1.exit = 0 :=
  Proofs.C16IndepHome.home_pair W Aa Ad hu st hints nameA nameD hcoreA hcoreD hv

/-- Non-vacuity, and the theorem at work: HOME=/h with an existing trash, `trash-put /p/x /p/y`. -/
example :
    let both := run noFaults (runPut Proofs.C16IndepHome.Ex.cfgH [toStr ([b "p"] ++ [b "x"]), toStr ([b "p"] ++ [b "y"])]
      Proofs.C16IndepHome.Ex.st0) { fs := Proofs.C16IndepHome.Ex.fsH }
    both.1.outcomes =
      [(toStr ([b "p"] ++ [b "x"]), .trashed (homeStr Proofs.C16IndepHome.Ex.H) (b "x.trashinfo")),
       (toStr ([b "p"] ++ [b "y"]), .trashed (homeStr Proofs.C16IndepHome.Ex.H) (b "y.trashinfo"))] := by
  intro both
  have h := home_pair_independent_partial _ _ _ _ _ _ _ Proofs.C16IndepHome.Ex.world Proofs.C16IndepHome.Ex.argX
    Proofs.C16IndepHome.Ex.argY Proofs.C16IndepHome.Ex.unrelatedXY Proofs.C16IndepHome.Ex.st0 rfl _ _
    Proofs.C16IndepHome.Ex.coreX Proofs.C16IndepHome.Ex.coreY Proofs.C16IndepHome.Ex.variantsApart
  rw [h.1, h.2.1, h.2.2.1]
  rfl

end TrashVerif.C16Indep
