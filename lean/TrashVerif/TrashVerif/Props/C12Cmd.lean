/-
  Props/C12Cmd.lean — C12 at the COMMAND level:
  "trash-rm PATTERN removes - payload and .trashinfo together - precisely those trashed entries whose
   original base name matches PATTERN under case-sensitive shell-style matching, or whose full original
   path matches when PATTERN starts with '/'. Every other entry, in every trash directory, is left
   intact."

  Props/C12.lean is the matcher, Props/C10Loop.lean (`C12Loop.rm_selects_exactly`) ONE trash directory.
  Here: the WHOLE COMMAND `runRm c (pattern :: more)` over the SEVERAL trash directories the scan
  finds, and the matching laws the property's words promise, at the level of `rmMatches` (unbounded:
  every byte string).

  Vocabulary (Props/C12CmdDefs.lean).  A `TDir` is one scanned trash directory: its canonical path
  `T` (the scan yields the string `toStr T`), the volume `v` the scan pairs it with, the listed
  `*.trashinfo` names.  THE BASE OF RELATIVE PATHS: the original location of an entry of `d` is
  `pjoin d.v rel` for the `Path=` value `rel` of its info file (`EntryAt`) — `rel` itself when it is
  absolute (`pjoin_absolute`; the home trash, paired with `/`), `d.v/rel` otherwise: the volume of THE
  DIRECTORY THE ENTRY LIES IN, as the scanner reports it — for `/m/.Trash-1000` that is `/m`.
  `PlainWorld fs ds`: `dom` lists every present path; every directory is in the plain setting of
  `C10Loop.plain_setting` (`PlainDir`: canonical spelling, `info/`, `files/` reached through directories
  only, no listed info a symbolic link, info files and payloads trees without mount point — the two
  hypotheses `C10Loop.symlink_info_counterexample` / `mount_in_payload_counterexample` show to be needed)
  with `names` = the actual listing of `info/`; the directories are pairwise `Apart` (neither inside
  the other).  The entries are otherwise ARBITRARY: unreadable infos, infos without `Path=`, without
  payload, payloads that are links or trees, orphans.
  `PurgedAll fs fs' ds sel`: `fs'` is `fs` with exactly the entries `sel d` of every `d` removed whole.

  Hypotheses added to the fixed text: the fault-free oracle; `pattern ≠ []` (the empty pattern makes
  `self.pattern[0]` raise IndexError at the first parsable entry — `empty_pattern_crashes`, REAL
  behaviour of /repo/trashcli/rm/filter.py); `hscan` (the scan yields these directories: discharged by
  evaluation on a concrete world, `WR_scan`); `PlainWorld`.  No statement is `_partial`.

  How it is proved (Proofs/C12Cmd.lean): induction over the list of directories on top of
  `Proofs.C10Loop.rmInfos_loop`.  After the pass over `d` the state differs from the previous one only
  at or below `d.T` (`purged_within`), `dom` is the same and `DomWf` is kept (the loop issues
  `unlink`/`rmdir` calls only: `rmInfos_keeps`), so the plain setting of every LATER directory — its
  listing included — holds in the new state (`plainDir_off`), the readers see its info files as before
  (`selected_off`: the verdicts can be phrased on the INITIAL state), and what the later passes do
  does not reach below `d.T`.
-/
import TrashVerif.Props.C12CmdDefs
import TrashVerif.Props.C12
import TrashVerif.Props.C10Loop
import TrashVerif.Proofs.C12CmdTop
import TrashVerif.Proofs.C12CmdMatch
import TrashVerif.Proofs.C12CmdEx
namespace TrashVerif.C12Cmd
open TrashVerif PutCore Prog FS C09Hist C10Loop

/-! ### (1) the whole command selects exactly the matching entries -/

/-- THE SELECTION THEOREM of `trash-rm PATTERN [ignored …]` over the scanned trash directories
    `ds = d_1 … d_k` (home trash and volume trash directories, as `scanTrashDirs` finds them), under
    the fault-free oracle, against the INITIAL state `fs`:
    * exit code 0, no crash;
    * for every ENTRY (`EntryAt`: listed name `n` of `d`, readable info file with `Path=rel`, original
      location `loc = pjoin d.v rel`): it is `Gone` — info file AND everything at or below the payload —
      IFF `rmMatches pattern loc = some true`; and when it does not match it is `Intact` — info file
      and whole payload exactly as before;
    * every listed name that is no entry (unreadable info, no `Path=` line) is `Intact`;
    * `PurgedAll`: every path that is not at or below a removed info file / payload and is not one of
      the directories `info/`, `files/` (which keep kind and mode) is exactly as before, same mount
      table — unlisted names and orphan payloads included (`rm_other_entries_intact`);
    * nothing that is not at or below `info/` or `files/` of a scanned directory changes. -/
theorem rm_command_selects_exactly (fs : FS) (c : ReadCfg) (pattern : Bytes) (more : List Bytes) (ds : List TDir)
    (hscan : foundDirs (scanTrashDirs fs c) = ds.map TDir.pair) (W : PlainWorld fs ds) (hp : pattern ≠ []) :
    (run noFaults (runRm c (pattern :: more)) { fs := fs }).1.exit = 0 ∧
    (run noFaults (runRm c (pattern :: more)) { fs := fs }).1.crash = none ∧
    (∀ d ∈ ds, ∀ n ∈ d.names, ∀ loc, EntryAt fs c.cwd d n loc →
      (Gone (run noFaults (runRm c (pattern :: more)) { fs := fs }).2.fs d n ↔ rmMatches pattern loc = some true) ∧
      (rmMatches pattern loc ≠ some true → Intact fs (run noFaults (runRm c (pattern :: more)) { fs := fs }).2.fs d n)) ∧
    (∀ d ∈ ds, ∀ n ∈ d.names, (¬ ∃ loc, EntryAt fs c.cwd d n loc) →
      Intact fs (run noFaults (runRm c (pattern :: more)) { fs := fs }).2.fs d n) ∧
    PurgedAll fs (run noFaults (runRm c (pattern :: more)) { fs := fs }).2.fs ds (selected fs c.cwd pattern) ∧
    (∀ q, (∀ d ∈ ds, ¬ FS.under d.I q = true ∧ ¬ FS.under d.F q = true) →
      (run noFaults (runRm c (pattern :: more)) { fs := fs }).2.fs.get q = fs.get q) :=
  Proofs.C12Cmd.rm_command_selects_exactly fs c pattern more ds hscan W hp

/-- what is selected, in the property's words: a listed entry with location `loc` is selected iff the
    pattern matches `loc`; a listed name that is no entry never is -/
theorem selected_iff_matches (fs : FS) (cwd : CPath) (pattern : Bytes) (d : TDir) (n loc : Bytes)
    (hn : n ∈ d.names) (he : EntryAt fs cwd d n loc) :
    n ∈ selected fs cwd pattern d ↔ rmMatches pattern loc = some true :=
  Proofs.C12Cmd.mem_selected_iff hn he

/-- "every other entry, in every trash directory": a `*.trashinfo` name `m` of a scanned directory
    that is not selected — listed or not — keeps its info file and its whole payload, whatever state
    `fs'` is `PurgedAll` of `fs` -/
theorem rm_other_entries_intact (fs fs' : FS) (cwd : CPath) (pattern : Bytes) (ds : List TDir) (W : PlainWorld fs ds)
    (P : PurgedAll fs fs' ds (selected fs cwd pattern)) (d : TDir) (hd : d ∈ ds) (m : Bytes)
    (hm : isTrashinfoName m = true) (hmD : m ∉ selected fs cwd pattern d) : Intact fs fs' d m :=
  Proofs.C12Cmd.intact_of_not_selected cwd W P (Proofs.C12Cmd.selected_isInfo W) hd hm hmD

/-- the location of an entry whose `Path=` value is absolute is that value, whatever the volume -/
theorem pjoin_absolute (v rel : Bytes) (h : Bytes.startsWith rel [slash] = true) : pjoin v rel = rel := by
  unfold pjoin; rw [if_pos h]

/-! ### (2) payload and `.trashinfo` together -/

/-- every `*.trashinfo` name of every scanned directory is, after the run, either gone WHOLE (info
    file and everything at or below the payload) or intact WHOLE -/
theorem rm_gone_or_intact (fs : FS) (c : ReadCfg) (pattern : Bytes) (more : List Bytes) (ds : List TDir)
    (hscan : foundDirs (scanTrashDirs fs c) = ds.map TDir.pair) (W : PlainWorld fs ds) (hp : pattern ≠ []) :
    ∀ d ∈ ds, ∀ m, isTrashinfoName m = true →
      Gone (run noFaults (runRm c (pattern :: more)) { fs := fs }).2.fs d m ∨
      Intact fs (run noFaults (runRm c (pattern :: more)) { fs := fs }).2.fs d m :=
  Proofs.C12Cmd.rm_gone_or_intact fs c pattern more ds hscan W hp

/-- hence, for an entry that had both: the info file is gone iff the payload is gone — there is no
    entry whose info file is gone while the payload stays, or vice versa -/
theorem rm_pair_together (fs : FS) (c : ReadCfg) (pattern : Bytes) (more : List Bytes) (ds : List TDir)
    (hscan : foundDirs (scanTrashDirs fs c) = ds.map TDir.pair) (W : PlainWorld fs ds) (hp : pattern ≠ [])
    (d : TDir) (hd : d ∈ ds) (m : Bytes) (hm : isTrashinfoName m = true)
    (hinfo : fs.get (d.I ++ [m]) ≠ none) (hpay : fs.get (d.F ++ [stemOf m]) ≠ none) :
    ((run noFaults (runRm c (pattern :: more)) { fs := fs }).2.fs.get (d.I ++ [m]) = none ↔
     (run noFaults (runRm c (pattern :: more)) { fs := fs }).2.fs.get (d.F ++ [stemOf m]) = none) :=
  Proofs.C12Cmd.rm_pair_together fs c pattern more ds hscan W hp d hd m hm hinfo hpay

/-! ### (3) the matching laws, for all byte strings -/

/-- (a) CASE SENSITIVITY.  A literal pattern (no `*`, `?`, `[` byte) that does not start with '/'
    matches a location iff the location's base name is byte-for-byte the pattern: `FOO` does not
    match `foo`.  (`decodeSE` is injective: `Proofs.C12CmdDecode.decodeSE_injective`.) -/
theorem literal_matches_basename (pattern loc : Bytes) (hp : pattern ≠ []) (hns : pattern.head? ≠ some slash)
    (hlit : ∀ x ∈ pattern, x ≠ 42 ∧ x ≠ 63 ∧ x ≠ 91) :
    rmMatches pattern loc = some (decide (basename loc = pattern)) :=
  Proofs.C12CmdMatch.literal_matches_basename pattern loc hp hns hlit

/-- (b) a pattern that starts with '/' is matched against the WHOLE location (`C12.rm_subject`), and a
    literal one matches exactly the location that is that path -/
theorem literal_matches_full_path (pattern loc : Bytes) (hs : pattern.head? = some slash)
    (hlit : ∀ x ∈ pattern, x ≠ 42 ∧ x ≠ 63 ∧ x ≠ 91) :
    rmMatches pattern loc = some (decide (loc = pattern)) :=
  Proofs.C12CmdMatch.literal_matches_full_path pattern loc hs hlit

/-- (c) `*` alone matches EVERY location: the subject is the base name (the part after the last '/':
    empty for a location that ends with '/'), and `*` matches every code-point string — the empty one,
    names with newlines (`fnmatch.translate` compiles with `(?s:…)`), escaped undecodable bytes -/
theorem star_matches_every_location (loc : Bytes) : rmMatches (b "*") loc = some true :=
  Proofs.C12CmdMatch.star_matches_every_location loc

theorem star_matches_all (s : Cps) : Glob.globMatch [42] s = true := Proofs.C12CmdMatch.star_matches_all s

/-- (c') with a leading '/' the subject is the whole path and `*` runs across '/': `/*` matches every
    location that starts with '/' -/
theorem slash_star (loc : Bytes) : rmMatches (b "/*") loc = some true ↔ loc.head? = some slash :=
  Proofs.C12CmdMatch.slash_star loc

/-- (d) a pattern that does not start with '/' never looks at the directory part: two locations with
    the same base name get the same verdict -/
theorem dir_part_ignored (pattern loc1 loc2 : Bytes) (hns : pattern.head? ≠ some slash)
    (h : basename loc1 = basename loc2) : rmMatches pattern loc1 = rmMatches pattern loc2 :=
  Proofs.C12CmdMatch.dir_part_ignored pattern loc1 loc2 hns h

/-- (e) `?` matches exactly ONE character — one code point after surrogate-escape decoding: a
    multi-byte UTF-8 character is one, an undecodable byte is one -/
theorem question_mark_one (loc : Bytes) :
    rmMatches (b "?") loc = some true ↔ (decodeSE (basename loc)).length = 1 :=
  Proofs.C12CmdMatch.question_mark_one loc

example : rmMatches (b "FOO") (b "/home/u/foo") = some false ∧ rmMatches (b "foo") (b "/home/u/foo") = some true ∧
    rmMatches (b "*") (b "/home/u/a\nb") = some true ∧ basename (b "/a/b/") = [] ∧ rmMatches (b "*") (b "/a/b/") = some true ∧
    rmMatches (b "?") [47, 120, 47, 0xC3, 0xA9] = some true ∧ rmMatches (b "?") [47, 0xC3] = some true ∧
    rmMatches (b "?") (b "/x/ab") = some false := by decide +kernel

/-! ### (4) several patterns on the command line -/

/-- Only the FIRST argument is a pattern; the others are ignored (`Filter(args[0])` in
    /repo/trashcli/rm/rm_cmd.py: REAL behaviour).  So every theorem above, stated for
    `pattern :: more`, is about `trash-rm pattern more…`. -/
theorem rm_only_first_pattern (c : ReadCfg) (pattern : Bytes) (more : List Bytes) :
    runRm c (pattern :: more) = runRm c [pattern] := rfl

/-- no argument: usage, exit code 8, no call, nothing changed — under every oracle -/
theorem rm_no_argument (φ : Oracle) (c : ReadCfg) (s : RunState) :
    (run φ (runRm c []) s).1.exit = 8 ∧ (run φ (runRm c []) s).2.fs = s.fs ∧ (run φ (runRm c []) s).2.trace = s.trace :=
  Proofs.C12Cmd.rm_no_argument φ c s

/-! ### (5) non-vacuity: world `WR` (Proofs/C12CmdEx.lean)

  Two volumes, `/` and the mount point `/m`; HOME=/h, uid 1000.  Home trash `dH` (paired with `/`):
  `foo.txt` (Path=/q/docs/foo.txt), `bar` (a directory; Path=/q/bar).  Volume trash `dA` = `/m/.Trash-1000`
  (paired with `/m`): `foo.c` (Path=src/foo.c, relative: location `/m/src/foo.c`), `Foo` (Path=src/Foo).
  `trash-rm 'foo*'` matches one entry in each directory. -/
section examples
open TrashVerif.Proofs.C12CmdEx
open TrashVerif.Proofs.C08CmdEx (rc)

/-- the hypotheses hold: the scan finds the two directories, the world is plain -/
example : foundDirs (scanTrashDirs WR rc) = [dH, dA].map TDir.pair ∧ PlainWorld WR [dH, dA] := ⟨WR_scan, WR_world⟩

/-- the four entries, their locations (relative Paths joined to `/m`) and the verdicts -/
example :
    EntryAt WR rc.cwd dH (b "foo.txt.trashinfo") (b "/q/docs/foo.txt") ∧ EntryAt WR rc.cwd dH (b "bar.trashinfo") (b "/q/bar") ∧
    EntryAt WR rc.cwd dA (b "foo.c.trashinfo") (b "/m/src/foo.c") ∧ EntryAt WR rc.cwd dA (b "Foo.trashinfo") (b "/m/src/Foo") :=
  WR_entries

example :
    rmMatches (b "foo*") (b "/q/docs/foo.txt") = some true ∧ rmMatches (b "foo*") (b "/q/bar") = some false ∧
    rmMatches (b "foo*") (b "/m/src/foo.c") = some true ∧ rmMatches (b "foo*") (b "/m/src/Foo") = some false := WR_verdicts

/-- the selection theorem instantiated: exactly `foo.txt` of the home trash and `foo.c` of `/m` are
    selected and removed whole; `foo.c` (location `/m/src/foo.c`) is gone, `Foo` is intact -/
example : PurgedAll WR (run noFaults (runRm rc [b "foo*"]) { fs := WR }).2.fs [dH, dA] (selected WR rc.cwd (b "foo*")) ∧
    selected WR rc.cwd (b "foo*") dH = [b "foo.txt.trashinfo"] ∧ selected WR rc.cwd (b "foo*") dA = [b "foo.c.trashinfo"] ∧
    Gone (run noFaults (runRm rc [b "foo*"]) { fs := WR }).2.fs dA (b "foo.c.trashinfo") ∧
    Intact WR (run noFaults (runRm rc [b "foo*"]) { fs := WR }).2.fs dA (b "Foo.trashinfo") := by
  have h := rm_command_selects_exactly WR rc (b "foo*") [] [dH, dA] WR_scan WR_world (by decide +kernel)
  have hA : dA ∈ [dH, dA] := List.mem_cons_of_mem _ List.mem_cons_self
  refine ⟨h.2.2.2.2.1, WR_selected.1, WR_selected.2, ?_, ?_⟩
  · exact (h.2.2.1 dA hA _ (by decide +kernel) _ WR_entries.2.2.1).1.2 WR_verdicts.2.2.1
  · exact (h.2.2.1 dA hA _ (by decide +kernel) _ WR_entries.2.2.2).2 (by rw [WR_verdicts.2.2.2]; decide)

/-- … independently, the run evaluated by the kernel: exit 0, and the final state is the initial one
    without the two matching pairs — `bar` (with its tree), `Foo` (case!), the outside file `/q/foo.txt`
    whose name matches, and everything else exactly as before -/
example :
    (run noFaults (runRm rc [b "foo*"]) { fs := WR }).1.exit = 0 ∧
    (run noFaults (runRm rc [b "foo*"]) { fs := WR }).2.fs.toList = nodesR.filter (fun pn =>
      pn.1 ∉ [HI ++ [b "foo.txt.trashinfo"], HF ++ [b "foo.txt"], AI ++ [b "foo.c.trashinfo"], AF ++ [b "foo.c"]]) := by
  rw [Proofs.C11CmdEval.rm_twin]; exact WR_run

/-- the empty pattern: IndexError at the first parsable entry (REAL behaviour: `self.pattern[0]` in
    /repo/trashcli/rm/filter.py), exit 1, nothing removed -/
theorem empty_pattern_crashes :
    (run noFaults (runRm rc [[]]) { fs := WR }).1.exit = 1 ∧
    (run noFaults (runRm rc [[]]) { fs := WR }).1.crash = some .indexError ∧
    (run noFaults (runRm rc [[]]) { fs := WR }).2.fs.toList = nodesR := by
  rw [Proofs.C11CmdEval.rm_twin]; exact WR_empty_pattern

/-- `trash-rm 'foo*' bar`: the second pattern is not looked at -/
example :
    (run noFaults (runRm rc [b "foo*", b "bar"]) { fs := WR }).2.fs.get (HI ++ [b "bar.trashinfo"]) = WR.get (HI ++ [b "bar.trashinfo"]) ∧
    (WR.get (HI ++ [b "bar.trashinfo"])).isSome = true ∧
    (run noFaults (runRm rc [b "foo*", b "bar"]) { fs := WR }).2.fs.get (HI ++ [b "foo.txt.trashinfo"]) = none := by
  rw [Proofs.C11CmdEval.rm_twin]; exact WR_two_patterns

end examples

end TrashVerif.C12Cmd

#print axioms TrashVerif.C12Cmd.rm_command_selects_exactly
#print axioms TrashVerif.C12Cmd.selected_iff_matches
#print axioms TrashVerif.C12Cmd.rm_other_entries_intact
#print axioms TrashVerif.C12Cmd.rm_gone_or_intact
#print axioms TrashVerif.C12Cmd.rm_pair_together
#print axioms TrashVerif.C12Cmd.literal_matches_basename
#print axioms TrashVerif.C12Cmd.literal_matches_full_path
#print axioms TrashVerif.C12Cmd.star_matches_every_location
#print axioms TrashVerif.C12Cmd.slash_star
#print axioms TrashVerif.C12Cmd.dir_part_ignored
#print axioms TrashVerif.C12Cmd.question_mark_one
#print axioms TrashVerif.C12Cmd.rm_only_first_pattern
#print axioms TrashVerif.C12Cmd.rm_no_argument
#print axioms TrashVerif.C12Cmd.empty_pattern_crashes
#print axioms TrashVerif.C12Cmd.star_matches_all
#print axioms TrashVerif.C12Cmd.pjoin_absolute
#print axioms TrashVerif.Proofs.C12CmdDecode.decodeSE_injective
#print axioms TrashVerif.Proofs.C12CmdEx.WR_world
#print axioms TrashVerif.Proofs.C12CmdEx.WR_run
