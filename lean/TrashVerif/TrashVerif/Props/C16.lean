/-
  Props/C16.lean — property theorems for C16 (truthful exit status, independent arguments).
  About `putAll` (Context.trash_each + TrashPutReporter.exit_code), under ANY fault oracle.
-/
import TrashVerif.Model.Put
import TrashVerif.Proofs.C16
namespace TrashVerif.C16
open TrashVerif Prog

def outcomeClass : ArgOutcome → Nat
  | .trashed .. => 0 | .skippedMissing => 1 | .declined => 2 | .failedDot => 3 | .failedMissing => 4
  | .failedAll _ => 5 | .crashed _ => 6

/-- two arguments designate unrelated entries: their kernel-resolved locations exist apart from
    each other (none is the other, an ancestor of it, or below it) -/
def Unrelated (fs : FS) (cwd : CPath) (a c : Bytes) : Prop :=
  ∀ p q, FS.resolve fs cwd (normpath a) = .ok p → FS.resolve fs cwd (normpath c) = .ok q →
    ¬ FS.under p q = true ∧ ¬ FS.under q p = true

/-- The full statement of independence (NOT proved: kept visible as the target; the check validates
    it differentially by running every argument alone on a copy of the world): without prompts,
    what happens to an argument does not depend on the unrelated argument handled before it. -/
def C16_independence_full : Prop :=
  ∀ (c : PutCfg) (a d : Bytes) (st : PutSt) (fs : FS), c.mode ≠ .interactive → Unrelated fs c.cwd a d →
    (((run noFaults (runPut c [a, d] st) { fs := fs }).1.outcomes.map fun o => outcomeClass o.2)[1]?) =
    (((run noFaults (runPut c [d] st) { fs := fs }).1.outcomes.map fun o => outcomeClass o.2)[0]?)

/-- Unless the run is aborted by an uncaught exception (EOF on the prompt, a failing clean-up),
    every argument is handled, in order — a failing, refused or non-existent argument never stops
    the ones after it — and the exit status is 0 exactly when no argument failed, 74 otherwise. -/
theorem exit_iff (φ : Oracle) (c : PutCfg) (args : List Bytes) (st : PutSt) (s : RunState) :
    let res := (run φ (runPut c args st) s).1
    res.crash = none →
      res.outcomes.map (·.1) = args ∧
      (res.exit = 0 ↔ ∀ o ∈ res.outcomes, o.2.failed = false) ∧
      (res.exit = 0 ∨ res.exit = 74) := Proofs.C16.exit_iff φ c args st s

/-- Every failed argument is named by a diagnostic on stderr. -/
theorem diag_each_failure (φ : Oracle) (c : PutCfg) (args : List Bytes) (st : PutSt) (s : RunState) :
    let r := run φ (runPut c args st) s
    ∀ o ∈ r.1.outcomes, o.2.failed = true → Out.stderr "cannot-trash" o.1 ∈ r.2.outs :=
  Proofs.C16.diag_each_failure φ c args st s

/-- An aborted run exits non-zero too (it never claims success). -/
theorem crash_exit_nonzero (φ : Oracle) (c : PutCfg) (args : List Bytes) (st : PutSt) (s : RunState) :
    let res := (run φ (runPut c args st) s).1
    res.crash ≠ none → res.exit = 1 := Proofs.C16.crash_exit_nonzero φ c args st s

/-- Outcomes that count as success are exactly: trashed, missing under -f, declined under -i. -/
theorem failed_iff (o : ArgOutcome) :
    o.failed = false ↔ (∃ t n, o = .trashed t n) ∨ o = .skippedMissing ∨ o = .declined ∨ (∃ e, o = .crashed e) := by
  cases o <;> simp [ArgOutcome.failed]

/-- `-f` forgives only non-existent paths, `-i` skips only on a reply that does not start with y/Y. -/
theorem skip_reasons (c : PutCfg) (path : Bytes) (st : PutSt) (φ : Oracle) (s : RunState) :
    let r := (run φ (trashSingle c path st) s).1.1
    (r = .ok .skippedMissing → c.mode = .force ∧ FS.pLexists s.fs c.cwd path = false ∧ isDotEntry (rstripSlash path) = false) ∧
    (r = .ok .declined → c.mode = .interactive ∧ ∃ reply rest, st.replies = reply :: rest ∧ putReplyYes reply = false) :=
  Proofs.C16.skip_reasons c path st φ s

end TrashVerif.C16
