/-
  Props/C01SeqDefs.lean — definitions for Props/C01Seq.lean: C01 (conservation of data) for a whole
  run of `trash-put` over N everyday arguments (the `HomeWorld` / `HomeItems` setting of
  Props/C16SeqDefs.lean).
-/
import TrashVerif.Props.PutCoreDefs
import TrashVerif.Props.C16SeqDefs
namespace TrashVerif.C01Seq
open TrashVerif Prog FS PutCore C16Indep C16Seq

/-- the text of the `.trashinfo` written for the item `x` in the home trash -/
def contentOf (c : PutCfg) (x : Item) : Bytes := formatTrashinfoWith (locOf x.P x.n) c.dateStr

/-- the file system after the put cores of the items ran one after another, each in the state its
    predecessor left (the command-level run reaches exactly this file system: `run_fs_is_chain`) -/
def coreFs (c : PutCfg) (H : CPath) (st : PutSt) : List Item → FS → FS
  | [], fs => fs
  | x :: rest, fs => coreFs c H st rest (run noFaults (homeCore c H x.P x.n st) { fs := fs }).2.fs

/-- `q` has nothing to do with the item `x`: it is not at/below the origin of `x`, not at/below its
    payload `files/<name>`, and it is not its info file `info/<name>.trashinfo` -/
def Clear (H : CPath) (x : Item) (q : CPath) : Prop :=
  ¬ x.src <+: q ∧ ¬ (filesC H ++ [stemOf x.name]) <+: q ∧ q ≠ infoC H ++ [x.name]

/-- EVERY item is trashed whole, and nothing else changed.  `fs` the initial, `fsN` the final file
    system.  The exceptions of `frame` are those of the one-argument theorem (`PutCore.Trashed.frame`),
    once per item: the origin's subtree, the payload's subtree, the info file; and the three
    directories an entry was removed from / added to — the parent `x.P` of each origin, `files/`,
    `info/` — which keep kind and mode but may have a fresh mtime (`dirs`, which says so for EVERY
    directory that is clear of all items). -/
structure AllTrashed (c : PutCfg) (H : CPath) (fs fsN : FS) (items : List Item) : Prop where
  gone : ∀ x ∈ items, ∀ rel, fsN.get (x.src ++ rel) = none
  whole : ∀ x ∈ items, ∀ rel, fsN.get (filesC H ++ [stemOf x.name] ++ rel) = fs.get (x.src ++ rel)
  info : ∀ x ∈ items, fsN.get (infoC H ++ [x.name]) = some (.file (contentOf c x) 0o600 0)
  wasFree : ∀ x ∈ items, fs.get (filesC H ++ [stemOf x.name]) = none ∧ fs.get (infoC H ++ [x.name]) = none
  distinct : items.Pairwise (fun x y => x.name ≠ y.name ∧ stemOf x.name ≠ stemOf y.name)
  frame : ∀ q, (∀ x ∈ items, Clear H x q ∧ q ≠ x.P) → q ≠ filesC H → q ≠ infoC H → fsN.get q = fs.get q
  dirs : ∀ q, (∀ x ∈ items, Clear H x q) → keptDir fs fsN q

/-- `Interleaved c H st fs args items`: the argument list `args` is the list of the items' spellings with
    INERT arguments (`C16Indep.Inert`: dot entries, paths that do not exist, entries every candidate
    trash directory of which is refused) put in at any positions — each inert WHERE IT STANDS, i.e. in
    the file system the items before it left. -/
inductive Interleaved (c : PutCfg) (H : CPath) (st : PutSt) : FS → List Bytes → List Item → Prop
  | nil (fs : FS) : Interleaved c H st fs [] []
  | inert {fs : FS} {a : Bytes} {args : List Bytes} {items : List Item} :
      Inert c fs a → Interleaved c H st fs args items → Interleaved c H st fs (a :: args) items
  | item {fs : FS} {x : Item} {args : List Bytes} {items : List Item} :
      Interleaved c H st (run noFaults (homeCore c H x.P x.n st) { fs := fs }).2.fs args items →
      Interleaved c H st fs (x.arg :: args) (x :: items)

end TrashVerif.C01Seq
