/-
  Props/C04.lean — property theorems for C04 (names stay unique; nothing trashed is overwritten).
  Sequential part: corollaries of the put-core theorems; concurrent part: Props/C04Par.lean.
-/
import TrashVerif.Props.PutCoreDefs
import TrashVerif.Proofs.C04
namespace TrashVerif.C04
open TrashVerif PutCore Prog

/-- A successful put takes a pair of names that were both free, and leaves every previously
    trashed payload and every other info file exactly as they were — however many entries of the
    same name are already there, of whatever kind, with or without their counterpart. -/
theorem put_never_overwrites (fs : FS) (infoC filesC src : CPath) (base content : Bytes) (st st' : PutSt)
    (h : Setting fs infoC filesC src) (name : Bytes) (s' : RunState)
    (hr : run noFaults (putCore infoC filesC base content (fun _ => .ok src) st) { fs := fs } = ((.ok name, st'), s')) :
    fs.get (filesC ++ [stemOf name]) = none ∧ fs.get (infoC ++ [name]) = none ∧
    (∀ n rel, n ≠ stemOf name → s'.fs.get (filesC ++ [n] ++ rel) = fs.get (filesC ++ [n] ++ rel)) ∧
    (∀ n, n ≠ name → s'.fs.get (infoC ++ [n]) = fs.get (infoC ++ [n])) :=
  Proofs.C04.put_never_overwrites fs infoC filesC src base content st st' h name s' hr

/-- shutil.move's "destination is a directory → move into it" branch is never taken by the core:
    the destination does not exist when the move is issued (no merge into a trashed directory).
    Under ANY fault oracle, every call `move` issues is: the one `rename` onto `dst` itself, and —
    in the copy fallback after a failed rename — directories created at or below `dst` only.
    PARTIAL: this needs the parent of `dst` to exist as a directory (in the core it is `files/`,
    which `Setting.filesDir` guarantees).  Without that hypothesis the statement is false, see
    `no_merge_needs_parent` below. -/
theorem no_merge_partial (fs : FS) (src dst : CPath) (hfree : fs.get dst = none)
    (hpar : fs.isDirAt (FS.parent dst) = true) (φ : Oracle) (s : RunState) (hs : s.fs = fs) :
    ∀ c r, (c, r) ∈ (run φ (move src dst) s).2.trace → (c, r) ∈ s.trace ∨
      (∀ a b, c = .rename a b → b = dst) ∧ (∀ p m, c ≠ .mkdir p m ∨ FS.under dst p = true) :=
  Proofs.C04.no_merge_partial fs src dst hfree hpar φ s hs

/-- Why `no_merge_partial` carries `hpar`: with only `fs.get dst = none` the claim fails.  Moving the
    directory `/a` to `/x/y` when `/x` does not exist: `rename` fails (ENOENT), `copytree` calls
    `os.makedirs(/x/y)`, which first creates the missing ancestor `/x` — a `mkdir` that is not at or
    below `dst`. -/
theorem no_merge_needs_parent :
    ∃ (fs : FS) (src dst : CPath), fs.get dst = none ∧
      ∃ c r, (c, r) ∈ (run noFaults (move src dst) { fs := fs }).2.trace ∧
        (c, r) ∉ ({ fs := fs } : RunState).trace ∧
        ¬ ((∀ a b, c = .rename a b → b = dst) ∧ (∀ p m, c ≠ .mkdir p m ∨ FS.under dst p = true)) :=
  Proofs.C04.no_merge_counterexample

/-- The names tried are pairwise distinct for the first 100 attempts, so more than 100 same-named
    entries are needed before suffixes become random. -/
theorem suffixes_distinct (st : PutSt) (i j : Nat) (hi : i < 100) (hj : j < 100) (hij : i ≠ j) :
    (suffixFor i st).1 ≠ (suffixFor j st).1 := Proofs.C04.suffixes_distinct st i j hi hj hij

/-- Two successive successful puts of same-named entries own distinct names and both payloads are
    whole (the second never touches the first). -/
theorem two_puts_distinct (fs : FS) (infoC filesC src1 src2 : CPath) (base c1 c2 : Bytes) (st0 st1 st2 : PutSt)
    (h1 : Setting fs infoC filesC src1) (n1 n2 : Bytes) (s1 s2 : RunState)
    (hr1 : run noFaults (putCore infoC filesC base c1 (fun _ => .ok src1) st0) { fs := fs } = ((.ok n1, st1), s1))
    (h2 : Setting s1.fs infoC filesC src2)
    (hr2 : run noFaults (putCore infoC filesC base c2 (fun _ => .ok src2) st1) { fs := s1.fs } = ((.ok n2, st2), s2)) :
    n1 ≠ n2 ∧ (∀ rel, s2.fs.get (filesC ++ [stemOf n1] ++ rel) = fs.get (src1 ++ rel)) ∧
    (∀ rel, s2.fs.get (filesC ++ [stemOf n2] ++ rel) = s1.fs.get (src2 ++ rel)) ∧
    s2.fs.get (infoC ++ [n1]) = some (.file c1 0o600 0) ∧ s2.fs.get (infoC ++ [n2]) = some (.file c2 0o600 0) :=
  Proofs.C04.two_puts_distinct fs infoC filesC src1 src2 base c1 c2 st0 st1 st2 h1 n1 n2 s1 s2 hr1 h2 hr2

end TrashVerif.C04
