/-
  Props/C02Cmd.lean — C02 at the COMMAND level, everyday case:
  "put then restore is the identity: after `trash-put X` followed by `trash-restore` selecting that
   entry, X is back at its exact original path with identical content/tree/link target/mode/mtime,
   and nothing else has changed except the trash directories."

  Props/C02.lean proves this at the RESOLVED layer (`putCore` then `restoreCore` on canonical paths).
  Here it is lifted to the command models `runPut` and `runRestore` (fault-free) for the everyday
  world of Props/C16Indep.lean (`HomeWorld`, `GoodArg`: home trash there, canonical absolute
  argument, no symlink on the way):

  (a) `put_leaves_one_entry`, `scan_offers_the_entry` — what the put leaves, and that the scan of a
      home trash whose `info/` holds exactly one well-formed entry offers exactly that entry;
  (b) `reply_zero`, `single_offer_reply_zero` — the reply "0" selects it: the run comes down to
      `restoreOne` on it (any fault oracle);
  (c) `restoreOne_canonical` — `restoreOne` on it is `restoreCore` on exactly the canonical arguments
      of `C02.restore_put_id_partial`;
  (d) `put_restore_identity` — the composition with `C16Indep.home_alone` and the resolved layer: FULL
      strength for the everyday case (every path of the final world is characterised), under side
      conditions each of which is shown necessary or discussed below;
      `put_restore_identity_everyday` — the same with hypotheses on the initial world only.

  What is NOT covered (the statement is about the everyday case): trash directories yet to be
  created, `$topdir/.Trash/$uid`, `$topdir/.Trash-$uid`, `--trash-dir`; arguments that are relative,
  non-canonical or reached through symlinks; a home trash that already holds entries (then index 0
  need not be ours: `index0_is_the_older_entry`); names longer than 245 bytes (put truncates the
  trash name; the identity still holds on the example `long_name_still_restored`); faults.

  Found on the way: a REAL DEFECT of trash-cli — `cd /; trash-restore` (no directory argument) offered
  NOTHING.  It was found by the counterexample theorem `root_cwd_no_argument_offers_nothing` of this
  file (kernel-checked on the model, which followed the source) and has been REPAIRED in the code
  ("fix: trash-restore from / offered nothing": `normpath(join(curdir, path))`).  The model follows the
  repaired code (`restoreScopeDir`, Props/C13.lean), the theorem is replaced by its positive
  counterpart `root_cwd_no_argument_offers_everything`, and the root case is now part of
  `in_scope_of_cwd` and `put_restore_identity_everyday`.
-/
import TrashVerif.Props.C02
import TrashVerif.Props.C16Indep
import TrashVerif.Props.C02CmdDefs
import TrashVerif.Proofs.C02Cmd
import TrashVerif.Proofs.C02CmdEx
namespace TrashVerif.C02Cmd
open TrashVerif Prog FS PutCore C16Indep

/-! ### (a) what the put leaves, and what the scan offers -/

/-- In the everyday world, when `info/` of the home trash is empty, the name `n` is free in `files/`
    and `n.trashinfo` fits in a file name: the core of `trash-put P/n` answers `n.trashinfo` (no
    scripted input consumed), and in the state it leaves the world is still a `HomeWorld`, the way to
    the entry's parent is still free of symlinks, the entry is gone from its place, and `info/` holds
    exactly one entry: the regular file `n.trashinfo` with the bytes `infoContent c P n`
    (`[Trash Info]`, `Path=<quoted canonical path>`, `DeletionDate=<c.dateStr>`). -/
theorem put_leaves_one_entry (c : PutCfg) (fs : FS) (H P : CPath) (n : Name) (W : HomeWorld c fs H)
    (A : GoodArg fs H P n) (st : PutSt) (hlen : n.length + 10 ≤ 255)
    (hinfoEmpty : ∀ x, fs.get (infoC H ++ [x]) = none) (hfreeF : fs.get (filesC H ++ [n]) = none) :
    let R := run noFaults (homeCore c H P n st) { fs := fs }
    R = ((.ok (n ++ trashinfoExt), st), R.2) ∧ HomeWorld c R.2.fs H ∧ C07.Plain R.2.fs P ∧
    R.2.fs.get (P ++ [n]) = none ∧ OneEntry R.2.fs H (n ++ trashinfoExt) (infoContent c P n) :=
  Proofs.C02Cmd.after_put W A st hlen hinfoEmpty hfreeF

/-- (a) The scan of `trash-restore`: no `--trash-dir`, HOME the canonical spelling of `H`,
    XDG_DATA_HOME unset; `info/` of the home trash holds exactly one entry `name` (`OneEntry`) whose
    text has the `Path=` value `rel`; the trash directories of the listed mount points yield nothing.
    Then exactly one entry is found: location `/`-joined `rel`, the date its text parses to (if any),
    and the canonical spelling of the info file. -/
theorem scan_offers_the_entry (fs : FS) (H : CPath) (name content rel : Bytes) (rc : ReadCfg) (o : RestoreOpts)
    (E : OneEntry fs H name content) (hrel : parsePath (universalNewlines content) = some rel)
    (hd : o.trashDir = none ∨ o.trashDir = some []) (hx : rc.env.xdg = none) (hh : rc.env.home = some (toStr H))
    (hvol : ∀ tv ∈ volumeTrashDirs fs rc, restoreEntriesOf fs rc.cwd tv.1 tv.2 = []) :
    restoreEntries fs rc o = [entryOf H name content rel] :=
  Proofs.C02Cmd.scan_all rc o E hrel hd hx hh hvol

/-- The `Path=` line put wrote is read back exactly, WHATEVER the date string (C03 proves it for
    date strings that are dates; the date line comes after the path line and cannot disturb it). -/
theorem path_read_back (loc dateStr : Bytes) :
    parsePath (universalNewlines (formatTrashinfoWith loc dateStr)) = some loc :=
  Proofs.C02Cmd.parsePath_written loc dateStr

/-- The entry read from what put wrote for `P/n` is `putEntry`: the canonical spelling of `P/n`. -/
theorem entry_of_put (c : PutCfg) (H P : CPath) (n : Name) (hn : C07.GoodNames (P ++ [n])) :
    entryOf H (n ++ trashinfoExt) (infoContent c P n) (locOf P n) = putEntry c H P n :=
  Proofs.C02Cmd.entryOf_put c H P n hn

/-- A date string that is a date is read back: the offered entry carries it.  (Otherwise the entry
    is offered undated — and then sorts FIRST, see `undated_entry_sorts_first`.) -/
theorem put_entry_date (c : PutCfg) (H P : CPath) (n : Name) (d : Date) (hd : d.valid = true) (hy : 1000 ≤ d.y)
    (hc : c.dateStr = d.fmt) : (putEntry c H P n).date = some d :=
  Proofs.C02Cmd.putEntry_date c H P n d hd hy hc

/-! ### (b) the reply "0" -/

theorem reply_zero : parseIndexes (b "0") 1 = .ok [0] := Proofs.C02Cmd.reply_zero

/-- Under ANY fault oracle: when the scan yields exactly the entry `e`, in scope of the directory
    argument, and the reply selects index 0 out of one, then — whatever the sort mode — the run of
    `trash-restore` is `restoreOne` on `e`, started after the listing was printed (same file system,
    same calls so far): same final file system, same calls; exit status 0 exactly when it succeeds,
    1 when it fails. -/
theorem single_offer_reply_zero (φ : Oracle) (rc : ReadCfg) (o : RestoreOpts) (reply : Bytes) (e : Entry) (s : RunState)
    (hall : restoreEntries s.fs rc o = [e]) (hscope : inScope (scopeDir rc o) e.loc = true)
    (hreply : parseIndexes reply 1 = .ok [0]) :
    ∃ s', s'.fs = s.fs ∧ s'.trace = s.trace ∧ s'.hist = s.hist ∧ s'.n = s.n ∧
      (run φ (runRestore rc o (some reply)) s).2.fs = (run φ (restoreOne rc.cwd o.overwrite e) s').2.fs ∧
      (run φ (runRestore rc o (some reply)) s).2.trace = (run φ (restoreOne rc.cwd o.overwrite e) s').2.trace ∧
      ((run φ (restoreOne rc.cwd o.overwrite e) s').1 = .ok () →
        (run φ (runRestore rc o (some reply)) s).1.exit = 0 ∧ (run φ (runRestore rc o (some reply)) s).1.crash = none) ∧
      (∀ er, (run φ (restoreOne rc.cwd o.overwrite e) s').1 = .error er →
        (run φ (runRestore rc o (some reply)) s).1.exit = 1) :=
  Proofs.C02Cmd.runRestore_single φ rc o reply e s hall hscope hreply

/-- the directory argument "/" puts every entry in scope -/
theorem in_scope_of_root (rc : ReadCfg) (o : RestoreOpts) (h : o.path = b "/") (loc : Bytes) :
    inScope (scopeDir rc o) loc = true := Proofs.C02Cmd.inScope_root rc o h loc

/-- the canonical spelling of the entry's own directory as argument puts the entry in scope -/
theorem in_scope_of_parent (rc : ReadCfg) (o : RestoreOpts) (P : CPath) (n : Name) (hn : C07.GoodNames (P ++ [n]))
    (h : o.path = toStr P) : inScope (scopeDir rc o) (toStr (P ++ [n])) = true :=
  Proofs.C02Cmd.inScope_parent rc o P n hn h

/-- no directory argument, run from a directory on the way to the entry — "/" included: in scope.
    (Before the fix "trash-restore from / offered nothing" this held only for `rc.cwd ≠ []`.) -/
theorem in_scope_of_cwd (rc : ReadCfg) (o : RestoreOpts) (P : CPath) (n : Name) (hp : o.path = [])
    (hn : C07.GoodNames rc.cwd) (hpre : rc.cwd <+: P) :
    inScope (scopeDir rc o) (toStr (P ++ [n])) = true := Proofs.C02Cmd.inScope_cwd rc o P n hp hn hpre

/-- from "/" itself, without a directory argument, the scope is "/" (`join("/", "")` is "/").  Before
    the fix "trash-restore from / offered nothing" the code normalised `curdir + "/" + path`, and the
    scope was "//" (`normpath` keeps exactly two leading slashes) — the defect this file exposed. -/
theorem scope_of_root_cwd (rc : ReadCfg) (o : RestoreOpts) (hc : rc.cwd = []) (hp : o.path = []) :
    scopeDir rc o = [slash] := Proofs.C02Cmd.scopeDir_root_cwd rc o hc hp

/-! ### (c) `restoreOne` on the canonical entry is `restoreCore` on the canonical paths -/

/-- In a state where the ways to `files/`, `info/` (home trash of `H`) and to `P` are free of
    symlinks and nothing is at `P/n`: `Restorer.restore_trashed_file` on the entry
    (`loc` = canonical spelling of `P/n`, `info` = canonical spelling of `info/<stem>.trashinfo`),
    with or without `--overwrite`, issues no call of its own (the destination is free, its parent is
    a directory) and continues as `restoreCore` on exactly the canonical arguments of
    `C02.restore_put_id_partial`: payload `files/<stem>`, destination `P/n`, info file
    `info/<stem>.trashinfo` — the whole runs are EQUAL. -/
theorem restoreOne_canonical (cwd : CPath) (ov : Bool) (H P : CPath) (n : Name) (stem : Bytes) (d : Option Date)
    (s : RunState) (hH0 : H ≠ []) (hHn : C07.GoodNames H) (hF : C07.Plain s.fs (filesC H)) (hI : C07.Plain s.fs (infoC H))
    (hP : C07.Plain s.fs P) (hPn : C07.GoodNames (P ++ [n])) (hgone : s.fs.get (P ++ [n]) = none)
    (hstem : C07.GoodNames [stem]) (hname : C07.GoodNames [stem ++ trashinfoExt]) :
    run noFaults (restoreOne cwd ov
      { loc := toStr (P ++ [n]), date := d, info := toStr (infoC H ++ [stem ++ trashinfoExt]) }) s =
    run noFaults (restoreCore (.ok (filesC H ++ [stem])) (.ok (P ++ [n])) (.ok (infoC H ++ [stem ++ trashinfoExt]))) s :=
  Proofs.C02Cmd.restoreOne_canonical cwd ov d s hH0 hHn hF hI hP hPn hgone hstem hname

/-! ### the resolved layer, completed -/

/-- Complement to `C02.restore_put_id_partial` (same hypotheses, `hfreeBelow` not needed): the three
    directories that theorem leaves out — the entry's parent, `files/`, `info/`, whose entry lists
    changed twice — are as before, with the canonical fresh mtime 0 (`touched`). -/
theorem restore_put_dirs (fs : FS) (infoC filesC src : CPath) (base content : Bytes) (st st' : PutSt)
    (h : Setting fs infoC filesC src) (name : Bytes) (s1 : RunState)
    (hr : run noFaults (putCore infoC filesC base content (fun _ => .ok src) st) { fs := fs } = ((.ok name, st'), s1))
    (hpar : fs.isDirAt (FS.parent src) = true)
    (hlen : ∀ n, src.getLast? = some n → n.length ≤ 255)
    (hnotMount : fs.isMount (filesC ++ [stemOf name]) = false) :
    let r := run noFaults (restoreCore (.ok (filesC ++ [stemOf name])) (.ok src) (.ok (infoC ++ [name]))) { fs := s1.fs }
    r.2.fs.get (FS.parent src) = touched (fs.get (FS.parent src)) ∧
    r.2.fs.get filesC = touched (fs.get filesC) ∧ r.2.fs.get infoC = touched (fs.get infoC) :=
  Proofs.C02Cmd.restore_put_dirs_touched fs infoC filesC src base content st st' h name s1 hr hpar hlen hnotMount

/-! ### (d) the commands: `trash-put X`, then `trash-restore` answered with index 0 -/

/-- MAIN THEOREM (full strength for the everyday case).  World: `HomeWorld c fs H` (no `--trash-dir`,
    no `--force-volume`, no prompts, XDG_DATA_HOME unset, HOME = canonical spelling of `H`, home trash
    with `files/` and `info/` there, no symlink on the way, root mounted); argument: a `GoodArg`
    (canonical absolute spelling of an existing entry of ANY kind — file, directory tree, symlink —
    not a mount point, parent reached without symlinks, on the volume of the home trash, apart from
    `files/`/`info/`).  Side conditions:
    * `hlen` — `n.trashinfo` fits in a file name (else put truncates the name: `long_name_still_restored`);
    * `hinfoEmpty` — `info/` holds no entry, so that index 0 denotes ours.  NECESSARY:
      `index0_is_the_older_entry`;
    * `hfree`, `hnotMount` — the side conditions of `C02.restore_put_id_partial` for the payload path
      `files/n`: nothing at or below it (`C02.free_below_of_tree` in a tree-shaped file system), not
      an entry of the mount table;
    * `henv`, `hd` — `trash-restore` runs with the environment of the put, without `--trash-dir`
      (working directory, uid, sort mode, `--overwrite` are arbitrary);
    * `hscope` — the entry is in scope of the directory argument (`in_scope_of_root`,
      `in_scope_of_parent`, `in_scope_of_cwd`).  NECESSARY: `out_of_scope_nothing_restored`;
    * `hreply` — the reply denotes index 0 out of one (`reply_zero`: "0");
    * `hvol` — the trash directories of the listed mount points offer no entry in the state after the
      put (vacuous when no mount point is listed: `put_restore_identity_everyday`).
    Conclusion: put reports "trashed into `$HOME/.local/share/Trash` as `n.trashinfo`", exit 0;
    restore is offered exactly `putEntry`, exits 0 without crash; and the final file system is
    CHARACTERISED ON EVERY PATH: it is `fs`, except that the entry's parent, `files/` and `info/`
    carry the canonical fresh mtime 0.  (So: every node of the entry is back with identical bytes,
    link target, mode and mtime; payload and info file are gone; nothing else changed.) -/
theorem put_restore_identity (c : PutCfg) (fs : FS) (H P : CPath) (n : Name) (W : HomeWorld c fs H)
    (A : GoodArg fs H P n) (st : PutSt) (rc : ReadCfg) (o : RestoreOpts) (reply : Bytes)
    (hlen : n.length + 10 ≤ 255)
    (hinfoEmpty : ∀ x, fs.get (infoC H ++ [x]) = none)
    (hfree : ∀ rel, fs.get (filesC H ++ [n] ++ rel) = none)
    (hnotMount : fs.isMount (filesC H ++ [n]) = false)
    (henv : rc.env = c.env) (hd : o.trashDir = none ∨ o.trashDir = some [])
    (hscope : inScope (scopeDir rc o) (toStr (P ++ [n])) = true)
    (hreply : parseIndexes reply 1 = .ok [0]) :
    let p := run noFaults (runPut c [toStr (P ++ [n])] st) { fs := fs }
    (∀ tv ∈ volumeTrashDirs p.2.fs rc, restoreEntriesOf p.2.fs rc.cwd tv.1 tv.2 = []) →
    let r := run noFaults (runRestore rc o (some reply)) { fs := p.2.fs }
    p.1.outcomes = [(toStr (P ++ [n]), .trashed (homeStr H) (n ++ trashinfoExt))] ∧ p.1.crash = none ∧ p.1.exit = 0 ∧
    restoreEntries p.2.fs rc o = [putEntry c H P n] ∧
    r.1.exit = 0 ∧ r.1.crash = none ∧
    ∀ q, r.2.fs.get q = if q = P ∨ q = filesC H ∨ q = infoC H then touched (fs.get q) else fs.get q :=
  Proofs.C02Cmd.put_restore W A st rc o reply hlen hinfoEmpty hfree hnotMount henv hd hscope hreply

/-- The everyday corollary, hypotheses on the INITIAL world only, conclusion in the words of C02:
    `trash-restore` runs with the put's environment, lists no mount point (a single-volume world of
    the harness), is given "/" or the entry's own directory — or no directory argument, run from a
    directory on the way to the entry, "/" included (`root_cwd_no_argument_offers_everything`; before
    the fix "trash-restore from / offered nothing" the root had to be excluded) — and is answered "0"
    (any uid, sort mode, with or without `--overwrite`).  Then both commands exit 0; every node
    of the entry is back at its path with identical bytes, link target, mode and mtime; payload and
    info file are gone; every path other than the entry's parent, `files/` and `info/` is as in `fs`;
    and these three are the directories they were (same mode), with the canonical fresh mtime. -/
theorem put_restore_identity_everyday (c : PutCfg) (fs : FS) (H P : CPath) (n : Name) (W : HomeWorld c fs H)
    (A : GoodArg fs H P n) (st : PutSt) (rc : ReadCfg) (o : RestoreOpts)
    (hlen : n.length + 10 ≤ 255)
    (hinfoEmpty : ∀ x, fs.get (infoC H ++ [x]) = none)
    (hfree : ∀ rel, fs.get (filesC H ++ [n] ++ rel) = none)
    (hnotMount : fs.isMount (filesC H ++ [n]) = false)
    (henv : rc.env = c.env) (hmp : rc.mountPoints = []) (hd : o.trashDir = none ∨ o.trashDir = some [])
    (hpath : o.path = b "/" ∨ o.path = toStr P ∨ (o.path = [] ∧ C07.GoodNames rc.cwd ∧ rc.cwd <+: P)) :
    let p := run noFaults (runPut c [toStr (P ++ [n])] st) { fs := fs }
    let r := run noFaults (runRestore rc o (some (b "0"))) { fs := p.2.fs }
    p.1.outcomes = [(toStr (P ++ [n]), .trashed (homeStr H) (n ++ trashinfoExt))] ∧ p.1.crash = none ∧ p.1.exit = 0 ∧
    r.1.exit = 0 ∧ r.1.crash = none ∧
    (∀ rel, r.2.fs.get (P ++ [n] ++ rel) = fs.get (P ++ [n] ++ rel)) ∧
    r.2.fs.get (filesC H ++ [n]) = none ∧ r.2.fs.get (infoC H ++ [n ++ trashinfoExt]) = none ∧
    (∀ q, q ≠ P → q ≠ filesC H → q ≠ infoC H → r.2.fs.get q = fs.get q) ∧
    (∀ q, q = P ∨ q = filesC H ∨ q = infoC H → ∃ m t, fs.get q = some (.dir m t) ∧ r.2.fs.get q = some (.dir m 0)) :=
  Proofs.C02Cmd.put_restore_everyday W A st rc o hlen hinfoEmpty hfree hnotMount henv hmp hd hpath

/-! ### non-vacuity, and the composed run evaluated

World of Proofs/C16IndepHome.lean: HOME=/h, `/h/.local/share/Trash/{files,info}` exist and are
empty, `/p/x` and `/p/y` are regular files, one volume, date string "D". -/

section examples
open TrashVerif.Proofs.C16IndepHome.Ex TrashVerif.Proofs.C02CmdEx

/-- Non-vacuity: the hypotheses of `put_restore_identity` hold for `trash-put /p/x` in that world, for
    every sort mode, with or without `--overwrite`; the restored world is `fsH` on EVERY path (the
    touched directories already had mtime 0). -/
example (sort : SortMode) (ov : Bool) (q : CPath) :
    (run noFaults (runRestore (readCfgOf cfgH []) { path := b "/", sort := sort, overwrite := ov } (some (b "0")))
      { fs := (run noFaults (runPut cfgH [toStr ([b "p"] ++ [b "x"])] st0) { fs := fsH }).2.fs }).2.fs.get q = fsH.get q :=
  identityH_exact sort ov q

/-- The composed run evaluated by the kernel through the twins (`runPut = runPutS`, C16Eval;
    `runRestore = runRestoreS`, C02CmdEval), independently of the theorem: after the put `/p/x` is in
    the trash; the scan offers exactly the (undated) entry; restore exits 0; `/p/x`, `/p`, `files/`,
    `info/`, `/p/y` are as in `fsH`; payload and info file are gone. -/
example :
    let fs1 := (run noFaults (runPut cfgH [b "/p/x"] st0) { fs := fsH }).2.fs
    let r := run noFaults (runRestore (readCfgOf cfgH []) { path := b "/" } (some (b "0"))) { fs := fs1 }
    fs1.get [b "p", b "x"] = none ∧ fs1.get (filesC H ++ [b "x"]) = some (.file [120] 0o644 0) ∧
    r.1.exit = 0 ∧ r.2.fs.get [b "p", b "x"] = fsH.get [b "p", b "x"] ∧
    r.2.fs.get (filesC H ++ [b "x"]) = none ∧ r.2.fs.get (infoC H ++ [b "x.trashinfo"]) = none ∧
    r.2.fs.get [b "p"] = fsH.get [b "p"] ∧ r.2.fs.get (filesC H) = fsH.get (filesC H) ∧
    r.2.fs.get (infoC H) = fsH.get (infoC H) ∧ r.2.fs.get [b "p", b "y"] = fsH.get [b "p", b "y"] :=
  evaluatedH_cmd

/-! ### the side conditions are needed (kernel-checked by evaluating the model) -/

/-- `put_restore_identity` WITHOUT `hinfoEmpty` is FALSE.  World `fsPre`: as above plus `/q` and an
    OLDER entry in the home trash (`files/a`, `info/a.trashinfo`: `/q/a`, deleted 2020-01-01); the
    put's clock says 2021-01-01.  Every other hypothesis holds.  `trash-restore` sorts the offer by
    deletion date: index 0 is `/q/a`, index 1 is ours.  Both commands exit 0, `/q/a` is restored,
    `/p/x` is NOT back (payload and info file stay in the trash).  REAL behaviour of trash-cli, not
    a modelling artefact: "index 0" is "the oldest entry in scope", not "the entry just trashed". -/
theorem index0_is_the_older_entry :
    (HomeWorld cfgD fsPre H ∧ GoodArg fsPre H [b "p"] (b "x") ∧ (b "x").length + 10 ≤ 255 ∧
      (∀ rel, fsPre.get (filesC H ++ [b "x"] ++ rel) = none) ∧ fsPre.isMount (filesC H ++ [b "x"]) = false ∧
      rcD.env = cfgD.env ∧ inScope (scopeDir rcD (oRoot .date false)) (toStr ([b "p"] ++ [b "x"])) = true ∧
      parseIndexes (b "0") 1 = .ok [0] ∧
      volumeTrashDirs (run noFaults (runPut cfgD [b "/p/x"] st0) { fs := fsPre }).2.fs rcD = []) ∧
    (let p := run noFaults (runPut cfgD [b "/p/x"] st0) { fs := fsPre }
     let r := run noFaults (runRestore rcD (oRoot .date false) (some (b "0"))) { fs := p.2.fs }
     p.1.exit = 0 ∧ r.1.exit = 0 ∧ r.2.fs.get [b "p", b "x"] = none ∧ fsPre.get [b "p", b "x"] ≠ none) :=
  Proofs.C02CmdEx.index0_full

/-- … the offer, in order, and what the restore did (through the twins): `/q/a` (2020) before `/p/x`
    (2021); `/q/a` is back, the payload and info file of `/p/x` are still in the trash. -/
theorem index0_is_the_older_entry_details :
    (Proofs.C02CmdEval.sortEntriesS .date (Proofs.C02CmdEval.restoreEntriesS fsPre1 rcD (oRoot .date false))).map (·.loc)
      = [b "/q/a", b "/p/x"] ∧
    fsPre2.get [b "q", b "a"] = some (.file [65] 0o644 0) ∧
    fsPre2.get (filesC H ++ [b "x"]) = some (.file [120] 0o644 0) ∧
    (fsPre2.get (infoC H ++ [b "x.trashinfo"])).isSome = true :=
  Proofs.C02CmdEx.index0_details

/-- The date string matters.  Same world `fsPre`, but the put writes the placeholder "D" (not a date):
    the new entry is offered UNDATED, an undated entry ranks as `datetime.min`, so it comes FIRST —
    index 0 is ours although an older entry is present, and `/p/x` is back (while `/q/a` is not). -/
theorem undated_entry_sorts_first :
    (Proofs.C02CmdEval.sortEntriesS .date (Proofs.C02CmdEval.restoreEntriesS fsPre1' rcH (oRoot .date false))).map
        (fun e => (e.loc, e.date.isSome)) = [(b "/p/x", false), (b "/q/a", true)] ∧
    (restoreS rcH (oRoot .date false) (b "0") fsPre1').1.exit = 0 ∧
    fsPre2'.get [b "p", b "x"] = fsPre.get [b "p", b "x"] ∧ fsPre2'.get [b "q", b "a"] = none :=
  Proofs.C02CmdEx.undated_entry_sorts_first

/-- `put_restore_identity` WITHOUT `hscope` is FALSE: with the directory argument `/q` the entry `/p/x`
    is not offered ("No files trashed from current dir"), the run exits 0, nothing is restored. -/
theorem out_of_scope_nothing_restored :
    inScope (scopeDir rcH { path := b "/q" }) (b "/p/x") = false ∧
    (restoreS rcH { path := b "/q" } (b "0") Proofs.C02CmdEx.fs1).1.exit = 0 ∧
    (restoreS rcH { path := b "/q" } (b "0") Proofs.C02CmdEx.fs1).2.fs.get [b "p", b "x"] = none :=
  Proofs.C02CmdEx.out_of_scope_nothing_restored

/-- Formerly `root_cwd_no_argument_offers_nothing`: that counterexample exposed a REAL DEFECT of
    trash-cli, found while looking for the scope hypotheses (restore_arg_parser.py:
    `normpath(join(curdir + sep, path))`; from the working directory "/" WITHOUT a directory argument
    the scope was `normpath("//")` = "//", neither "/" nor a prefix of any location, so
    `cd /; trash-put /tmp/f; trash-restore` offered nothing).  The defect was found by that theorem and
    has been repaired in the code ("fix: trash-restore from / offered nothing":
    `normpath(join(curdir, path))`); the model follows (`restoreScopeDir`).  Same world, positive
    counterpart: from "/" without argument the scope is "/"; the entry `/p/x` IS offered (the sorted
    list of entries in scope is exactly it); answered "0" the run exits 0 without crash; `/p/x` is back
    with its bytes, mode and mtime; payload and info file are gone; and for every sort mode, with or
    without `--overwrite`, the restored world is `fsH` on EVERY path (the put-restore identity, through
    the root case of `put_restore_identity_everyday`).  The same command from `/p` restores it as
    before. -/
theorem root_cwd_no_argument_offers_everything :
    rcH.cwd = [] ∧ scopeDir rcH {} = b "/" ∧ inScope (scopeDir rcH {}) (b "/p/x") = true ∧
    (Proofs.C02CmdEval.sortEntriesS .date
      ((Proofs.C02CmdEval.restoreEntriesS Proofs.C02CmdEx.fs1 rcH {}).filter fun e => inScope (scopeDir rcH {}) e.loc)) =
      [{ loc := b "/p/x", date := none, info := b "/h/.local/share/Trash/info/x.trashinfo" }] ∧
    (restoreS rcH {} (b "0") Proofs.C02CmdEx.fs1).1.exit = 0 ∧
    (restoreS rcH {} (b "0") Proofs.C02CmdEx.fs1).1.crash = none ∧
    (restoreS rcH {} (b "0") Proofs.C02CmdEx.fs1).2.fs.get [b "p", b "x"] = some (.file [120] 0o644 0) ∧
    (restoreS rcH {} (b "0") Proofs.C02CmdEx.fs1).2.fs.get (filesC H ++ [b "x"]) = none ∧
    (restoreS rcH {} (b "0") Proofs.C02CmdEx.fs1).2.fs.get (infoC H ++ [b "x.trashinfo"]) = none ∧
    (∀ (sort : SortMode) (ov : Bool) (q : CPath),
      (restoreS rcH { sort := sort, overwrite := ov } (b "0") Proofs.C02CmdEx.fs1).2.fs.get q = fsH.get q) ∧
    (restoreS { rcH with cwd := [b "p"] } {} (b "0") Proofs.C02CmdEx.fs1).2.fs.get [b "p", b "x"] =
      some (.file [120] 0o644 0) :=
  Proofs.C02CmdEx.root_cwd_no_argument_offers_everything

/-- … the same in terms of the model's own commands and the theorem: the hypotheses of
    `put_restore_identity_everyday` hold for `trash-put /p/x` followed by `cd /; trash-restore` (no
    directory argument), for every sort mode, with or without `--overwrite`; the restored world is
    `fsH` on EVERY path. -/
example (sort : SortMode) (ov : Bool) (q : CPath) :
    (run noFaults (runRestore (readCfgOf cfgH []) { sort := sort, overwrite := ov } (some (b "0")))
      { fs := (run noFaults (runPut cfgH [toStr ([b "p"] ++ [b "x"])] st0) { fs := fsH }).2.fs }).2.fs.get q = fsH.get q :=
  identityH_root_cwd sort ov q

/-- `hlen` is needed for the NAME, not for the identity: a 250-byte name is trashed as
    `<238 bytes>_1.trashinfo` (not `n.trashinfo`), and restore still brings it back under its full
    name, leaving nothing in `files/`. -/
theorem long_name_still_restored :
    (putS cfgH (toStr [b "p", long]) fsLong).1.outcomes =
      [(toStr [b "p", long], .trashed (homeStr H) (List.replicate 238 97 ++ b "_1.trashinfo"))] ∧
    (restoreS rcH (oRoot .date false) (b "0") fsLong1).1.exit = 0 ∧
    fsLong2.get [b "p", long] = fsLong.get [b "p", long] ∧
    fsLong2.get (filesC H ++ [List.replicate 238 97 ++ b "_1"]) = none :=
  Proofs.C02CmdEx.long_name_still_restored

/-- the twins ARE the commands -/
theorem twins (c : PutCfg) (rc : ReadCfg) (o : RestoreOpts) (arg reply : Bytes) (fs : FS) :
    run noFaults (runPut c [arg] st0) { fs := fs } = putS c arg fs ∧
    run noFaults (runRestore rc o (some reply)) { fs := fs } = restoreS rc o reply fs :=
  Proofs.C02CmdEx.twins c rc o arg reply fs

end examples

end TrashVerif.C02Cmd
