/-
  Props/C15SeqDefs.lean — definitions for Props/C15Seq.lean: crash safety of `trash-restore` over ANY number of
  chosen entries.
-/
import TrashVerif.Props.C13OrderDefs
import TrashVerif.Props.C05SeqDefs
namespace TrashVerif.C15Seq
open TrashVerif Prog FS C13Cmd

/-- C15 for ONE chosen entry `it` of the initial state `fs`, in a state `y` a kill can leave behind:
    * `inTrash`: the entry is whole in the trash — every node of its payload subtree `files/<stem>/…` and its info
      file are what they were initially; OR
    * `atDst`: the entry is whole at its destination — what was at `files/<stem>/rel` is at `dst/rel`, for every
      `rel` — and nothing of the payload is left under `files/`. -/
def EntryWhole (fs y : FS) (I F : CPath) (it : Item) : Prop :=
  ((∀ rel, y.get (F ++ [stemOf it.name] ++ rel) = fs.get (F ++ [stemOf it.name] ++ rel)) ∧
    y.get (I ++ [it.name]) = fs.get (I ++ [it.name])) ∨
  ((∀ rel, y.get (it.dst ++ rel) = fs.get (F ++ [stemOf it.name] ++ rel)) ∧
    (∀ rel, y.get (F ++ [stemOf it.name] ++ rel) = none))

/-- what holds of EVERY crash state `y` of a run restoring `items` from the initial state `fs`:
    every chosen entry is whole (`EntryWhole`), and every path outside the footprints of the chosen entries that is
    not `info/`, `files/` or the parent of a destination holds the node it held. -/
structure CrashInvN (fs y : FS) (I F : CPath) (items : List Item) : Prop where
  each : ∀ it ∈ items, EntryWhole fs y I F it
  frame : ∀ q, q ≠ I → q ≠ F → (∀ it ∈ items, ¬ Foot I F it q ∧ q ≠ FS.parent it.dst) → y.get q = fs.get q

end TrashVerif.C15Seq
