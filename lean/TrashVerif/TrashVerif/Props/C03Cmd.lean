/-
  Props/C03Cmd.lean — COMMAND-level theorems for C03: what a WHOLE run of the real `runPut`
  (Model/Put.lean), fault-free, leaves in the info file it writes.

  "Every .trashinfo trash-put writes is conformant ([Trash Info] header, Path= percent-encoded per
   RFC 2396 keeping '/', DeletionDate=YYYY-MM-DDThh:mm:ss local time, final newline), and decodes back
   to the exact original path: absolute in the home trash, relative to $topdir in a volume trash
   directory; the DeletionDate is the time of trashing."

  Props/C03.lean proves this of the FUNCTIONS (`format_trashinfo`, the readers' parsers).  Here the
  statements are about `trash-put <arg>`: in the settings of Props/C07Cmd.lean (trash directory yet to
  be made: home, `$topdir/.Trash-$uid`, `$topdir/.Trash/$uid`, `--trash-dir`) and of an existing home
  trash (`C16Indep.HomeWorld`), the file `info/<name>.trashinfo` of the final state is `InfoWritten`
  (Props/C03CmdDefs.lean) for
    * the ABSOLUTE location `toStr (P ++ [n])` (parent resolved) in the home trash;
    * the location `relLoc P' n` RELATIVE to the top directory `V` of the volume in a volume trash
      directory — and the reader's join `pjoin V rel` is the absolute original location;
    * with `--trash-dir D`: relative to `volume_of(D)` computed on the string `D` AS SPELLED (lexical
      ascent, no `realpath`): `put_custom_info_base`, and the kernel-checked
      `put_custom_info_base_spelling_matters` where the same directory spelled through a link gives
      another base;
  and for the date `d` the run's clock read (`Clock c d`: `c.dateStr = d.fmt`).
  `InfoWritten` = exact bytes + Spec predicate `C03.Holds` + `parsePath` gives back the location +
  `parseDate`/`parseDeletionDate` give back the date.
  Nothing here is `_partial`: no statement of the task turned out false.
-/
import TrashVerif.Props.C03CmdDefs
import TrashVerif.Props.C03
import TrashVerif.Props.C07Cmd
import TrashVerif.Props.C18Cmd
import TrashVerif.Proofs.C03CmdRun
import TrashVerif.Proofs.C03CmdEx
namespace TrashVerif.C03Cmd
open TrashVerif Prog FS PutCore C16Indep C07Cmd
open TrashVerif.C07 (Plain GoodNames)

/-! ### 1. the home trash: the absolute location -/

/-- `put_home_info_conformant`.  The setting of `C07Cmd.home_first_use` (HOME = `H`, the home trash
    `Q ++ x :: R` yet to be made below the existing `Q`, an everyday entry `P/n` of its volume), the clock
    reading `d`: after `trash-put P/n` the file `info/n.trashinfo` of the home trash holds exactly
    `format_trashinfo("P/n", d)`; these bytes satisfy `C03.Holds` for the ABSOLUTE location
    `toStr (P ++ [n])` — the canonical spelling of the entry, parent resolved —; `parsePath` of the text
    gives back exactly that location, `parseDate` / `parseDeletionDate` exactly `d`. -/
theorem put_home_info_conformant (c : PutCfg) (fs : FS) (H Q : CPath) (x : Name) (R P : CPath) (n : Name) (d : Date)
    (C : HomeCfg c H) (hsplit : trashC H = Q ++ x :: R) (S : FreshSite fs Q x R) (A : Arg fs P n)
    (hm : MountsOk fs) (hvol : dev fs P = dev fs Q) (hapart : ¬ (P ++ [n]) <+: Q) (K : Clock c d) (st : PutSt) :
    let r := run noFaults (runPut c [toStr (P ++ [n])] st) { fs := fs }
    r.1.outcomes = [(toStr (P ++ [n]), .trashed (homeStr H) (n ++ trashinfoExt))] ∧ r.1.exit = 0 ∧
    InfoWritten r.2.fs (infoC H ++ [n ++ trashinfoExt]) (toStr (P ++ [n])) d :=
  Proofs.C03CmdRun.home_first_use_info C hsplit S A hm hvol hapart K st

/-- `put_home_info_conformant_existing`.  The home trash already exists (`HomeWorld`, the setting of
    `C16Indep.home_alone` / `C18Cmd.put_link_home_partial`); the entry is trashed under whatever name
    `name` the persist loop settles on (`n.trashinfo`, `n_1.trashinfo`, …, a shortened one): the info
    file `info/<name>` records the absolute location of `P/n` — NOT the name it was given in the trash. -/
theorem put_home_info_conformant_existing (c : PutCfg) (fs : FS) (H P : CPath) (n : Name) (d : Date) (W : HomeWorld c fs H)
    (A : GoodArg fs H P n) (K : Clock c d) (st : PutSt) (name : Bytes)
    (hok : (run noFaults (homeCore c H P n st) { fs := fs }).1.1 = .ok name) :
    let r := run noFaults (runPut c [toStr (P ++ [n])] st) { fs := fs }
    r.1.outcomes = [(toStr (P ++ [n]), .trashed (homeStr H) name)] ∧ r.1.exit = 0 ∧
    InfoWritten r.2.fs (infoC H ++ [name]) (toStr (P ++ [n])) d :=
  Proofs.C03CmdRun.home_existing_info W A K st name hok

/-! ### 2. a volume trash directory: the location relative to the volume's top directory -/

/-- `put_volume_info_relative`.  The setting of `C07Cmd.other_volume_alt` (the entry `V/P'/n` on the
    mount point `V`, no `V/.Trash`, `V/.Trash-$uid` yet to be made): `info/n.trashinfo` of `V/.Trash-$uid`
    is `InfoWritten` for `relLoc P' n` = `P'/n`, a RELATIVE path (it does not begin with '/'), and the
    reader's join with the top directory, `pjoin "V" "P'/n"`, is the absolute original location. -/
theorem put_volume_info_relative (c : PutCfg) (fs : FS) (H Qh Rh V P' : CPath) (n : Name) (d : Date) (C : HomeCfg c H)
    (W : OtherVolume fs H Qh Rh V) (hm : MountsOk fs) (S : FreshSite fs V (altName c.uid) []) (A : Arg fs (V ++ P') n)
    (hon : dev fs (V ++ P') = V) (hu : GoodNames [uidName c.uid]) (hnoTop : fs.get (V ++ [b ".Trash"]) = none)
    (K : Clock c d) (st : PutSt) :
    let r := run noFaults (runPut c [toStr ((V ++ P') ++ [n])] st) { fs := fs }
    r.1.outcomes = [(toStr ((V ++ P') ++ [n]), .trashed (toStr (V ++ [altName c.uid])) (n ++ trashinfoExt))] ∧
    r.1.exit = 0 ∧
    InfoWritten r.2.fs (infoOf (V ++ [altName c.uid]) ++ [n ++ trashinfoExt]) (relLoc P' n) d ∧
    pjoin (toStr V) (relLoc P' n) = toStr ((V ++ P') ++ [n]) ∧ (relLoc P' n).head? ≠ some slash :=
  Proofs.C03CmdRun.volume_alt_info C W hm S A hon hu hnoTop K st

/-- `put_volume_info_relative_top`.  The same in the setting of `C07Cmd.other_volume_top` (`V/.Trash` a
    sticky directory, `V/.Trash/$uid` yet to be made). -/
theorem put_volume_info_relative_top (c : PutCfg) (fs : FS) (H Qh Rh V P' : CPath) (n : Name) (m t : Nat) (d : Date)
    (C : HomeCfg c H) (W : OtherVolume fs H Qh Rh V) (hm : MountsOk fs)
    (S : FreshSite fs (V ++ [b ".Trash"]) (uidName c.uid) []) (A : Arg fs (V ++ P') n)
    (hon : dev fs (V ++ P') = V) (htop : fs.get (V ++ [b ".Trash"]) = some (.dir m t)) (hsticky : m &&& 0o1000 ≠ 0)
    (hnm : fs.isMount (V ++ [b ".Trash"]) = false) (hapart : ¬ ((V ++ P') ++ [n]) <+: V ++ [b ".Trash"])
    (K : Clock c d) (st : PutSt) :
    let r := run noFaults (runPut c [toStr ((V ++ P') ++ [n])] st) { fs := fs }
    r.1.outcomes = [(toStr ((V ++ P') ++ [n]),
      .trashed (toStr (V ++ [b ".Trash"] ++ [uidName c.uid])) (n ++ trashinfoExt))] ∧
    r.1.exit = 0 ∧
    InfoWritten r.2.fs (infoOf (V ++ [b ".Trash"] ++ [uidName c.uid]) ++ [n ++ trashinfoExt]) (relLoc P' n) d ∧
    pjoin (toStr V) (relLoc P' n) = toStr ((V ++ P') ++ [n]) ∧ (relLoc P' n).head? ≠ some slash :=
  Proofs.C03CmdRun.volume_top_info C W hm S A hon htop hsticky hnm hapart K st

/-- the join used above, on its own: for canonical names, `join(V, "P'/n")` is the spelling of `V/P'/n`
    (also for `V` = "/") -/
theorem reader_join (V P' : CPath) (n : Name) (hV : GoodNames V) (hn : GoodNames (P' ++ [n])) :
    pjoin (toStr V) (relLoc P' n) = toStr ((V ++ P') ++ [n]) := (Proofs.C03CmdRun.pjoin_relLoc V P' n hV hn).1

/-! ### 3. `--trash-dir`: relative to the LEXICAL volume of the directory as spelled -/

/-- `put_custom_info_base`.  The setting of `C07Cmd.custom_trash_dir` (`--trash-dir D`, `D = Q ++ x :: R`
    spelled canonically, yet to be made below the existing plain directory `Q` on the volume `V` of the
    entry `V/P'/n`).  The candidate's base for relative paths is `volume_of(D)` computed on the STRING
    `D` (`TrashDirectoriesFinder.possible_trash_directories_for`: `volume = self.fs.volume_of(path)`, a
    lexical ascent over `abspath(D)`; only the volume GATE uses `realpath`).  For a canonical spelling
    without symbolic links that is `V` (4th conjunct), and `info/n.trashinfo` is `InfoWritten` for
    `P'/n`, relative to `V`.  What happens for another spelling of the same directory:
    `put_custom_info_base_spelling_matters`. -/
theorem put_custom_info_base (c : PutCfg) (fs : FS) (Q : CPath) (x : Name) (R V P' : CPath) (n : Name) (d : Date)
    (C : CustomCfg c (Q ++ x :: R)) (S : FreshSite fs Q x R) (hV : dev fs Q = V) (A : Arg fs (V ++ P') n)
    (hon : dev fs (V ++ P') = V) (hm : MountsOk fs) (hapart : ¬ ((V ++ P') ++ [n]) <+: Q) (K : Clock c d) (st : PutSt) :
    let r := run noFaults (runPut c [toStr ((V ++ P') ++ [n])] st) { fs := fs }
    r.1.outcomes = [(toStr ((V ++ P') ++ [n]), .trashed (toStr (Q ++ x :: R)) (n ++ trashinfoExt))] ∧ r.1.exit = 0 ∧
    InfoWritten r.2.fs (infoOf (Q ++ x :: R) ++ [n ++ trashinfoExt]) (relLoc P' n) d ∧
    volumeOf fs c.cwd (toStr (Q ++ x :: R)) = toStr V ∧
    pjoin (toStr V) (relLoc P' n) = toStr ((V ++ P') ++ [n]) ∧ (relLoc P' n).head? ≠ some slash :=
  Proofs.C03CmdRun.custom_info C S hV A hon hm hapart K st

/-- `put_custom_info_base_spelling_matters` (kernel-evaluated; REAL behaviour of /repo's code — REPLAYED
    in the harness sandbox, `harness.sandbox.run_world` with the virtual mount table [/, /v]:
    `trash-put --trash-dir /v/t /v/d/x` writes `Path=d/x`, `trash-put --trash-dir /l/t /v/d/x` writes
    `Path=v/d/x` into the same `/v/t/info/x.trashinfo`, both with the calls mkdir×3, createExcl, write,
    close, rename; cf. trashcli/put/trash_directories_finder.py and trashcli/fstab/volume_of_impl.py).
    World `fsL`: the mount point `/v` with the file
    `/v/d/x`, the symbolic link `/l -> /v` on the root volume.  `--trash-dir /v/t` and `--trash-dir /l/t`
    name the SAME directory `/v/t` (made on demand on the file's volume, the gate lets both through,
    the move is a rename in both runs: no `createTrunc`), but the recorded location differs:
    `Path=d/x` (relative to `/v`) for the first spelling, `Path=v/d/x` for the second — relative to
    `/`, the lexical volume of the string `/l/t`.  A reader that joins `Path` with the volume of the
    directory where it finds the file (`/v`) gets `/v/v/d/x` for the second. -/
theorem put_custom_info_base_spelling_matters :
    (run noFaults (runPut Proofs.C03CmdEx.cfgDirect [b "/v/d/x"] Proofs.C07CmdEx.st0) { fs := Proofs.C03CmdEx.fsL }).1.outcomes =
      [(b "/v/d/x", .trashed (b "/v/t") (b "x.trashinfo"))] ∧
    (run noFaults (runPut Proofs.C03CmdEx.cfgDirect [b "/v/d/x"] Proofs.C07CmdEx.st0) { fs := Proofs.C03CmdEx.fsL }).2.fs.get
        [b "v", b "t", b "info", b "x.trashinfo"] =
      some (.file (b "[Trash Info]\nPath=d/x\nDeletionDate=2024-02-29T23:59:59\n") 0o600 0) ∧
    (run noFaults (runPut Proofs.C03CmdEx.cfgLink [b "/v/d/x"] Proofs.C07CmdEx.st0) { fs := Proofs.C03CmdEx.fsL }).1.outcomes =
      [(b "/v/d/x", .trashed (b "/l/t") (b "x.trashinfo"))] ∧
    (run noFaults (runPut Proofs.C03CmdEx.cfgLink [b "/v/d/x"] Proofs.C07CmdEx.st0) { fs := Proofs.C03CmdEx.fsL }).2.fs.get
        [b "v", b "t", b "info", b "x.trashinfo"] =
      some (.file (b "[Trash Info]\nPath=v/d/x\nDeletionDate=2024-02-29T23:59:59\n") 0o600 0) ∧
    (run noFaults (runPut Proofs.C03CmdEx.cfgLink [b "/v/d/x"] Proofs.C07CmdEx.st0) { fs := Proofs.C03CmdEx.fsL }).2.fs.get
        [b "v", b "t", b "files", b "x"] = some (.file [120] 0o644 7) ∧
    volumeOf Proofs.C03CmdEx.fsL [] (b "/l/t") = b "/" ∧ volumeOf Proofs.C03CmdEx.fsL [] (b "/v/t") = b "/v" ∧
    (run noFaults (runPut Proofs.C03CmdEx.cfgLink [b "/v/d/x"] Proofs.C07CmdEx.st0) { fs := Proofs.C03CmdEx.fsL }).2.trace.all
      (fun cr => cr.1.kind != "createTrunc") = true :=
  Proofs.C03CmdEx.evalCustomSpelling

/-- Non-vacuity of 2 and 3: the world `fsO` of Proofs/C07CmdEx.lean with the clock at 2024-02-29 23:59:59;
    the two theorems at work (the `InfoWritten` they deliver), and the bytes as the kernel evaluates them. -/
example :
    InfoWritten (run noFaults (runPut Proofs.C03CmdEx.cfgD [toStr ((Proofs.C07CmdEx.V ++ [b "d"]) ++ [b "x"])]
        Proofs.C07CmdEx.st0) { fs := Proofs.C07CmdEx.fsO }).2.fs
      (infoOf (Proofs.C07CmdEx.V ++ [altName Proofs.C03CmdEx.cfgD.uid]) ++ [b "x" ++ trashinfoExt]) (relLoc [b "d"] (b "x"))
      Proofs.C03CmdEx.d0 ∧
    (run noFaults (runPut Proofs.C03CmdEx.cfgD [b "/v/d/x"] Proofs.C07CmdEx.st0) { fs := Proofs.C07CmdEx.fsO }).2.fs.get
        (Proofs.C07CmdEx.V ++ [altName 0, b "info", b "x.trashinfo"]) =
      some (.file (b "[Trash Info]\nPath=d/x\nDeletionDate=2024-02-29T23:59:59\n") 0o600 0) ∧
    pjoin (b "/v") (b "d/x") = b "/v/d/x" :=
  ⟨(put_volume_info_relative _ _ _ _ _ _ _ _ _ Proofs.C03CmdEx.homeCfgD Proofs.C07CmdEx.otherO Proofs.C07CmdEx.mountsO
      Proofs.C07CmdEx.altO Proofs.C07CmdEx.argO (by decide +kernel) Proofs.C07CmdEx.uidGood (by decide +kernel)
      Proofs.C03CmdEx.clockD _).2.2.1,
   Proofs.C03CmdEx.evalVolume.1, Proofs.C03CmdEx.evalVolume.2⟩

/-! ### 4. names that need escaping -/

/-- The theorems apply to ANY canonical name (`GoodNames`: non-empty, no '/', not `.`/`..`, at most 255
    bytes — spaces, '%', newlines, bytes that are not UTF-8 are all allowed).  World `fsN`: HOME=/h (no
    trash yet), `/p` holds `a b`, `100%`, `x<newline>y` and the link `<FF FE 41>`; clock at the leap day
    2024-02-29 23:59:59.  `put_home_info_conformant` instantiated on each of the four. -/
example (n : Name) (hn : n ∈ [Proofs.C03CmdEx.nSpace, Proofs.C03CmdEx.nPct, Proofs.C03CmdEx.nNl, Proofs.C03CmdEx.nRaw]) :
    InfoWritten (run noFaults (runPut Proofs.C03CmdEx.cfgD [toStr ([b "p"] ++ [n])] Proofs.C07CmdEx.st0)
        { fs := Proofs.C03CmdEx.fsN }).2.fs
      (infoC Proofs.C07CmdEx.H ++ [n ++ trashinfoExt]) (toStr ([b "p"] ++ [n])) Proofs.C03CmdEx.d0 :=
  (put_home_info_conformant _ _ _ _ _ _ _ _ _ Proofs.C03CmdEx.homeCfgD rfl Proofs.C03CmdEx.siteN (Proofs.C03CmdEx.argN n hn)
    Proofs.C03CmdEx.mountsN (by decide +kernel) (by
      simp only [List.mem_cons, List.not_mem_nil, or_false] at hn
      rcases hn with rfl | rfl | rfl | rfl <;> decide +kernel) Proofs.C03CmdEx.clockD _).2.2

/-- `put_escaped_names_evaluated`.  The same world, the four arguments in ONE run, evaluated by the kernel:
    the bytes of each info file — ` ` ↦ `%20`, `%` ↦ `%25`, newline ↦ `%0A`, the bytes FF FE ↦ `%FF%FE`
    (upper-case hex), '/' kept —, and the link itself under `files/`. -/
theorem put_escaped_names_evaluated :
    let r := run noFaults (runPut Proofs.C03CmdEx.cfgD
      [toStr [b "p", Proofs.C03CmdEx.nSpace], toStr [b "p", Proofs.C03CmdEx.nPct], toStr [b "p", Proofs.C03CmdEx.nNl],
       toStr [b "p", Proofs.C03CmdEx.nRaw]] Proofs.C07CmdEx.st0) { fs := Proofs.C03CmdEx.fsN }
    r.1.exit = 0 ∧
    r.2.fs.get (infoC Proofs.C07CmdEx.H ++ [Proofs.C03CmdEx.nSpace ++ trashinfoExt]) =
      some (.file (b "[Trash Info]\nPath=/p/a%20b\nDeletionDate=2024-02-29T23:59:59\n") 0o600 0) ∧
    r.2.fs.get (infoC Proofs.C07CmdEx.H ++ [Proofs.C03CmdEx.nPct ++ trashinfoExt]) =
      some (.file (b "[Trash Info]\nPath=/p/100%25\nDeletionDate=2024-02-29T23:59:59\n") 0o600 0) ∧
    r.2.fs.get (infoC Proofs.C07CmdEx.H ++ [Proofs.C03CmdEx.nNl ++ trashinfoExt]) =
      some (.file (b "[Trash Info]\nPath=/p/x%0Ay\nDeletionDate=2024-02-29T23:59:59\n") 0o600 0) ∧
    r.2.fs.get (infoC Proofs.C07CmdEx.H ++ [Proofs.C03CmdEx.nRaw ++ trashinfoExt]) =
      some (.file (b "[Trash Info]\nPath=/p/%FF%FEA\nDeletionDate=2024-02-29T23:59:59\n") 0o600 0) ∧
    r.2.fs.get (filesC Proofs.C07CmdEx.H ++ [Proofs.C03CmdEx.nRaw]) = some (.link (b "anywhere")) :=
  Proofs.C03CmdEx.evalNames

/-- … and what the readers make of the four texts: the exact byte strings, the exact date. -/
theorem put_escaped_names_read_back :
    ([Proofs.C03CmdEx.nSpace, Proofs.C03CmdEx.nPct, Proofs.C03CmdEx.nNl, Proofs.C03CmdEx.nRaw].map fun n =>
      (readText (formatTrashinfoWith (toStr [b "p", n]) Proofs.C03CmdEx.d0.fmt)).bind parsePath) =
      [some (b "/p/a b"), some (b "/p/100%"), some [47, 112, 47, 120, 10, 121], some [47, 112, 47, 0xFF, 0xFE, 0x41]] ∧
    (readText (formatTrashinfoWith (toStr [b "p", Proofs.C03CmdEx.nNl]) Proofs.C03CmdEx.d0.fmt)).bind parseDeletionDate =
      some Proofs.C03CmdEx.d0 :=
  Proofs.C03CmdEx.evalNamesRead

/-! ### 5. two arguments in one run -/

/-- `put_then_info_own_location` (corollary of `C18Cmd.put_then`).  `trash-put a1 P/n` where the first
    argument is trashed, and in the state `fs1` it leaves `P/n` is an everyday entry of the volume of the
    (by then existing) home trash whose name is free there.  The second info file records the location of
    ITS entry `P/n` and the clock reading — nothing of `a1` (its volume, its candidate list, its name,
    its location) is carried over — and the run of the second argument changes nothing but the entry
    `P/n`, its slot `files/n`, `info/n.trashinfo` and the mtimes of `P`, `files/`, `info/`: in
    particular the info file written for `a1`, whatever it records, is byte for byte what it was. -/
theorem put_then_info_own_location (c : PutCfg) (a1 : Bytes) (st : PutSt) (fs : FS) (d1 n1 : Bytes) (H P : CPath) (n : Name)
    (d : Date) (h1 : (run noFaults (runPut c [a1] st) { fs := fs }).1.outcomes = [(a1, .trashed d1 n1)])
    (W : HomeWorld c (run noFaults (runPut c [a1] st) { fs := fs }).2.fs H)
    (A : GoodArg (run noFaults (runPut c [a1] st) { fs := fs }).2.fs H P n) (hlen : n.length + 10 ≤ 255)
    (hF : (run noFaults (runPut c [a1] st) { fs := fs }).2.fs.get (filesC H ++ [n]) = none)
    (hfreeI : (run noFaults (runPut c [a1] st) { fs := fs }).2.fs.get (infoC H ++ [n ++ trashinfoExt]) = none)
    (K : Clock c d) :
    let fs1 := (run noFaults (runPut c [a1] st) { fs := fs }).2.fs
    let r := run noFaults (runPut c [a1, toStr (P ++ [n])] st) { fs := fs }
    r.1.outcomes = [(a1, .trashed d1 n1), (toStr (P ++ [n]), .trashed (homeStr H) (n ++ trashinfoExt))] ∧
    r.1.crash = none ∧ r.1.exit = 0 ∧
    InfoWritten r.2.fs (infoC H ++ [n ++ trashinfoExt]) (toStr (P ++ [n])) d ∧
    (∀ p, ¬ (P ++ [n]) <+: p → ¬ (filesC H ++ [n]) <+: p → p ≠ infoC H ++ [n ++ trashinfoExt] → p ≠ P → p ≠ filesC H →
      p ≠ infoC H → r.2.fs.get p = fs1.get p) :=
  Proofs.C03CmdRun.two_infos c a1 st fs d1 n1 h1 W A hlen hF hfreeI K

/-- Non-vacuity, and the corollary at work with `put_home_info_conformant` for the first argument: world
    `fsN`, `trash-put "/p/a b" "/p/100%"` — the first argument makes the home trash, the second finds it.
    BOTH info files of the final state are `InfoWritten`, each for its own entry. -/
example :
    let r := run noFaults (runPut Proofs.C03CmdEx.cfgD
      [toStr ([b "p"] ++ [Proofs.C03CmdEx.nSpace]), toStr ([b "p"] ++ [Proofs.C03CmdEx.nPct])] Proofs.C07CmdEx.st0)
      { fs := Proofs.C03CmdEx.fsN }
    r.1.exit = 0 ∧
    InfoWritten r.2.fs (infoC Proofs.C07CmdEx.H ++ [Proofs.C03CmdEx.nPct ++ trashinfoExt])
      (toStr ([b "p"] ++ [Proofs.C03CmdEx.nPct])) Proofs.C03CmdEx.d0 ∧
    InfoWritten r.2.fs (infoC Proofs.C07CmdEx.H ++ [Proofs.C03CmdEx.nSpace ++ trashinfoExt])
      (toStr ([b "p"] ++ [Proofs.C03CmdEx.nSpace])) Proofs.C03CmdEx.d0 := by
  intro r
  have first := put_home_info_conformant _ _ _ _ _ _ _ _ _ Proofs.C03CmdEx.homeCfgD rfl Proofs.C03CmdEx.siteN
    (Proofs.C03CmdEx.argN Proofs.C03CmdEx.nSpace (by simp)) Proofs.C03CmdEx.mountsN (by decide +kernel) (by decide +kernel)
    Proofs.C03CmdEx.clockD Proofs.C07CmdEx.st0
  have second := put_then_info_own_location Proofs.C03CmdEx.cfgD _ Proofs.C07CmdEx.st0 Proofs.C03CmdEx.fsN _ _
    Proofs.C07CmdEx.H [b "p"] Proofs.C03CmdEx.nPct Proofs.C03CmdEx.d0 first.1
    (by rw [Proofs.C03CmdEx.fsN1_eq]; exact Proofs.C03CmdEx.worldN1)
    (by rw [Proofs.C03CmdEx.fsN1_eq]; exact Proofs.C03CmdEx.argN1) (by decide +kernel)
    (by rw [Proofs.C03CmdEx.fsN1_eq]; exact Proofs.C03CmdEx.freeN1.1)
    (by rw [Proofs.C03CmdEx.fsN1_eq]; exact Proofs.C03CmdEx.freeN1.2) Proofs.C03CmdEx.clockD
  obtain ⟨_, _, s3, s4, s5⟩ := second
  refine ⟨s3, s4, ?_⟩
  have hb := first.2.2
  refine ⟨?_, hb.conformant, hb.path, hb.date, hb.deletionDate⟩
  show r.2.fs.get _ = _
  rw [s5 _ (by decide +kernel) (by decide +kernel) (by decide +kernel) (by decide +kernel) (by decide +kernel)
    (by decide +kernel)]
  exact hb.bytes

end TrashVerif.C03Cmd
