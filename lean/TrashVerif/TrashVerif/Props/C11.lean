/-
  Props/C11.lean — property theorems for C11 (purging touches nothing outside the trash
  directories and follows no symlink).  Under EVERY fault oracle.
-/
import TrashVerif.Model.Cmds
import TrashVerif.Proofs.C11
namespace TrashVerif.C11
open TrashVerif Prog FS

/-- `shutil.rmtree(p)` never changes a path that is not at or below `p` (only the mtime of `p`'s
    parent directory): symlinks inside the tree are unlinked, never followed. -/
theorem rmtree_frame (φ : Oracle) (p : CPath) (s : RunState) :
    ∀ q, ¬ FS.under p q = true → q ≠ FS.parent p → (run φ (rmtree p) s).2.fs.get q = s.fs.get q :=
  Proofs.C11.rmtree_frame φ p s

/-- the same for the three removal routines of trashcli.fs -/
theorem removeFile2_frame (φ : Oracle) (p : CPath) (s : RunState) :
    ∀ q, ¬ FS.under p q = true → q ≠ FS.parent p → (run φ (removeFile2 p) s).2.fs.get q = s.fs.get q :=
  Proofs.C11.removeFile2_frame φ p s

theorem removeIfExists_frame (φ : Oracle) (p : CPath) (s : RunState) :
    ∀ q, ¬ FS.under p q = true → q ≠ FS.parent p → (run φ (removeIfExists p) s).2.fs.get q = s.fs.get q :=
  Proofs.C11.removeIfExists_frame φ p s

theorem removeFile_frame (φ : Oracle) (p : CPath) (s : RunState) :
    ∀ q, ¬ FS.under p q = true → q ≠ FS.parent p → (run φ (removeFile p) s).2.fs.get q = s.fs.get q :=
  Proofs.C11.removeFile_frame φ p s

/-- Purging one entry (payload, then info) changes nothing outside `files/N`, `info/N.trashinfo`
    and the mtimes of `files/` and `info/`. -/
theorem purgePair_frame (φ : Oracle) (payload info : CPath) (s : RunState) :
    ∀ q, ¬ FS.under payload q = true → ¬ FS.under info q = true → q ≠ FS.parent payload → q ≠ FS.parent info →
      (run φ (purgePair (.ok payload) (.ok info)) s).2.fs.get q = s.fs.get q :=
  Proofs.C11.purgePair_frame φ payload info s

/-- A payload that is a symlink is unlinked, whatever it points to. -/
theorem symlink_payload_unlinked (fs : FS) (p : CPath) (t : Bytes) (h : fs.get p = some (.link t)) :
    let r := run noFaults (removeIfExists p) { fs := fs }
    r.1 = .ok () ∧ r.2.fs.get p = none ∧ ∀ q, q ≠ p → q ≠ FS.parent p → r.2.fs.get q = fs.get q :=
  Proofs.C11.symlink_payload_unlinked fs p t h

/-- The payload path derived from an info path lies under `files/` of the same trash directory,
    for every name the readers accept as a trashinfo name. -/
theorem backup_path_under_files (t n : Bytes) (ht : t ≠ [] ∧ t.getLast? ≠ some slash) (hn : n ≠ [] ∧ slash ∉ n) :
    pathOfBackupCopy (pjoin (pjoin t (b "info")) (n ++ trashinfoExt)) = pjoin (pjoin t (b "files")) n :=
  Proofs.C11.backup_path_under_files t n ht hn

/-- … and the accepted names never have the stems "", "." or ".." (which would designate `files/`
    itself, or the trash directory). -/
theorem trashinfo_name_stem (m : Bytes) (h : isTrashinfoName m = true) :
    ∃ n, m = n ++ trashinfoExt ∧ n ≠ [] ∧ n ≠ [dot] ∧ n ≠ dotdot := Proofs.C11.trashinfo_name_stem m h

end TrashVerif.C11
