/-
  Props/C15Seq.lean — C15 for `trash-restore` over ANY number of chosen entries.

  "trash-restore, trash-empty and trash-rm are crash-safe per entry: if the command is killed at any point, every
   entry is either still complete in the trash (payload and .trashinfo) or - for restore - complete at its
   destination …; the .trashinfo is removed only after the payload has been moved …, so a re-run finishes the job."

  Props/C15.lean proves this of ONE entry (`restore_crash_inv`), Props/C15Loop.lean of the purge loops of
  trash-empty / trash-rm.  Here: the loop of `trash-restore` (`restoreMany`; by `C13Order.restore_in_reply_order` the
  run of the command IS that loop over the chosen entries in reply order) and the whole command.

  (1) `restore_crash_states_append` (EVERY fault oracle): the crash states of the loop on `es1 ++ es2` are those of the
      loop on `es1` — without their last one, which is the first of what follows — followed by the crash states of the
      loop on `es2` started in the RUN STATE the first left, when the first did not fail; those of the loop on `es1`
      otherwise.  `restore_crash_states_append_from`: from any run state.  `restore_cmd_crash_states` (every oracle):
      the crash states of the COMMAND answered with an accepted reply are those of its loop.
  (2) `restore_many_crash_inv` (general N; fault-free; the setting `RSetting` of `C13Cmd.restore_selects_exactly`, NO
      hypothesis added): in EVERY crash state of the command, EVERY chosen entry is whole in the trash (every node of
      its payload subtree and its info file as initially) or whole at its destination (every node of the subtree, as
      it was under files/) with nothing left of its payload under files/ (`EntryWhole`); and its info file is gone
      only if the payload is at the destination (info removed last).  `restore_many_frame`: every path outside the
      footprints that is not `info/`, `files/` or a destination's parent holds the node it held, in every crash state.
      By induction over the list with (1), the three states of the entry in flight (`Proofs.C15Seq.core_states`:
      initial, after the `rename`, after the `unlink` of the info file) and the frame for entries done / not started.
  (3) `restore_rerun_completes_partial`: after a kill in a crash state in which NO chosen entry is in flight (for every
      chosen entry: its payload is still under files/ or its info file is gone), the chosen entries whose info file is
      still there form a SUFFIX `post` of the selection, and running the loop of `trash-restore` on `post` from that
      state succeeds and ends in a state that is the INITIAL one with exactly ALL chosen entries restored
      (`RestoredExactly` — the description `restore_selects_exactly` gives of the uninterrupted run: every node
      determined, up to the mtimes of `info/`, `files/` and the destinations' parents).
      `_partial` for two reasons.  (a) It is stated of the loop (`restoreMany`) on the remaining entries, not of a
      second whole command (that would need the scan of the trash directory in the crash state).  (b) The hypothesis
      "no entry in flight" CANNOT be dropped — the full statement ("after a crash at ANY state a second run with the
      indices of the entries still offered restores the rest") is FALSE: in the state between the `rename` of an entry
      and the `unlink` of its info file the entry is still offered (the info file is there) but its payload is at the
      destination; choosing it is refused ("Refusing to overwrite existing file", exit status 1, the later entries
      are not restored), with `--overwrite` the `rename` of the vanished payload fails (exit status 1).  Choosing only
      the other entries restores them; the orphan info file stays.  `rerun_with_entry_in_flight` (kernel-checked).
      REAL behaviour of /repo's code: `Restorer.restore_trashed_file` does `write_fs.move(original_file,
      original_location)` and then `write_fs.remove_file(info_file)`; a kill between the two leaves the .trashinfo
      without payload; the next `trash-restore` lists it (the listing reads info/ only) and `path_exists(original_location)`
      → IOError → "die".  No data is lost (the payload is whole at its destination) — which is what C15 asks.
  (4) `two_entries_crash_states_evaluated`: `/t` holds the directory tree `b` (with `b/x`) and the file `a`, reply `0-1`:
      all 5 crash states, by the kernel; the theorem (2) instantiated on that world.
-/
import TrashVerif.Props.C15
import TrashVerif.Props.C13Order
import TrashVerif.Props.C05Seq
import TrashVerif.Props.C15SeqDefs
import TrashVerif.Proofs.C15Seq
import TrashVerif.Proofs.C15SeqEx
namespace TrashVerif.C15Seq
open TrashVerif PutCore Prog FS C09Hist C13Cmd
open TrashVerif.C05Seq (crashStatesFrom)

/-! ### (1) the composition law -/

/-- `restore_crash_states_append` (every oracle, every two lists of entries). -/
theorem restore_crash_states_append (φ : Oracle) (cwd : CPath) (ov : Bool) (es1 es2 : List Entry) (fs : FS) :
    crashStates φ (restoreMany cwd ov (es1 ++ es2)) fs =
      match (run φ (restoreMany cwd ov es1) { fs := fs }).1 with
      | .ok () => (crashStates φ (restoreMany cwd ov es1) fs).dropLast ++
          crashStatesFrom φ (restoreMany cwd ov es2) (run φ (restoreMany cwd ov es1) { fs := fs }).2
      | .error _ => crashStates φ (restoreMany cwd ov es1) fs :=
  Proofs.C15Seq.crashStates_append φ cwd ov es1 es2 fs

/-- … from any run state `s` (file system, trace of calls, call counter: what the oracle looks at; `crashStatesFrom`
    does not repeat what was recorded before, whence `hist := []`) -/
theorem restore_crash_states_append_from (φ : Oracle) (cwd : CPath) (ov : Bool) (es1 es2 : List Entry) (s : RunState) :
    crashStatesFrom φ (restoreMany cwd ov (es1 ++ es2)) s =
      match (run φ (restoreMany cwd ov es1) { s with hist := [] }).1 with
      | .ok () => (crashStatesFrom φ (restoreMany cwd ov es1) s).dropLast ++
          crashStatesFrom φ (restoreMany cwd ov es2) (run φ (restoreMany cwd ov es1) { s with hist := [] }).2
      | .error _ => crashStatesFrom φ (restoreMany cwd ov es1) s :=
  Proofs.C15Seq.crashStatesFrom_append φ cwd ov es1 es2 s

/-- the fault-free form: the second loop starts in the FILE SYSTEM the first left -/
theorem restore_crash_states_append_noFaults (cwd : CPath) (ov : Bool) (es1 es2 : List Entry) (fs : FS) :
    crashStates noFaults (restoreMany cwd ov (es1 ++ es2)) fs =
      match (run noFaults (restoreMany cwd ov es1) { fs := fs }).1 with
      | .ok () => (crashStates noFaults (restoreMany cwd ov es1) fs).dropLast ++
          crashStates noFaults (restoreMany cwd ov es2) (run noFaults (restoreMany cwd ov es1) { fs := fs }).2.fs
      | .error _ => crashStates noFaults (restoreMany cwd ov es1) fs := by
  rw [restore_crash_states_append]
  cases (run noFaults (restoreMany cwd ov es1) { fs := fs }).1 with
  | error e => rfl
  | ok u => cases u; simp only [C05Seq.crash_states_from_noFaults]

/-- the crash states of the COMMAND answered with an accepted reply are those of its loop over the chosen entries, in
    reply order (the listing issues no call) — every oracle -/
theorem restore_cmd_crash_states (φ : Oracle) (c : ReadCfg) (o : RestoreOpts) (reply : Bytes) (fs : FS) (is : List Nat)
    (hreply : parseIndexes reply (offered fs c o).length = .ok is) :
    crashStates φ (runRestore c o (some reply)) fs =
      crashStates φ (restoreMany c.cwd o.overwrite (selected (offered fs c o) is)) fs :=
  Proofs.C15Seq.cmd_crashStates φ c o reply fs is hreply

/-! ### (2) every crash state, every chosen entry -/

/-- `restore_many_crash_inv` (any number of chosen entries; fault-free; with or without `--overwrite`; every sort mode).
    In the setting of `C13Cmd.restore_selects_exactly` — `idxs` the indices the reply denotes, `sel` the entries
    printed at them in reply order with their resolved layer, `S : RSetting` (every chosen entry locally ok in the
    INITIAL state, the entries pairwise apart, the same-volume case) —, in EVERY state `y` a kill can leave behind
    and for EVERY chosen entry `it`:
    * `EntryWhole`: the entry is whole in the trash (payload subtree under files/ and info file, both as initially)
      or whole at its destination (the subtree as it was under files/) with nothing of the payload left under files/;
    * its info file is gone ONLY IF the payload is whole at the destination and gone from files/ (info removed last). -/
theorem restore_many_crash_inv (fs : FS) (c : ReadCfg) (o : RestoreOpts) (reply : Bytes) (I F : CPath)
    (idxs : List Nat) (sel : List Item)
    (hreply : parseIndexes reply (offered fs c o).length = .ok idxs)
    (hsel : selected (offered fs c o) idxs = sel.map (·.e))
    (S : RSetting fs c.cwd I F sel) :
    ∀ y ∈ crashStates noFaults (runRestore c o (some reply)) fs, ∀ it ∈ sel,
      EntryWhole fs y I F it ∧
      (y.get (I ++ [it.name]) = none →
        (∀ rel, y.get (it.dst ++ rel) = fs.get (F ++ [stemOf it.name] ++ rel)) ∧
        (∀ rel, y.get (F ++ [stemOf it.name] ++ rel) = none)) := by
  intro y hy it hit
  have h := (Proofs.C15Seq.cmd_inv fs c o reply I F idxs sel hreply hsel S y hy).each it hit
  refine ⟨h, fun hnone => ?_⟩
  rcases h with ⟨_, a2⟩ | h
  · obtain ⟨d, m, t, hi⟩ := Proofs.C09Hist.isFileAt_get (S.ok it hit).1
    rw [hnone, hi] at a2; cases a2
  · exact h

/-- the same of the loop, for every list of items in the setting (what the induction proves), with the frame -/
theorem restore_loop_crash_inv (fs : FS) (cwd : CPath) (ov : Bool) (I F : CPath) (items : List Item)
    (S : RSetting fs cwd I F items) :
    ∀ y ∈ crashStates noFaults (restoreMany cwd ov (items.map (·.e))) fs, CrashInvN fs y I F items :=
  Proofs.C15Seq.loop_inv cwd ov I F items fs S

/-- THE FRAME: in every crash state, a path that is in no chosen entry's footprint (info file, payload subtree,
    destination subtree) and is not `info/`, `files/` or the parent of a destination holds the node it held — in
    particular every entry of the trash directory that was not chosen is whole. -/
theorem restore_many_frame (fs : FS) (c : ReadCfg) (o : RestoreOpts) (reply : Bytes) (I F : CPath)
    (idxs : List Nat) (sel : List Item)
    (hreply : parseIndexes reply (offered fs c o).length = .ok idxs)
    (hsel : selected (offered fs c o) idxs = sel.map (·.e))
    (S : RSetting fs c.cwd I F sel) :
    ∀ y ∈ crashStates noFaults (runRestore c o (some reply)) fs, ∀ q, q ≠ I → q ≠ F →
      (∀ it ∈ sel, ¬ Foot I F it q ∧ q ≠ FS.parent it.dst) → y.get q = fs.get q :=
  fun y hy => (Proofs.C15Seq.cmd_inv fs c o reply I F idxs sel hreply hsel S y hy).frame

/-! ### (3) re-running after a kill -/

/- The statement as first written — FALSE (see the header, and `rerun_with_entry_in_flight`):
   theorem restore_rerun_completes … :
     ∀ y ∈ crashStates noFaults (runRestore c o (some reply)) fs,
       ∃ post, post <:+ sel ∧ (∀ it ∈ sel, it ∈ post ↔ (y.get (I ++ [it.name])).isSome = true) ∧
         (run noFaults (restoreMany c.cwd o.overwrite (post.map (·.e))) { fs := y }).1 = .ok () ∧
         RestoredExactly fs (run noFaults (restoreMany c.cwd o.overwrite (post.map (·.e))) { fs := y }).2.fs I F sel -/

/-- `restore_rerun_completes_partial`: with the hypothesis `hclean` — in the crash state `y` no chosen entry is in
    flight: its payload is still under files/, or its info file is gone —, the chosen entries still offered (info file
    there) are a suffix `post` of the selection; the loop of `trash-restore` on them, from `y`, succeeds, and its final
    state is the initial one with exactly ALL chosen entries restored. -/
theorem restore_rerun_completes_partial (fs : FS) (c : ReadCfg) (o : RestoreOpts) (reply : Bytes) (I F : CPath)
    (idxs : List Nat) (sel : List Item)
    (hreply : parseIndexes reply (offered fs c o).length = .ok idxs)
    (hsel : selected (offered fs c o) idxs = sel.map (·.e))
    (S : RSetting fs c.cwd I F sel) :
    ∀ y ∈ crashStates noFaults (runRestore c o (some reply)) fs,
      (∀ it ∈ sel, (y.get (F ++ [stemOf it.name])).isSome = true ∨ y.get (I ++ [it.name]) = none) →
      ∃ post, post <:+ sel ∧ (∀ it ∈ sel, it ∈ post ↔ (y.get (I ++ [it.name])).isSome = true) ∧
        (run noFaults (restoreMany c.cwd o.overwrite (post.map (·.e))) { fs := y }).1 = .ok () ∧
        RestoredExactly fs (run noFaults (restoreMany c.cwd o.overwrite (post.map (·.e))) { fs := y }).2.fs I F sel :=
  Proofs.C15Seq.cmd_rerun fs c o reply I F idxs sel hreply hsel S

/-! ### (4) a two-entry world, every crash state evaluated by the kernel -/

section examples
open Proofs.C15SeqEx Proofs.C13CmdEx.Demo

/-- `two_entries_crash_states_evaluated`.  World `W2`: `/t` holds `b` (2024-01-01, a directory holding `x`, trashed from
    `/home/b`: index 0) and `a` (2024-01-03, a file, from `/home/a`: index 1); `trash-restore / --trash-dir /t`, reply
    `0-1`.  Five crash states; per state, is there something at `files/b`, `files/b/x`, `info/b.trashinfo`, `/home/b`,
    `/home/b/x`, `files/a`, `info/a.trashinfo`, `/home/a` (`summary`): initial; `b` renamed (tree whole at `/home/b`,
    `b.trashinfo` still there); `b.trashinfo` unlinked; `a` renamed; `a.trashinfo` unlinked.  NEVER is an entry in both
    places or in neither, never is the tree split, never is an info file gone before its payload arrived; `whole`
    (the nodes compared with the initial ones) holds of all five.  The calls, latest first. -/
theorem two_entries_crash_states_evaluated :
    let t := true
    let f := false
    parseIndexes (b "0-1") (offered W2 rc op).length = .ok [0, 1] ∧
    (crashStates noFaults (runRestore rc op (some (b "0-1"))) W2).map summary =
      [[t, t, t, f, f, t, t, f],
       [f, f, t, t, t, t, t, f],
       [f, f, f, t, t, t, t, f],
       [f, f, f, t, t, f, t, t],
       [f, f, f, t, t, f, f, t]] ∧
    (crashStates noFaults (runRestore rc op (some (b "0-1"))) W2).all whole = true ∧
    (run noFaults (runRestore rc op (some (b "0-1"))) { fs := W2 }).1.exit = 0 ∧
    (run noFaults (runRestore rc op (some (b "0-1"))) { fs := W2 }).2.trace.map (·.1) =
      [.unlink (I ++ [aN]), .rename (F ++ [b "a"]) [b "home", b "a"],
       .unlink (I ++ [bN]), .rename (F ++ [b "b"]) [b "home", b "b"]] := by
  intro t f
  rw [states_eq, C13Cmd.twin]
  exact ⟨W2_reply.1, eval2⟩

/-- non-vacuity of the hypotheses: theorem (2) at work on `W2`, reply `0-1` -/
theorem two_entries_instance :
    ∀ y ∈ crashStates noFaults (runRestore rc op (some (b "0-1"))) W2, ∀ it ∈ [itB, itA],
      EntryWhole W2 y I F it ∧
      (y.get (I ++ [it.name]) = none →
        (∀ rel, y.get (it.dst ++ rel) = W2.get (F ++ [stemOf it.name] ++ rel)) ∧
        (∀ rel, y.get (F ++ [stemOf it.name] ++ rel) = none)) :=
  restore_many_crash_inv W2 rc op (b "0-1") I F [0, 1] [itB, itA] W2_reply.1 W2_reply.2 W2_setting

/-- `rerun_with_entry_in_flight` (why (3) is `_partial`).  `finB` = the crash state between the two entries, `midB` =
    the crash state with `b` in flight (both are crash states of the run: second conjunct).
    From `finB`: only `a` is offered, reply `0` ends in the final state of the uninterrupted run.
    From `midB`: `b` is STILL offered; reply `0-1` is refused at `b` — exit status 1, no call, nothing changes, `a` is not
    restored; reply `1` restores `a`, the orphan `b.trashinfo` stays, `/home/b/x` is what `files/b/x` was; with
    `--overwrite`, reply `0`: exit status 1 (the `rename` of the vanished payload fails), `/home/b/x` survives.
    REAL behaviour of trash-cli. -/
theorem rerun_with_entry_in_flight :
    crashStates noFaults (runRestore rc op (some (b "0-1"))) W2 = states ∧
    (states[1]? = some midB ∧ states[2]? = some finB) ∧
    (offered finB rc op).map (·.loc) = [b "/home/a"] ∧
    (run noFaults (runRestore rc op (some (b "0"))) { fs := finB }).1.exit = 0 ∧
    (run noFaults (runRestore rc op (some (b "0"))) { fs := finB }).2.fs.toList =
      (run noFaults (runRestore rc op (some (b "0-1"))) { fs := W2 }).2.fs.toList ∧
    (offered midB rc op).map (·.loc) = [b "/home/b", b "/home/a"] ∧
    (run noFaults (runRestore rc op (some (b "0-1"))) { fs := midB }).1.exit = 1 ∧
    (run noFaults (runRestore rc op (some (b "0-1"))) { fs := midB }).2.trace.length = 0 ∧
    (run noFaults (runRestore rc op (some (b "0-1"))) { fs := midB }).2.fs.toList = midB.toList ∧
    (run noFaults (runRestore rc op (some (b "1"))) { fs := midB }).1.exit = 0 ∧
    ((run noFaults (runRestore rc op (some (b "1"))) { fs := midB }).2.fs.get [b "home", b "a"]).isSome = true ∧
    (run noFaults (runRestore rc op (some (b "1"))) { fs := midB }).2.fs.get (I ++ [bN]) = W2.get (I ++ [bN]) ∧
    (run noFaults (runRestore rc op (some (b "1"))) { fs := midB }).2.fs.get [b "home", b "b", b "x"] =
      W2.get (F ++ [b "b", b "x"]) ∧
    (run noFaults (runRestore rc { op with overwrite := true } (some (b "0"))) { fs := midB }).1.exit = 1 ∧
    (run noFaults (runRestore rc { op with overwrite := true } (some (b "0"))) { fs := midB }).2.fs.get
      [b "home", b "b", b "x"] = W2.get (F ++ [b "b", b "x"]) := by
  refine ⟨states_eq, states_idx, ?_⟩
  rw [offeredS_eq, offeredS_eq]
  simp only [C13Cmd.twin]
  exact rerun_eval

end examples

section audit
#print axioms restore_crash_states_append
#print axioms restore_crash_states_append_from
#print axioms restore_crash_states_append_noFaults
#print axioms restore_cmd_crash_states
#print axioms restore_many_crash_inv
#print axioms restore_loop_crash_inv
#print axioms restore_many_frame
#print axioms restore_rerun_completes_partial
#print axioms two_entries_crash_states_evaluated
#print axioms two_entries_instance
#print axioms rerun_with_entry_in_flight
end audit

end TrashVerif.C15Seq
