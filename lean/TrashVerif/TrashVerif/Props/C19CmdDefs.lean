/-
  Props/C19CmdDefs.lean — vocabulary of the COMMAND-level statements of C19 and C20
  (Props/C19Cmd.lean): what "well-formed" means for each command, what trash-list prints on stdout,
  and "the same run up to what was printed".
-/
import TrashVerif.Props.C10LoopDefs
import TrashVerif.Props.C13CmdDefs
import TrashVerif.Props.C08CmdDefs
import TrashVerif.Props.ReadDefs
namespace TrashVerif.C19Cmd
open TrashVerif Prog FS

/-- an output event on stdout -/
def isStdout : Out → Bool
  | .stdout _ => true
  | .stderr _ _ => false

/-- Well-formed for the commands that go by the original location (trash-list, trash-restore,
    trash-rm): the info file can be read and has a `Path=` line.  (Every byte string can be read: the
    readers decode with `surrogateescape`; "unreadable" = not a regular file, dangling link, …) -/
def wellFormed (fs : FS) (cwd : CPath) (i : Bytes) : Bool := ((contentsOf fs cwd i).bind parsePath).isSome

/-- the line trash-list prints for one info file; `none`: a diagnostic on stderr instead -/
def lineOf (fs : FS) (cwd : CPath) (v i : Bytes) : Option Bytes :=
  (contentsOf fs cwd i).bind fun text => (parsePath text).map fun rel => maybeDateStr text ++ [32] ++ pjoin v rel

/-- the info paths the scan of the trash directory `t` yields (nothing when `info/` cannot be listed) -/
def infosList (fs : FS) (cwd : CPath) (t : Bytes) : List Bytes :=
  match infosOf fs cwd t with
  | .ok l => l
  | .error _ => []

/-- the stdout lines of trash-list for the trash directories `dirs` (with their volumes): for each
    directory in scan order, for each `*.trashinfo` name in directory order that is readable and has a
    `Path=` line, its line -/
def listLines (fs : FS) (cwd : CPath) (dirs : List (Bytes × Bytes)) : List Bytes :=
  dirs.flatMap fun tv => (infosList fs cwd tv.1).filterMap (lineOf fs cwd tv.2)

/-- the diagnostic trash-list prints about an info file it cannot show: "io-error" when the file
    cannot be read, "parse-error" when it has no `Path=` line -/
def diagOf (fs : FS) (cwd : CPath) (i : Bytes) : Out :=
  match contentsOf fs cwd i with
  | none => .stderr "io-error" i
  | some _ => .stderr "parse-error" i

/-- the stderr events of trash-list: one per skipped directory, one per info file that is not
    well-formed, in scan / directory order -/
def listDiags (fs : FS) (cwd : CPath) : List ScanEvent → List Out
  | [] => []
  | .skippedNotSticky p :: rest => .stderr "skipped-not-sticky" p :: listDiags fs cwd rest
  | .skippedSymlink p :: rest => .stderr "skipped-symlink" p :: listDiags fs cwd rest
  | .found p _ :: rest =>
    ((infosList fs cwd p).filter fun i => !wellFormed fs cwd i).map (diagOf fs cwd) ++ listDiags fs cwd rest

/-- the entry `n` of the trash directory `(I, F)` is gone whole in `fs'`: its info file, and
    everything at or below its payload -/
def EntryGone (fs' : FS) (I F : CPath) (n : Bytes) : Prop :=
  (∀ rel, fs'.get (I ++ [n] ++ rel) = none) ∧ (∀ rel, fs'.get (F ++ [stemOf n] ++ rel) = none)

/-- the entry `n` is in `fs'` exactly what it is in `fs`: its info file, and everything at or below
    its payload -/
def EntryIntact (fs fs' : FS) (I F : CPath) (n : Bytes) : Prop :=
  (∀ rel, fs'.get (I ++ [n] ++ rel) = fs.get (I ++ [n] ++ rel)) ∧
  (∀ rel, fs'.get (F ++ [stemOf n] ++ rel) = fs.get (F ++ [stemOf n] ++ rel))

/-- two runs that differ at most in what they printed: same result, same final file system, same
    calls with the same outcomes, same intermediate states -/
def SameButOuts {α} (r r' : α × RunState) : Prop :=
  r.1 = r'.1 ∧ r.2.fs = r'.2.fs ∧ r.2.trace = r'.2.trace ∧ r.2.hist = r'.2.hist ∧ r.2.n = r'.2.n

/-- the names of `info/` (canonical path `I`) that trash-restore turns into an entry for the volume `v` -/
def restoreGood (fs : FS) (cwd : CPath) (t v : Bytes) (ns : List Bytes) : List Bytes :=
  ns.filter fun n => (ReadDefs.restoreItem fs cwd (pjoin t (b "info")) v n).isSome

/-! ### C20 -/

/-- the deletion date as trash-list renders it (trash-restore renders the same `Option Date` with
    `dateStrOpt`: the same string for a date, `None` instead of the question marks otherwise) -/
def listDate (text : Bytes) : Bytes :=
  match parseDeletionDate text with
  | some d => d.str
  | none => unknownDate

/-- the entry trash-restore builds for the name `n` of `info/` of the trash directory `t` scanned with
    the volume `v`, when the text of the info file is `text` and its `Path=` line yields `rel` -/
def scannedEntry (t v n text rel : Bytes) : Entry :=
  { loc := pjoin v rel, date := parseDeletionDate text, info := C10Loop.infoStr t n }

end TrashVerif.C19Cmd
