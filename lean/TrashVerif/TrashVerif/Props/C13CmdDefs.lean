/-
  Props/C13CmdDefs.lean — definitions for the COMMAND-level statements of C13 (Props/C13Cmd.lean):
  what `runRestore` does to the file system for a given reply.

  One trash directory with canonical `info/` = `I` and `files/` = `F`.  An `Item` is an offered entry
  `e` (as `restoreEntries` built it: location string, date, info path string) together with the
  resolved layer: `name` = the name of its info file in `I`, `dst` = the canonical path its location
  string denotes.  `Foot I F it` is the FOOTPRINT of restoring `it`: its info file, everything at or
  below its payload `F/stem`, everything at or below its destination.
-/
import TrashVerif.Props.C10LoopDefs
import TrashVerif.Props.C02CmdDefs
namespace TrashVerif.C13Cmd
open TrashVerif PutCore Prog FS C09Hist

/-- the directory whose entries are offered (`RestoreArgParser`) -/
def scopeOf (c : ReadCfg) (o : RestoreOpts) : Bytes := restoreScopeDir (toStr c.cwd) o.path

/-- what `trash-restore` lists, in the order in which it numbers it from 0: the entries of the scan
    whose location is in scope, sorted as `--sort` requests (the expression `runRestore` evaluates) -/
def offered (fs : FS) (c : ReadCfg) (o : RestoreOpts) : List Entry :=
  sortEntries o.sort ((restoreEntries fs c o).filter fun e => inScope (scopeOf c o) e.loc)

/-- the entries printed at the indices `idxs`, in reply order, with repetitions -/
def selected (es : List Entry) (idxs : List Nat) : List Entry := idxs.filterMap fun i => es[i]?

/-- the listing `trash-restore` prints: one numbered line per offered entry -/
def listing (es : List Entry) : List Out :=
  (List.range es.length).filterMap fun i => (es[i]?).map fun e => Out.stdout (restoreLine i e)

/-- an offered entry with its resolved layer -/
structure Item where
  e : Entry
  name : Bytes
  dst : CPath
deriving DecidableEq, Repr

/-- the footprint of restoring `it`: its info file, its payload (whole), its destination (whole) -/
def Foot (I F : CPath) (it : Item) (q : CPath) : Prop :=
  q = I ++ [it.name] ∨ (F ++ [stemOf it.name]) <+: q ∨ it.dst <+: q

/-- two selected entries do not get in each other's way: different info files, and neither
    destination is the other or lies below it -/
def Apart (a b : Item) : Prop := a.name ≠ b.name ∧ ¬ a.dst <+: b.dst ∧ ¬ b.dst <+: a.dst

instance (a b : Item) : Decidable (Apart a b) := by unfold Apart; infer_instance

instance (I F : CPath) (it : Item) (q : CPath) : Decidable (Foot I F it q) := by unfold Foot; infer_instance

/-- `touchDir`'s effect on a node (`C02Cmd.touched`): a directory gets the canonical fresh mtime 0.
    So `fresh o = fresh o'` says: the same node, except that a directory may differ in its mtime. -/
abbrev fresh : Option Node → Option Node := C02Cmd.touched

/-- `fs'` differs from `fs` only on the footprints of `items` (and in the mtimes of directories):
    every state a run restoring some of `items` can be in -/
structure Reach (I F : CPath) (items : List Item) (fs fs' : FS) : Prop where
  mounts : fs'.mounts = fs.mounts
  same : ∀ q, q ≠ I → q ≠ F → (∀ it ∈ items, ¬ Foot I F it q ∧ q ≠ FS.parent it.dst) → fs'.get q = fs.get q
  upToMtime : ∀ q, (∀ it ∈ items, ¬ Foot I F it q) → fresh (fs'.get q) = fresh (fs.get q)

/-- The setting of a run of `trash-restore` restoring `items` (the selected entries, in reply order)
    from one trash directory.
    * `inv`: `info/` and `files/` are directories, neither inside the other.
    * `isInfo`: the info names are `*.trashinfo` names (what the scan lists).
    * `ok`: for every item the local conditions of `C09Hist.Op.ok (.restore …)` hold in the INITIAL
      state: the info file is a regular file, the payload exists and is not a mount point, the
      destination is free, not `/`, outside the trash directory, its name is short enough, and its
      parent is an existing directory on the device of `files/` (the same-volume case).
    * `apart`: the items are pairwise `Apart` (in particular no item occurs twice).
    * `resolves` (the resolved layer): in every state the run can reach, the four strings
      `Restorer.restore_trashed_file` hands to the kernel — location, its `dirname` (followed),
      info path, and the payload path `path_of_backup_copy` derives from it — resolve to `dst`,
      its parent, `I/name` and `F/stem`.  `plain_rsetting` discharges it for canonical spellings. -/
structure RSetting (fs : FS) (cwd : CPath) (I F : CPath) (items : List Item) : Prop where
  inv : TrashInv fs I F
  isInfo : ∀ it ∈ items, isTrashinfoName it.name = true
  ok : ∀ it ∈ items, Op.ok fs I F (.restore it.name it.dst)
  apart : items.Pairwise Apart
  resolves : ∀ fs', Reach I F items fs fs' → ∀ it ∈ items,
    FS.resolve fs' cwd it.e.loc = .ok it.dst ∧
    FS.resolve fs' cwd (dirname it.e.loc) true = .ok (FS.parent it.dst) ∧
    FS.resolve fs' cwd it.e.info = .ok (I ++ [it.name]) ∧
    FS.resolve fs' cwd (pathOfBackupCopy it.e.info) = .ok (F ++ [stemOf it.name])

/-- "`fs'` is `fs` with exactly the entries `D` restored":
    every entry of `D` is back whole at its destination — what was at `files/stem/rel` is at
    `dst/rel`, for every `rel`; its info file and everything at or below its payload are gone;
    every path that is not in a footprint and is not `info/`, `files/` or the parent of a
    destination is exactly as before; every path outside the footprints (these directories
    included) is as before up to a directory's mtime; the mount table is the same; and when `D`
    is empty nothing at all happened. -/
structure RestoredExactly (fs fs' : FS) (I F : CPath) (D : List Item) : Prop where
  back : ∀ it ∈ D, ∀ rel, fs'.get (it.dst ++ rel) = fs.get (F ++ [stemOf it.name] ++ rel)
  infoGone : ∀ it ∈ D, fs'.get (I ++ [it.name]) = none
  payloadGone : ∀ it ∈ D, ∀ rel, fs'.get (F ++ [stemOf it.name] ++ rel) = none
  frame : ∀ q, q ≠ I → q ≠ F → (∀ it ∈ D, ¬ Foot I F it q ∧ q ≠ FS.parent it.dst) → fs'.get q = fs.get q
  upToMtime : ∀ q, (∀ it ∈ D, ¬ Foot I F it q) → fresh (fs'.get q) = fresh (fs.get q)
  mounts : fs'.mounts = fs.mounts
  nothing : D = [] → fs' = fs

end TrashVerif.C13Cmd
