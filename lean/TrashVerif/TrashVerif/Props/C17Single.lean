/-
  Props/C17Single.lean — C17, the SINGLE-FAULT theorem: whatever error the file system returns to
  any ONE operation of the put core (`Janitor.trash_file_in` after its checks: name search with
  `atomic_write`, `shutil.move`, clean-up), at whatever position, with whatever errno — EEXIST and
  ENAMETOOLONG, the two errnos the name search reacts to, included — the run ends, and it ends
  honestly: the entry is wholly trashed (possibly under a later name, possibly by the copy
  fallback of `shutil.move`), or the failure is reported and nothing at all is left behind.
  Definitions: Props/C17SingleDefs.lean.  The statement is SHARP: two faults break it
  (`double_fault_strays_info`, `double_fault_strands_payload`), and so does one fault when the
  kernel itself refuses the rename (`device_refused_rename_one_fault`).

  How one fault is absorbed (the proof follows the position of the faulted call):
   * `createExcl` faulted: nothing was created.  EEXIST: next suffix.  ENAMETOOLONG: once more with
     the truncated base, then give up.  Anything else: give up at once.  Nothing changed.
   * `write` or `close` faulted: `atomic_write` unlinks the file again — that unlink is a LATER
     call, so it is not faulted — and re-raises: as before, with `info/` touched only in its mtime.
   * the clean-up `unlink` of `atomic_write` faulted: it is not issued (it needs a failed write or
     close, and the file system refuses neither: the file was just created).
   * `rename` faulted: `shutil.move` falls back to copy + delete, which then runs undisturbed and
     succeeds (`Copyable`: the well-formedness `C05Copy.move_copy_succeeds` needs): the entry ends
     under `files/`, copied node for node (data, kinds, link targets, modes, mtimes).
   * the clean-up `remove_file(info)` of `trash_file_in`: not reached (it needs a failed move).
-/
import TrashVerif.Props.C17SingleDefs
import TrashVerif.Props.C05Copy
import TrashVerif.Proofs.C17Single
namespace TrashVerif.C17Single
open TrashVerif PutCore Prog SingleFault

/-! ### single-fault oracles -/

/-- A single-fault oracle never answers with an errno, or there is ONE global call index outside
    of which it never does. -/
theorem atMostOneFault_cases (φ : Oracle) (h : AtMostOneFault φ) :
    (∀ n k c, φ n k c = none) ∨ ∃ i, FaultOnlyAt φ i := Proofs.C17Single.atMostOne_cases h

theorem atMostOneFault_of_faultOnlyAt (φ : Oracle) (i : Nat) (h : FaultOnlyAt φ i) : AtMostOneFault φ :=
  Proofs.C17Single.atMostOne_of_only h

/-- the oracles of a fault sweep ("the i-th call fails with e") and the fault-free oracle qualify -/
theorem atMostOneFault_faultAt (i : Nat) (e : Errno) : AtMostOneFault (faultAt i e) :=
  Proofs.C17Single.atMostOne_faultAt i e
theorem atMostOneFault_noFaults : AtMostOneFault noFaults := Proofs.C17Single.atMostOne_noFaults

/-- two different faulted indices do not -/
theorem not_atMostOneFault_faultAt2 (i j : Nat) (e e' : Errno) (h : i ≠ j) : ¬ AtMostOneFault (faultAt2 i e j e') :=
  Proofs.C17Single.not_atMostOne_faultAt2 e e' h

/-! ### the theorem -/

/-- THE SINGLE-FAULT THEOREM.  In the setting of one `trash_file_in` on ONE device (`Setting`: the
    kernel accepts the rename, it can fail only when faulted), with the entry a well-formed tree
    (`Copyable`), under ANY oracle that faults at most one call — any call, any errno:
      * `.ok name`: `Trashed` — the whole entry, node for node, is under `files/<stem of name>`, the
        complete info file is `info/<name>`, the entry is gone from its place, both names were free
        before, nothing else changed but directory mtimes; and `name` is
        `trashinfoBasename base (suffix of some index) tooLong` (`NameShape`: a later suffix after a
        faulted or real EEXIST, the truncated base after ENAMETOOLONG);
      * `.error r`: `r = persistError e` (the name search failed; never a failed move, never the
        uncaught clean-up error), `Untouched` (every path as before, `info/` keeps kind and mode)
        and no stray info file. -/
theorem put_single_fault_conserves (φ : Oracle) (fs : FS) (infoC filesC src : CPath) (base content : Bytes)
    (st : PutSt) (h : Setting fs infoC filesC src) (hc : Copyable fs filesC src) (h1 : AtMostOneFault φ) :
    let res := run φ (putCore infoC filesC base content (fun _ => .ok src) st) { fs := fs }
    (∀ name, res.1.1 = .ok name →
      Trashed fs res.2.fs infoC filesC src name content ∧ NameShape base name) ∧
    (∀ r, res.1.1 = .error r →
      (∃ e, r = .persistError e) ∧ Untouched fs res.2.fs infoC ∧
      ∀ n, res.2.fs.get (infoC ++ [n]) = fs.get (infoC ++ [n])) :=
  Proofs.C17Single.put_single_fault_conserves φ fs infoC filesC src base content st h hc h1

/-- WHICH name.  When the errno of the one fault is not one the name search reacts to (neither
    EEXIST nor ENAMETOOLONG), a success is a success under the FAULT-FREE name: the fault hit the
    name search and the put failed, or it hit the rename and the copy fallback trashed the entry
    under the name already chosen.  With a curable errno the name is a later candidate (a faulted
    `createExcl`/`write`/`close` answering EEXIST makes the loop try the next suffix, ENAMETOOLONG the
    truncated base: `NameShape`; see the examples below: "f_1", "_1"). -/
theorem incurable_fault_keeps_name (φ : Oracle) (fs : FS) (infoC filesC src : CPath) (base content : Bytes)
    (st : PutSt) (h : Setting fs infoC filesC src) (hc : Copyable fs filesC src) (h1 : AtMostOneFault φ)
    (hinc : Incurable φ) (name : Bytes)
    (hn : (run φ (putCore infoC filesC base content (fun _ => .ok src) st) { fs := fs }).1.1 = .ok name) :
    (run noFaults (putCore infoC filesC base content (fun _ => .ok src) st) { fs := fs }).1.1 = .ok name :=
  Proofs.C17Single.incurable_keeps_name φ fs infoC filesC src base content st h hc h1 hinc name hn

/-! ### the same, by the position of the fault -/

/-- The oracle faults no rename (the one fault, if any, hits the name search): `Copyable` is not
    needed, and the run is at most `4 · persistFuel + 1` calls long.  This is
    `C17.put_faulty_conserves_partial` with "no unlink is ever faulted" replaced by "at most one
    fault" — the clean-up unlink may be the faulted call, it is then simply not issued. -/
theorem fault_not_on_rename (φ : Oracle) (fs : FS) (infoC filesC src : CPath) (base content : Bytes)
    (st : PutSt) (h : Setting fs infoC filesC src) (h1 : AtMostOneFault φ)
    (hren : ∀ n k a c, φ n k (.rename a c) = none) :
    Honest fs infoC filesC src base content
      (run φ (putCore infoC filesC base content (fun _ => .ok src) st) { fs := fs }) ∧
    (run φ (putCore infoC filesC base content (fun _ => .ok src) st) { fs := fs }).2.n ≤ 4 * persistFuel + 1 :=
  Proofs.C17Single.fault_not_on_rename φ fs infoC filesC src base content st h h1 hren

/-- Position A — the faulted index `i` lies INSIDE the name search (it is smaller than the number
    of calls the fault-free name search issues): the rename, a later call, is not faulted and
    succeeds.  No `Copyable`. -/
theorem fault_inside_search (φ : Oracle) (fs : FS) (infoC filesC src : CPath) (base content : Bytes)
    (st : PutSt) (i : Nat) (h : Setting fs infoC filesC src) (hi : FaultOnlyAt φ i)
    (hlt : i < (run noFaults (persistLoop infoC filesC base content persistFuel 0 false st) { fs := fs }).2.n) :
    Honest fs infoC filesC src base content
      (run φ (putCore infoC filesC base content (fun _ => .ok src) st) { fs := fs }) ∧
    (run φ (putCore infoC filesC base content (fun _ => .ok src) st) { fs := fs }).2.n ≤ 4 * persistFuel + 1 :=
  Proofs.C17Single.fault_inside_search φ fs infoC filesC src base content st i h hi hlt

/-- Position B — the faulted index is the RENAME's (or a later one): the name search runs exactly
    as without faults, so the name reported is the fault-free one; a faulted rename sends
    `shutil.move` into its copy fallback, which runs undisturbed and succeeds. -/
theorem fault_on_rename (φ : Oracle) (fs : FS) (infoC filesC src : CPath) (base content : Bytes)
    (st : PutSt) (i : Nat) (h : Setting fs infoC filesC src) (hc : Copyable fs filesC src) (hi : FaultOnlyAt φ i)
    (hle : (run noFaults (persistLoop infoC filesC base content persistFuel 0 false st) { fs := fs }).2.n ≤ i) :
    Honest fs infoC filesC src base content
      (run φ (putCore infoC filesC base content (fun _ => .ok src) st) { fs := fs }) ∧
    (∀ name,
      (run noFaults (persistLoop infoC filesC base content persistFuel 0 false st) { fs := fs }).1.1 = .created name →
      (run φ (putCore infoC filesC base content (fun _ => .ok src) st) { fs := fs }).1.1 = .ok name) :=
  Proofs.C17Single.fault_on_rename φ fs infoC filesC src base content st i h hc hi hle

/-- Position C — the faulted index is beyond the end of the fault-free run (in the `Setting`: beyond
    the rename; the copy fallback and both clean-ups are unreachable): the run IS the fault-free
    run, result, final state, trace and all. -/
theorem fault_beyond_run (φ : Oracle) (fs : FS) (infoC filesC src : CPath) (base content : Bytes)
    (st : PutSt) (i : Nat) (hi : FaultOnlyAt φ i)
    (hle : (run noFaults (putCore infoC filesC base content (fun _ => .ok src) st) { fs := fs }).2.n ≤ i) :
    run φ (putCore infoC filesC base content (fun _ => .ok src) st) { fs := fs } =
      run noFaults (putCore infoC filesC base content (fun _ => .ok src) st) { fs := fs } :=
  Proofs.C17Single.fault_beyond_run φ fs infoC filesC src base content st i hi hle

/-! ### termination -/

/-- Under EVERY oracle — any number of faults — a run issues at most `maxCalls` calls: a number
    fixed by the program and the initial state (the longest path through all answers the file
    system and an oracle can give).  `run` is total by construction; this is the uniform bound. -/
theorem run_bounded_uniformly {α} (φ : Oracle) (p : Prog α) (s : RunState) :
    (run φ p s).2.n ≤ s.n + maxCalls p s.fs := Proofs.C17Single.run_calls_le φ p s

/-- the put core terminates within a bound that does not depend on the oracle -/
theorem put_single_fault_terminates (fs : FS) (infoC filesC src : CPath) (base content : Bytes) (st : PutSt) :
    ∃ B, ∀ φ : Oracle, (run φ (putCore infoC filesC base content (fun _ => .ok src) st) { fs := fs }).2.n ≤ B :=
  Proofs.C17Single.put_terminates_uniformly fs infoC filesC src base content st

/-- The explicit bound, single fault: an entry that is NOT a directory (a regular file, a symbolic
    link) takes at most `4 · persistFuel` calls for the name search (`C17.persist_bounded`) and six
    for the move, copy fallback included (rename; createTrunc, write, utime, chmod; unlink).
    `_partial`: for a DIRECTORY entry whose rename is the faulted call no closed formula in the size
    of the tree is proved (`copytree`/`rmtree` issue a handful of calls per node); the bound is
    then the uniform `maxCalls` above, or `4 · persistFuel + 1` when the rename is not faulted
    (`fault_not_on_rename`, `fault_inside_search`). -/
theorem put_single_fault_calls_partial (φ : Oracle) (fs : FS) (infoC filesC src : CPath) (base content : Bytes)
    (st : PutSt) (h : Setting fs infoC filesC src) (hc : Copyable fs filesC src) (h1 : AtMostOneFault φ)
    (hnd : fs.isDirAt src = false) :
    (run φ (putCore infoC filesC base content (fun _ => .ok src) st) { fs := fs }).2.n ≤ 4 * persistFuel + 6 :=
  Proofs.C17Single.calls_nondir φ fs infoC filesC src base content st h hc h1 hnd

/-- `shutil.move` of a non-directory onto a free name: at most six calls under every oracle -/
theorem move_calls_nondir (φ : Oracle) (src dst : CPath) (s : RunState) (hdst : s.fs.get dst = none)
    (hnd : s.fs.isDirAt src = false) : (run φ (move src dst) s).2.n ≤ s.n + 6 :=
  Proofs.C17Single.move_calls_nondir φ src dst s hdst hnd

/-! ### the boundary: where "at most one fault" and "one device" are sharp -/
section boundary
open SingleFault.Example

/-- TWO faults, inside `atomic_write`: the `write` (EIO) and the clean-up `unlink` (EACCES).  The
    failure is reported (`persistError EIO`) but the EMPTY `info/f.trashinfo` stays behind: a stray
    info file.  Found by the fault sweep on the real code (known finding: clean-up unlink double
    fault); real behaviour of `trashcli.fs.atomic_write`, whose clean-up ignores the unlink's error. -/
theorem double_fault_strays_info :
    ¬ AtMostOneFault (faultAt2 1 .EIO 3 .EACCES) ∧
    (runW (faultAt2 1 .EIO 3 .EACCES)).1.1 = .error (.persistError .EIO) ∧
    W.get (I ++ [name0]) = none ∧
    (runW (faultAt2 1 .EIO 3 .EACCES)).2.fs.get (I ++ [name0]) = some (.file [] 0o600 0) ∧
    ¬ NoStrayInfo W (runW (faultAt2 1 .EIO 3 .EACCES)).2.fs I ∧
    ¬ Honest W I F entry base content (runW (faultAt2 1 .EIO 3 .EACCES)) :=
  Proofs.C17Single.double_fault_strays_info

/-- TWO faults, on ONE device: the `rename` (EIO) and the `write` of the copy fallback (ENOSPC).
    `copy2` has created `files/f` (empty), `shutil.move` raises, trash-put removes the info file,
    nothing removes the partial payload: reported as a failed move, entry intact at its origin,
    `files/f` left behind without info file.  Real behaviour of `shutil.move` (copy2 does not
    remove a partial destination). -/
theorem double_fault_strands_payload :
    ¬ AtMostOneFault (faultAt2 3 .EIO 5 .ENOSPC) ∧
    (runW (faultAt2 3 .EIO 5 .ENOSPC)).1.1 = .error (.moveError .ENOSPC) ∧
    (runW (faultAt2 3 .EIO 5 .ENOSPC)).2.fs.get entry = W.get entry ∧
    W.get (F ++ [base]) = none ∧
    (runW (faultAt2 3 .EIO 5 .ENOSPC)).2.fs.get (F ++ [base]) = some (.file [] 0o644 0) ∧
    (runW (faultAt2 3 .EIO 5 .ENOSPC)).2.fs.get (I ++ [name0]) = none ∧
    ¬ Honest W I F entry base content (runW (faultAt2 3 .EIO 5 .ENOSPC)) :=
  Proofs.C17Single.double_fault_strands_payload

end boundary

open MoveCopy.Example in
/-- ONE fault, but the rename is refused by the KERNEL (EXDEV, the entry is on another device than
    `files/`, `MoveCopy.PutSetting` instead of `Setting`): the same stranded payload.  "Device-refused
    rename + one fault" is a double fault in effect — the hypothesis `sameDev` of `Setting` is needed. -/
theorem device_refused_rename_one_fault :
    AtMostOneFault (faultAt 5 .ENOSPC) ∧ MoveCopy.PutSetting P I F entry ∧
    P.dev (FS.parent entry) ≠ P.dev F ∧
    (run (faultAt 5 .ENOSPC) (putCore I F [102] [99] (fun _ => .ok entry) ⟨[], []⟩) { fs := P }).1.1 =
      .error (.moveError .ENOSPC) ∧
    (run (faultAt 5 .ENOSPC) (putCore I F [102] [99] (fun _ => .ok entry) ⟨[], []⟩) { fs := P }).2.fs.get entry =
      P.get entry ∧
    P.get (F ++ [[102]]) = none ∧
    (run (faultAt 5 .ENOSPC) (putCore I F [102] [99] (fun _ => .ok entry) ⟨[], []⟩) { fs := P }).2.fs.get (F ++ [[102]]) =
      some (.file [] 0o644 0) ∧
    (run (faultAt 5 .ENOSPC) (putCore I F [102] [99] (fun _ => .ok entry) ⟨[], []⟩) { fs := P }).2.fs.get
      (I ++ [[102] ++ trashinfoExt]) = none :=
  Proofs.C17Single.device_refused_rename_one_fault

open SingleFault.Example in
/-- `Copyable.noMount` is needed too.  ONE fault, on the `rename` (EIO), of a directory entry that
    holds a MOUNT POINT ("/h/d/m"; every other hypothesis holds): `copytree` copies everything,
    `rmtree` removes "/h/d/a" and then cannot `rmdir` the mount point (EBUSY), `shutil.move` raises,
    trash-put removes the info file.  Reported as a failed move; the entry has lost "a"; the
    complete copy sits under `files/d` without info file.  Real behaviour of `shutil.move`
    (copy, then `rmtree`, no roll-back), reachable only through a failing same-device rename. -/
theorem mount_inside_entry_one_fault :
    AtMostOneFault (faultAt 3 .EIO) ∧ Setting WM I F dirD ∧
    ((∀ q, FS.under dirD q = true → WM.isMount q = false) → Copyable WM F dirD) ∧
    WM.isMount (dirD ++ [[109]]) = true ∧
    (runWM (faultAt 3 .EIO)).1.1 = .error (.moveError .EBUSY) ∧
    WM.get (dirD ++ [[97]]) = some (.file [7] 0o644 3) ∧
    (runWM (faultAt 3 .EIO)).2.fs.get (dirD ++ [[97]]) = none ∧
    (runWM (faultAt 3 .EIO)).2.fs.get (F ++ [baseD, [97]]) = some (.file [7] 0o644 3) ∧
    (runWM (faultAt 3 .EIO)).2.fs.get (I ++ [nameD]) = none ∧
    ¬ Honest WM I F dirD baseD content (runWM (faultAt 3 .EIO)) :=
  Proofs.C17Single.mount_inside_entry_one_fault

open MoveCopy.Example in
/-- the same run as recorded in Props/C05Copy.lean, under the oracle "every write below files/
    answers ENOSPC" (restated unchanged) -/
theorem device_refused_rename_strands_payload :
    MoveCopy.PutSetting P I F entry ∧
    ∃ s ∈ crashStates full (putCore I F [102] [99] (fun _ => .ok entry) ⟨[], []⟩) P,
      s.get entry = P.get entry ∧
      s.get (F ++ [[102]]) = some (.file [] 0o644 0) ∧
      s.get (I ++ [[102] ++ trashinfoExt]) = none ∧
      ¬ PutCore.CrashOk P s I F entry [99] :=
  C05Copy.put_copy_fault_strands_payload

/-! ### non-vacuity: a concrete world, three single-fault oracles, the runs evaluated by the kernel -/
section nonvacuity
open SingleFault.Example Proofs.C17Single

/-- the hypotheses hold in the world `W` (one device, trash "/t", the entry "/h/f") -/
example : Setting W I F entry ∧ Copyable W F entry := W_setting

/-- the fault-free run: createExcl, write, close, rename — four calls, "f.trashinfo" -/
example : (runW noFaults).1.1 = .ok name0 ∧ (runW noFaults).2.n = 4 ∧
    (run noFaults (persistLoop I F base content persistFuel 0 false st0) { fs := W }).2.n = 3 := by
  decide +kernel

/-- fault on the `write` (index 1, EIO): the clean-up unlink runs (4 calls), the failure is reported,
    nothing is left — and the theorem says so -/
example : AtMostOneFault (faultAt 1 .EIO) ∧ (runW (faultAt 1 .EIO)).1.1 = .error (.persistError .EIO) ∧
    (runW (faultAt 1 .EIO)).2.n = 4 ∧ (runW (faultAt 1 .EIO)).2.fs.get (I ++ [name0]) = none ∧
    (runW (faultAt 1 .EIO)).2.fs.get entry = W.get entry :=
  ⟨atMostOne_faultAt _ _, by decide +kernel⟩
example : Untouched W (runW (faultAt 1 .EIO)).2.fs I :=
  ((put_single_fault_conserves (faultAt 1 .EIO) W I F entry base content st0 W_setting.1 W_setting.2
    (atMostOne_faultAt _ _)).2 (.persistError .EIO) (by decide +kernel)).2.1

/-- fault on the `rename` (index 3, EIO): the copy fallback runs (createTrunc, write, utime, chmod,
    unlink: 9 calls in all) and succeeds under the fault-free name; the payload equals the entry,
    mode and mtime included; the entry is gone -/
example : AtMostOneFault (faultAt 3 .EIO) ∧ (runW (faultAt 3 .EIO)).1.1 = .ok name0 ∧
    (runW (faultAt 3 .EIO)).2.n = 9 ∧
    (runW (faultAt 3 .EIO)).2.fs.get (F ++ [base]) = some (.file [1, 2] 0o640 9) ∧
    (runW (faultAt 3 .EIO)).2.fs.get entry = none ∧
    (runW (faultAt 3 .EIO)).2.fs.get (I ++ [name0]) = some (.file content 0o600 0) :=
  ⟨atMostOne_faultAt _ _, by decide +kernel⟩
example : Trashed W (runW (faultAt 3 .EIO)).2.fs I F entry name0 content :=
  ((put_single_fault_conserves (faultAt 3 .EIO) W I F entry base content st0 W_setting.1 W_setting.2
    (atMostOne_faultAt _ _)).1 name0 (by decide +kernel)).1

/-- fault on the first `createExcl` with EEXIST (index 0): the name search moves on to the next
    suffix; the entry is trashed as "f_1" -/
example : AtMostOneFault (faultAt 0 .EEXIST) ∧ (runW (faultAt 0 .EEXIST)).1.1 = .ok name1 ∧
    (runW (faultAt 0 .EEXIST)).2.n = 5 ∧
    (runW (faultAt 0 .EEXIST)).2.fs.get (F ++ [base ++ [95, 49]]) = some (.file [1, 2] 0o640 9) ∧
    (runW (faultAt 0 .EEXIST)).2.fs.get (I ++ [name0]) = none :=
  ⟨atMostOne_faultAt _ _, by decide +kernel⟩
example : Trashed W (runW (faultAt 0 .EEXIST)).2.fs I F entry name1 content :=
  ((put_single_fault_conserves (faultAt 0 .EEXIST) W I F entry base content st0 W_setting.1 W_setting.2
    (atMostOne_faultAt _ _)).1 name1 (by decide +kernel)).1

/-- fault on the first `createExcl` with ENAMETOOLONG: once more with `tooLong`; "f" is short, so
    the truncation removes the whole base: the entry is trashed as "_1" -/
example : (runW (faultAt 0 .ENAMETOOLONG)).1.1 = .ok ([95, 49] ++ trashinfoExt) := by decide +kernel

/-- a DIRECTORY entry ("/h/d" with a file and a subdirectory), the rename faulted: `copytree` and
    `rmtree` run undisturbed; evaluated by the kernel through the twins of Proofs/C17SingleEval.lean,
    and concluded by the theorem -/
example : Setting WD I F dirD ∧ Copyable WD F dirD := WD_setting
example : (runWD (faultAt 3 .EIO)).1.1 = .ok nameD ∧ (runWD (faultAt 3 .EIO)).2.n = 17 ∧
    (runWD (faultAt 3 .EIO)).2.fs.get (F ++ [baseD]) = some (.dir 0o750 5) ∧
    (runWD (faultAt 3 .EIO)).2.fs.get (F ++ [baseD, [97]]) = some (.file [7] 0o644 3) ∧
    (runWD (faultAt 3 .EIO)).2.fs.get (F ++ [baseD, [109]]) = some (.dir 0o755 0) ∧
    (runWD (faultAt 3 .EIO)).2.fs.get dirD = none ∧
    (runWD (faultAt 3 .EIO)).2.fs.get (dirD ++ [[97]]) = none ∧
    (runWD (faultAt 3 .EIO)).2.fs.get (I ++ [nameD]) = some (.file content 0o600 0) := WD_rename_fault_eval
example : Trashed WD (runWD (faultAt 3 .EIO)).2.fs I F dirD nameD content :=
  ((put_single_fault_conserves (faultAt 3 .EIO) WD I F dirD baseD content st0 WD_setting.1 WD_setting.2
    (atMostOne_faultAt _ _)).1 nameD WD_rename_fault_eval.1).1

/-- EIO is incurable, EEXIST is not -/
example : Incurable (faultAt 3 .EIO) ∧ ¬ Incurable (faultAt 0 .EEXIST) :=
  ⟨fun n k c e h => by
      simp only [faultAt] at h
      split at h
      · cases h; exact ⟨by decide, by decide⟩
      · exact absurd h (by simp),
    fun h => (h 0 0 (.close []) .EEXIST rfl).1 rfl⟩

/-- the positions: the fault-free name search issues 3 calls, so index 1 is inside it (A), index 3
    is the rename's (B), index 4 is beyond the run (C) -/
example : Honest W I F entry base content (runW (faultAt 1 .EIO)) :=
  (fault_inside_search (faultAt 1 .EIO) W I F entry base content st0 1 W_setting.1
    (faultOnlyAt_faultAt _ _) (by decide +kernel)).1
example : (runW (faultAt 3 .EIO)).1.1 = .ok name0 :=
  (fault_on_rename (faultAt 3 .EIO) W I F entry base content st0 3 W_setting.1 W_setting.2
    (faultOnlyAt_faultAt _ _) (by decide +kernel)).2 name0 (by decide +kernel)
example : runW (faultAt 4 .EIO) = runW noFaults :=
  fault_beyond_run (faultAt 4 .EIO) W I F entry base content st0 4 (faultOnlyAt_faultAt _ _) (by decide +kernel)

end nonvacuity

end TrashVerif.C17Single
