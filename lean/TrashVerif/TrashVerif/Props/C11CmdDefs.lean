/-
  Props/C11CmdDefs.lean — vocabulary of the COMMAND-level frame theorems for C11
  (Props/C11Cmd.lean): the roots `files/` and `info/` of the trash directories a run visits, as the
  kernel sees them in the initial state; what "outside" means; what a run may do to a path.
  Everything is phrased on `FS.get`, `FS.resolve` and the model's own string functions.
-/
import TrashVerif.Props.C08CmdDefs
namespace TrashVerif.C11Cmd
open TrashVerif Prog FS

/-- `D` is a ROOT: the canonical path where `t/files` or `t/info` leads in `fs` — the path string
    resolved as the kernel resolves it for `listdir`, every symbolic link followed — for one of the
    trash directories `(t, volume)` of the list `dirs`.  (A string that does not resolve — `files/`
    missing below a missing `t`, a dangling link — contributes no root.) -/
def Root (fs : FS) (cwd : CPath) (dirs : List (Bytes × Bytes)) (D : CPath) : Prop :=
  ∃ tv ∈ dirs, FS.resolve fs cwd (pjoin tv.1 (b "files")) true = .ok D ∨
               FS.resolve fs cwd (pjoin tv.1 (b "info")) true = .ok D

/-- `q` is OUTSIDE: not at or below any root -/
def Outside (fs : FS) (cwd : CPath) (dirs : List (Bytes × Bytes)) (q : CPath) : Prop :=
  ∀ D, Root fs cwd dirs D → ¬ FS.under D q = true

/-- `q` is not STRICTLY below any root (a root itself qualifies, unless it lies inside another) -/
def NotInside (fs : FS) (cwd : CPath) (dirs : List (Bytes × Bytes)) (q : CPath) : Prop :=
  ∀ D, Root fs cwd dirs D → ¬ FS.strictlyUnder D q = true

/-- the same node, except that a directory may have a new modification time (its entry list
    changed): same kind, same mode, same contents / link target -/
def SameButMtime : Option Node → Option Node → Prop
  | some (.dir m _), some (.dir m' _) => m = m'
  | a, c => a = c

instance (a c : Option Node) : Decidable (SameButMtime a c) := by
  unfold SameButMtime; split <;> exact inferInstance

/-- What a run that started in `fs0` and visits the trash directories `dirs` has made of the world
    in the state `x`:
    * `outside` — every path that is not at or below `files/` or `info/` of a visited trash
      directory is EXACTLY as it was (there or not there, same node, same mtime);
    * `roots` — every path that is not strictly below one of them — `files/` and `info/` themselves,
      in particular — is as it was up to the mtime of a directory: `files/` and `info/` are never
      removed, replaced or chmod-ed;
    * `shrinks` — and strictly below them the run only REMOVES: whatever path is still there is as
      it was up to the mtime of a directory; nothing is created, rewritten, chmod-ed, renamed. -/
structure Framed (fs0 : FS) (cwd : CPath) (dirs : List (Bytes × Bytes)) (x : FS) : Prop where
  outside : ∀ q, Outside fs0 cwd dirs q → x.get q = fs0.get q
  roots : ∀ q, NotInside fs0 cwd dirs q → SameButMtime (fs0.get q) (x.get q)
  shrinks : ∀ q, x.get q = none ∨ SameButMtime (fs0.get q) (x.get q)

/-- `files/` and `info/` of the trash directory `t` are not symbolic links (`os.path.islink` of
    `t/files` and of `t/info` is false: real directories, or missing) -/
def RealSubdirs (fs : FS) (cwd : CPath) (t : Bytes) : Prop :=
  pIslink fs cwd (pjoin t (b "files")) = false ∧ pIslink fs cwd (pjoin t (b "info")) = false

instance (fs : FS) (cwd : CPath) (t : Bytes) : Decidable (RealSubdirs fs cwd t) := by
  unfold RealSubdirs; exact inferInstance

/-- `p` is the directory entry `files` or `info` of one of the trash directories of the list: where
    `t/files` resp. `t/info` leads when the final component is NOT followed (`lstat`) -/
def SubdirEntry (fs : FS) (cwd : CPath) (dirs : List (Bytes × Bytes)) (p : CPath) : Prop :=
  ∃ tv ∈ dirs, FS.resolve fs cwd (pjoin tv.1 (b "files")) false = .ok p ∨
               FS.resolve fs cwd (pjoin tv.1 (b "info")) false = .ok p

/-- the roots as a list (what `Root` says, computed; `Proofs.C11Cmd.root_iff_mem`) -/
def rootsOf (fs : FS) (cwd : CPath) (dirs : List (Bytes × Bytes)) : List CPath :=
  dirs.flatMap fun tv =>
    (match FS.resolve fs cwd (pjoin tv.1 (b "files")) true with | .ok D => [D] | .error _ => []) ++
    (match FS.resolve fs cwd (pjoin tv.1 (b "info")) true with | .ok D => [D] | .error _ => [])

/-- the symbolic link at `p` (target string `tgt`) leads to the canonical path `x` (the target
    resolved from the directory of the link, every link followed) -/
def LinkLeads (fs : FS) (p : CPath) (tgt : Bytes) (x : CPath) : Prop :=
  fs.get p = some (.link tgt) ∧ FS.resolve fs (FS.parent p) tgt true = .ok x

end TrashVerif.C11Cmd
