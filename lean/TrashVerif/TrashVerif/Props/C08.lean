/-
  Props/C08.lean — property theorems for C08 (an insecure $topdir/.Trash is never used).
-/
import TrashVerif.Model.Cmds
import TrashVerif.Proofs.C08
namespace TrashVerif.C08
open TrashVerif Prog FS

/-- `$topdir/.Trash` as the commands see it fails the spec's checks: it is a symlink, or not a
    directory, or lacks the sticky bit -/
def Insecure (fs : FS) (cwd : CPath) (dotTrash : Bytes) : Prop :=
  pIslink fs cwd dotTrash = true ∨ pIsdir fs cwd dotTrash = false ∨ pSticky fs cwd dotTrash ≠ some true

/-- trash-put: the candidate `$topdir/.Trash/$uid` is rejected by the security check whenever
    `$topdir/.Trash` is insecure (so it falls through to `$topdir/.Trash-$uid`, see C07). -/
theorem put_rejects_insecure (fs : FS) (cwd : CPath) (cand : Candidate) (ht : cand.topCheck = true)
    (hi : Insecure fs cwd (dirname cand.path)) : securityCheck fs cwd cand ≠ none :=
  Proofs.C08.put_rejects_insecure fs cwd cand ht hi

/-- and conversely a secure one passes -/
theorem put_accepts_secure (fs : FS) (cwd : CPath) (cand : Candidate)
    (hs : pIslink fs cwd (dirname cand.path) = false ∧ pIsdir fs cwd (dirname cand.path) = true ∧
          pSticky fs cwd (dirname cand.path) = some true) : securityCheck fs cwd cand = none :=
  Proofs.C08.put_accepts_secure fs cwd cand hs

/-- trash-list / trash-empty / trash-rm: the scanner never yields `$topdir/.Trash/$uid` as a trash
    directory to read when `$topdir/.Trash` is insecure. -/
theorem scan_skips_insecure (fs : FS) (c : ReadCfg) (v : Bytes)
    (hi : Insecure fs c.cwd (dirname (pjoin (pjoin v (b ".Trash")) (Bytes.ofNat c.uid)))) :
    validToBeRead fs c.cwd (pjoin (pjoin v (b ".Trash")) (Bytes.ofNat c.uid)) ≠ .valid :=
  Proofs.C08.scan_skips_insecure fs c v hi

/-- every directory the scanner reports as found is the home trash, a `.Trash-$uid` that is a
    directory, or a `.Trash/$uid` that passed the checks -/
theorem scan_found_only_valid (fs : FS) (c : ReadCfg) (p v : Bytes) (h : ScanEvent.found p v ∈ scanTrashDirs fs c) :
    (p ∈ homeTrashPaths c.env ∧ v = [slash]) ∨
    (v ∈ listVolumes c ∧ p = pjoin v (b ".Trash-" ++ Bytes.ofNat c.uid) ∧ pIsdir fs c.cwd p = true) ∨
    (v ∈ listVolumes c ∧ p = pjoin (pjoin v (b ".Trash")) (Bytes.ofNat c.uid) ∧ validToBeRead fs c.cwd p = .valid) :=
  Proofs.C08.scan_found_only_valid fs c p v h

/-- trash-restore applies the same check -/
theorem restore_found_only_valid (fs : FS) (c : ReadCfg) (p v : Bytes) (h : (p, v) ∈ restoreTrashDirs fs c none) :
    (p ∈ homeTrashPaths c.env ∧ v = [slash]) ∨
    (v ∈ c.mountPoints ∧ p = pjoin v (b ".Trash-" ++ Bytes.ofNat c.uid)) ∨
    (v ∈ c.mountPoints ∧ p = pjoin v (b ".Trash/" ++ Bytes.ofNat c.uid) ∧ validToBeRead fs c.cwd p = .valid) :=
  Proofs.C08.restore_found_only_valid fs c p v h

/-- trash-list reports every skipped directory on stderr. -/
theorem list_reports_skip (φ : Oracle) (c : ReadCfg) (s : RunState) (p : Bytes)
    (h : ScanEvent.skippedNotSticky p ∈ scanTrashDirs s.fs c ∨ ScanEvent.skippedSymlink p ∈ scanTrashDirs s.fs c) :
    let r := run φ (runList c []) s
    r.1.crash = none → (Out.stderr "skipped-not-sticky" p ∈ r.2.outs ∨ Out.stderr "skipped-symlink" p ∈ r.2.outs) :=
  Proofs.C08.list_reports_skip φ c s p h

end TrashVerif.C08
