/-
  Props/C19.lean — property theorems for C19 (a malformed trash entry never prevents the
  well-formed ones from being handled).  The readers are maps over the sorted name list of info/:
  an item contributes an entry, a diagnostic about itself, or nothing — never an abort.
-/
import TrashVerif.Props.ReadDefs
import TrashVerif.Proofs.C19
namespace TrashVerif.C19
open TrashVerif Prog FS ReadDefs

/-- trash-restore's scan of one trash directory is exactly "each name on its own".
    RESTATED with the trash directory as spelled: since the fix of `InfoFiles.all_info_files`
    (no `os.path.normpath` of the trash directory) the listing and the info paths are built on
    `pjoin t "info"`; the statement formerly read `pjoin (normpath t) (b "info")` in both places. -/
theorem restore_scan_itemwise (fs : FS) (cwd : CPath) (t v : Bytes) (ns : List Bytes)
    (h : listdirStr fs cwd (pjoin t (b "info")) = some ns) :
    restoreEntriesOf fs cwd t v = ns.filterMap (restoreItem fs cwd (pjoin t (b "info")) v) :=
  Proofs.C19.restore_scan_itemwise fs cwd t v ns h

/-- Isolation for any item-wise reader: the malformed items (those that yield nothing) can be
    interleaved anywhere in the directory order without changing what the well-formed ones yield,
    nor their relative order.
    PARTIAL: holds for a listing without repeated names (`hnd`), which is what a directory gives.
    Without `hnd` the statement is false (`Proofs.C19.filterMap_isolation_counterexample`:
    `l = [a, a]`, `good = [a]`, `f a = some 1` — the dropped `a` also occurs in `good`, so `hbad`
    does not constrain it, and `[1, 1] ≠ [1]`). -/
theorem filterMap_isolation_partial {α β : Type} (f : α → Option β) (l good : List α) (hnd : l.Nodup)
    (hsub : List.Sublist good l) (hbad : ∀ x ∈ l, x ∉ good → f x = none) :
    l.filterMap f = good.filterMap f := Proofs.C19.filterMap_isolation_partial f l good hnd hsub hbad

/-- The same for arbitrary lists (repetitions allowed), the malformed items being identified by
    position rather than by value: `good` is any sublist of `l` that keeps every item yielding
    something. -/
theorem filterMap_isolation_positional {α β : Type} (f : α → Option β) (l good : List α)
    (hsub : List.Sublist good l) (hall : List.Sublist (l.filter fun x => (f x).isSome) good) :
    l.filterMap f = good.filterMap f := Proofs.C19.filterMap_isolation_positional f l good hsub hall

/-- Sorting never fails, whatever the dates (undated entries included): the offered list is a
    permutation of the scanned entries for every mode. -/
theorem sort_total (m : SortMode) (es : List Entry) : (sortEntries m es).length = es.length :=
  Proofs.C19.sort_total m es

/-- trash-list: one item yields exactly one output event (a line, or a diagnostic about itself). -/
theorem list_one_event (φ : Oracle) (fs : FS) (cwd : CPath) (v : Bytes) (infos : List Bytes) (s : RunState) :
    (run φ (emitAll (infos.map (listOne fs cwd v))) s).2.outs = (infos.map (listOne fs cwd v)).reverse ++ s.outs ∧
    (run φ (emitAll (infos.map (listOne fs cwd v))) s).2.trace = s.trace :=
  Proofs.C19.list_one_event φ fs cwd v infos s

/-- trash-rm: an unreadable or unparsable info file produces a diagnostic about itself, issues no
    call, and the remaining entries are handled as if it were absent. -/
theorem rm_skips_malformed (φ : Oracle) (cwd : CPath) (pattern volume i : Bytes) (rest : List Bytes) (s : RunState)
    (h : (contentsOf s.fs cwd i).bind parsePath = none) :
    run φ (rmInfos cwd pattern volume (i :: rest)) s =
      run φ (rmInfos cwd pattern volume rest) { s with outs := Out.stderr "unparsable" i :: s.outs } :=
  Proofs.C19.rm_skips_malformed φ cwd pattern volume i rest s h

/-- trash-empty DAYS: an entry without a readable, valid first DeletionDate is kept, issues no
    call, and the remaining entries are handled as if it were absent. -/
theorem empty_keeps_undated (φ : Oracle) (cwd : CPath) (o : EmptyOpts) (days : Nat) (i : Bytes) (rest : List Bytes) (s : RunState)
    (hd : o.days = some days) (h : (contentsOf s.fs cwd i).bind parseDeletionDate = none) :
    run φ (emptyInfos cwd o (i :: rest)) s = run φ (emptyInfos cwd o rest) s :=
  Proofs.C19.empty_keeps_undated φ cwd o days i rest s hd h

/-- names that are not trashinfo names (README, '.trashinfo', '..trashinfo', …) are not even looked at -/
theorem infos_only_trashinfo_names (fs : FS) (cwd : CPath) (t : Bytes) (l : List Bytes) (h : infosOf fs cwd t = .ok l) :
    ∀ p ∈ l, ∃ n, p = pjoin (pjoin t (b "info")) n ∧ isTrashinfoName n = true := Proofs.C19.infos_only_trashinfo_names fs cwd t l h

end TrashVerif.C19
