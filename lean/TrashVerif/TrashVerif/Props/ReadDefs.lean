/-
  Props/ReadDefs.lean — definitions shared by the reader theorems (C19, C20).
-/
import TrashVerif.Model.Cmds
namespace TrashVerif.ReadDefs
open TrashVerif FS

/-- what trash-restore makes of one name in info/ (none: skipped with a warning) -/
def restoreItem (fs : FS) (cwd : CPath) (infoDir volume n : Bytes) : Option Entry :=
  if isTrashinfoName n then
    match contentsOf fs cwd (pjoin infoDir n) with
    | none => none
    | some text =>
      match parsePath text with
      | none => none
      | some rel => some { loc := pjoin volume rel, date := parseDeletionDate text, info := pjoin infoDir n }
  else none

end TrashVerif.ReadDefs
