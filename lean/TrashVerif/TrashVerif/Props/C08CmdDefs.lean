/-
  Props/C08CmdDefs.lean — vocabulary of the COMMAND-level frame theorems for C08
  (Props/C08Cmd.lean): apartness of canonical subtrees, the geometry hypotheses on trash directories
  and on restorable entries, what trash-list prints.  Everything is phrased on `FS.get`,
  `FS.resolve` and the model's own string functions.
-/
import TrashVerif.Model.Cmds
namespace TrashVerif.C08Cmd
open TrashVerif Prog FS

/-- `$topdir/.Trash/$uid` for the volume `v`, spelled as the scanner of trash-list / trash-empty /
    trash-rm spells it (trash-restore spells it `join(v, ".Trash/$uid")`, the same string:
    `C08Cmd.topDir_restore`) -/
def topDir (c : ReadCfg) (v : Bytes) : Bytes := pjoin (pjoin v (b ".Trash")) (Bytes.ofNat c.uid)

/-- two canonical subtrees are apart: neither root is at or below the other -/
def Apart (r q : CPath) : Prop := ¬ FS.under r q = true ∧ ¬ FS.under q r = true

instance (r q : CPath) : Decidable (Apart r q) := by unfold Apart; exact inferInstance

/-- wherever the path string leads in `fs` (symbolic links followed), it is apart from `r`;
    vacuous when the string does not resolve -/
def StrApart (fs : FS) (cwd r : CPath) (path : Bytes) : Prop :=
  ∀ q, FS.resolve fs cwd path true = .ok q → Apart r q

instance (fs : FS) (cwd r : CPath) (path : Bytes) : Decidable (StrApart fs cwd r path) :=
  match h : FS.resolve fs cwd path true with
  | .ok q => decidable_of_iff (Apart r q)
      ⟨fun ha q' hq' => by rw [h] at hq'; cases hq'; exact ha, fun hs => hs q h⟩
  | .error _ => isTrue (fun q hq => by rw [h] at hq; cases hq)

/-- the trash directory `t`: its `info/` and its `files/` lead to places apart from `r` -/
def DirApart (fs : FS) (cwd r : CPath) (t : Bytes) : Prop :=
  StrApart fs cwd r (pjoin t (b "info")) ∧ StrApart fs cwd r (pjoin t (b "files"))

instance (fs : FS) (cwd r : CPath) (t : Bytes) : Decidable (DirApart fs cwd r t) := by
  unfold DirApart; exact inferInstance

/-- a directory string in the shape every scanner produces: non-empty, no trailing '/' -/
def Tidy (t : Bytes) : Prop := t ≠ [] ∧ t.getLast? ≠ some slash

instance (t : Bytes) : Decidable (Tidy t) := by unfold Tidy; exact inferInstance

/-- a plain file name: non-empty, without '/', not "." or ".." -/
def PlainName (n : Bytes) : Prop := n ≠ [] ∧ slash ∉ n ∧ n ≠ [dot] ∧ n ≠ dotdot

instance (n : Bytes) : Decidable (PlainName n) := by unfold PlainName; exact inferInstance

/-- every name of every present path is a file name: non-empty, without '/', not "." or ".."
    (true of every world the kernel can produce; the flat model does not enforce it) -/
def PlainNames (fs : FS) : Prop :=
  ∀ q, (fs.get q).isSome = true → ∀ x ∈ q, PlainName x

/-- everything at or below `r` is in `b` as it is in `a` -/
def SameBelow (r : CPath) (a b : FS) : Prop := ∀ rel, b.get (r ++ rel) = a.get (r ++ rel)

/-! ### trash-list -/

/-- what trash-list prints for a list of scan events, in order (it stops at the first directory it
    cannot list) -/
def listOutsOf (fs : FS) (cwd : CPath) : List ScanEvent → List Out
  | [] => []
  | .skippedNotSticky p :: rest => .stderr "skipped-not-sticky" p :: listOutsOf fs cwd rest
  | .skippedSymlink p :: rest => .stderr "skipped-symlink" p :: listOutsOf fs cwd rest
  | .found p v :: rest =>
    match infosOf fs cwd p with
    | .error _ => []
    | .ok infos => infos.map (listOne fs cwd v) ++ listOutsOf fs cwd rest

/-! ### trash-restore -/

/-- the strings `os.makedirs(name)` may hand to `mkdir`: `name`, its head (`posixpath.split`), the
    head of that, … (as long as head and tail are both non-empty) -/
def makedirsHeads : Nat → Bytes → List Bytes
  | 0, name => [name]
  | fuel+1, name =>
    if (makedirsSplit name).1 ≠ [] ∧ (makedirsSplit name).2 ≠ [] then name :: makedirsHeads fuel (makedirsSplit name).1
    else [name]

/-- Geometry of one restorable entry in the state `x`, relative to the subtree `r`: the directory
    `fs.mkdirs` would create (`realpath` of the parent of the original location), the destination,
    the payload and the info file — each as the path string resolves in `x` — are apart from `r`;
    and (`into`) when the destination — as resolved in any of the states `S` of the run — is a
    directory or a link to one in `x`, where that leads is apart from `r` (`shutil.move` then moves
    INTO that directory).
    `parentHeads`: when the parent string has a `.` or `..` component, `os.makedirs` works on the
    string as spelled and may make a directory at each of its heads before the `..` takes effect
    (`x/gone/..` makes `x/gone`): none of them, as it resolves in `x`, lies in `r`.  (Vacuous for
    strings without such a component, where `parent` says it all.) -/
structure EntryApart (S : List FS) (x : FS) (cwd r : CPath) (e : Entry) : Prop where
  parent : ¬ FS.under r (dirC x cwd (dirname e.loc)) = true
  parentHeads : hasDotComp (dirname e.loc) = true →
    ∀ q ∈ makedirsHeads (dirname e.loc).length (dirname e.loc), ∀ p, FS.resolve x cwd q = .ok p → ¬ FS.under r p = true
  dest : ∀ d, FS.resolve x cwd e.loc = .ok d → Apart r d
  into : ∀ x' ∈ S, ∀ d, FS.resolve x' cwd e.loc = .ok d → ∀ q, followC x d = some q → Apart r q
  payload : ∀ p, FS.resolve x cwd (pathOfBackupCopy e.info) = .ok p → Apart r p
  info : ∀ i, FS.resolve x cwd e.info = .ok i → Apart r i

/-- no symbolic link outside `r` leads into `r` (consulted by the copy fallback of `shutil.move`
    only: `copy2` opens its destination following links) -/
def Sealed (x : FS) (r : CPath) : Prop :=
  ∀ p q, ¬ FS.under r p = true → followC x p = some q → ¬ FS.under r q = true

/-- no `rename` of the run failed: the copy fallback of `shutil.move` was never entered -/
def NoRenameFailed (tr : List (Call × Res)) : Prop := ∀ a c e, (Call.rename a c, Except.error e) ∉ tr

def isFailedRename : Call × Res → Bool
  | (.rename _ _, .error _) => true
  | _ => false

instance (tr : List (Call × Res)) : Decidable (NoRenameFailed tr) :=
  decidable_of_iff (∀ cr ∈ tr, isFailedRename cr = false) (by
    unfold NoRenameFailed
    constructor
    · intro h a c e hm; exact absurd (h _ hm) (by simp [isFailedRename])
    · intro h cr hm
      rcases cr with ⟨c, r⟩
      cases c <;> cases r <;> simp only [isFailedRename]
      exact absurd hm (h _ _ _))

end TrashVerif.C08Cmd
