/-
  Props/C13Order.lean — C13, the ORDER in which `trash-restore` restores the chosen entries, and what
  depends on it.

  Props/C13Cmd.lean says WHICH entries a run restores.  Here: in which order, whole runs of `runRestore`.

  (1) `restore_in_reply_order` (EVERY fault oracle, every run state): for a reply that is accepted and
      denotes the index list `is` — as `parseIndexes` returns it, repetitions and descending stretches
      included — the run IS the listing followed by `restoreOne` on `offered[is[0]]`, then on
      `offered[is[1]]`, …, each in the state its predecessor left, ending at the first failure
      (`C13Order.restoreSeq`, an explicit fold), followed by exit status 0 resp. "die" and exit status 1
      (`C13Order.finish`).  An EQUATION between the two runs (result, file system, trace, history,
      counter, outputs).  `restore_in_reply_order_total` drops "something is offered" for file system,
      trace and exit status.
  (2) `independent_entries_commute` (fault-free): under the setting of `C13Cmd.restore_selects_exactly` for
      the entries one reply selects (`RSetting`: locally ok in the initial state, pairwise `Apart`,
      resolved layer), every reply that denotes a PERMUTATION of its index list ends with the same exit
      status 0 and in the same file system: the same node at every path and the same mount table
      (`C13Order.SameFS`; the enumeration field `dom` does differ — `commute_example`).  No hypothesis
      was added to those of the selection theorem.
  (3) `nested_pair_order_matters` (kernel-checked world `WO`): a file trashed from inside `d`, then `d`
      itself.  Reply "1,0": both restored, exit 0, the trash is empty.  Reply "0,1": the file is
      restored, `os.makedirs` creates `d` on the way, the entry of `d` is refused ("Refusing to overwrite
      existing file"), exit 1, `d` stays in the trash.  REAL behaviour of /repo's code
      (`restore_selected_files` iterates `Sequences.all_indexes()` in reply order; `restore_trashed_file`
      tests `path_exists(original_location)` first).  So the hypothesis `Apart` of (2) matters.
  (4) `ascending_sort_differs`: the foil `runRestoreSorted` (= `runRestore` with the index list sorted
      first; defined in Proofs/C13OrderEx.lean, NOT part of the model) behaves on every reply like
      `runRestore` on the ascending reply (`sorted_is_ascending_reply`, every oracle), hence differs from
      `runRestore` on "1,0" in the world of (3): exit 1 against exit 0, `d` still in the trash.
  (5) `duplicates_in_reply`: "0,0" on a list of one entry — `C13Cmd.restore_same_index_twice` instantiated
      (`pre = [a]`, the repetition, nothing after) and evaluated: the first round restores the entry; the
      second round is attempted on the SAME entry: refused without a call (no `--overwrite`), resp. the
      `rename` of the payload — gone — fails with ENOENT and the restored file is not removed
      (`--overwrite`); "die", exit status 1.  REAL behaviour: `trashed_files_to_restore` builds
      `[trashed_files[i] for i in all_indexes()]` without removing repetitions; the second
      `restore_trashed_file` raises IOError (`path_exists`), resp. `shutil.move` raises
      FileNotFoundError (an IOError) → `Die` → exit status 1.

  There is no `_partial` statement.
-/
import TrashVerif.Props.C13Cmd
import TrashVerif.Props.C13OrderDefs
import TrashVerif.Proofs.C13Order
import TrashVerif.Proofs.C13OrderCommute
import TrashVerif.Proofs.C13OrderEx
namespace TrashVerif.C13Order
open TrashVerif PutCore Prog FS C09Hist C13Cmd

/-! ### (1) the chosen entries are restored in REPLY order -/

/-- THE ORDER THEOREM (every fault oracle `φ`, every run state `s`).  When something is offered and the
    reply is accepted, denoting the index list `is` (in the order and with the repetitions of the
    reply), the run of `trash-restore` equals: print the listing; `restoreOne` on the entry printed
    at `is[0]`, then — in the state that left — on the entry printed at `is[1]`, …, ending at the
    first failure (`restoreSeq`); exit status 0, or "die" and exit status 1 (`finish`).  The list
    handed to the fold is exactly `is` mapped through the listing, nothing skipped (second conjunct). -/
theorem restore_in_reply_order (φ : Oracle) (c : ReadCfg) (o : RestoreOpts) (reply : Bytes) (s : RunState) (is : List Nat)
    (hoff : offered s.fs c o ≠ [])
    (hreply : parseIndexes reply (offered s.fs c o).length = .ok is) :
    run φ (runRestore c o (some reply)) s =
      finish (restoreSeq φ c.cwd o.overwrite (selected (offered s.fs c o) is) (afterListing c o s)) ∧
    (selected (offered s.fs c o) is).map some = is.map ((offered s.fs c o)[·]?) :=
  ⟨Proofs.C13Order.in_reply_order φ c o reply s is hoff hreply,
   Proofs.C13Order.selected_map_some _ is (C13.parseIndexes_in_range reply _ is hreply)⟩

/-- … and the loop of the model is that fold, for every list of entries -/
theorem restoreMany_is_restoreSeq (φ : Oracle) (cwd : CPath) (ov : Bool) (es : List Entry) (s : RunState) :
    run φ (restoreMany cwd ov es) s = restoreSeq φ cwd ov es s := Proofs.C13Order.restoreMany_eq_seq φ cwd ov es s

/-- Without "something is offered" (then the reply can only denote the empty list, and the run differs
    from the fold in its message only): file system, trace, exit status. -/
theorem restore_in_reply_order_total (φ : Oracle) (c : ReadCfg) (o : RestoreOpts) (reply : Bytes) (s : RunState)
    (is : List Nat) (hreply : parseIndexes reply (offered s.fs c o).length = .ok is) :
    let r := run φ (runRestore c o (some reply)) s
    let f := restoreSeq φ c.cwd o.overwrite (selected (offered s.fs c o) is) (afterListing c o s)
    r.2.fs = f.2.fs ∧ r.2.trace = f.2.trace ∧ r.1.exit = (finish f).1.exit :=
  Proofs.C13Order.in_reply_order_total φ c o reply s is hreply

/-! ### (2) entries that are pairwise apart: the order does not matter -/

/-- COMMUTATION (fault-free; with or without `--overwrite`; every sort mode).  `reply` denotes `idxs` and
    selects `sel` in the setting `S` of the selection theorem (`C13Cmd.RSetting`: every selected entry
    locally ok in the INITIAL state, the entries pairwise `Apart` — distinct info names, no destination
    at or below another —, the resolved layer).  `reply'` denotes a permutation `idxs'` of `idxs`.
    Then both runs exit 0 without crash, and their final file systems are the same: the same node at
    every path, the same mount table (`SameFS`) — the initial one with exactly `sel` restored. -/
theorem independent_entries_commute (fs : FS) (c : ReadCfg) (o : RestoreOpts) (reply reply' : Bytes) (I F : CPath)
    (idxs idxs' : List Nat) (sel : List Item)
    (hreply : parseIndexes reply (offered fs c o).length = .ok idxs)
    (hreply' : parseIndexes reply' (offered fs c o).length = .ok idxs')
    (hperm : idxs'.Perm idxs)
    (hsel : selected (offered fs c o) idxs = sel.map (·.e))
    (S : RSetting fs c.cwd I F sel) :
    let r := run noFaults (runRestore c o (some reply)) { fs := fs }
    let r' := run noFaults (runRestore c o (some reply')) { fs := fs }
    r.1.exit = 0 ∧ r'.1.exit = 0 ∧ r.1.crash = none ∧ r'.1.crash = none ∧
    SameFS r.2.fs r'.2.fs ∧ RestoredExactly fs r'.2.fs I F sel :=
  Proofs.C13Order.entries_commute fs c o reply reply' I F idxs idxs' sel hreply hreply' hperm hsel S

/-- what `SameFS` rests on: after a run in that setting the directories written into — `info/`, `files/`,
    the parents of the destinations — are what they were with the fresh mtime (`RestoredExactly` alone
    leaves their mtime open) -/
theorem restored_dirs_touched (fs : FS) (c : ReadCfg) (o : RestoreOpts) (reply : Bytes) (I F : CPath)
    (idxs : List Nat) (sel : List Item)
    (hreply : parseIndexes reply (offered fs c o).length = .ok idxs)
    (hsel : selected (offered fs c o) idxs = sel.map (·.e))
    (S : RSetting fs c.cwd I F sel) (hne : sel ≠ []) (q : CPath)
    (hq : q = I ∨ q = F ∨ ∃ d ∈ sel, q = FS.parent d.dst) :
    (run noFaults (runRestore c o (some reply)) { fs := fs }).2.fs.get q = fresh (fs.get q) := by
  rw [Proofs.C13Cmd.fresh_eq]; exact Proofs.C13Order.selects_touched fs c o reply I F idxs sel hreply hsel S hne q hq

section examples
open Proofs.C13OrderEx Proofs.C13CmdEx.Demo

/-- non-vacuity, in the demo world of Props/C13Cmd.lean: "0,2" against "2,0" — the theorem instantiated;
    and the run evaluated: the nodes of `Demo.W_run_0_2` in another enumeration order (`dom` differs,
    so the two `FS` values are not `=`) -/
theorem commute_example :
    (run noFaults (runRestore rc op (some (b "0,2"))) { fs := W }).1.exit = 0 ∧
    (run noFaults (runRestore rc op (some (b "2,0"))) { fs := W }).1.exit = 0 ∧
    SameFS (run noFaults (runRestore rc op (some (b "0,2"))) { fs := W }).2.fs
      (run noFaults (runRestore rc op (some (b "2,0"))) { fs := W }).2.fs ∧
    (run noFaults (runRestore rc op (some (b "2,0"))) { fs := W }).2.fs.dom ≠
      (run noFaults (runRestore rc op (some (b "0,2"))) { fs := W }).2.fs.dom := by
  refine ⟨W_commute.1, W_commute.2.1, W_commute.2.2, ?_⟩
  rw [C13Cmd.twin, C13Cmd.twin]; exact W_commute_run.2.2

/-! ### (3) a nested pair: the order is observable -/

/-- World `WO`: `/t` holds `x` (a file trashed from `/home/d/x`, 2024-01-01: index 0) and `d` (a directory
    of mode 0700 holding `y`, trashed from `/home/d`, 2024-01-02: index 1); `/home/d` does not exist.
    Reply "1,0": `d` is restored, then `x` into it: exit 0, four calls, the trash is empty (final state
    in full).  Reply "0,1": `x` is restored — `os.makedirs` creates `/home/d` with mode 0755 —, then the
    entry of `d` is REFUSED: exit 1, "die", three calls; info file and payload of `d` (with `y`) are
    still in the trash, `/home/d/y` does not exist (final state in full).
    REAL behaviour of trash-cli. -/
theorem nested_pair_order_matters :
    (offered WO rc op).map (·.loc) = [b "/home/d/x", b "/home/d"] ∧
    parseIndexes (b "1,0") (offered WO rc op).length = .ok [1, 0] ∧
    parseIndexes (b "0,1") (offered WO rc op).length = .ok [0, 1] ∧
    -- "1,0"
    (run noFaults (runRestore rc op (some (b "1,0"))) { fs := WO }).1.exit = 0 ∧
    (run noFaults (runRestore rc op (some (b "1,0"))) { fs := WO }).1.crash = none ∧
    (run noFaults (runRestore rc op (some (b "1,0"))) { fs := WO }).2.fs.toList =
      [([b "home", b "d", b "x"], .file [88] 0o644 3), ([b "home", b "d"], .dir 0o700 0),
       ([b "home", b "d", b "y"], .file [89] 0o644 3),
       ([], dirN), (T, dirN), (I, .dir 0o755 0), (F, .dir 0o755 0), ([b "home"], .dir 0o755 0)] ∧
    -- "0,1"
    (run noFaults (runRestore rc op (some (b "0,1"))) { fs := WO }).1.exit = 1 ∧
    (run noFaults (runRestore rc op (some (b "0,1"))) { fs := WO }).1.crash = none ∧
    (run noFaults (runRestore rc op (some (b "0,1"))) { fs := WO }).2.fs.toList =
      [([b "home", b "d", b "x"], .file [88] 0o644 3), ([b "home", b "d"], .dir 0o755 0),
       ([], dirN), (T, dirN), (I, .dir 0o755 0), (F, .dir 0o755 0),
       (I ++ [b "d.trashinfo"], Proofs.C13CmdEx.Cex.info "/home/d" "2024-01-02"),
       (F ++ [b "d"], .dir 0o700 5), (F ++ [b "d", b "y"], .file [89] 0o644 3), ([b "home"], .dir 0o755 0)] ∧
    (run noFaults (runRestore rc op (some (b "0,1"))) { fs := WO }).2.outs.head? = some (Out.stderr "die" []) ∧
    (run noFaults (runRestore rc op (some (b "0,1"))) { fs := WO }).2.trace.length = 3 := by
  rw [C13Cmd.twin, C13Cmd.twin]
  exact ⟨WO_offered, WO_replies.1, WO_replies.2.1, WO_run_1_0.1, WO_run_1_0.2.1, WO_run_1_0.2.2.1,
    WO_run_0_1.1, WO_run_0_1.2.1, WO_run_0_1.2.2.1, WO_run_0_1.2.2.2.1, WO_run_0_1.2.2.2.2⟩

/-! ### (4) the foil: sorting the indices first is NOT trash-restore -/

/-- `runRestoreSorted` (Proofs/C13OrderEx.lean: `runRestore` with the one change that the denoted index
    list is sorted ascending before the entries are looked up) answered `reply` is `runRestore` answered
    with any reply that denotes the sorted list — every oracle, every state -/
theorem sorted_is_ascending_reply (φ : Oracle) (c : ReadCfg) (o : RestoreOpts) (reply reply' : Bytes) (s : RunState)
    (is : List Nat)
    (hreply : parseIndexes reply (offered s.fs c o).length = .ok is)
    (hreply' : parseIndexes reply' (offered s.fs c o).length = .ok (sortAsc is)) :
    run φ (runRestoreSorted c o (some reply)) s = run φ (runRestore c o (some reply')) s :=
  Proofs.C13OrderEx.sorted_is_ascending_reply φ c o reply reply' s is hreply hreply'

/-- In the world of (3), answered "1,0": the foil refuses `d` and exits 1 with `d` still in the trash,
    `trash-restore` (model and real code) restores both and exits 0.  This is the difference the
    correspondence check of C13 is guarding. -/
theorem ascending_sort_differs :
    run noFaults (runRestoreSorted rc op (some (b "1,0"))) { fs := WO } =
      run noFaults (runRestore rc op (some (b "0,1"))) { fs := WO } ∧
    (run noFaults (runRestoreSorted rc op (some (b "1,0"))) { fs := WO }).1.exit = 1 ∧
    (run noFaults (runRestore rc op (some (b "1,0"))) { fs := WO }).1.exit = 0 ∧
    (run noFaults (runRestoreSorted rc op (some (b "1,0"))) { fs := WO }).2.fs.get (F ++ [b "d"]) = some (.dir 0o700 5) ∧
    (run noFaults (runRestore rc op (some (b "1,0"))) { fs := WO }).2.fs.get (F ++ [b "d"]) = none ∧
    (run noFaults (runRestoreSorted rc op (some (b "1,0"))) { fs := WO }).2.fs.get [b "home", b "d", b "y"] = none ∧
    (run noFaults (runRestore rc op (some (b "1,0"))) { fs := WO }).2.fs.get [b "home", b "d", b "y"] =
      some (.file [89] 0o644 3) := by
  have e := Proofs.C13OrderEx.sorted_is_ascending_reply noFaults rc op (b "1,0") (b "0,1") { fs := WO } [1, 0]
    WO_replies.1 (by rw [WO_replies.2.2]; exact WO_replies.2.1)
  rw [e, C13Cmd.twin, C13Cmd.twin]
  exact ⟨rfl, WO_run_0_1.1, WO_run_1_0.1, WO_foil.1, WO_foil.2.1, WO_foil.2.2.1, WO_foil.2.2.2⟩

/-! ### (5) the same index twice -/

/-- World `W1`: one entry, the file `a` trashed from `/home/a`; reply "0,0" (accepted: both indices are
    within the list).  `C13Cmd.restore_same_index_twice` applies with `pre = [a]`: WITH OR WITHOUT
    `--overwrite` the exit status is 1, "die" is reported, and the final state is the initial one with
    exactly `a` restored — once. -/
theorem duplicates_in_reply (ov : Bool) :
    parseIndexes (b "0,0") (offered W1 rc op).length = .ok [0, 0] ∧
    (let r := run noFaults (runRestore rc { op with overwrite := ov } (some (b "0,0"))) { fs := W1 }
     r.1.exit = 1 ∧ r.1.crash = none ∧ RestoredExactly W1 r.2.fs I F [it1] ∧ Out.stderr "die" [] ∈ r.2.outs) :=
  ⟨W1_reply.1, W1_theorem ov⟩

/-- … evaluated.  Without `--overwrite`: two calls (the `rename` and the `unlink` of the first round); the
    second round is refused by the first test of `restore_trashed_file` and issues none.  With
    `--overwrite`: three calls, the last being the `rename` of the payload, which is gone: ENOENT; the
    file restored by the first round is NOT removed beforehand (the model's and the real code's guard
    `lexists(original_file)`).  The final file system is the same in both cases. -/
theorem duplicates_in_reply_run :
    let r := run noFaults (runRestore rc op (some (b "0,0"))) { fs := W1 }
    let r' := run noFaults (runRestore rc { op with overwrite := true } (some (b "0,0"))) { fs := W1 }
    r.1.exit = 1 ∧ r.1.crash = none ∧
    r.2.fs.toList =
      [([b "home", b "a"], .file [65] 0o644 3), ([], dirN), (T, dirN), (I, .dir 0o755 0), (F, .dir 0o755 0),
       ([b "home"], .dir 0o755 0)] ∧
    r.2.trace.length = 2 ∧ r.2.outs.head? = some (Out.stderr "die" []) ∧
    r'.1.exit = 1 ∧ r'.2.fs.toList = r.2.fs.toList ∧
    r'.2.trace.head? = some (.rename (F ++ [b "a"]) [b "home", b "a"], .error .ENOENT) ∧
    r'.2.trace.length = 3 ∧ r'.2.outs.head? = some (Out.stderr "die" []) := by
  simp only []
  rw [C13Cmd.twin, C13Cmd.twin]; exact W1_run

end examples

end TrashVerif.C13Order

#print axioms TrashVerif.C13Order.restore_in_reply_order
#print axioms TrashVerif.C13Order.restoreMany_is_restoreSeq
#print axioms TrashVerif.C13Order.restore_in_reply_order_total
#print axioms TrashVerif.C13Order.independent_entries_commute
#print axioms TrashVerif.C13Order.restored_dirs_touched
#print axioms TrashVerif.C13Order.commute_example
#print axioms TrashVerif.C13Order.nested_pair_order_matters
#print axioms TrashVerif.C13Order.sorted_is_ascending_reply
#print axioms TrashVerif.C13Order.ascending_sort_differs
#print axioms TrashVerif.C13Order.duplicates_in_reply
#print axioms TrashVerif.C13Order.duplicates_in_reply_run
