/-
  Props/C15LoopDefs.lean — vocabulary of the loop-level crash theorems of C15 (Props/C15Loop.lean):
  the per-entry crash invariant, and "prefix state" — what every state a kill can leave behind while
  `emptyInfos` / `rmInfos` work through the entries of one trash directory looks like.
-/
import TrashVerif.Props.C10LoopDefs
import TrashVerif.Props.C19CmdDefs
namespace TrashVerif.C15Loop
open TrashVerif Prog FS C10Loop C19Cmd

/-- The C15 invariant for the entry `n` of the trash directory `(I, F)`, in the state `s` of a run
    started on `fs`: as long as anything of the payload is still there (its root exists), the info
    file is untouched. -/
def InfoLast (fs s : FS) (I F : CPath) (n : Bytes) : Prop :=
  (s.get (F ++ [stemOf n])).isSome = true → s.get (I ++ [n]) = fs.get (I ++ [n])

/-- `s` is a PREFIX STATE of the purge of the entries `sel` (in this order) of the trash directory
    `(I, F)`, started on `fs`:
      * the first entries `done` of `sel` are purged completely and nothing else has happened
        (`s0`, `PurgedExactly`), and
      * either `done` is all of `sel` and `s` is that state `s0`,
      * or the next entry `cur` is somewhere inside its own purge started on `s0` (`s` is one of the
        states a kill can leave behind while `purgePair` — payload first, info file last — works on
        `cur` alone; `s0` itself is the first of them), every entry of `done` is still gone whole, and
        every other entry — the later ones of `sel`, the kept ones, the unlisted ones: every
        `*.trashinfo` name that is neither in `done` nor `cur` — is exactly what it was in `fs`, info
        file and whole payload. -/
def PrefixState (fs : FS) (I F : CPath) (sel : List Bytes) (s : FS) : Prop :=
  ∃ (done : List Bytes) (s0 : FS), PurgedExactly fs s0 I F done ∧
    ((sel = done ∧ s = s0) ∨
     ∃ cur later, sel = done ++ cur :: later ∧
       s ∈ crashStates noFaults (purgePair (.ok (F ++ [stemOf cur])) (.ok (I ++ [cur]))) s0 ∧
       (∀ d ∈ done, EntryGone s I F d) ∧
       (∀ m, isTrashinfoName m = true → m ∉ done → m ≠ cur → EntryIntact fs s I F m))

/-- the entry `n` is half purged in `s`: neither what it was in `fs` nor gone whole -/
def HalfPurged (fs s : FS) (I F : CPath) (n : Bytes) : Prop :=
  ¬ EntryIntact fs s I F n ∧ ¬ EntryGone s I F n

end TrashVerif.C15Loop
