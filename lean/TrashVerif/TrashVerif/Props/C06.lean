/-
  Props/C06.lean — property theorems for C06 (trash-restore never clobbers an existing destination
  unless --overwrite is given).
-/
import TrashVerif.Model.Cmds
import TrashVerif.Proofs.C06
namespace TrashVerif.C06
open TrashVerif Prog FS

/-- Without --overwrite, if anything exists at the destination — file, directory, symlink, dangling
    or not (the probe is `lexists`) — the entry is refused and no call is issued: the existing entry,
    the payload and the info file are untouched.  Under every oracle. -/
theorem restore_refuses_existing (φ : Oracle) (cwd : CPath) (e : Entry) (s : RunState)
    (h : pLexists s.fs cwd e.loc = true) :
    let r := run φ (restoreOne cwd false e) s
    r.1 = .error .EEXIST ∧ r.2.trace = s.trace ∧ r.2.fs = s.fs := Proofs.C06.restore_refuses_existing φ cwd e s h

/-- A multi-index selection stops at the first refusal: entries after it are not touched. -/
theorem restore_stops_at_refusal (φ : Oracle) (cwd : CPath) (e : Entry) (rest : List Entry) (s : RunState)
    (h : pLexists s.fs cwd e.loc = true) :
    let r := run φ (restoreMany cwd false (e :: rest)) s
    r.1 = .error .EEXIST ∧ r.2.trace = s.trace ∧ r.2.fs = s.fs := Proofs.C06.restore_stops_at_refusal φ cwd e rest s h

/-- The command then exits non-zero with a message: whenever the "die" event was emitted by this
    run (`hfresh`: it was not in the output before), the exit status is 1.
    As first stated (without `hfresh`) the claim is FALSE for a trivial reason: it quantifies over
    every initial run state, and one whose `outs` already contain `stderr "die" []` keeps it while
    e.g. an empty trash makes the command exit 0. -/
theorem refusal_exit_nonzero_partial (φ : Oracle) (c : ReadCfg) (o : RestoreOpts) (reply : Bytes) (s : RunState)
    (hfresh : Out.stderr "die" [] ∉ s.outs)
    (r : CmdResult) (s' : RunState) (hr : run φ (runRestore c o (some reply)) s = (r, s'))
    (hdie : Out.stderr "die" [] ∈ s'.outs) : r.exit = 1 :=
  Proofs.C06.refusal_exit_nonzero_partial φ c o reply s hfresh r s' hr hdie

/-- With --overwrite an existing non-directory at the destination is replaced by a non-directory
    payload (same volume: `rename` replaces atomically) — PROVIDED the payload is not below the
    destination (`hds`) and the info path is not a directory containing the destination (`hid`).
    As first stated (with `hinfo` only) the claim is FALSE, twice:
      * `info = /d` a directory, `dst = /d/f`: after the rename `remove_file(info)` falls back to
        `rmtree(/d)` and deletes the restored file (`get dst = none`);
      * in an ill-formed tree where the file `dst = /a` has the "child" `src = /a/b`, which itself
        has the "child" `/a/b/b`: `rename` moves the subtree, and `/a/b` is occupied again by the
        former `/a/b/b` (`get src ≠ none`). -/
theorem overwrite_replaces_nondir_partial (fs : FS) (src dst info : CPath) (nsrc ndst : Node)
    (hs : fs.get src = some nsrc) (hd : fs.get dst = some ndst) (hsd : nsrc.isDir = false) (hdd : ndst.isDir = false)
    (hdl : ndst.isLink = false)
    (hnm : fs.isMount src = false ∧ fs.isMount dst = false) (hdev : fs.dev (FS.parent src) = fs.dev (FS.parent dst))
    (hpar : fs.isDirAt (FS.parent dst) = true) (hne : src ≠ dst) (hnr : dst ≠ [])
    (hname : ∀ n, dst.getLast? = some n → n.length ≤ 255) (hinfo : info ≠ dst ∧ info ≠ src)
    (hds : ¬ FS.under dst src = true) (hid : ¬ FS.under info dst = true) :
    let r := run noFaults (restoreCore (.ok src) (.ok dst) (.ok info)) { fs := fs }
    r.2.fs.get dst = some nsrc ∧ r.2.fs.get src = none :=
  Proofs.C06.overwrite_replaces_nondir_partial fs src dst info nsrc ndst hs hd hsd hdd hdl hnm hdev hpar hne hnr hname hinfo hds hid

end TrashVerif.C06
