/-
  Props/C06.lean — property theorems for C06 (trash-restore never clobbers an existing destination
  unless --overwrite is given).
-/
import TrashVerif.Model.Cmds
import TrashVerif.Proofs.C06
namespace TrashVerif.C06
open TrashVerif Prog FS

/-- Without --overwrite, if anything exists at the destination — file, directory, symlink, dangling
    or not (the probe is `lexists`) — the entry is refused and no call is issued: the existing entry,
    the payload and the info file are untouched.  Under every oracle. -/
theorem restore_refuses_existing (φ : Oracle) (cwd : CPath) (e : Entry) (s : RunState)
    (h : pLexists s.fs cwd e.loc = true) :
    let r := run φ (restoreOne cwd false e) s
    r.1 = .error .EEXIST ∧ r.2.trace = s.trace ∧ r.2.fs = s.fs := Proofs.C06.restore_refuses_existing φ cwd e s h

/-- A multi-index selection stops at the first refusal: entries after it are not touched. -/
theorem restore_stops_at_refusal (φ : Oracle) (cwd : CPath) (e : Entry) (rest : List Entry) (s : RunState)
    (h : pLexists s.fs cwd e.loc = true) :
    let r := run φ (restoreMany cwd false (e :: rest)) s
    r.1 = .error .EEXIST ∧ r.2.trace = s.trace ∧ r.2.fs = s.fs := Proofs.C06.restore_stops_at_refusal φ cwd e rest s h

/-- The command then exits non-zero with a message: whenever the "die" event was emitted by this
    run (`hfresh`: it was not in the output before), the exit status is 1.
    As first stated (without `hfresh`) the claim is FALSE for a trivial reason: it quantifies over
    every initial run state, and one whose `outs` already contain `stderr "die" []` keeps it while
    e.g. an empty trash makes the command exit 0. -/
theorem refusal_exit_nonzero_partial (φ : Oracle) (c : ReadCfg) (o : RestoreOpts) (reply : Bytes) (s : RunState)
    (hfresh : Out.stderr "die" [] ∉ s.outs)
    (r : CmdResult) (s' : RunState) (hr : run φ (runRestore c o (some reply)) s = (r, s'))
    (hdie : Out.stderr "die" [] ∈ s'.outs) : r.exit = 1 :=
  Proofs.C06.refusal_exit_nonzero_partial φ c o reply s hfresh r s' hr hdie

/-- With --overwrite an existing non-directory at the destination is replaced by a non-directory
    payload (same volume: `rename` replaces atomically) — PROVIDED the payload is not below the
    destination (`hds`) and the info path is not a directory containing the destination (`hid`).
    As first stated (with `hinfo` only) the claim is FALSE, twice:
      * `info = /d` a directory, `dst = /d/f`: after the rename `remove_file(info)` falls back to
        `rmtree(/d)` and deletes the restored file (`get dst = none`);
      * in an ill-formed tree where the file `dst = /a` has the "child" `src = /a/b`, which itself
        has the "child" `/a/b/b`: `rename` moves the subtree, and `/a/b` is occupied again by the
        former `/a/b/b` (`get src ≠ none`). -/
theorem overwrite_replaces_nondir_partial (fs : FS) (src dst info : CPath) (nsrc ndst : Node)
    (hs : fs.get src = some nsrc) (hd : fs.get dst = some ndst) (hsd : nsrc.isDir = false) (hdd : ndst.isDir = false)
    (hdl : ndst.isLink = false)
    (hnm : fs.isMount src = false ∧ fs.isMount dst = false) (hdev : fs.dev (FS.parent src) = fs.dev (FS.parent dst))
    (hpar : fs.isDirAt (FS.parent dst) = true) (hne : src ≠ dst) (hnr : dst ≠ [])
    (hname : ∀ n, dst.getLast? = some n → n.length ≤ 255) (hinfo : info ≠ dst ∧ info ≠ src)
    (hds : ¬ FS.under dst src = true) (hid : ¬ FS.under info dst = true) :
    let r := run noFaults (restoreCore (.ok src) (.ok dst) (.ok info)) { fs := fs }
    r.2.fs.get dst = some nsrc ∧ r.2.fs.get src = none :=
  Proofs.C06.overwrite_replaces_nondir_partial fs src dst info nsrc ndst hs hd hsd hdd hdl hnm hdev hpar hne hnr hname hinfo hds hid

/-- With --overwrite, an entry whose payload is not there (`lexists(files/<name>)` fails — e.g. the
    reply named the same index twice and the first round already moved it) is NOT a licence to
    remove what stands at the destination: when the destination's parent is a directory, the
    restore fails (the `rename` of the missing payload: `ENOENT`, or what the oracle injects) and
    the file system is exactly what it was — in particular the existing destination survives.
    Under every fault oracle.  No further hypothesis is needed: `pLexists … = false` covers both a
    payload string that does not resolve (then `restoreCore` stops at once) and one that resolves to
    a free path (then `shutil.move` issues one `rename`, which fails, and finds nothing to copy). -/
theorem overwrite_keeps_destination_when_payload_missing (φ : Oracle) (cwd : CPath) (e : Entry) (s : RunState)
    (hpar : pIsdir s.fs cwd (dirname e.loc) = true)
    (hpay : pLexists s.fs cwd (pathOfBackupCopy e.info) = false) :
    let r := run φ (restoreOne cwd true e) s
    (∃ er, r.1 = .error er) ∧ r.2.fs = s.fs :=
  Proofs.C06.overwrite_keeps_destination_when_payload_missing φ cwd e s hpar hpay

/-- Non-vacuity: `/d/f` exists, `/t/info/f.trashinfo` too, `/t/files/f` does not. -/
example : pIsdir Proofs.C06.Ex.fsGone [] (dirname Proofs.C06.Ex.entF.loc) = true ∧
    pLexists Proofs.C06.Ex.fsGone [] (pathOfBackupCopy Proofs.C06.Ex.entF.info) = false ∧
    pLexists Proofs.C06.Ex.fsGone [] Proofs.C06.Ex.entF.loc = true := Proofs.C06.Ex.hyps_gone

/-- … and the theorem at work there: the destination `/d/f` is still what it was. -/
example :
    let r := run noFaults (restoreOne [] true Proofs.C06.Ex.entF) { fs := Proofs.C06.Ex.fsGone }
    (∃ er, r.1 = .error er) ∧ lstat r.2.fs [] (b "/d/f") = lstat Proofs.C06.Ex.fsGone [] (b "/d/f") := by
  intro r
  obtain ⟨h1, h2⟩ := overwrite_keeps_destination_when_payload_missing noFaults [] Proofs.C06.Ex.entF
    { fs := Proofs.C06.Ex.fsGone } Proofs.C06.Ex.hyps_gone.1 Proofs.C06.Ex.hyps_gone.2.1
  exact ⟨h1, by rw [h2]⟩

/-- A dangling symbolic link on the way to the destination's parent blocks the restore before a
    single call is issued: when the parent is not a directory and `os.makedirs` would run into the
    link (`danglingOnPath`: `ENOENT` through it, `EEXIST` on it), `restoreOne` returns that error
    and file system and trace are unchanged (payload and info file stay in the trash).  With
    --overwrite as it stands; without it provided nothing is at the destination (else the entry is
    refused with `EEXIST` first, `restore_refuses_existing`).  Under every fault oracle. -/
theorem restore_blocked_by_dangling_parent (φ : Oracle) (cwd : CPath) (overwrite : Bool) (e : Entry) (s : RunState)
    (er : Errno)
    (hnd : pIsdir s.fs cwd (dirname e.loc) = false)
    (hd : danglingOnPath s.fs cwd (dirname e.loc) = some er)
    (hfree : overwrite = false → pLexists s.fs cwd e.loc = false) :
    let r := run φ (restoreOne cwd overwrite e) s
    r.1 = .error er ∧ r.2.fs = s.fs ∧ r.2.trace = s.trace :=
  Proofs.C06.restore_blocked_by_dangling_parent φ cwd overwrite e s er hnd hd hfree

/-- Non-vacuity: `/d -> /nowhere` (missing).  Restoring to `/d/f` meets the hypotheses with
    `EEXIST`, restoring to `/d/sub/f` with `ENOENT`; nothing is at either destination, so both
    `overwrite = false` and `overwrite = true` are covered. -/
example :
    (pIsdir Proofs.C06.Ex.fsLink [] (dirname Proofs.C06.Ex.entOn.loc) = false ∧
     danglingOnPath Proofs.C06.Ex.fsLink [] (dirname Proofs.C06.Ex.entOn.loc) = some .EEXIST ∧
     pLexists Proofs.C06.Ex.fsLink [] Proofs.C06.Ex.entOn.loc = false) ∧
    (pIsdir Proofs.C06.Ex.fsLink [] (dirname Proofs.C06.Ex.entThrough.loc) = false ∧
     danglingOnPath Proofs.C06.Ex.fsLink [] (dirname Proofs.C06.Ex.entThrough.loc) = some .ENOENT ∧
     pLexists Proofs.C06.Ex.fsLink [] Proofs.C06.Ex.entThrough.loc = false) :=
  ⟨Proofs.C06.Ex.hyps_on, Proofs.C06.Ex.hyps_through⟩

/-! ### `fs.mkdirs(parent)` works on the path STRING (`os.makedirs`): `.` and `..` components -/

/-- Recorded `Path=/w/gone/../precious.txt`; `/w/precious.txt` exists, `/w/gone` does not.  Nothing
    `lexists` at the destination as spelled (`/w/gone` is missing), so the entry is not refused;
    `isdir("/w/gone/..")` is false; `os.makedirs("/w/gone/..")` makes the head `/w/gone`, then
    `mkdir("/w/gone/..")` fails with `EEXIST`, which is raised.  The run: the restore fails with
    `EEXIST`, the directory `/w/gone` HAS BEEN CREATED, `/w/precious.txt` is what it was, info file
    and payload are still in the trash; exactly two `mkdir` calls were issued (trace newest first). -/
theorem restore_dotdot_through_missing_creates_dir :
    let r := run noFaults (restoreOne [] false Proofs.C06.Ex.entDots) { fs := Proofs.C06.Ex.fsDots }
    r.1 = .error .EEXIST ∧
    Proofs.C06.Ex.fsDots.get [b "w", b "gone"] = none ∧ r.2.fs.get [b "w", b "gone"] = some (.dir 0o755 0) ∧
    r.2.fs.get [b "w", b "precious.txt"] = Proofs.C06.Ex.fsDots.get [b "w", b "precious.txt"] ∧
    r.2.fs.get [b "t", b "info", b "p.trashinfo"] = Proofs.C06.Ex.fsDots.get [b "t", b "info", b "p.trashinfo"] ∧
    r.2.fs.get [b "t", b "files", b "p"] = Proofs.C06.Ex.fsDots.get [b "t", b "files", b "p"] ∧
    r.2.trace = [(.mkdir [b "w"] 0o777, .error .EEXIST), (.mkdir [b "w", b "gone"] 0o777, .ok ())] :=
  Proofs.C06.Ex.restore_dotdot_through_missing_creates_dir

/-- … the world and the branch taken: the entry's location is `/w/gone/../precious.txt`, nothing
    `lexists` there, its parent is not a directory, no dangling link stands on the way, and the
    parent string has a dot component (so the string-level `makedirsStr` runs). -/
example : Proofs.C06.Ex.entDots.loc = b "/w/gone/../precious.txt" ∧
    pLexists Proofs.C06.Ex.fsDots [] Proofs.C06.Ex.entDots.loc = false ∧
    pIsdir Proofs.C06.Ex.fsDots [] (dirname Proofs.C06.Ex.entDots.loc) = false ∧
    danglingOnPath Proofs.C06.Ex.fsDots [] (dirname Proofs.C06.Ex.entDots.loc) = none ∧
    hasDotComp (dirname Proofs.C06.Ex.entDots.loc) = true := ⟨rfl, Proofs.C06.Ex.hyps_dots⟩

/-- What a restore without --overwrite that never reached its `rename` can have done, in general
    and under every fault oracle: it failed, it issued nothing but `mkdir` calls, and every path
    holds what it held — or a directory that is new, or that was a directory of the same mode (its
    mtime may be fresh: an entry was added to it).  In particular every existing file, link and
    directory survives, payload and info file included.  (`restore_refuses_existing` and
    `restore_blocked_by_dangling_parent` are the cases where not even a `mkdir` is issued;
    `restore_dotdot_through_missing_creates_dir` is a case where directories are left behind.) -/
theorem restore_without_rename_only_makes_dirs (φ : Oracle) (cwd : CPath) (e : Entry) (fs : FS) :
    let r := run φ (restoreOne cwd false e) { fs := fs }
    (∀ a c res, (Call.rename a c, res) ∉ r.2.trace) →
    (∃ er, r.1 = .error er) ∧ (∀ cr ∈ r.2.trace, ∃ p m, cr.1 = .mkdir p m) ∧
    ∀ q, r.2.fs.get q = fs.get q ∨
      ∃ m t, r.2.fs.get q = some (.dir m t) ∧ (fs.get q = none ∨ ∃ t', fs.get q = some (.dir m t')) :=
  Proofs.C06.restore_without_rename_only_makes_dirs φ cwd e fs

/-- The destination is looked at AGAIN once `fs.mkdirs(parent)` is done (fix c1a65fe; before it an
    existing file could be replaced without --overwrite).  Recorded
    `Path=/w/gone/../sub/./precious.txt`; `/w/sub/precious.txt` exists, `/w/gone` does not.  The first
    probe `lexists(destination)` fails (`/w/gone` is missing), so the entry is not refused at once;
    `os.makedirs("/w/gone/../sub/.")` makes `/w/gone`, swallows the `FileExistsError` of
    `mkdir("/w/gone/..")` and of `mkdir("/w/gone/../sub")`, and returns at the tail `.`; the
    destination string now resolves to the existing file, and the second probe refuses the entry:
    `EEXIST` (the same refusal as the first), `/w/sub/precious.txt` keeps its content, payload and
    info file are still in the trash, the directory `/w/gone` stays; three `mkdir` calls, no `rename`. -/
theorem restore_dot_after_dotdot_refused :
    pLexists Proofs.C06.Ex.fsClobber [] Proofs.C06.Ex.entClobber.loc = false ∧
    (let r := run noFaults (restoreOne [] false Proofs.C06.Ex.entClobber) { fs := Proofs.C06.Ex.fsClobber }
     r.1 = .error .EEXIST ∧
     pLexists r.2.fs [] Proofs.C06.Ex.entClobber.loc = true ∧
     r.2.fs.get [b "w", b "sub", b "precious.txt"] = some (.file (b "precious") 0o644 7) ∧
     r.2.fs.get [b "w", b "gone"] = some (.dir 0o755 0) ∧ Proofs.C06.Ex.fsClobber.get [b "w", b "gone"] = none ∧
     r.2.fs.get [b "t", b "files", b "p"] = Proofs.C06.Ex.fsClobber.get [b "t", b "files", b "p"] ∧
     r.2.fs.get [b "t", b "info", b "p.trashinfo"] = Proofs.C06.Ex.fsClobber.get [b "t", b "info", b "p.trashinfo"] ∧
     (Proofs.C06.Ex.fsClobber.get [b "t", b "files", b "p"]).isSome = true ∧
     r.2.trace = [(.mkdir [b "w", b "sub"] 0o777, .error .EEXIST), (.mkdir [b "w"] 0o777, .error .EEXIST),
                  (.mkdir [b "w", b "gone"] 0o777, .ok ())]) :=
  Proofs.C06.Ex.restore_dot_after_dotdot_refused

/-- Without --overwrite nothing is ever renamed over an existing node — in general, under every
    fault oracle, whatever the recorded path (dot components, links, missing parents): every `rename`
    the restore of an entry issues (successful or not; there is at most one, `shutil.move`'s) is
    issued in a state in which nothing is at its destination.  `hist` holds the file system before
    each call of `trace` (both newest first, of the same length), so
    `(x, (rename a d, res)) ∈ zip hist trace` says that `x` is the state `rename a d` was issued in.
    (The copy fallback after a failed `rename` issues no `rename`; it creates its destination with
    `mkdir`/`symlink`/`open(…,'wb')` at the same, still free, path.) -/
theorem restore_never_clobbers (φ : Oracle) (cwd : CPath) (e : Entry) (fs : FS) :
    let r := run φ (restoreOne cwd false e) { fs := fs }
    r.2.hist.length = r.2.trace.length ∧
    ∀ x a d res, (x, (Call.rename a d, res)) ∈ r.2.hist.zip r.2.trace → x.get d = none :=
  Proofs.C06.restore_never_clobbers φ cwd e fs

end TrashVerif.C06
