/-
  Props/C17.lean — property theorems for C17 (under file-system errors trash-put terminates, falls
  back, and reports honestly).  `φ` is an arbitrary fault oracle: it may answer any call, at any
  position, with any errno.
-/
import TrashVerif.Props.PutCoreDefs
import TrashVerif.Proofs.C17
namespace TrashVerif.C17
open TrashVerif PutCore Prog

/-- An error no other name can cure ends the search for a name at once (no endless retry): one
    call was issued, nothing changed, the candidate fails with that error. -/
theorem persist_gives_up (φ : Oracle) (fs : FS) (infoC filesC : CPath) (base content : Bytes) (st : PutSt)
    (e : Errno) (fuel index : Nat) (tooLong : Bool) (he : e ≠ .EEXIST) (hl : e ≠ .ENAMETOOLONG ∨ tooLong = true)
    (s0 : RunState)
    (hfree : lexistsC s0.fs (filesC ++ [stemOf (trashinfoBasename base (suffixFor index st).1 tooLong)]) = false)
    (hφ : φ s0.n (kindCount s0.trace "createExcl")
            (.createExcl (infoC ++ [trashinfoBasename base (suffixFor index st).1 tooLong]) 0o600) = some e) :
    let res := run φ (persistLoop infoC filesC base content (fuel + 1) index tooLong st) s0
    res.1.1 = .failed e ∧ res.2.fs = s0.fs ∧ res.2.n = s0.n + 1 :=
  Proofs.C17.persist_gives_up φ fs infoC filesC base content st e fuel index tooLong he hl s0 hfree hφ

/-- The search for a name always ends within its budget: every iteration either stops or moves to
    the next index (the model's fuel is an upper bound on the calls issued). -/
theorem persist_bounded (φ : Oracle) (infoC filesC : CPath) (base content : Bytes) (st : PutSt)
    (fuel index : Nat) (tooLong : Bool) (s0 : RunState) :
    (run φ (persistLoop infoC filesC base content fuel index tooLong st) s0).2.n ≤ s0.n + 4 * fuel :=
  Proofs.C17.persist_bounded φ infoC filesC base content st fuel index tooLong s0

/-- Whatever the file system answers to the creation, write and close of the info file — as long as
    the rename itself and the clean-up unlink are not the failing calls — the outcome is honest:
    success means the entry is wholly in the trash; failure means nothing is left behind. -/
theorem put_faulty_conserves_partial (φ : Oracle) (fs : FS) (infoC filesC src : CPath) (base content : Bytes)
    (st : PutSt) (h : Setting fs infoC filesC src)
    (hren : ∀ n k a c, φ n k (.rename a c) = none) (hunl : ∀ n k p, φ n k (.unlink p) = none) :
    let res := run φ (putCore infoC filesC base content (fun _ => .ok src) st) { fs := fs }
    (∀ name, res.1.1 = .ok name → Trashed fs res.2.fs infoC filesC src name content) ∧
    (∀ r, res.1.1 = .error r → (∃ e, r = .persistError e) ∧ Untouched fs res.2.fs infoC) :=
  Proofs.C17.put_faulty_conserves_partial φ fs infoC filesC src base content st h hren hunl

end TrashVerif.C17
