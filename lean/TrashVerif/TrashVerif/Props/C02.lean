/-
  Props/C02.lean — property theorems for C02 (put then restore returns the exact entry to its exact
  original path).  Resolved layer: the put core followed by the restore core is the identity on the
  entry and on everything else (up to directory mtimes); string layer: the location written by put
  is read back exactly by restore (C03) and is in scope of its directory and of every ancestor.
-/
import TrashVerif.Props.PutCoreDefs
import TrashVerif.Model.Cmds
import TrashVerif.Proofs.C02
namespace TrashVerif.C02
open TrashVerif PutCore Prog FS

/-- Put, then restore to the original canonical location: every node of the entry is back at its
    path with identical bytes, link targets, modes and mtimes; payload and info file are gone from
    the trash; every path other than the directories whose entry lists changed is as before.

    Two hypotheses beyond the `Setting` are needed; without them the statement is FALSE:
    * `hnotMount` — the (absent) payload path `files/N` is not an entry of the mount table.  Otherwise
      the put still succeeds, but the restore's `rename` gets EBUSY and, for a directory, the copy
      fallback of `shutil.move` fails in `rmtree` (`Proofs.C02.restore_put_id_counterexample_mount`).
    * `hfreeBelow` — no node lies below the free payload name.  The flat `FS` allows orphan nodes
      (parent absent); such a node is overwritten by the put's `rename` and is not back after the
      restore (`Proofs.C02.restore_put_id_counterexample_orphan`).  In a tree-shaped file system it
      follows from `Trashed.wasFreePayload` (`Proofs.C02.free_below_of_tree`). -/
theorem restore_put_id_partial (fs : FS) (infoC filesC src : CPath) (base content : Bytes) (st st' : PutSt)
    (h : Setting fs infoC filesC src) (name : Bytes) (s1 : RunState)
    (hr : run noFaults (putCore infoC filesC base content (fun _ => .ok src) st) { fs := fs } = ((.ok name, st'), s1))
    (hpar : fs.isDirAt (FS.parent src) = true)
    (hlen : ∀ n, src.getLast? = some n → n.length ≤ 255)
    (hnotMount : fs.isMount (filesC ++ [stemOf name]) = false)
    (hfreeBelow : ∀ rel, fs.get (filesC ++ [stemOf name] ++ rel) = none) :
    let r := run noFaults (restoreCore (.ok (filesC ++ [stemOf name])) (.ok src) (.ok (infoC ++ [name]))) { fs := s1.fs }
    r.1 = .ok () ∧
    (∀ rel, r.2.fs.get (src ++ rel) = fs.get (src ++ rel)) ∧
    r.2.fs.get (filesC ++ [stemOf name]) = none ∧ r.2.fs.get (infoC ++ [name]) = none ∧
    (∀ q, ¬ FS.under src q = true → q ≠ FS.parent src → q ≠ filesC → q ≠ infoC → r.2.fs.get q = fs.get q) :=
  Proofs.C02.restore_put_id_partial fs infoC filesC src base content st st' h name s1 hr hpar hlen hnotMount hfreeBelow

/-- `hfreeBelow` of `restore_put_id_partial` holds in every tree-shaped file system (each node's
    parent exists) once the payload name itself is free — which a successful put guarantees. -/
theorem free_below_of_tree (fs : FS) (htree : ∀ q x, (fs.get (q ++ [x])).isSome = true → (fs.get q).isSome = true)
    (p : CPath) (hp : fs.get p = none) : ∀ rel, fs.get (p ++ rel) = none :=
  Proofs.C02.free_below_of_tree htree hp

/-- The location recorded by put and read back by restore is in scope of its own directory, of
    every ancestor directory, of "/" and of itself as a path argument. -/
theorem inScope_self_and_ancestors (dir rest : Bytes) (hd : dir ≠ []) (hr : rest ≠ []) (hs : rest.head? ≠ some slash)
    (hnt : dir.getLast? ≠ some slash ∨ dir = [slash]) :
    let loc := (if dir = [slash] then dir else dir ++ [slash]) ++ rest
    inScope dir loc = true ∧ inScope loc loc = true ∧ inScope [slash] loc = true :=
  Proofs.C02.inScope_self_and_ancestors dir rest hd hr hs hnt

/-- restore reads back exactly what put wrote: path (byte for byte, any bytes) and date -/
theorem restore_reads_what_put_wrote (loc : Bytes) (d : Date) (hd : d.valid = true) (hy : 1000 ≤ d.y) :
    (readText (formatTrashinfoWith loc d.fmt)).bind parsePath = some loc ∧
    (readText (formatTrashinfoWith loc d.fmt)).bind parseDeletionDate = some d :=
  Proofs.C02.restore_reads_what_put_wrote loc d hd hy

/-- the payload path restore derives from the info path is the one put moved the entry to -/
theorem payload_path_roundtrip (t stem : Bytes) (ht : t ≠ [] ∧ t.getLast? ≠ some slash) (hn : stem ≠ [] ∧ slash ∉ stem) :
    pathOfBackupCopy (pjoin (pjoin t (b "info")) (stem ++ trashinfoExt)) = pjoin (pjoin t (b "files")) stem :=
  Proofs.C02.payload_path_roundtrip t stem ht hn

end TrashVerif.C02
