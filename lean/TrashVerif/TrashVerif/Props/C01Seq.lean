/-
  Props/C01Seq.lean — C01 (trash-put conserves data) for a WHOLE RUN over N arguments.

  Props/C01.lean is the put core on one entry; Props/C07Cmd.lean whole one-argument runs;
  Props/C16Seq.lean shows that the N-argument run is the fold of the one-argument handling and that the
  hypotheses on the later arguments survive the trashing of the first (`home_items_after`), and records
  the missing piece: a frame lemma that carries the `Trashed` facts of argument i through the
  trashings i+1..N-1.  That lemma is `Proofs.C01Seq.chain` (direct induction over the list, using only
  `PutCore.Trashed` of each step — `C01.put_ok_moves_whole` — and `home_items_after`); here are its
  command-level consequences.

  Setting: `HomeWorld` / `HomeItems` of Props/C16SeqDefs.lean (everyday world, everyday arguments in
  canonical absolute spelling, home trash only and already there, fault-free, no scripted random numbers).
  The theorems are PARTIAL with respect to the intent of C01 in exactly the ways
  `C16Seq.n_args_independent_partial` is; inside that setting nothing is left out.

  (1) `n_args_all_trashed_whole`: `AllTrashed` (Props/C01SeqDefs.lean) of the initial and the final file
      system of `trash-put x₀ … x_{N-1}`: for EVERY item — not only the last — the origin is gone
      (every path at/below it), `files/<name_k>` holds node for node the subtree that was at the origin in
      the INITIAL file system, `info/<name_k>.trashinfo` holds the text written for it; both names were
      free initially; names and payload names are pairwise distinct; every path that is clear of all
      items (`Clear`) and is none of the directories an entry was removed from / added to (`x.P` of an
      item, `files/`, `info/` — the exceptions of `PutCore.Trashed.frame`, once per item) is as in the
      initial file system; every directory clear of all items — in particular those three kinds
      (`touched_dirs_kept`) — keeps kind and mode (only its mtime may be fresh).  No trash directory is
      created in this setting (`HomeWorld`: it exists).
  (2) `n_args_mixed`: the same for an argument list in which INERT arguments (`C16Indep.Inert`: dot
      entries, paths that do not exist, entries all of whose candidate trash directories are refused) stand
      at ANY positions between, before and after the items (`Interleaved`; each inert where it stands,
      i.e. in the file system the items before it left): the final file system is the one of the run
      without them — so inert arguments leave the file system alone and the others are trashed whole —,
      no exception escapes, every argument is reported, in order.  `n_args_inert_around`: the special
      case "inert arguments in front (in the initial file system) and behind (in the final one)".
      NOT covered (what `_partial` would mean here): arguments that FAIL AFTER system calls that change
      something (e.g. a trash directory that gets created and is then unusable) — they are not `Inert`;
      `C16Indep.Silent` arguments that are not inert are covered only in front
      (`C16Indep.silent_prefix_transparent`).
  (2b) `run_is_puts_chain`: the N-argument run IS a `C04Seq.Puts` chain (bridge to the core-level theorems
      of Props/C04Seq.lean); `n_args_exact_names`: `C04Seq.n_puts_count` for the whole run.
  (3) `three_args_world`: HOME=/h with its trash, the file `/p/x`, the tree `/q/d`, nothing at `/nope`;
      `trash-put /p/x /nope /q/d` evaluated by the kernel, final state listed node for node;
      `three_args_instance`: theorem (2) at work on it.
-/
import TrashVerif.Props.C01
import TrashVerif.Props.C16Seq
import TrashVerif.Props.C04Seq
import TrashVerif.Props.C01SeqDefs
import TrashVerif.Proofs.C01Seq
import TrashVerif.Proofs.C01SeqEx
namespace TrashVerif.C01Seq
open TrashVerif Prog FS PutCore C16Indep C16Seq

/-- the command-level run over the items reaches exactly the file system of the chain of put cores, each
    run in the state its predecessor left (the bridge to the core level, cf. `C16Seq.home_items_after`) -/
theorem run_fs_is_chain (c : PutCfg) (fs : FS) (H : CPath) (st : PutSt) (items : List Item)
    (W : HomeWorld c fs H) (hints : st.ints = []) (HI : HomeItems c fs H st items) :
    (run noFaults (runPut c (items.map Item.arg) st) { fs := fs }).2.fs = coreFs c H st items fs :=
  Proofs.C01Seq.run_fs W hints HI

/-- (1) N EVERYDAY ARGUMENTS ARE ALL TRASHED WHOLE, AND NOTHING ELSE CHANGES.  See the header and
    `AllTrashed`. -/
theorem n_args_all_trashed_whole (c : PutCfg) (fs : FS) (H : CPath) (st : PutSt) (items : List Item)
    (W : HomeWorld c fs H) (hints : st.ints = []) (HI : HomeItems c fs H st items) :
    AllTrashed c H fs (run noFaults (runPut c (items.map Item.arg) st) { fs := fs }).2.fs items := by
  rw [run_fs_is_chain c fs H st items W hints HI]
  exact Proofs.C01Seq.chain items fs W HI

/-- the directories an entry was removed from / added to are clear of every item: the parent of each
    origin, `files/` and `info/` keep kind and mode -/
theorem touched_dirs_kept (c : PutCfg) (fs : FS) (H : CPath) (st : PutSt) (items : List Item)
    (W : HomeWorld c fs H) (hints : st.ints = []) (HI : HomeItems c fs H st items) :
    let fsN := (run noFaults (runPut c (items.map Item.arg) st) { fs := fs }).2.fs
    (∀ x ∈ items, keptDir fs fsN x.P) ∧ keptDir fs fsN (filesC H) ∧ keptDir fs fsN (infoC H) := by
  intro fsN
  have A := n_args_all_trashed_whole c fs H st items W hints HI
  exact ⟨fun x hx => A.dirs _ (Proofs.C01Seq.clear_parent HI hx), A.dirs _ (Proofs.C01Seq.clear_files HI),
    A.dirs _ (Proofs.C01Seq.clear_infoDir HI)⟩

/-- THE BRIDGE TO THE CORE LEVEL (Props/C04Seq.lean).  The N-argument command-level run IS a chain of N
    successful put cores in the sense of `C04Seq.Puts` — each in the `Setting` of the core in the state
    its predecessors left, with the items' origins, names and info texts — ending in the final file
    system of the run.  So every theorem about `Puts` chains (`C04Seq.n_puts_distinct_pairs`,
    `n_puts_preserve_earlier`, `n_puts_count`) applies to whole runs of `trash-put`. -/
theorem run_is_puts_chain (c : PutCfg) (fs : FS) (H : CPath) (st : PutSt) (items : List Item)
    (W : HomeWorld c fs H) (hints : st.ints = []) (HI : HomeItems c fs H st items) :
    ∃ ks, C04Seq.Puts (infoC H) (filesC H) fs st ks
        (run noFaults (runPut c (items.map Item.arg) st) { fs := fs }).2.fs st ∧
      ks.map (·.src) = items.map Item.src ∧ ks.map (·.name) = items.map (·.name) ∧
      ks.map (·.content) = items.map (contentOf c) := by
  rw [run_fs_is_chain c fs H st items W hints HI]
  exact Proofs.C01Seq.puts_chain hints items fs W HI

/-- … e.g. `C04Seq.n_puts_count` for the whole run: the names in `files/` (resp. `info/`) after the run
    are the initial ones plus exactly the items' (no stray `.trashinfo`, no partial copy under another
    name) -/
theorem n_args_exact_names (c : PutCfg) (fs : FS) (H : CPath) (st : PutSt) (items : List Item)
    (W : HomeWorld c fs H) (hints : st.ints = []) (HI : HomeItems c fs H st items) :
    let fsN := (run noFaults (runPut c (items.map Item.arg) st) { fs := fs }).2.fs
    (∀ n, (fsN.get (filesC H ++ [n])).isSome = true ↔
      ((fs.get (filesC H ++ [n])).isSome = true ∨ n ∈ items.map fun x => stemOf x.name)) ∧
    (∀ n, (fsN.get (infoC H ++ [n])).isSome = true ↔
      ((fs.get (infoC H ++ [n])).isSome = true ∨ n ∈ items.map (·.name))) := by
  intro fsN
  obtain ⟨ks, hk, _, e2, _⟩ := run_is_puts_chain c fs H st items W hints HI
  have h := C04Seq.n_puts_count _ _ _ _ _ _ ks hk
  have e2' : (ks.map fun k => stemOf k.name) = items.map fun x => stemOf x.name := by
    have := congrArg (List.map stemOf) e2
    rw [List.map_map, List.map_map] at this
    exact this
  rw [e2, e2'] at h
  exact ⟨h.1, h.2.1⟩

/-- (2) INERT ARGUMENTS AT ANY POSITIONS.  `args` is the list of the items' spellings with inert
    arguments put in anywhere (`Interleaved`).  The final file system is that of the chain of the items
    alone — `AllTrashed` holds of it —, it equals the final file system of the run WITHOUT the inert
    arguments, no exception escaped, and every argument was reported, in order. -/
theorem n_args_mixed (c : PutCfg) (fs : FS) (H : CPath) (st : PutSt) (items : List Item) (args : List Bytes)
    (W : HomeWorld c fs H) (hints : st.ints = []) (HI : HomeItems c fs H st items)
    (hI : Interleaved c H st fs args items) :
    let r := run noFaults (runPut c args st) { fs := fs }
    AllTrashed c H fs r.2.fs items ∧
    r.2.fs = (run noFaults (runPut c (items.map Item.arg) st) { fs := fs }).2.fs ∧
    r.1.crash = none ∧ r.1.outcomes.map (·.1) = args := by
  intro r
  obtain ⟨h1, h2, h3⟩ := Proofs.C01Seq.run_mixed W hints HI hI
  refine ⟨?_, ?_, h2, h3⟩
  · show AllTrashed c H fs (run noFaults (runPut c args st) { fs := fs }).2.fs items
    rw [h1]; exact Proofs.C01Seq.chain items fs W HI
  · show (run noFaults (runPut c args st) { fs := fs }).2.fs = _
    rw [h1, run_fs_is_chain c fs H st items W hints HI]

/-- … the special case "inert arguments in front and behind": `pre` inert in the initial file system,
    `post` inert in the file system the items left -/
theorem n_args_inert_around (c : PutCfg) (fs : FS) (H : CPath) (st : PutSt) (items : List Item) (pre post : List Bytes)
    (W : HomeWorld c fs H) (hints : st.ints = []) (HI : HomeItems c fs H st items)
    (hpre : ∀ a ∈ pre, Inert c fs a)
    (hpost : ∀ a ∈ post, Inert c (run noFaults (runPut c (items.map Item.arg) st) { fs := fs }).2.fs a) :
    let r := run noFaults (runPut c (pre ++ items.map Item.arg ++ post) st) { fs := fs }
    AllTrashed c H fs r.2.fs items ∧ r.1.crash = none := by
  intro r
  rw [run_fs_is_chain c fs H st items W hints HI] at hpost
  have := n_args_mixed c fs H st items _ W hints HI (Proofs.C01Seq.interleaved_around pre post items fs hpre hpost)
  exact ⟨this.1, this.2.2.1⟩

/-- without inert arguments `Interleaved` always holds: (1) is the instance of (2) -/
theorem interleaved_items (c : PutCfg) (H : CPath) (st : PutSt) (items : List Item) (fs : FS) :
    Interleaved c H st fs (items.map Item.arg) items := Proofs.C01Seq.interleaved_items c H st items fs

/-! ### (3) non-vacuity -/

section examples
open Proofs.C01SeqEx
open TrashVerif.Proofs.C16IndepHome.Ex (dN H cfgH st0)

/-- World `fs3`: HOME=/h with `.local/share/Trash/{files,info}`, the file `/p/x`, the directory tree `/q/d`
    (`in`, `sub/deep`; modes and mtimes all different), nothing at `/nope`; one volume.
    `trash-put /p/x /nope /q/d`, evaluated by the kernel: the FINAL STATE, node for node (`expected`:
    the tree whole under `files/d` with its modes and mtimes, `files/x`, the two info files, and the
    ten directories that were there), the three reports, exit status 74, the one line on stderr. -/
theorem three_args_world :
    let r := run noFaults (runPut cfgH [b "/p/x", b "/nope", b "/q/d"] st0) { fs := fs3 }
    r.2.fs.toList =
      [(filesC H ++ [b "d"], .dir 0o750 5), (filesC H ++ [b "d", b "in"], .file (b "two") 0o600 3),
       (filesC H ++ [b "d", b "sub"], .dir 0o755 4), (filesC H ++ [b "d", b "sub", b "deep"], .file (b "three") 0o644 2),
       (infoC H ++ [b "d.trashinfo"], .file (b "[Trash Info]\nPath=/q/d\nDeletionDate=D\n") 0o600 0),
       (filesC H ++ [b "x"], .file (b "one") 0o644 7),
       (infoC H ++ [b "x.trashinfo"], .file (b "[Trash Info]\nPath=/p/x\nDeletionDate=D\n") 0o600 0),
       ([], dN), (H, dN), (H ++ [b ".local"], dN), (H ++ [b ".local", b "share"], dN), (trashC H, dN), (filesC H, dN),
       (infoC H, dN), ([b "p"], dN), ([b "q"], dN)] ∧
    r.1.outcomes = [(b "/p/x", .trashed (b "/h/.local/share/Trash") (b "x.trashinfo")), (b "/nope", .failedMissing),
       (b "/q/d", .trashed (b "/h/.local/share/Trash") (b "d.trashinfo"))] ∧
    r.1.exit = 74 ∧ r.2.outs = [.stderr "cannot-trash" (b "/nope")] := by
  intro r
  have hr : r = run noFaults (Proofs.C16Eval.runPutS cfgH args3 st0) { fs := fs3 } := by
    show run noFaults (runPut cfgH args3 st0) { fs := fs3 } = _
    rw [Proofs.C16Eval.runPut_eq]
  rw [hr]; exact run3

/-- the hypotheses of (1) and (2) hold in that world (`HomeWorld`, `HomeItems` of the two items,
    `/nope` inert where it stands), and (2) applies: both items are trashed whole, the rest is framed -/
theorem three_args_instance :
    HomeWorld cfgH fs3 H ∧ HomeItems cfgH fs3 H st0 [ix, id] ∧
    Interleaved cfgH H st0 fs3 [b "/p/x", b "/nope", b "/q/d"] [ix, id] ∧
    AllTrashed cfgH H fs3 (run noFaults (runPut cfgH [b "/p/x", b "/nope", b "/q/d"] st0) { fs := fs3 }).2.fs [ix, id] :=
  ⟨world3, items3, interleaved3, (n_args_mixed cfgH fs3 H st0 [ix, id] args3 world3 rfl items3 interleaved3).1⟩

/-- … e.g. the deep file of the tree: `files/d/sub/deep` in the final state IS `/q/d/sub/deep` of the
    initial state, and `/q/d/sub/deep` is gone — from the general theorem, not by evaluation -/
example :
    let fsN := (run noFaults (runPut cfgH [b "/p/x", b "/nope", b "/q/d"] st0) { fs := fs3 }).2.fs
    fsN.get (filesC H ++ [stemOf id.name] ++ [b "sub", b "deep"]) = fs3.get (id.src ++ [b "sub", b "deep"]) ∧
    fsN.get (id.src ++ [b "sub", b "deep"]) = none :=
  ⟨three_args_instance.2.2.2.whole id (by simp) _, three_args_instance.2.2.2.gone id (by simp) _⟩

end examples

section audit
#print axioms run_fs_is_chain
#print axioms n_args_all_trashed_whole
#print axioms touched_dirs_kept
#print axioms run_is_puts_chain
#print axioms n_args_exact_names
#print axioms n_args_mixed
#print axioms n_args_inert_around
#print axioms interleaved_items
#print axioms three_args_world
#print axioms three_args_instance
end audit

end TrashVerif.C01Seq
