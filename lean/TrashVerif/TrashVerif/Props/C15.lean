/-
  Props/C15.lean — property theorems for C15 (killing restore, empty or rm never strands a payload
  without info).
-/
import TrashVerif.Model.Cmds
import TrashVerif.Proofs.C15
namespace TrashVerif.C15
open TrashVerif Prog FS

/-- trash-rm / trash-empty: the info file is the last thing removed.  In every state a kill can
    leave behind while one entry is purged, as long as anything of the payload is still there
    (its root exists) the info file is untouched — under every fault oracle. -/
theorem purge_info_last (φ : Oracle) (fs : FS) (payload info : CPath) (h : ¬ FS.under payload info = true)
    (hp : info ≠ FS.parent payload) :
    ∀ s ∈ crashStates φ (purgePair (.ok payload) (.ok info)) fs,
      (s.get payload).isSome = true → s.get info = fs.get info := Proofs.C15.purge_info_last φ fs payload info h hp

/-- Re-running the purge of an entry on any such state completes it (fault-free): payload and
    info file are both gone — PROVIDED what is left of the payload is a well-formed tree.
    As first stated (with `hs`, `hwf`, `hi` only) the claim is FALSE in the flat file-system model,
    which allows states no real file system has; three counterexamples (`s` the initial state):
      * an orphan below the payload (`/a` a directory, `/a/b/c` present, `/a/b` absent): `rmdir /a`
        answers ENOTEMPTY although `/a` lists no entry;
      * a mount point below the payload: `rmdir` answers EBUSY;
      * the info path inside the payload (`info = payload/x`): it disappears with the payload and
        `remove_file2(info)` then raises ENOENT.
    The three added hypotheses exclude exactly these: `hout` (info not at or below the payload),
    `htree` (at or below the payload, the parent of every present path is a directory), `hmnt`
    (no mount point at or below the payload).  (`info` may be `payload`'s parent: `hi` suffices.) -/
theorem purge_rerun_completes_partial (fs : FS) (payload info : CPath) (s : FS)
    (hs : s ∈ crashStates noFaults (purgePair (.ok payload) (.ok info)) fs)
    (hwf : ∀ q, (s.get q).isSome = true → q ∈ s.dom)
    (hi : ∀ m t, s.get info ≠ some (.dir m t))
    (hout : ¬ FS.under payload info = true)
    (htree : ∀ q x, FS.under payload q = true → (s.get (q ++ [x])).isSome = true → s.isDirAt q = true)
    (hmnt : ∀ q, FS.under payload q = true → s.isMount q = false) :
    let r := run noFaults (purgePair (.ok payload) (.ok info)) { fs := s }
    (s.get info).isSome = true → r.1 = .ok () ∧ r.2.fs.get payload = none ∧ r.2.fs.get info = none :=
  Proofs.C15.purge_rerun_completes_partial fs payload info s hs hwf hi hout htree hmnt

/-- trash-restore (same-volume case: the move is one rename): in every state a kill can leave
    behind the entry is complete in the trash (with its info file) or complete at its destination —
    PROVIDED the info path is not a directory that contains the destination (`hid`).
    As first stated (without `hid`) the claim is FALSE: with `info = /a` a directory and
    `dst = /a/b` (all of `hapart` holds), `remove_file(info)` falls back to `rmtree(/a)`, which
    unlinks the freshly restored `/a/b`: a crash state with neither the payload nor the destination. -/
theorem restore_crash_inv_partial (fs : FS) (src dst info : CPath)
    (hsrc : (fs.get src).isSome = true) (hnm : fs.isMount src = false) (hdst : fs.get dst = none)
    (hpar : fs.isDirAt (FS.parent dst) = true) (hdev : fs.dev (FS.parent src) = fs.dev (FS.parent dst))
    (hname : ∀ n, dst.getLast? = some n → n.length ≤ 255)
    (hapart : ¬ FS.under src dst = true ∧ ¬ FS.under dst src = true ∧ ¬ FS.under src info = true ∧ ¬ FS.under dst info = true)
    (hnr : dst ≠ [])
    (hid : ¬ FS.under info dst = true ∨ ∀ m t, fs.get info ≠ some (.dir m t)) :
    ∀ s ∈ crashStates noFaults (restoreCore (.ok src) (.ok dst) (.ok info)) fs,
      ((∀ rel, s.get (src ++ rel) = fs.get (src ++ rel)) ∧ s.get info = fs.get info) ∨
      (∀ rel, s.get (dst ++ rel) = fs.get (src ++ rel)) :=
  Proofs.C15.restore_crash_inv_partial fs src dst info hsrc hnm hdst hpar hdev hname hapart hnr hid

end TrashVerif.C15
