/-
  Props/C14Loop.lean — C14 at the level of the LOOP `emptyInfos` and of the COMMAND `runEmpty`:
  "trash-empty --dry-run leaves every trash directory byte-for-byte unchanged and prints exactly the
   paths that the same command without --dry-run removes.  In interactive mode (-i, or a terminal on
   stdin) any reply not beginning with 'y' or 'Y' - including an empty reply or end of input - leaves
   everything unchanged."

  Props/C14.lean has the frame (`dry_run_frame`: no call under `--dry-run`, every oracle), the guard
  (`guard_refuses`) and, for ONE path, the line a dry run prints.  Here the second half of the first
  sentence — "prints exactly the paths that the same command removes" — is stated and proved for whole
  runs, against the selection theorem of Props/C10Loop.lean.

  Vocabulary (Props/C14LoopDefs.lean).  `pathsOf t ns`: for each name, `path_of_backup_copy(info)` then the
  info path — the strings `Emptier.files_to_delete` yields.  `dryLine p` / `removingLine p`: the events
  "would remove p" / "removing p" (`Console.print_dry_run`, `print_removing`).  `removedOf fs fs' cwd ps`: the
  strings of `ps` that exist (`lexists`) in `fs` and no longer in `fs'`.  `announcedDir fs cwd o t` /
  `announced fs cwd o dirs`: what `files_to_delete` yields when everything is evaluated on the one state `fs`
  — selected pairs in listing order, then the ORPHANS (names of `files/` without info file), directory by
  directory.  `dirPaths fs cwd t`: every root path of the directory (what a plain `trash-empty` announces).

  What is true, and what is not.
  (a) The dry run (any oracle, any state, no hypothesis on the directory): no call, same file system,
      and the lines are exactly `announced …` in order (`dry_run_loop_prints_selected`,
      `dry_run_command_prints_announced`).  The ORPHAN pass contributes the orphans, evaluated on the
      same state: they are printed after the pairs of their directory — and removed by the real run.
  (b) The real run in a `C10Loop.Setting` (loop) / `DirSetting` (one directory, with its orphan pass) /
      `DirsSetting` (several directories lying apart): every announced path is gone afterwards, with
      everything below it; every other root path is exactly as before; with `-v` the "removing" lines
      list the same paths in the same order (`real_loop_removes_selected`, `real_dir_removes_announced`).
  (c) "Printed = removed" — the property's sentence, read as: the list of printed paths is the list of
      root paths that exist before and not after — is FALSE in general, for two REAL reasons:
        * a selected entry WITHOUT payload: `files_to_delete` yields `files/N` unconditionally, the dry
          run prints it, the real run "removes" a path that does not exist
          (`payloadless_entry_is_announced`; reproduced with the real program);
        * an info file that is a SYMBOLIC LINK to a sibling (`Setting.notLink` fails): the dry run
          announces both entries whole, the real run purges the sibling, then finds the link dangling,
          keeps it, and sweeps its payload as an orphan (`symlinked_info_breaks_dry_run`; the recorded
          finding, reproduced with the real program).
      Hence the `_partial` statements: in the setting, the printed paths THAT EXIST are exactly the
      root paths that exist before and no longer after (same list, same order), and the printed paths
      that do not exist do not exist afterwards either.  `dry_run_prints_exactly_what_real_removes` drops
      the filter when every selected entry is complete (info file and payload exist).
  (d) Interactive mode: `guard_refuses_completely` (the whole result of the run, every oracle) and
      `reply_first_byte_decides`.

  Hypotheses added to the property's text: the `Setting` / `DirSetting` (resolved layer, distinct names, no
  info file a symbolic link, trees without mount points — discharged from the initial state by
  `C10Loop.plain_setting` / `plain_dir_setting` for canonically spelled directories), several directories lie
  apart (`DirsSetting`, `plain_dirs_setting`), no DAYS overflow (`hnc`; `C10Loop.empty_no_crash`), the real
  run is fault-free.  The dry-run half needs none of them (only: nothing raises).
-/
import TrashVerif.Props.C14LoopDefs
import TrashVerif.Props.C14
import TrashVerif.Props.C10Loop
import TrashVerif.Proofs.C14LoopThm
import TrashVerif.Proofs.C14LoopMulti
import TrashVerif.Proofs.C14LoopPlainMulti
import TrashVerif.Proofs.C14LoopEx
namespace TrashVerif.C14Loop
open TrashVerif Prog FS PutCore C09Hist C10Loop

/-! ### (1) the dry-run loop -/

/-- The loop under `--dry-run`, under EVERY oracle, for EVERY list of names (no `Setting` is needed: the
    state never changes, so every decision is the one on the initial state): it returns normally, issues
    no call, records no intermediate state, leaves the file system as it is, and its output is — in
    order — for each name that `okToDelete` selects on the initial state, the line for the payload path
    then the line for the info path. -/
theorem dry_run_loop_prints_selected (φ : Oracle) (fs : FS) (cwd : CPath) (t : Bytes) (names : List Bytes) (o : EmptyOpts)
    (hdry : o.dryRun = true) (hnc : ∀ n ∈ names, ∀ c, okToDelete fs cwd o (infoStr t n) ≠ .crash c) :
    let r := run φ (emptyInfos cwd o (infoStrs t names)) { fs := fs }
    r.1 = none ∧ r.2.trace = [] ∧ r.2.hist = [] ∧ r.2.fs = fs ∧
    r.2.outs.reverse = (pathsOf t (emptySelected fs cwd o t names)).map dryLine :=
  Proofs.C14LoopThm.dry_run_loop_prints_selected φ fs cwd t names o hdry hnc

/-- … from any run state: the whole result -/
theorem dry_run_loop_from (φ : Oracle) (cwd : CPath) (t : Bytes) (names : List Bytes) (o : EmptyOpts) (s : RunState)
    (hdry : o.dryRun = true) (hnc : ∀ n ∈ names, ∀ c, okToDelete s.fs cwd o (infoStr t n) ≠ .crash c) :
    run φ (emptyInfos cwd o (infoStrs t names)) s =
      (none, { s with outs := ((pathsOf t (emptySelected s.fs cwd o t names)).map dryLine).reverse ++ s.outs }) :=
  Proofs.C14LoopThm.dry_run_loop_from φ cwd t names o s hdry hnc

/-- … and when a DAYS decision overflows at the name `n`: the loop stops with that crash, having announced
    the selected entries before `n` (the real loop has removed exactly those: `C10Loop.empty_stops_at_overflow`) -/
theorem dry_run_loop_stops_at_overflow (φ : Oracle) (fs : FS) (cwd : CPath) (t : Bytes) (pre post : List Bytes) (n : Bytes)
    (c : Crash) (o : EmptyOpts) (hdry : o.dryRun = true)
    (hpre : ∀ m ∈ pre, ∀ c', okToDelete fs cwd o (infoStr t m) ≠ .crash c')
    (hn : okToDelete fs cwd o (infoStr t n) = .crash c) :
    let r := run φ (emptyInfos cwd o (infoStrs t (pre ++ n :: post))) { fs := fs }
    r.1 = some c ∧ r.2.trace = [] ∧ r.2.fs = fs ∧
    r.2.outs.reverse = (pathsOf t (emptySelected fs cwd o t pre)).map dryLine :=
  Proofs.C14LoopThm.dry_run_loop_stops_at_overflow φ fs cwd t pre post n c o hdry hpre hn

/-! ### (2) the real loop -/

/-- The loop without `--dry-run` (fault-free, no decision crashes) in a `Setting`, in a form to be read next
    to (1): it returns normally; it prints nothing — or, under `-v`, one "removing" line per path, for the SAME
    paths in the SAME order as the dry run's lines — and no error; every path of that list no longer exists
    afterwards, with everything at or below it; every other root path (info file or payload of a listed
    name) is looked up exactly as before; and (`C10Loop.empty_selects_exactly`) the final state is the
    initial one with exactly the selected entries removed. -/
theorem real_loop_removes_selected (fs : FS) (cwd : CPath) (t : Bytes) (I F : CPath) (names : List Bytes) (o : EmptyOpts)
    (S : Setting fs cwd t I F names) (hdry : o.dryRun = false)
    (hnc : ∀ n ∈ names, ∀ c, okToDelete fs cwd o (infoStr t n) ≠ .crash c) :
    let r := run noFaults (emptyInfos cwd o (infoStrs t names)) { fs := fs }
    r.1 = none ∧
    r.2.outs.reverse = (if o.verbose > 0 then (pathsOf t (emptySelected fs cwd o t names)).map removingLine else []) ∧
    (∀ p ∈ pathsOf t (emptySelected fs cwd o t names), pLexists r.2.fs cwd p = false) ∧
    (∀ n ∈ emptySelected fs cwd o t names,
      (∀ rel, r.2.fs.get (I ++ [n] ++ rel) = none) ∧ (∀ rel, r.2.fs.get (F ++ [stemOf n] ++ rel) = none)) ∧
    (∀ p ∈ pathsOf t names, p ∉ pathsOf t (emptySelected fs cwd o t names) → lstat r.2.fs cwd p = lstat fs cwd p) ∧
    PurgedExactly fs r.2.fs I F (emptySelected fs cwd o t names) :=
  Proofs.C14LoopThm.real_loop_removes_selected fs cwd t I F names o S hdry hnc

/-! ### (3) the property's sentence, for the loop -/

/- The sentence at full strength, for the record — FALSE (see `payloadless_entry_is_announced`, and without
   the `Setting`, `symlinked_info_breaks_dry_run`):
   --  theorem dry_run_prints_exactly_what_real_removes_FALSE (φ fs cwd t I F names o) (S : Setting fs cwd t I F names) (hnc …) :
   --    pathsOf t (emptySelected fs cwd o t names) =      -- what the dry run prints
   --      removedOf fs (run noFaults (emptyInfos cwd { o with dryRun := false } (infoStrs t names)) { fs := fs }).2.fs cwd
   --        (pathsOf t names)                               -- the root paths that exist before and not after
-/

/-- THE SENTENCE, for the loop over one trash directory in a `Setting`: the same options with and without
    `--dry-run` (whatever `-v`).  The dry run (any oracle) issues no call, leaves the file system as it is
    and prints `printed` = the paths of the selected names; the real run leaves none of the printed
    paths in existence; and the printed paths that exist initially are exactly — same list, same
    order — the root paths that exist before the real run and no longer after it. -/
theorem dry_run_prints_exactly_what_real_removes_partial (φ : Oracle) (fs : FS) (cwd : CPath) (t : Bytes) (I F : CPath)
    (names : List Bytes) (o : EmptyOpts) (S : Setting fs cwd t I F names)
    (hnc : ∀ n ∈ names, ∀ c, okToDelete fs cwd o (infoStr t n) ≠ .crash c) :
    let d := run φ (emptyInfos cwd { o with dryRun := true } (infoStrs t names)) { fs := fs }
    let r := run noFaults (emptyInfos cwd { o with dryRun := false } (infoStrs t names)) { fs := fs }
    let printed := pathsOf t (emptySelected fs cwd o t names)
    d.2.trace = [] ∧ d.2.fs = fs ∧ d.2.outs.reverse = printed.map dryLine ∧
    (∀ p ∈ printed, pLexists r.2.fs cwd p = false) ∧
    printed.filter (pLexists fs cwd) = removedOf fs r.2.fs cwd (pathsOf t names) :=
  Proofs.C14LoopThm.dry_vs_real_loop φ fs cwd t I F names o S hnc

/-- … without the filter when every selected entry is COMPLETE (its info file and its payload exist): then
    the dry run prints exactly the root paths that the real run removes. -/
theorem dry_run_prints_exactly_what_real_removes (φ : Oracle) (fs : FS) (cwd : CPath) (t : Bytes) (I F : CPath)
    (names : List Bytes) (o : EmptyOpts) (S : Setting fs cwd t I F names)
    (hnc : ∀ n ∈ names, ∀ c, okToDelete fs cwd o (infoStr t n) ≠ .crash c)
    (hcomplete : ∀ n ∈ emptySelected fs cwd o t names,
      (fs.get (I ++ [n])).isSome = true ∧ (fs.get (F ++ [stemOf n])).isSome = true) :
    let d := run φ (emptyInfos cwd { o with dryRun := true } (infoStrs t names)) { fs := fs }
    let r := run noFaults (emptyInfos cwd { o with dryRun := false } (infoStrs t names)) { fs := fs }
    ∃ printed : List Bytes, d.2.outs.reverse = printed.map dryLine ∧ d.2.fs = fs ∧
      printed = removedOf fs r.2.fs cwd (pathsOf t names) := by
  obtain ⟨_, h2, h3, _, h5⟩ := Proofs.C14LoopThm.dry_vs_real_loop φ fs cwd t I F names o S hnc
  exact ⟨_, h3, h2, (Proofs.C14LoopThm.complete_all_exist S (fun n hn => (List.mem_filter.1 hn).1) hcomplete).symm.trans h5⟩

/-! ### (3) the property's sentence, for the command -/

/-- The dry run of the WHOLE COMMAND over ANY number of trash directories (scanner or `--trash-dir`), with or
    without `-v`, under EVERY oracle, from any run state, when the guard lets it pass and nothing raises
    (`NoCrashDir`: `info/`, `files/` can be listed or are missing, no DAYS overflow): the whole result.
    Exit status 0, no call, the state untouched, and the lines are `announced` — for each directory in
    turn the selected pairs in listing order (payload path, info path), THEN ITS ORPHANS, all evaluated on
    the one initial state. -/
theorem dry_run_command_prints_announced (φ : Oracle) (c : ReadCfg) (o : EmptyOpts) (reply : Option Bytes) (s : RunState)
    (hdry : o.dryRun = true) (hgo : o.interactive = false ∨ ∃ r, reply = some r ∧ emptyReplyYes r = true)
    (hnc : ∀ tv ∈ foundDirs (selectTrashDirs s.fs c o.userDirs), NoCrashDir s.fs c.cwd o tv.1) :
    run φ (runEmpty c o reply) s =
      ({ exit := 0 }, { s with outs :=
        ((announced s.fs c.cwd o (foundDirs (selectTrashDirs s.fs c o.userDirs))).map dryLine).reverse ++ s.outs }) :=
  Proofs.C14LoopThm.dry_run_command φ c o reply s hdry hgo hnc

/-- The real pass over ONE trash directory — scan, loop, ORPHAN PASS — in a `DirSetting`, from any run state on
    `fs`: it returns normally; the announced paths that exist are exactly the root paths of the directory
    that exist before and not after; no announced path exists afterwards; every other root path is looked
    up as before; and the final state is the initial one with exactly the selected entries and ALL the
    orphans removed (an orphan `m` counted as the entry `m.trashinfo`; `L1` is the order in which the scan
    after the loop lists them), with the "removing" lines of `-v` for the same paths. -/
theorem real_dir_removes_announced (fs : FS) (cwd : CPath) (t v : Bytes) (I F : CPath) (o : EmptyOpts) (s : RunState)
    (hs : s.fs = fs) (D : DirSetting fs cwd t I F) (hdry : o.dryRun = false)
    (hnc : ∀ n ∈ listed fs I, ∀ c, okToDelete fs cwd o (infoStr t n) ≠ .crash c) :
    let r := run noFaults (emptyDirs cwd o [(t, v)]) s
    r.1 = none ∧
    (announcedDir fs cwd o t).filter (pLexists fs cwd) = removedOf fs r.2.fs cwd (dirPaths fs cwd t) ∧
    (∀ p ∈ announcedDir fs cwd o t, pLexists r.2.fs cwd p = false) ∧
    (∀ p ∈ dirPaths fs cwd t, p ∉ announcedDir fs cwd o t → lstat r.2.fs cwd p = lstat fs cwd p) ∧
    ∃ L1 : List Bytes, L1.Perm (orphanNames fs I F) ∧
      PurgedExactly fs r.2.fs I F (emptySelected fs cwd o t (listed fs I) ++ L1.map infoNameOf) ∧
      r.2.outs =
        (if o.verbose > 0 then (pathsOf t (emptySelected fs cwd o t (listed fs I)) ++ L1.map (orphanStr t)).map removingLine
         else []).reverse ++ s.outs :=
  Proofs.C14LoopThm.real_dir_removes_announced fs cwd t v I F o s hs D hdry hnc

/-- what the definitions unfold to in a `DirSetting`: the scan yields the listed names and the orphans -/
theorem announcedDir_is (fs : FS) (cwd : CPath) (t : Bytes) (I F : CPath) (o : EmptyOpts) (D : DirSetting fs cwd t I F) :
    infosOf fs cwd t = .ok (infoStrs t (listed fs I)) ∧
    orphansOf fs cwd t = .ok ((orphanNames fs I F).map (orphanStr t)) ∧
    announcedDir fs cwd o t = pathsOf t (emptySelected fs cwd o t (listed fs I)) ++ (orphanNames fs I F).map (orphanStr t) ∧
    dirPaths fs cwd t = pathsOf t (listed fs I) ++ (orphanNames fs I F).map (orphanStr t) :=
  ⟨(Proofs.C14LoopDir.dir_scan D).1, (Proofs.C14LoopDir.dir_scan D).2, Proofs.C14LoopDir.announcedDir_eq D o,
   Proofs.C14LoopDir.dirPaths_eq D⟩

/- The sentence at full strength for the command, for the record — FALSE for the same two reasons:
   --  theorem dry_run_command_FALSE (c o reply fs) :
   --    (the paths of the "would remove" lines of `runEmpty c { o with dryRun := true } reply`) =
   --      removedOf fs (run noFaults (runEmpty c { o with dryRun := false } reply) { fs := fs }).2.fs c.cwd (all root paths)
-/

/-- THE SENTENCE, for the WHOLE COMMAND over SEVERAL trash directories (`ds`: what the selector yields —
    scanner or `--trash-dir` — with the canonical `info/`, `files/` of each) lying apart, each in its
    `DirSetting` (`DirsSetting`), the same options and reply with and without `--dry-run`, when the guard
    lets the run pass and no DAYS decision can overflow.
    Dry run (every oracle): exit 0, no call, same file system, the lines are `announced` (pairs then
    orphans, directory by directory).  Real run (fault-free): exit 0; no announced path exists
    afterwards; the announced paths that exist initially are exactly — same list, same order — the root
    paths of the visited directories that exist before and no longer after; every other root path is
    looked up as before; every path that is not at or below `info/` or `files/` of a visited directory is
    exactly as before. -/
theorem dry_run_command_partial (φ : Oracle) (c : ReadCfg) (o : EmptyOpts) (reply : Option Bytes) (fs : FS) (ds : List TDir)
    (hgo : o.interactive = false ∨ ∃ r, reply = some r ∧ emptyReplyYes r = true)
    (hfound : foundDirs (selectTrashDirs fs c o.userDirs) = TDir.pairs ds)
    (M : DirsSetting fs c.cwd ds)
    (hnc : ∀ (fs' : FS) (i : Bytes) (cr : Crash), okToDelete fs' c.cwd o i ≠ .crash cr) :
    let d := run φ (runEmpty c { o with dryRun := true } reply) { fs := fs }
    let r := run noFaults (runEmpty c { o with dryRun := false } reply) { fs := fs }
    let printed := announced fs c.cwd o (TDir.pairs ds)
    d.1 = { exit := 0 } ∧ d.2.trace = [] ∧ d.2.fs = fs ∧ d.2.outs.reverse = printed.map dryLine ∧
    r.1 = { exit := 0 } ∧
    (∀ p ∈ printed, pLexists r.2.fs c.cwd p = false) ∧
    printed.filter (pLexists fs c.cwd) =
      removedOf fs r.2.fs c.cwd ((TDir.pairs ds).flatMap fun tv => dirPaths fs c.cwd tv.1) ∧
    (∀ d ∈ ds, ∀ p ∈ dirPaths fs c.cwd d.t, p ∉ announcedDir fs c.cwd o d.t → lstat r.2.fs c.cwd p = lstat fs c.cwd p) ∧
    (∀ q, (∀ d ∈ ds, ¬ d.I <+: q ∧ ¬ d.F <+: q) → r.2.fs.get q = fs.get q) :=
  Proofs.C14LoopMulti.dry_run_command_multi φ c o reply fs ds hgo hfound M hnc

/-- `hnc` of `dry_run_command_partial` holds when there is no DAYS argument, or the clock is valid and
    now − DAYS days is representable -/
theorem no_overflow (cwd : CPath) (o : EmptyOpts)
    (h : o.days = none ∨ ∃ days, o.days = some days ∧ o.now.valid = true ∧ o.nowUs < 1000000 ∧
      C10.minusDays days o.now ≠ none) :
    ∀ (fs' : FS) (i : Bytes) (cr : Crash), okToDelete fs' cwd o i ≠ .crash cr :=
  fun fs' => C10Loop.empty_no_crash fs' cwd o h

/-! ### the settings discharged -/

/-- `DirSetting` for the trash directory with canonical path `T`, given by its canonical spelling, from
    facts about the initial state (`PlainDirHyps`) -/
theorem plain_dir_setting (fs : FS) (cwd T : CPath) (H : PlainDirHyps fs T) (wf : DomWf fs) :
    DirSetting fs cwd (toStr T) (T ++ [b "info"]) (T ++ [b "files"]) :=
  Proofs.C14LoopPlainMulti.plain_dir_of_hyps fs cwd T H wf

/-- `DirsSetting` for canonical trash directories `(T, volume)` lying apart: the facts about the INITIAL
    state carry over to every state that differs only beside the directory -/
theorem plain_dirs_setting (fs : FS) (cwd : CPath) (l : List (CPath × Bytes)) (wf : DomWf fs)
    (H : ∀ Tv ∈ l, PlainDirHyps fs Tv.1)
    (hap : (l.map fun Tv => plainDir Tv.1 Tv.2).Pairwise TDir.Apart) :
    DirsSetting fs cwd (l.map fun Tv => plainDir Tv.1 Tv.2) :=
  Proofs.C14LoopPlainMulti.plain_dirs_setting fs cwd l wf H hap

/-- `--trash-dir d`: the only directory visited is `d`, verbatim -/
theorem trash_dir_option (fs : FS) (c : ReadCfg) (d : Bytes) :
    foundDirs (selectTrashDirs fs c [d]) = [(d, volumeOf fs c.cwd d)] := rfl

/-! ### (4) the counterexamples (kernel-checked; the worlds are in Proofs/C14LoopEx.lean) -/

section counterexamples
open Proofs.C14LoopEx

/-- "Printed = removed" is FALSE even in a `Setting`: world `Cex.WP`, `/t/info/a.trashinfo` WITHOUT `/t/files/a`,
    plain `trash-empty`.  The setting holds; `a` is selected; the dry run prints `/t/files/a` — which does
    not exist — and `/t/info/a.trashinfo`; the real run removes the info file only.
    REAL behaviour (`files_to_delete` yields `path_of_backup_copy(info)` unconditionally; reproduced with the
    real `trash-empty --trash-dir … --dry-run` / `-v` on a temporary directory: both print both paths). -/
theorem payloadless_entry_is_announced :
    Setting Cex.WP [] Demo.t Demo.I Demo.F [Cex.aN] ∧
    emptySelected Cex.WP [] Cex.oAll Demo.t [Cex.aN] = [Cex.aN] ∧
    pathsOf Demo.t [Cex.aN] = [b "/t/files/a", b "/t/info/a.trashinfo"] ∧
    pLexists Cex.WP [] (b "/t/files/a") = false ∧
    (run noFaults (emptyInfos [] { Cex.oAll with dryRun := true } (infoStrs Demo.t [Cex.aN])) { fs := Cex.WP }).2.outs.reverse =
      [dryLine (b "/t/files/a"), dryLine (b "/t/info/a.trashinfo")] ∧
    removedOf Cex.WP (run noFaults (emptyInfos [] Cex.oAll (infoStrs Demo.t [Cex.aN])) { fs := Cex.WP }).2.fs []
      (pathsOf Demo.t [Cex.aN]) = [b "/t/info/a.trashinfo"] :=
  ⟨Cex.WP_setting [], Cex.WP_facts⟩

open TrashVerif.Proofs.C19CmdEx.Demo (T I F t v rc o1) in
open TrashVerif.Proofs.C19CmdEx.Cex (WSold aN zN) in
/-- THE RECORDED FINDING.  World `WSold` (Proofs/C19CmdEx.lean): the trash directory `/m/.Trash-1000` with
    `info/a.trashinfo` (2020-01-01, payload `files/a`) and `info/z.trashinfo`, a SYMBOLIC LINK to `a.trashinfo`,
    with the payload `files/z`; `trash-empty 1` on 2024-03-02 (the scanner finds the directory).
    Every hypothesis of `C10Loop.plain_setting` holds except `notLink`; both entries are selected on the
    initial state; the dry run announces FOUR paths; the real run removes `files/a`, `info/a.trashinfo`
    and `files/z` — and KEEPS `info/z.trashinfo`: once `a` is purged the link dangles, `z` is "unreadable" and
    kept, and `files/z` goes in the orphan sweep (with `-v` exactly three "removing" lines).  So the dry run
    printed a path that exists before AND after.
    REAL behaviour of /repo's code (reproduced with the real program on a temporary directory, the link
    being listed after its target). -/
theorem symlinked_info_breaks_dry_run :
    foundDirs (selectTrashDirs WSold rc o1.userDirs) = [(t, v)] ∧ listed WSold I = [aN, zN] ∧
    WSold.isLinkAt (I ++ [zN]) = true ∧ WSold.isLinkAt (I ++ [aN]) = false ∧
    PlainHyps WSold T [aN, zN] ∧ (∀ m ∈ [aN, zN], TreeOk WSold (T ++ [b "files"] ++ [stemOf m])) ∧
    emptySelected WSold [] o1 t [aN, zN] = [aN, zN] ∧
    (let d := run noFaults (runEmpty rc { o1 with dryRun := true } none) { fs := WSold }
     d.1.exit = 0 ∧ d.2.trace = [] ∧
     d.2.outs.reverse =
      [dryLine (b "/m/.Trash-1000/files/a"), dryLine (b "/m/.Trash-1000/info/a.trashinfo"),
       dryLine (b "/m/.Trash-1000/files/z"), dryLine (b "/m/.Trash-1000/info/z.trashinfo")]) ∧
    (let r := run noFaults (runEmpty rc o1 none) { fs := WSold }
     r.1.exit = 0 ∧
     r.2.fs.get (F ++ [b "a"]) = none ∧ r.2.fs.get (I ++ [aN]) = none ∧ r.2.fs.get (F ++ [b "z"]) = none ∧
     r.2.fs.get (I ++ [zN]) = some (.link aN) ∧
     (run noFaults (runEmpty rc { o1 with verbose := 1 } none) { fs := WSold }).2.outs.reverse =
      [removingLine (b "/m/.Trash-1000/files/a"), removingLine (b "/m/.Trash-1000/info/a.trashinfo"),
       removingLine (b "/m/.Trash-1000/files/z")]) ∧
    pLexists WSold [] (b "/m/.Trash-1000/info/z.trashinfo") = true ∧
    pLexists (run noFaults (runEmpty rc o1 none) { fs := WSold }).2.fs [] (b "/m/.Trash-1000/info/z.trashinfo") = true :=
  ⟨Link.found, Link.listed_eq, by decide +kernel, by decide +kernel, Link.hyps.1, Link.hyps.2, Link.selected,
   Link.dry_run, Link.real_run, Link.still_there.1, Link.still_there.2⟩

end counterexamples

/-! ### (5) interactive mode -/

/-- In interactive mode (`-i`, or a terminal on stdin: `o.interactive`), under EVERY oracle, from any run state:
    a reply that does not begin with 'y' or 'Y' — the empty reply included — makes the WHOLE run the
    identity on the run state (no call, no output, same file system), with exit status 0; end of input
    (`none`: `input()` raises EOFError) issues no call either, the file system is the same, the run ends
    with the traceback and exit status 1. -/
theorem guard_refuses_completely (φ : Oracle) (c : ReadCfg) (o : EmptyOpts) (s : RunState) (hi : o.interactive = true) :
    (∀ r, emptyReplyYes r = false → run φ (runEmpty c o (some r)) s = ({ exit := 0 }, s)) ∧
    run φ (runEmpty c o none) s =
      ({ exit := 1, crash := some .eof }, { s with outs := .stderr "traceback" [] :: s.outs }) :=
  ⟨fun r hr => Proofs.C14Loop.run_refused φ c o r s hi hr, Proofs.C14Loop.run_eof φ c o s hi⟩

/-- The decision depends on the FIRST BYTE of the reply only: the run on a reply is the run on its first
    byte; the reply is a yes iff that byte is 0x79 'y' or 0x59 'Y'. -/
theorem reply_first_byte_decides (φ : Oracle) (c : ReadCfg) (o : EmptyOpts) (r : Bytes) (s : RunState) :
    run φ (runEmpty c o (some r)) s = run φ (runEmpty c o (some (r.take 1))) s ∧
    emptyReplyYes r = (r.head? == some 121 || r.head? == some 89) :=
  ⟨Proofs.C14Loop.run_first_byte φ c o r s, Proofs.C14Loop.replyYes_head r⟩

/-- so the fullwidth 'ｙ' (U+FF59, UTF-8 EF BD 99), " y", "n", the empty reply are all a no; "y", "Yes", "yes\n"
    are a yes.  (Real program: `reply[0:1].lower() == 'y'` on the decoded string; 'ｙ'.lower() is 'ｙ'.) -/
theorem reply_examples :
    emptyReplyYes [0xEF, 0xBD, 0x99] = false ∧ emptyReplyYes (b " y") = false ∧ emptyReplyYes (b "n") = false ∧
    emptyReplyYes [] = false ∧ emptyReplyYes (b "y") = true ∧ emptyReplyYes (b "Yes") = true ∧
    emptyReplyYes (b "yes\n") = true := by decide +kernel

/-! ### (6) non-vacuity (Proofs/C14LoopEx.lean; everything below is checked by the kernel, the commands being
    run through the twins of Proofs/C10LoopEval.lean and Proofs/C11CmdEval.lean)

  `Demo.W`: the trash directory `/t` with `old` (2020-01-01, payload a DIRECTORY holding a file), `mid` (2023-06-15),
  `new` (2024-03-01 12:00: NOT selected by DAYS = 1 on 2024-03-02), the orphan `files/stray`, `/home/keep` outside.
  `trash-empty --trash-dir /t 1`. -/

section examples
open Proofs.C14LoopEx Proofs.C14LoopEx.Demo

/-- the settings hold; the scan lists the three names; the orphan is `stray`; `mid` and `old` are selected -/
example (cwd : CPath) : Setting W cwd t I F names ∧ DirSetting W cwd t I F := ⟨W_setting cwd, W_dir cwd⟩
example : listed W I = names ∧ orphanNames W I F = [b "stray"] ∧ emptySelected W [] o1 t names = [midN, oldN] ∧
    foundDirs (selectTrashDirs W rc o1.userDirs) = [(t, b "/")] := ⟨W_listed, W_orphans, W_selected, W_found⟩

/-- what is announced, and all the root paths -/
example : announcedDir W [] o1 t =
    [b "/t/files/mid", b "/t/info/mid.trashinfo", b "/t/files/old", b "/t/info/old.trashinfo", b "/t/files/stray"] ∧
    dirPaths W [] t =
    [b "/t/files/mid", b "/t/info/mid.trashinfo", b "/t/files/new", b "/t/info/new.trashinfo",
     b "/t/files/old", b "/t/info/old.trashinfo", b "/t/files/stray"] := ⟨W_announced, W_dirPaths⟩

/-- (1) instantiated: the dry-run loop prints the four paths of the two selected entries, under every oracle -/
example (φ : Oracle) :
    (run φ (emptyInfos [] oDry (infoStrs t names)) { fs := W }).2.outs.reverse =
      [dryLine (b "/t/files/mid"), dryLine (b "/t/info/mid.trashinfo"), dryLine (b "/t/files/old"), dryLine (b "/t/info/old.trashinfo")] := by
  have h := (dry_run_loop_prints_selected φ W [] t names oDry rfl
    (fun n hn c h => W_nocrash n hn c ((Proofs.C14LoopThm.okToDelete_dry W [] o1 true _).symm.trans h))).2.2.2.2
  have e : emptySelected W [] oDry t names = [midN, oldN] :=
    (Proofs.C14LoopThm.emptySelected_dry W [] o1 true t names).trans W_selected
  rw [h, e]; decide +kernel

/-- (3) instantiated: the loop-level sentence without filter — the selected entries are complete -/
example (φ : Oracle) : ∃ printed : List Bytes,
    (run φ (emptyInfos [] { o1 with dryRun := true } (infoStrs t names)) { fs := W }).2.outs.reverse = printed.map dryLine ∧
    (run φ (emptyInfos [] { o1 with dryRun := true } (infoStrs t names)) { fs := W }).2.fs = W ∧
    printed = removedOf W (run noFaults (emptyInfos [] { o1 with dryRun := false } (infoStrs t names)) { fs := W }).2.fs []
      (pathsOf t names) :=
  dry_run_prints_exactly_what_real_removes φ W [] t I F names o1 (W_setting []) W_nocrash W_complete

/-- the command-level sentence instantiated (one directory, `--trash-dir /t`), under every oracle for the dry run -/
example (φ : Oracle) :
    let d := run φ (runEmpty rc { o1 with dryRun := true } none) { fs := W }
    let r := run noFaults (runEmpty rc { o1 with dryRun := false } none) { fs := W }
    d.2.trace = [] ∧ d.2.fs = W ∧
    d.2.outs.reverse = [dryLine (b "/t/files/mid"), dryLine (b "/t/info/mid.trashinfo"), dryLine (b "/t/files/old"),
      dryLine (b "/t/info/old.trashinfo"), dryLine (b "/t/files/stray")] ∧
    removedOf W r.2.fs [] (dirPaths W [] t) =
      [b "/t/files/mid", b "/t/info/mid.trashinfo", b "/t/files/old", b "/t/info/old.trashinfo", b "/t/files/stray"] := by
  have M : DirsSetting W rc.cwd [plainDir T (b "/")] :=
    plain_dirs_setting W [] [(T, b "/")] W_wf
      (fun Tv h => by
        simp only [List.mem_cons, List.not_mem_nil, or_false] at h; subst h
        exact hyps_of_dirCheck W_wf W_listed W_orphans (by decide +kernel))
      (List.Pairwise.cons (fun _ h => nomatch h) List.Pairwise.nil)
  have hf : foundDirs (selectTrashDirs W rc o1.userDirs) = TDir.pairs [plainDir T (b "/")] := by
    rw [W_found]; decide +kernel
  obtain ⟨_, h2, h3, h4, _, _, h7, _, _⟩ := dry_run_command_partial φ rc o1 none W [plainDir T (b "/")] (Or.inl rfl) hf M
    (no_overflow [] o1 (Or.inr ⟨1, rfl, by decide +kernel, by decide +kernel, by decide +kernel⟩))
  have ha : announced W rc.cwd o1 (TDir.pairs [plainDir T (b "/")]) = announcedDir W [] o1 t ++ [] := by
    show announcedDir W [] o1 (toStr T) ++ [] = _
    rw [tStr]
  have hp : ((TDir.pairs [plainDir T (b "/")]).flatMap fun tv => dirPaths W rc.cwd tv.1) = dirPaths W [] t := by
    show dirPaths W [] (toStr T) ++ [] = _
    rw [tStr, List.append_nil]
  rw [ha, List.append_nil, W_announced] at h4 h7
  rw [hp] at h7
  refine ⟨h2, h3, h4, h7.symm.trans ?_⟩
  rw [List.filter_eq_self]
  intro p hp
  rw [Proofs.C16Eval.pLexists_eq]
  revert p
  decide +kernel

/-- … and the two runs evaluated independently of the theorems: the dry run (exit 0, no call, same state,
    five lines); the real run with `-v` (the same five paths in "removing" lines; the final state is the
    initial one without `mid`, `old` — with `files/old/x` — and the orphan); what was removed -/
example :
    (run noFaults (runEmpty rc oDry none) { fs := W }).1.exit = 0 ∧
    (run noFaults (runEmpty rc oDry none) { fs := W }).2.trace = [] ∧
    (run noFaults (runEmpty rc oDry none) { fs := W }).2.fs.toList = W.toList ∧
    (run noFaults (runEmpty rc oDry none) { fs := W }).2.outs.reverse =
      [dryLine (b "/t/files/mid"), dryLine (b "/t/info/mid.trashinfo"), dryLine (b "/t/files/old"),
       dryLine (b "/t/info/old.trashinfo"), dryLine (b "/t/files/stray")] := W_dry_run

example :
    (run noFaults (runEmpty rc oV none) { fs := W }).1.exit = 0 ∧
    (run noFaults (runEmpty rc oV none) { fs := W }).2.outs.reverse =
      [removingLine (b "/t/files/mid"), removingLine (b "/t/info/mid.trashinfo"), removingLine (b "/t/files/old"),
       removingLine (b "/t/info/old.trashinfo"), removingLine (b "/t/files/stray")] ∧
    (run noFaults (runEmpty rc oV none) { fs := W }).2.fs.toList =
      [([], dirN), (T, dirN), (I, .dir 0o755 0), (F, .dir 0o755 0),
       (I ++ [newN], .file (b "[Trash Info]\nPath=/home/a/new\nDeletionDate=2024-03-01T12:00:00\n") 0o600 3),
       (F ++ [b "new"], .file [122] 0o644 3),
       ([b "home"], dirN), ([b "home", b "keep"], .file [124] 0o644 3)] := W_real_run

example : removedOf W (run noFaults (runEmpty rc o1 none) { fs := W }).2.fs [] (dirPaths W [] t) =
    [b "/t/files/mid", b "/t/info/mid.trashinfo", b "/t/files/old", b "/t/info/old.trashinfo", b "/t/files/stray"] := W_removed

/-- TWO trash directories, `--trash-dir /t --trash-dir /u` (`Demo.W2`: `/u` holds `x` of 2021, `y` of today and the orphan
    directory `lost` with a symbolic link inside): the `DirsSetting` holds; the command-level sentence
    instantiated; and the runs evaluated (eight lines; the final state keeps `new`, `y` and everything outside). -/
example (cwd : CPath) : DirsSetting W2 cwd ds2 := W2_dirs cwd

example (φ : Oracle) :
    (run φ (runEmpty rc { o2 with dryRun := true } none) { fs := W2 }).2.outs.reverse =
      (announced W2 [] o2 (TDir.pairs ds2)).map dryLine ∧
    (announced W2 [] o2 (TDir.pairs ds2)).filter (pLexists W2 []) =
      removedOf W2 (run noFaults (runEmpty rc { o2 with dryRun := false } none) { fs := W2 }).2.fs []
        ((TDir.pairs ds2).flatMap fun tv => dirPaths W2 [] tv.1) := by
  obtain ⟨_, _, _, h4, _, _, h7, _, _⟩ := dry_run_command_partial φ rc o2 none W2 ds2 (Or.inl rfl) W2_found (W2_dirs [])
    (no_overflow [] o2 (Or.inr ⟨1, rfl, by decide +kernel, by decide +kernel, by decide +kernel⟩))
  exact ⟨h4, h7⟩

example : announced W2 [] o2 (TDir.pairs ds2) =
    [b "/t/files/mid", b "/t/info/mid.trashinfo", b "/t/files/old", b "/t/info/old.trashinfo", b "/t/files/stray",
     b "/u/files/x", b "/u/info/x.trashinfo", b "/u/files/lost"] := W2_announced

example :
    (run noFaults (runEmpty rc { o2 with dryRun := true } none) { fs := W2 }).2.outs.reverse =
      (announced W2 [] o2 (TDir.pairs ds2)).map dryLine ∧
    (run noFaults (runEmpty rc { o2 with dryRun := true } none) { fs := W2 }).2.trace = [] ∧
    (run noFaults (runEmpty rc o2 none) { fs := W2 }).1.exit = 0 ∧
    (run noFaults (runEmpty rc o2 none) { fs := W2 }).2.fs.toList =
      [([], dirN), (T, dirN), (I, .dir 0o755 0), (F, .dir 0o755 0),
       (I ++ [newN], .file (b "[Trash Info]\nPath=/home/a/new\nDeletionDate=2024-03-01T12:00:00\n") 0o600 3),
       (F ++ [b "new"], .file [122] 0o644 3),
       ([b "home"], dirN), ([b "home", b "keep"], .file [124] 0o644 3),
       (U, dirN), (U ++ [b "info"], .dir 0o755 0), (U ++ [b "files"], .dir 0o755 0),
       (U ++ [b "info", yN], .file (b "[Trash Info]\nPath=/home/a/y\nDeletionDate=2024-03-01T23:59:59\n") 0o600 3),
       (U ++ [b "files", b "y"], .file [126] 0o644 3)] := W2_runs

/-- interactive mode instantiated on the demo world: the fullwidth 'ｙ' refuses — the run is the identity, under
    every oracle; so does end of input (with the traceback) -/
example (φ : Oracle) : run φ (runEmpty rc { o1 with interactive := true } (some [0xEF, 0xBD, 0x99])) { fs := W } =
    ({ exit := 0 }, { fs := W }) :=
  (guard_refuses_completely φ rc { o1 with interactive := true } { fs := W } rfl).1 _ (by decide +kernel)

example (φ : Oracle) : (run φ (runEmpty rc { o1 with interactive := true } none) { fs := W }).2.fs = W ∧
    (run φ (runEmpty rc { o1 with interactive := true } none) { fs := W }).2.trace = [] := by
  rw [(guard_refuses_completely φ rc { o1 with interactive := true } { fs := W } rfl).2]
  exact ⟨rfl, rfl⟩

end examples

end TrashVerif.C14Loop
