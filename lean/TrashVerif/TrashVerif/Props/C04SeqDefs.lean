/-
  Props/C04SeqDefs.lean — the setting of the unbounded sequential half of C04: a list of N entries
  trashed one after another by the put core into the same trash directory.
-/
import TrashVerif.Props.PutCoreDefs
namespace TrashVerif.C04Seq
open TrashVerif PutCore Prog

/-- One put of the sequence: the entry `(src, base, content)` — its canonical location, the base name
    the info file is derived from, the text of the info file — together with what the run produced:
    `name`, the `.trashinfo` basename the put core returned, and `pre`, the state the put started in. -/
structure Step where
  src : CPath
  base : Bytes
  content : Bytes
  name : Bytes
  pre : FS

/-- `Puts I F fs st ks fsN stN`: starting in the state `fs` with the scripted answers `st`, the entries
    of `ks` are trashed one after another by the put core into the trash directory whose `info/` is `I`
    and whose `files/` is `F`.  Every put starts in the state (file system AND `PutSt`) its predecessor
    left, is in the `Setting` of the put core in that state (this is what `Janitor.trash_file_in` has
    checked when it reaches the core), and SUCCEEDS with the name recorded in the step.  `fsN`, `stN`
    are the state after the last put.  Base names are arbitrary — in particular they may all be equal. -/
inductive Puts (I F : CPath) : FS → PutSt → List Step → FS → PutSt → Prop
  | nil (fs : FS) (st : PutSt) : Puts I F fs st [] fs st
  | cons {fs : FS} {st st' : PutSt} {k : Step} {s' : RunState} {ks : List Step} {fsN : FS} {stN : PutSt}
      (hpre : k.pre = fs)
      (hset : Setting fs I F k.src)
      (hrun : run noFaults (putCore I F k.base k.content (fun _ => .ok k.src) st) { fs := fs } = ((.ok k.name, st'), s'))
      (rest : Puts I F s'.fs st' ks fsN stN) :
      Puts I F fs st (k :: ks) fsN stN

/-- the suffix `Suffix.suffix_for_index` yields for the first 100 attempts: nothing, then `_1` … `_99` -/
def sfx (i : Nat) : Bytes := if i = 0 then [] else b "_" ++ Bytes.ofNat i

/-- Bool version of `Setting`, for evaluating concrete worlds -/
def settingB (fs : FS) (I F src : CPath) : Bool :=
  fs.isDirAt I && fs.isDirAt F && !FS.under I F && !FS.under F I && (fs.get src).isSome &&
  decide (src ≠ []) && !fs.isMount src && decide (fs.dev (FS.parent src) = fs.dev F) &&
  !FS.under src I && !FS.under src F && !FS.under I src && !FS.under F src

/-- the executable form of `Puts`: run the put core on each entry in turn, checking the `Setting`;
    `none` as soon as a check or a put fails -/
def putSeq (I F : CPath) : List (CPath × Bytes × Bytes) → PutSt → FS → Option (List Step × FS × PutSt)
  | [], st, fs => some ([], fs, st)
  | (src, base, content) :: rest, st, fs =>
    if settingB fs I F src then
      match run noFaults (putCore I F base content (fun _ => .ok src) st) { fs := fs } with
      | ((.ok name, st'), s') =>
        (putSeq I F rest st' s'.fs).map fun r =>
          ({ src := src, base := base, content := content, name := name, pre := fs } :: r.1, r.2)
      | _ => none
    else none

end TrashVerif.C04Seq
