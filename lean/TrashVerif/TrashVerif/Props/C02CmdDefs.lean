/-
  Props/C02CmdDefs.lean — definitions used by the command-level theorems of Props/C02Cmd.lean
  (C02: put, then restore, is the identity — for the commands `runPut` and `runRestore`).
-/
import TrashVerif.Model.Cmds
import TrashVerif.Props.C16IndepDefs
namespace TrashVerif.C02Cmd
open TrashVerif Prog FS C16Indep

/-- The configuration `trash-restore` runs with after a `trash-put` run with `c`: same working
    directory, environment and uid; `mps` is what `os_mount_points()` lists (the Driver takes it
    from the world's `mounts`, the real root excluded). -/
def readCfgOf (c : PutCfg) (mps : List Bytes) : ReadCfg :=
  { cwd := c.cwd, env := c.env, uid := c.uid, mountPoints := mps }

/-- the trash directories `trash-restore` looks at besides the home trash: for every listed mount
    point `$top/.Trash/$uid` (when valid) and `$top/.Trash-$uid` -/
def volumeTrashDirs (fs : FS) (c : ReadCfg) : List (Bytes × Bytes) :=
  c.mountPoints.flatMap fun v =>
    (if validToBeRead fs c.cwd (pjoin v (b ".Trash/" ++ Bytes.ofNat c.uid)) = .valid
      then [(pjoin v (b ".Trash/" ++ Bytes.ofNat c.uid), v)] else []) ++
    [(pjoin v (b ".Trash-" ++ Bytes.ofNat c.uid), v)]

/-- `info/` of the home trash of `H` holds exactly one entry: the regular file `name`, a
    well-formed `.trashinfo` name, with bytes `content`; no symlink lies on the way to `info/`. -/
structure OneEntry (fs : FS) (H : CPath) (name content : Bytes) : Prop where
  homeNotRoot : H ≠ []
  homeNames : C07.GoodNames H
  infoPlain : C07.Plain fs (infoC H)
  isFile : ∃ m t, fs.get (infoC H ++ [name]) = some (.file content m t)
  listed : infoC H ++ [name] ∈ fs.dom
  only : ∀ x, x ≠ name → fs.get (infoC H ++ [x]) = none
  goodName : C07.GoodNames [name]
  isInfo : isTrashinfoName name = true

/-- the entry `trash-restore` builds from `info/name` in the home trash, when the `Path=` line of
    its text yields `rel` -/
def entryOf (H : CPath) (name content rel : Bytes) : Entry :=
  { loc := pjoin [slash] rel,
    date := parseDeletionDate (universalNewlines content),
    info := toStr (infoC H ++ [name]) }

/-- the directory argument of `trash-restore` as `RestoreCmd` normalises it (`restoreScopeDir`:
    `normpath(join(curdir, path))`) -/
def scopeDir (c : ReadCfg) (o : RestoreOpts) : Bytes := restoreScopeDir (toStr c.cwd) o.path

/-- what `trash-put` writes into the info file of the everyday argument `P/n` -/
def infoContent (c : PutCfg) (P : CPath) (n : Name) : Bytes := formatTrashinfoWith (locOf P n) c.dateStr

/-- the entry `trash-restore` offers for the everyday argument `P/n` trashed under its plain name:
    its canonical spelling as location, the date (if any) the recorded date string parses to, and
    the canonical spelling of `info/n.trashinfo` in the home trash -/
def putEntry (c : PutCfg) (H P : CPath) (n : Name) : Entry :=
  { loc := toStr (P ++ [n]),
    date := parseDeletionDate (universalNewlines (infoContent c P n)),
    info := toStr (infoC H ++ [n ++ trashinfoExt]) }

/-- `touchDir`'s effect on a node: a directory gets the canonical fresh mtime 0 -/
def touched : Option Node → Option Node
  | some (.dir m _) => some (.dir m 0)
  | o => o

end TrashVerif.C02Cmd
