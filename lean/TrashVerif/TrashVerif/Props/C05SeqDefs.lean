/-
  Props/C05SeqDefs.lean — vocabulary of Props/C05Seq.lean (C05 for N arguments): the crash states of a run
  that starts in an arbitrary run state, and the per-entry invariant of C05.
-/
import TrashVerif.Props.C05CmdDefs
import TrashVerif.Props.C16SeqDefs
namespace TrashVerif.C05Seq
open TrashVerif Prog FS

/-- the crash states of `p` started in the run state `s` (its file system, trace of calls, call counter,
    outputs — what a fault oracle looks at), oldest first: the state before each call `p` issues and the
    final one.  What was recorded before `p` started (`s.hist`) is not repeated.
    `crashStates φ p fs = crashStatesFrom φ p { fs := fs }` by definition. -/
def crashStatesFrom {α} (φ : Oracle) (p : Prog α) (s : RunState) : List FS :=
  ((run φ p { s with hist := [] }).2.fs :: (run φ p { s with hist := [] }).2.hist).reverse

/-- C05 for ONE entry `src` of the initial state `fs`, in a state `s` a kill can leave behind
    (`C05Cmd.CrashInv` without its clause on the OTHER slots of `files/`, which a run on several arguments
    does change):
    * `whole`: the entry is complete at its original location — every node of its subtree as in `fs` — and
      the slot `files/<stem>` is as it was, OR complete under `files/<stem>` — every node — and nothing is
      left at the original location;
    * `infoFirst`: whenever `files/<stem>` exists, `info/<stem>.trashinfo` exists, is a regular file,
      conformant, complete, and parses to the entry's location and the clock reading. -/
structure EntryInv (fs s : FS) (I F src : CPath) (stem loc : Bytes) (d : Date) : Prop where
  whole :
    ((∀ rel, s.get (src ++ rel) = fs.get (src ++ rel)) ∧ (∀ rel, s.get (F ++ [stem] ++ rel) = fs.get (F ++ [stem] ++ rel))) ∨
    ((∀ rel, s.get (F ++ [stem] ++ rel) = fs.get (src ++ rel)) ∧ (∀ rel, s.get (src ++ rel) = none))
  infoFirst : (s.get (F ++ [stem])).isSome = true → C05Cmd.InfoParses s (I ++ [stem ++ trashinfoExt]) loc d

end TrashVerif.C05Seq
