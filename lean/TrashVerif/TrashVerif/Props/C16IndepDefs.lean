/-
  Props/C16IndepDefs.lean — definitions used by the independence theorems of Props/C16Indep.lean
  (second half of C16: arguments are handled independently).
-/
import TrashVerif.Model.Put
import TrashVerif.Props.C07
import TrashVerif.Props.PutCoreDefs
namespace TrashVerif.C16Indep
open TrashVerif Prog FS

/-- the volume `Trasher.trash_single` computes for an argument (`--force-volume`, else the volume
    of the real path of the argument's parent) -/
def volumeFor (fs : FS) (c : PutCfg) (path : Bytes) : Bytes :=
  match c.forcedVolume with
  | some v => if v ≠ [] then v else volumeOf fs c.cwd (realpathStr fs c.cwd (dirname (let p := rstripSlash path; if p = [] then path else p)))
  | none => volumeOf fs c.cwd (realpathStr fs c.cwd (dirname (let p := rstripSlash path; if p = [] then path else p)))

/-- why a candidate trash directory is refused before anything is created in it (`none`: it is not) -/
def rejectReason (fs : FS) (c : PutCfg) (volume : Bytes) (cand : Candidate) : Option Reason :=
  match securityCheck fs c.cwd cand with
  | some r => some r
  | none => gateCheck fs c volume cand

/-- An argument that is given up without a single system call: a dot entry ("." / ".." as last
    component), a path that does not exist, or an entry every candidate trash directory of which is
    refused by the security check / the volume gate. -/
def Inert (c : PutCfg) (fs : FS) (a : Bytes) : Prop :=
  isDotEntry (rstripSlash a) = true ∨ pLexists fs c.cwd a = false ∨
  ∀ cand ∈ candidatesFor fs c (volumeFor fs c a), rejectReason fs c (volumeFor fs c a) cand ≠ none

/-- what is reported for an inert argument -/
def inertOutcome (c : PutCfg) (fs : FS) (a : Bytes) : ArgOutcome :=
  if isDotEntry (rstripSlash a) = true then .failedDot
  else if pLexists fs c.cwd a = false then (if c.mode = .force then .skippedMissing else .failedMissing)
  else .failedAll ((candidatesFor fs c (volumeFor fs c a)).filterMap (rejectReason fs c (volumeFor fs c a)))

/-- the run of one argument alone, without faults, from the file system `fs` -/
def alone (c : PutCfg) (fs : FS) (st : PutSt) (a : Bytes) : (Except PutCrash ArgOutcome × PutSt) × RunState :=
  run noFaults (trashSingle c a st) { fs := fs }

/-- An argument whose handling leaves the file system exactly as it was (every system call it
    issued, if any, failed), does not consume scripted input, and does not abort the run.
    Every `Inert` argument is silent (without prompts); so is e.g. an entry for which no trash
    directory can be created. -/
def Silent (c : PutCfg) (fs : FS) (st : PutSt) (a : Bytes) : Prop :=
  (alone c fs st a).2.fs = fs ∧ (alone c fs st a).1.2 = st ∧
  ∃ o, (alone c fs st a).1.1 = .ok o ∧ ∀ e, o ≠ .crashed e

/-- the outcome of the argument handled alone (`failedDot` stands in for an aborted run) -/
def aloneOutcome (c : PutCfg) (fs : FS) (st : PutSt) (a : Bytes) : ArgOutcome :=
  match (alone c fs st a).1.1 with
  | .ok o => o
  | .error _ => .failedDot


/-! ### two trashings at the resolved layer -/

/-- the two operations do not overlap: the entry of `a` is unrelated to the entry of `d` and to
    `d`'s trash directories; nothing of `d` lies strictly inside `files/` of `a` (where the payload of `a`
    appears); the `files/` of one is not the `info/` of the other -/
structure Apart (Ia Fa Sa Id Fd Sd : CPath) : Prop where
  src : ¬ Sa <+: Sd ∧ ¬ Sd <+: Sa
  srcInfo : ¬ Sa <+: Id ∧ ¬ Id <+: Sa
  srcFiles : ¬ Sa <+: Fd ∧ ¬ Fd <+: Sa
  inSrc : ∀ n, ¬ Fa ++ [n] <+: Sd
  inInfo : ∀ n, ¬ Fa ++ [n] <+: Id
  inFiles : ∀ n, ¬ Fa ++ [n] <+: Fd
  cross1 : Fd ≠ Ia
  cross2 : Id ≠ Fa

/-- the suffixes `Suffix.suffix_for_index` produces: none, or `_<number>` -/
def IsSuffix (suffix : Bytes) : Prop := suffix = [] ∨ ∃ k : Nat, suffix = b "_" ++ Bytes.ofNat k

/-- the trash name of `a` is not a variant of the basename of `d` where their directories coincide -/
def NamesApart (Ia Fa Id Fd : CPath) (na base : Bytes) : Prop :=
  ∀ suffix, IsSuffix suffix → ∀ tooLong,
    (Fd = Fa → stemOf (trashinfoBasename base suffix tooLong) ≠ stemOf na) ∧
    (Id = Ia → trashinfoBasename base suffix tooLong ≠ na)

/-! ### the home-trash case on plain paths -/

/-- `$HOME/.local/share/Trash` for the canonical home directory `H` -/
def trashC (H : CPath) : CPath := H ++ [b ".local", b "share", b "Trash"]
def filesC (H : CPath) : CPath := trashC H ++ [b "files"]
def infoC (H : CPath) : CPath := trashC H ++ [b "info"]
/-- the trash directory as `trash-put` spells it -/
def homeStr (H : CPath) : Bytes := toStr H ++ b "/.local/share/Trash"

/-- The everyday configuration: no `--trash-dir`, no `--force-volume`, no prompts, XDG_DATA_HOME
    unset, HOME the canonical spelling of a directory `H ≠ /`; the home trash directory exists with
    `files/` and `info/`, and no symlink lies on the way to them (`C07.Plain`); `files/` is on
    the volume of the trash directory. -/
structure HomeWorld (c : PutCfg) (fs : FS) (H : CPath) : Prop where
  noTrashDir : c.trashDir = none
  noForcedVolume : c.forcedVolume = none
  noPrompt : c.mode ≠ .interactive
  xdgUnset : c.env.xdg = none
  home : c.env.home = some (toStr H)
  homeNotRoot : H ≠ []
  homeNames : C07.GoodNames H
  filesPlain : C07.Plain fs (filesC H)
  infoPlain : C07.Plain fs (infoC H)
  rootMounted : fs.isMount [] = true
  filesSameVolume : dev fs (filesC H) = dev fs (trashC H)

/-- An everyday argument: the canonical absolute spelling `toStr (P ++ [n])` of an existing entry
    (of any kind) that is not a mount point, whose parent `P` is reached without symlinks, lives on
    the volume of the home trash, and is neither an ancestor of nor inside `files/` or `info/`. -/
structure GoodArg (fs : FS) (H P : CPath) (n : Name) : Prop where
  names : C07.GoodNames (P ++ [n])
  parentPlain : C07.Plain fs P
  present : (fs.get (P ++ [n])).isSome = true
  notMount : fs.isMount (P ++ [n]) = false
  sameVolume : dev fs P = dev fs (trashC H)
  apartInfo : ¬ (P ++ [n]) <+: infoC H ∧ ¬ infoC H <+: (P ++ [n])
  apartFiles : ¬ (P ++ [n]) <+: filesC H ∧ ¬ filesC H <+: (P ++ [n])

/-- what `OriginalLocation.for_file` records for such an argument in the home trash -/
def locOf (P : CPath) (n : Name) : Bytes := pjoin (toStr P) n

/-- the core run the argument `toStr (P ++ [n])` comes down to -/
def homeCore (c : PutCfg) (H P : CPath) (n : Name) (st : PutSt) : Prog (Except Reason Bytes × PutSt) :=
  putCore (infoC H) (filesC H) (basename (locOf P n)) (formatTrashinfoWith (locOf P n) c.dateStr)
    (fun _ => .ok (P ++ [n])) st

end TrashVerif.C16Indep
