/-
  Props/C05Cmd.lean — COMMAND-level theorems for C05: the crash states of a WHOLE run of the real
  `runPut` (Model/Put.lean), fault-free.

  "If trash-put is killed at any point, each entry it was asked to trash is still complete at its
   original location or complete under files/ of a trash directory - never missing from both, never
   partly in each - and every payload present under files/ has its .trashinfo already present,
   complete and parseable."

  Props/C05.lean proves this of the CORE (`putCore` in a `Setting`: after the checks and the `mkdir`s).
  Here the statements are about `trash-put <arg>` from its first system call on: for EVERY state
  `s ∈ crashStates noFaults (runPut c [arg] st) fs` — the state before each system call, and the final
  one — the invariant `CrashInv` (Props/C05CmdDefs.lean):
    * the entry is complete at its original location (every node of its subtree as before) and the slot
      `files/<name>` is as it was, or complete under `files/<name>` (every node) and NOTHING is left at
      the original location;
    * every other slot of `files/` is as it was;
    * whenever `files/<name>` exists, `info/<name>.trashinfo` exists, is a regular file, conformant
      (`C03.Holds`), complete (`Spec.infoComplete`) and parses: `parsePath` gives the recorded location,
      `parseDeletionDate` the clock reading.
  Settings: first use of the home trash (`put_run_crash_inv_home`), an existing home trash
  (`put_run_crash_inv_home_existing`), `$topdir/.Trash-$uid` (`put_run_crash_inv_volume`),
  `$topdir/.Trash/$uid`, `--trash-dir`.
  `crash_states_of_first_use` lists the crash states of a first use explicitly.

  WHY NOT the Spec predicate `C05.Holds` (Spec/PutSpecs.lean) in the general statements: it enumerates
  `FS.dom` (`Spec.payloadNames` = children of `files/` found in `dom`), and `dom` of an abstract world is
  only "a finite superset of the support" — nothing can be proved from it about an arbitrary `FS`.
  `CrashInv` says the same on `FS.get`, for the resolved paths; `C05.Holds` itself is EVALUATED, by the
  kernel, on every crash state of the concrete worlds at the end of this file.
  Nothing here is `_partial`: no statement of the task turned out false.
-/
import TrashVerif.Props.C05CmdDefs
import TrashVerif.Props.C05
import TrashVerif.Props.C07Cmd
import TrashVerif.Props.C16Indep
import TrashVerif.Spec.PutSpecs
import TrashVerif.Proofs.C05CmdRun
import TrashVerif.Proofs.C05CmdEx
namespace TrashVerif.C05Cmd
open TrashVerif Prog FS PutCore C16Indep C07Cmd
open TrashVerif.C07 (Plain GoodNames)
open TrashVerif.C03Cmd (Clock)

/-! ### the crash states of ANY fault-free run are the states its system calls go through -/

/-- `crashStates` (the file-system states recorded before each call, and the final one) is the replay
    of the run's own list of system calls from the initial state: a call that succeeded is applied, a
    call that failed leaves the state alone. -/
theorem crash_states_replay {α} (p : Prog α) (fs : FS) :
    crashStates noFaults p fs = statesAlong fs (callsOf (run noFaults p { fs := fs }).2.trace) :=
  Proofs.C05CmdCore.crashStates_replay p fs

/-! ### 6. the home trash -/

/-- `put_run_crash_inv_home`.  The setting of `C07Cmd.home_first_use` (the home trash `Q ++ x :: R` yet
    to be made below the existing `Q`; an everyday entry `P/n` — of any kind, a whole directory tree
    included — on its volume), clock reading `d`.  EVERY crash state of `trash-put P/n` satisfies
    `CrashInv` for the slot `files/n`, the recorded location `toStr (P ++ [n])` and the date `d`. -/
theorem put_run_crash_inv_home (c : PutCfg) (fs : FS) (H Q : CPath) (x : Name) (R P : CPath) (n : Name) (d : Date)
    (C : HomeCfg c H) (hsplit : trashC H = Q ++ x :: R) (S : FreshSite fs Q x R) (A : Arg fs P n)
    (hm : MountsOk fs) (hvol : dev fs P = dev fs Q) (hapart : ¬ (P ++ [n]) <+: Q) (K : Clock c d) (st : PutSt) :
    ∀ s ∈ crashStates noFaults (runPut c [toStr (P ++ [n])] st) fs,
      CrashInv fs s (infoC H) (filesC H) (P ++ [n]) n (toStr (P ++ [n])) d :=
  Proofs.C05CmdRun.home_first_use_crash C hsplit S A hm hvol hapart K st

/-- `put_run_crash_inv_home_existing`.  The home trash exists (`HomeWorld`, the setting of
    `C16Indep.home_alone`); the run reports the entry trashed as `name` (whatever the persist loop
    settles on after collisions).  The slot `files/<stem of name>` was free, and EVERY crash state
    satisfies `CrashInv` for it.  The crash states are exactly: the initial state three times (the
    three `mkdir`s fail with EEXIST), then the crash states of the core run
    (`put_crash_states_home_existing`). -/
theorem put_run_crash_inv_home_existing (c : PutCfg) (fs : FS) (H P : CPath) (n : Name) (d : Date) (W : HomeWorld c fs H)
    (A : GoodArg fs H P n) (K : Clock c d) (st : PutSt) (name : Bytes)
    (hok : (run noFaults (homeCore c H P n st) { fs := fs }).1.1 = .ok name) :
    fs.get (filesC H ++ [stemOf name]) = none ∧
    ∀ s ∈ crashStates noFaults (runPut c [toStr (P ++ [n])] st) fs,
      CrashInv fs s (infoC H) (filesC H) (P ++ [n]) (stemOf name) (toStr (P ++ [n])) d :=
  Proofs.C05CmdHome.home_existing_crash_inv W A d K.reading K.valid K.fourDigits st name hok

theorem put_crash_states_home_existing (c : PutCfg) (fs : FS) (H P : CPath) (n : Name) (W : HomeWorld c fs H)
    (A : GoodArg fs H P n) (st : PutSt) (name : Bytes)
    (hok : (run noFaults (homeCore c H P n st) { fs := fs }).1.1 = .ok name) :
    crashStates noFaults (runPut c [toStr (P ++ [n])] st) fs =
      [fs, fs, fs] ++ crashStates noFaults (homeCore c H P n st) fs :=
  Proofs.C05CmdHome.crashStates_home W A st name hok

/-! ### 7. the volume trash directories, `--trash-dir` -/

/-- `put_run_crash_inv_volume`.  The setting of `C07Cmd.other_volume_alt` (the entry `V/P'/n` on the
    mount point `V`, `V/.Trash-$uid` yet to be made): every crash state satisfies `CrashInv` for
    `V/.Trash-$uid/files/n`, the recorded RELATIVE location `P'/n` and the date `d`. -/
theorem put_run_crash_inv_volume (c : PutCfg) (fs : FS) (H Qh Rh V P' : CPath) (n : Name) (d : Date) (C : HomeCfg c H)
    (W : OtherVolume fs H Qh Rh V) (hm : MountsOk fs) (S : FreshSite fs V (altName c.uid) []) (A : Arg fs (V ++ P') n)
    (hon : dev fs (V ++ P') = V) (hu : GoodNames [uidName c.uid]) (hnoTop : fs.get (V ++ [b ".Trash"]) = none)
    (K : Clock c d) (st : PutSt) :
    ∀ s ∈ crashStates noFaults (runPut c [toStr ((V ++ P') ++ [n])] st) fs,
      CrashInv fs s (infoOf (V ++ [altName c.uid])) (filesOf (V ++ [altName c.uid])) ((V ++ P') ++ [n]) n (relLoc P' n) d :=
  Proofs.C05CmdRun.volume_alt_crash C W hm S A hon hu hnoTop K st

/-- … the setting of `C07Cmd.other_volume_top` (`V/.Trash/$uid`) … -/
theorem put_run_crash_inv_volume_top (c : PutCfg) (fs : FS) (H Qh Rh V P' : CPath) (n : Name) (m t : Nat) (d : Date)
    (C : HomeCfg c H) (W : OtherVolume fs H Qh Rh V) (hm : MountsOk fs)
    (S : FreshSite fs (V ++ [b ".Trash"]) (uidName c.uid) []) (A : Arg fs (V ++ P') n)
    (hon : dev fs (V ++ P') = V) (htop : fs.get (V ++ [b ".Trash"]) = some (.dir m t)) (hsticky : m &&& 0o1000 ≠ 0)
    (hnm : fs.isMount (V ++ [b ".Trash"]) = false) (hapart : ¬ ((V ++ P') ++ [n]) <+: V ++ [b ".Trash"])
    (K : Clock c d) (st : PutSt) :
    ∀ s ∈ crashStates noFaults (runPut c [toStr ((V ++ P') ++ [n])] st) fs,
      CrashInv fs s (infoOf (V ++ [b ".Trash"] ++ [uidName c.uid])) (filesOf (V ++ [b ".Trash"] ++ [uidName c.uid]))
        ((V ++ P') ++ [n]) n (relLoc P' n) d :=
  Proofs.C05CmdRun.volume_top_crash C W hm S A hon htop hsticky hnm hapart K st

/-- … and of `C07Cmd.custom_trash_dir` (`--trash-dir` on the entry's volume). -/
theorem put_run_crash_inv_custom (c : PutCfg) (fs : FS) (Q : CPath) (x : Name) (R V P' : CPath) (n : Name) (d : Date)
    (C : CustomCfg c (Q ++ x :: R)) (S : FreshSite fs Q x R) (hV : dev fs Q = V) (A : Arg fs (V ++ P') n)
    (hon : dev fs (V ++ P') = V) (hm : MountsOk fs) (hapart : ¬ ((V ++ P') ++ [n]) <+: Q) (K : Clock c d) (st : PutSt) :
    ∀ s ∈ crashStates noFaults (runPut c [toStr ((V ++ P') ++ [n])] st) fs,
      CrashInv fs s (infoOf (Q ++ x :: R)) (filesOf (Q ++ x :: R)) ((V ++ P') ++ [n]) n (relLoc P' n) d :=
  Proofs.C05CmdRun.custom_crash C S hV A hon hm hapart K st

/-! ### 8. the crash states of a first use, explicitly -/

/-- `crash_states_of_first_use`.  The setting of `C07Cmd.home_first_use`.  The list of crash states of
    `trash-put P/n` is (1) the replay of the `R.length + 7` calls of `firstUseCalls` (= `firstUseTrace`
    oldest first) from `fs`, hence has `R.length + 8` elements; (2) explicitly
      `dirs ++ [fs1, afterCreate fs1 p, afterWrite fs1 p text, afterWrite fs1 p text, final]`  where
    * `dirs` — `R.length + 3` states, the first of which is `fs` — are the states before each `mkdir`
      (`DirsOnly`: only directories on the way to `Trash`, `Trash/files`, `Trash/info` have appeared);
    * `fs1` is the state after the last `mkdir`, before the exclusive create (`SiteCreated fs fs1 …`);
    * `afterCreate fs1 p`, the state after `os.open(p, O_CREAT|O_EXCL, 0o600)` and before the write:
      `p = info/n.trashinfo` is an EMPTY regular file.  C05 allows this state: there is no payload yet
      (`first_use_empty_info_state`) — a reader finds an info file without a `Path=` line and no
      `files/n`, an orphan info that `trash-empty`/`trash-rm` can remove;
    * `afterWrite fs1 p text` occurs twice: after the write and after the close (which changes nothing);
    * `final` is the state after the one `rename` (`Trashed fs1 final …`, C01).
    `first_use_no_payload_without_info`: NO crash state has the payload under `files/n` next to an empty
    or missing info file. -/
theorem crash_states_of_first_use (c : PutCfg) (fs : FS) (H Q : CPath) (x : Name) (R P : CPath) (n : Name) (d : Date)
    (C : HomeCfg c H) (hsplit : trashC H = Q ++ x :: R) (S : FreshSite fs Q x R) (A : Arg fs P n)
    (hm : MountsOk fs) (hvol : dev fs P = dev fs Q) (hapart : ¬ (P ++ [n]) <+: Q) (K : Clock c d) (st : PutSt) :
    crashStates noFaults (runPut c [toStr (P ++ [n])] st) fs =
      statesAlong fs (firstUseCalls Q x R (P ++ [n]) n (formatTrashinfoWith (toStr (P ++ [n])) d.fmt)) ∧
    ∃ dirs fs1,
      crashStates noFaults (runPut c [toStr (P ++ [n])] st) fs =
        dirs ++ [fs1, afterCreate fs1 (infoC H ++ [n ++ trashinfoExt]),
          afterWrite fs1 (infoC H ++ [n ++ trashinfoExt]) (formatTrashinfoWith (toStr (P ++ [n])) d.fmt),
          afterWrite fs1 (infoC H ++ [n ++ trashinfoExt]) (formatTrashinfoWith (toStr (P ++ [n])) d.fmt),
          (run noFaults (runPut c [toStr (P ++ [n])] st) { fs := fs }).2.fs] ∧
      dirs.length = R.length + 3 ∧ dirs.head? = some fs ∧
      (∀ s ∈ dirs, DirsOnly fs s Q x R) ∧ SiteCreated fs fs1 Q x R ∧
      Trashed fs1 (run noFaults (runPut c [toStr (P ++ [n])] st) { fs := fs }).2.fs (infoC H) (filesC H) (P ++ [n])
        (n ++ trashinfoExt) (formatTrashinfoWith (toStr (P ++ [n])) d.fmt) :=
  Proofs.C05CmdRun.home_first_use_states C hsplit S A hm hvol hapart K st

/-- The same decomposition for ANY program whose fault-free trace is `firstUseTrace` and whose final
    state is `Trashed` from some `SiteCreated` state — what `other_volume_alt`, `other_volume_top`,
    `custom_trash_dir` provide (with `Q`, `x`, `R` as there). -/
theorem crash_states_of_first_use_trace {α} (prog : Prog α) (fs : FS) (Q : CPath) (x : Name) (R src : CPath)
    (stem content : Bytes) (S : FreshSite fs Q x R)
    (htr : (run noFaults prog { fs := fs }).2.trace = firstUseTrace Q x R src stem content)
    (hT : ∃ fs1, SiteCreated fs fs1 Q x R ∧
      Trashed fs1 (run noFaults prog { fs := fs }).2.fs (infoOf (Q ++ x :: R)) (filesOf (Q ++ x :: R)) src
        (stem ++ trashinfoExt) content) :
    crashStates noFaults prog fs = statesAlong fs (firstUseCalls Q x R src stem content) ∧
    ∃ dirs fs1,
      crashStates noFaults prog fs =
        dirs ++ [fs1, afterCreate fs1 (infoOf (Q ++ x :: R) ++ [stem ++ trashinfoExt]),
          afterWrite fs1 (infoOf (Q ++ x :: R) ++ [stem ++ trashinfoExt]) content,
          afterWrite fs1 (infoOf (Q ++ x :: R) ++ [stem ++ trashinfoExt]) content,
          (run noFaults prog { fs := fs }).2.fs] ∧
      dirs.length = R.length + 3 ∧ dirs.head? = some fs ∧
      (∀ s ∈ dirs, DirsOnly fs s Q x R) ∧ SiteCreated fs fs1 Q x R ∧
      Trashed fs1 (run noFaults prog { fs := fs }).2.fs (infoOf (Q ++ x :: R)) (filesOf (Q ++ x :: R)) src
        (stem ++ trashinfoExt) content := by
  constructor
  · rw [crash_states_replay, htr, Proofs.C05Cmd.callsOf_firstUse]
  · obtain ⟨dirs, fs1, h1, h2, h3, h4, _, h6, h7⟩ := Proofs.C05Cmd.first_use_states prog S htr hT
    exact ⟨dirs, fs1, h1, h2, h3, h4, h6, h7⟩

/-- `first_use_empty_info_state`.  Among the crash states of a first use there IS one with an EMPTY info
    file: `info/n.trashinfo` is a regular file of 0 bytes, there is NO payload (`files/n` absent) and the
    entry is untouched at its place.  C05 allows it ("every payload present under files/ has its
    .trashinfo": no payload is present) and `CrashInv` holds of it (`put_run_crash_inv_home`). -/
theorem first_use_empty_info_state (c : PutCfg) (fs : FS) (H Q : CPath) (x : Name) (R P : CPath) (n : Name) (d : Date)
    (C : HomeCfg c H) (hsplit : trashC H = Q ++ x :: R) (S : FreshSite fs Q x R) (A : Arg fs P n)
    (hm : MountsOk fs) (hvol : dev fs P = dev fs Q) (hapart : ¬ (P ++ [n]) <+: Q) (K : Clock c d) (st : PutSt) :
    ∃ s ∈ crashStates noFaults (runPut c [toStr (P ++ [n])] st) fs,
      s.get (infoC H ++ [n ++ trashinfoExt]) = some (.file [] 0o600 0) ∧ s.get (filesC H ++ [n]) = none ∧
      ∀ rel, s.get (P ++ [n] ++ rel) = fs.get (P ++ [n] ++ rel) := by
  obtain ⟨_, dirs, fs1, hcs, _, _, _, _, _⟩ := crash_states_of_first_use c fs H Q x R P n d C hsplit S A hm hvol hapart K st
  have hmem : afterCreate fs1 (infoC H ++ [n ++ trashinfoExt]) ∈ crashStates noFaults (runPut c [toStr (P ++ [n])] st) fs := by
    rw [hcs]; simp
  have hinv := put_run_crash_inv_home c fs H Q x R P n d C hsplit S A hm hvol hapart K st _ hmem
  have hI : (afterCreate fs1 (infoC H ++ [n ++ trashinfoExt])).get (infoC H ++ [n ++ trashinfoExt]) =
      some (.file [] 0o600 0) := by
    show (Proofs.PutLemmas.fsA fs1 _).get _ = _
    rw [Proofs.PutLemmas.fsA_get, if_pos rfl]
  have hfresh : fs.get (filesC H ++ [n]) = none := by
    have e : filesC H ++ [n] = Q ++ x :: (R ++ [b "files", n]) := by unfold filesC; rw [hsplit]; simp
    rw [e]; exact S.fresh _
  refine ⟨_, hmem, hI, ?_, ?_⟩
  · rcases hinv.whole with ⟨_, h2⟩ | ⟨h1, _⟩
    · have := h2 []; simpa [hfresh] using this
    · have hs : ((afterCreate fs1 (infoC H ++ [n ++ trashinfoExt])).get (filesC H ++ [n])).isSome = true := by
        have := h1 []; simp only [List.append_nil] at this; rw [this]; exact A.present
      obtain ⟨data, m, t, hg, hne, _⟩ := Proofs.C05CmdRun.payload_has_info hinv hs
      rw [hI] at hg; cases hg; exact absurd rfl hne
  · rcases hinv.whole with ⟨h1, _⟩ | ⟨h1, _⟩
    · exact h1
    · exfalso
      have hs : ((afterCreate fs1 (infoC H ++ [n ++ trashinfoExt])).get (filesC H ++ [n])).isSome = true := by
        have := h1 []; simp only [List.append_nil] at this; rw [this]; exact A.present
      obtain ⟨data, m, t, hg, hne, _⟩ := Proofs.C05CmdRun.payload_has_info hinv hs
      rw [hI] at hg; cases hg; exact hne rfl

/-- `first_use_no_payload_without_info`.  In NO crash state is the payload under `files/n` while the info
    file is missing, is not a regular file, or is empty: whenever `files/n` exists, `info/n.trashinfo`
    is a regular file with non-empty content from which `parsePath` reads the entry's location and
    `parseDeletionDate` the clock reading.  (A consequence of `CrashInv.infoFirst`; stated for the
    home first use, it follows in the same way in every setting above.) -/
theorem first_use_no_payload_without_info (c : PutCfg) (fs : FS) (H Q : CPath) (x : Name) (R P : CPath) (n : Name) (d : Date)
    (C : HomeCfg c H) (hsplit : trashC H = Q ++ x :: R) (S : FreshSite fs Q x R) (A : Arg fs P n)
    (hm : MountsOk fs) (hvol : dev fs P = dev fs Q) (hapart : ¬ (P ++ [n]) <+: Q) (K : Clock c d) (st : PutSt) :
    ∀ s ∈ crashStates noFaults (runPut c [toStr (P ++ [n])] st) fs, (s.get (filesC H ++ [n])).isSome = true →
      ∃ data m t, s.get (infoC H ++ [n ++ trashinfoExt]) = some (.file data m t) ∧ data ≠ [] ∧
        (readText data).bind parsePath = some (toStr (P ++ [n])) ∧ (readText data).bind parseDeletionDate = some d :=
  fun s hs hp => Proofs.C05CmdRun.payload_has_info (put_run_crash_inv_home c fs H Q x R P n d C hsplit S A hm hvol hapart K st s hs) hp

/-- the same consequence of `CrashInv` in general -/
theorem crash_inv_payload_has_info {fs s : FS} {I F src : CPath} {stem loc : Bytes} {d : Date}
    (h : CrashInv fs s I F src stem loc d) (hp : (s.get (F ++ [stem])).isSome = true) :
    ∃ data m t, s.get (I ++ [stem ++ trashinfoExt]) = some (.file data m t) ∧ data ≠ [] ∧
      (readText data).bind parsePath = some loc ∧ (readText data).bind parseDeletionDate = some d :=
  Proofs.C05CmdRun.payload_has_info h hp

/-! ### 9. non-vacuity: concrete worlds, every crash state evaluated by the kernel -/

/-- World `fsTree`: HOME=/h and nothing below it; the entry `/p/dir` is a TREE (`dir/`, `dir/a`, `dir/sub/`,
    `dir/sub/b`); clock at 2024-02-29 23:59:59.  The hypotheses of `put_run_crash_inv_home` /
    `crash_states_of_first_use` hold (`Q = /h`, `x = .local`, `R = [share, Trash]`) … -/
example :
    HomeCfg Proofs.C03CmdEx.cfgD Proofs.C07CmdEx.H ∧
    FreshSite Proofs.C05CmdEx.fsTree Proofs.C07CmdEx.H (b ".local") [b "share", b "Trash"] ∧
    Arg Proofs.C05CmdEx.fsTree [b "p"] (b "dir") ∧ MountsOk Proofs.C05CmdEx.fsTree ∧
    Clock Proofs.C03CmdEx.cfgD Proofs.C03CmdEx.d0 :=
  ⟨Proofs.C03CmdEx.homeCfgD, Proofs.C05CmdEx.siteTree, Proofs.C05CmdEx.argTree, Proofs.C05CmdEx.mountsTree,
   Proofs.C03CmdEx.clockD⟩

/-- … the theorems at work there: the invariant in every crash state, and their number (2 + 8) … -/
example :
    (∀ s ∈ crashStates noFaults (runPut Proofs.C03CmdEx.cfgD [toStr ([b "p"] ++ [b "dir"])] Proofs.C07CmdEx.st0)
        Proofs.C05CmdEx.fsTree,
      CrashInv Proofs.C05CmdEx.fsTree s (infoC Proofs.C07CmdEx.H) (filesC Proofs.C07CmdEx.H) ([b "p"] ++ [b "dir"]) (b "dir")
        (toStr ([b "p"] ++ [b "dir"])) Proofs.C03CmdEx.d0) ∧
    (crashStates noFaults (runPut Proofs.C03CmdEx.cfgD [toStr ([b "p"] ++ [b "dir"])] Proofs.C07CmdEx.st0)
      Proofs.C05CmdEx.fsTree).length = 10 := by
  have hc := crash_states_of_first_use _ _ _ _ _ _ _ _ _ Proofs.C03CmdEx.homeCfgD rfl Proofs.C05CmdEx.siteTree
    Proofs.C05CmdEx.argTree Proofs.C05CmdEx.mountsTree (by decide +kernel) (by decide +kernel) Proofs.C03CmdEx.clockD
    Proofs.C07CmdEx.st0
  refine ⟨put_run_crash_inv_home _ _ _ _ _ _ _ _ _ Proofs.C03CmdEx.homeCfgD rfl Proofs.C05CmdEx.siteTree
    Proofs.C05CmdEx.argTree Proofs.C05CmdEx.mountsTree (by decide +kernel) (by decide +kernel) Proofs.C03CmdEx.clockD _, ?_⟩
  obtain ⟨_, dirs, fs1, h, hl, _⟩ := hc
  rw [h, List.length_append, hl]; rfl

/-- `first_use_tree_crash_states_evaluated`.  … and the model itself evaluated by the kernel: EVERY crash
    state of `trash-put /p/dir` in that world, in order, as seen at the sixteen paths that ever exist
    (`view`: spelling and node of those present) — before each of the five `mkdir`s; before the exclusive
    create; before the write (EMPTY `dir.trashinfo`, the tree still at `/p/dir`, nothing under `files/`);
    before the close; before the rename; the final state (the WHOLE tree under `files/dir`, modes and
    mtimes kept, nothing at `/p/dir`).  And the Spec predicate `C05.Holds` (Spec/PutSpecs.lean) evaluated
    on every one of them. -/
theorem first_use_tree_crash_states_evaluated :
    (crashStates noFaults (runPut Proofs.C03CmdEx.cfgD [b "/p/dir"] Proofs.C07CmdEx.st0) Proofs.C05CmdEx.fsTree).map
        (Proofs.C05CmdEx.view Proofs.C05CmdEx.watchTree) =
      (let D755 := Proofs.C05CmdEx.D755
       let homeDirs := Proofs.C05CmdEx.homeDirs
       let treeAt := Proofs.C05CmdEx.treeAt
       let text := Proofs.C05CmdEx.infoDirText
       [(b "/h", D755) :: homeDirs 0 ++ (b "/p", D755) :: treeAt (b "/p/dir"),
        (b "/h", D755) :: homeDirs 1 ++ (b "/p", D755) :: treeAt (b "/p/dir"),
        (b "/h", D755) :: homeDirs 2 ++ (b "/p", D755) :: treeAt (b "/p/dir"),
        (b "/h", D755) :: homeDirs 3 ++ (b "/p", D755) :: treeAt (b "/p/dir"),
        (b "/h", D755) :: homeDirs 4 ++ (b "/p", D755) :: treeAt (b "/p/dir"),
        (b "/h", D755) :: homeDirs 5 ++ (b "/p", D755) :: treeAt (b "/p/dir"),
        (b "/h", D755) :: homeDirs 5 ++ (b "/h/.local/share/Trash/info/dir.trashinfo", .file [] 0o600 0) ::
          (b "/p", D755) :: treeAt (b "/p/dir"),
        (b "/h", D755) :: homeDirs 5 ++ (b "/h/.local/share/Trash/info/dir.trashinfo", .file text 0o600 0) ::
          (b "/p", D755) :: treeAt (b "/p/dir"),
        (b "/h", D755) :: homeDirs 5 ++ (b "/h/.local/share/Trash/info/dir.trashinfo", .file text 0o600 0) ::
          (b "/p", D755) :: treeAt (b "/p/dir"),
        (b "/h", D755) :: homeDirs 5 ++ (b "/h/.local/share/Trash/info/dir.trashinfo", .file text 0o600 0) ::
          treeAt (b "/h/.local/share/Trash/files/dir") ++ [(b "/p", D755)]]) ∧
    Proofs.C05CmdEx.infoDirText = b "[Trash Info]\nPath=/p/dir\nDeletionDate=2024-02-29T23:59:59\n" ∧
    (crashStates noFaults (runPut Proofs.C03CmdEx.cfgD [b "/p/dir"] Proofs.C07CmdEx.st0) Proofs.C05CmdEx.fsTree).all
      (fun s => C05.Holds Proofs.C05CmdEx.fsTree s [trashC Proofs.C07CmdEx.H] [[b "p", b "dir"]]) = true :=
  ⟨Proofs.C05CmdEx.evalTree.1, rfl, Proofs.C05CmdEx.evalTree.2⟩

/-- Non-vacuity of `put_run_crash_inv_volume`: the world `fsO` of Proofs/C07CmdEx.lean (mount point `/v`,
    the file `/v/d/x`, uid 0), the theorem at work … -/
example :
    ∀ s ∈ crashStates noFaults (runPut Proofs.C03CmdEx.cfgD [toStr ((Proofs.C07CmdEx.V ++ [b "d"]) ++ [b "x"])]
        Proofs.C07CmdEx.st0) Proofs.C07CmdEx.fsO,
      CrashInv Proofs.C07CmdEx.fsO s (infoOf (Proofs.C07CmdEx.V ++ [altName Proofs.C03CmdEx.cfgD.uid]))
        (filesOf (Proofs.C07CmdEx.V ++ [altName Proofs.C03CmdEx.cfgD.uid])) ((Proofs.C07CmdEx.V ++ [b "d"]) ++ [b "x"]) (b "x")
        (relLoc [b "d"] (b "x")) Proofs.C03CmdEx.d0 :=
  put_run_crash_inv_volume _ _ _ _ _ _ _ _ _ Proofs.C03CmdEx.homeCfgD Proofs.C07CmdEx.otherO Proofs.C07CmdEx.mountsO
    Proofs.C07CmdEx.altO Proofs.C07CmdEx.argO (by decide +kernel) Proofs.C07CmdEx.uidGood (by decide +kernel)
    Proofs.C03CmdEx.clockD _

/-- `volume_crash_states_evaluated`.  … and its eight crash states evaluated by the kernel (`Path=d/x`,
    relative to `/v`), with the Spec predicate on each. -/
theorem volume_crash_states_evaluated :
    (crashStates noFaults (runPut Proofs.C03CmdEx.cfgD [b "/v/d/x"] Proofs.C07CmdEx.st0) Proofs.C07CmdEx.fsO).map
        (Proofs.C05CmdEx.view Proofs.C05CmdEx.watchVol) =
      (let volDirs := Proofs.C05CmdEx.volDirs
       let fileX := Proofs.C05CmdEx.fileX
       let text := Proofs.C05CmdEx.infoVolText
       [volDirs 0 ++ [(b "/v/d/x", fileX)],
        volDirs 1 ++ [(b "/v/d/x", fileX)],
        volDirs 2 ++ [(b "/v/d/x", fileX)],
        volDirs 3 ++ [(b "/v/d/x", fileX)],
        volDirs 3 ++ [(b "/v/.Trash-0/info/x.trashinfo", .file [] 0o600 0), (b "/v/d/x", fileX)],
        volDirs 3 ++ [(b "/v/.Trash-0/info/x.trashinfo", .file text 0o600 0), (b "/v/d/x", fileX)],
        volDirs 3 ++ [(b "/v/.Trash-0/info/x.trashinfo", .file text 0o600 0), (b "/v/d/x", fileX)],
        volDirs 3 ++ [(b "/v/.Trash-0/info/x.trashinfo", .file text 0o600 0), (b "/v/.Trash-0/files/x", fileX)]]) ∧
    Proofs.C05CmdEx.infoVolText = b "[Trash Info]\nPath=d/x\nDeletionDate=2024-02-29T23:59:59\n" ∧
    (crashStates noFaults (runPut Proofs.C03CmdEx.cfgD [b "/v/d/x"] Proofs.C07CmdEx.st0) Proofs.C07CmdEx.fsO).all
      (fun s => C05.Holds Proofs.C07CmdEx.fsO s [Proofs.C07CmdEx.V ++ [altName 0]] [Proofs.C07CmdEx.V ++ [b "d", b "x"]]) = true :=
  ⟨Proofs.C05CmdEx.evalVol.1, rfl, Proofs.C05CmdEx.evalVol.2⟩

/-- Non-vacuity of `put_run_crash_inv_home_existing`: world `fsE` — the home trash exists and already holds
    an entry `x` (`files/x`, `info/x.trashinfo`); `trash-put /p/x` settles on `x_1.trashinfo`.  The theorem at
    work … -/
example :
    Proofs.C05CmdEx.fsE.get (filesC Proofs.C07CmdEx.H ++ [stemOf (b "x_1.trashinfo")]) = none ∧
    ∀ s ∈ crashStates noFaults (runPut Proofs.C03CmdEx.cfgD [toStr ([b "p"] ++ [b "x"])] Proofs.C07CmdEx.st0) Proofs.C05CmdEx.fsE,
      CrashInv Proofs.C05CmdEx.fsE s (infoC Proofs.C07CmdEx.H) (filesC Proofs.C07CmdEx.H) ([b "p"] ++ [b "x"])
        (stemOf (b "x_1.trashinfo")) (toStr ([b "p"] ++ [b "x"])) Proofs.C03CmdEx.d0 :=
  put_run_crash_inv_home_existing _ _ _ _ _ _ Proofs.C05CmdEx.worldE Proofs.C05CmdEx.argE Proofs.C03CmdEx.clockD _ _
    Proofs.C05CmdEx.coreE

/-- `existing_home_crash_states_evaluated`.  … and its eight crash states evaluated by the kernel: three
    `mkdir`s that fail with EEXIST (the state stays), the exclusive create of `x_1.trashinfo` (EMPTY), the
    write, the close, the rename to `files/x_1`; the older pair `x` is never touched. -/
theorem existing_home_crash_states_evaluated :
    (crashStates noFaults (runPut Proofs.C03CmdEx.cfgD [b "/p/x"] Proofs.C07CmdEx.st0) Proofs.C05CmdEx.fsE).map
        (Proofs.C05CmdEx.view Proofs.C05CmdEx.watchE) =
      (let oldPair := Proofs.C05CmdEx.oldPair
       let fileX := Proofs.C05CmdEx.fileX
       let text := Proofs.C05CmdEx.infoEText
       [oldPair ++ [(b "/p/x", fileX)],
        oldPair ++ [(b "/p/x", fileX)],
        oldPair ++ [(b "/p/x", fileX)],
        oldPair ++ [(b "/p/x", fileX)],
        oldPair ++ [(b "/h/.local/share/Trash/info/x_1.trashinfo", .file [] 0o600 0), (b "/p/x", fileX)],
        oldPair ++ [(b "/h/.local/share/Trash/info/x_1.trashinfo", .file text 0o600 0), (b "/p/x", fileX)],
        oldPair ++ [(b "/h/.local/share/Trash/info/x_1.trashinfo", .file text 0o600 0), (b "/p/x", fileX)],
        oldPair ++ [(b "/h/.local/share/Trash/info/x_1.trashinfo", .file text 0o600 0),
          (b "/h/.local/share/Trash/files/x_1", fileX)]]) ∧
    Proofs.C05CmdEx.infoEText = b "[Trash Info]\nPath=/p/x\nDeletionDate=2024-02-29T23:59:59\n" ∧
    (crashStates noFaults (runPut Proofs.C03CmdEx.cfgD [b "/p/x"] Proofs.C07CmdEx.st0) Proofs.C05CmdEx.fsE).all
      (fun s => C05.Holds Proofs.C05CmdEx.fsE s [trashC Proofs.C07CmdEx.H] [[b "p", b "x"]]) = true :=
  ⟨Proofs.C05CmdEx.evalE.1, rfl, Proofs.C05CmdEx.evalE.2⟩

end TrashVerif.C05Cmd
