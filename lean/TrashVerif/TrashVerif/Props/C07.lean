/-
  Props/C07.lean — property theorems for C07 (the prescribed trash dir, on the file's own volume).
  Decision logic of trash-put: home path from the environment, candidate order, gates, security
  check, modes of created directories, and the link between the lexical volume ascent and devices.
-/
import TrashVerif.Model.Put
import TrashVerif.Proofs.C07
namespace TrashVerif.C07
open TrashVerif Prog FS

/-- $XDG_DATA_HOME/Trash when XDG_DATA_HOME is set and non-empty, else $HOME/.local/share/Trash,
    else nothing. -/
theorem home_path_spec (e : Env) :
    homeTrashPaths e =
      match e.xdg, e.home with
      | some x, h => if x ≠ [] then [x ++ b "/Trash"] else (match h with | some h => [h ++ b "/.local/share/Trash"] | none => [])
      | none, some h => [h ++ b "/.local/share/Trash"]
      | none, none => [] := Proofs.C07.home_path_spec e

/-- `--trash-dir` restricts the choice to that directory. -/
theorem candidates_custom (fs : FS) (c : PutCfg) (volume d : Bytes) (h : c.trashDir = some d) (hd : d ≠ []) :
    candidatesFor fs c volume =
      [{ path := d, volume := volumeOf fs c.cwd d, relative := true, topCheck := false, gate := .sameVolume }] :=
  Proofs.C07.candidates_custom fs c volume d h hd

/-- Otherwise the order is: home trash, $topdir/.Trash/$uid (checked), $topdir/.Trash-$uid, and —
    only with --home-fallback — the home trash again behind the fallback gate. -/
theorem candidates_order (fs : FS) (c : PutCfg) (volume : Bytes) (h : c.trashDir = none ∨ c.trashDir = some []) :
    ∃ homes : List Candidate,
      homes.map (·.path) = homeTrashPaths c.env ∧ (∀ x ∈ homes, x.gate = .sameVolume ∧ x.topCheck = false ∧ x.relative = false) ∧
      candidatesFor fs c volume =
        homes ++
        [{ path := pjoin volume (b ".Trash/" ++ Bytes.ofNat c.uid), volume := volume, relative := true, topCheck := true, gate := .sameVolume },
         { path := pjoin volume (b ".Trash-" ++ Bytes.ofNat c.uid), volume := volume, relative := true, topCheck := false, gate := .sameVolume }] ++
        (if c.homeFallback then homes.map fun x => { x with gate := .homeFallback } else []) :=
  Proofs.C07.candidates_order fs c volume h

/-- The same-volume gate lets a candidate through only when the volume of the *resolved* trash
    directory is the volume of the file's resolved parent.
    RESTATED after the fix of `TrashDirVolumeReader.volume_of_trash_dir` (no `os.path.normpath`
    before `realpath`): the path resolved is the candidate's path AS SPELLED; the statement formerly
    read `realpathStr fs c.cwd (normpath cand.path)`.  (That former statement is false for the code as
    it is now: second example below.) -/
theorem gate_same_volume (fs : FS) (c : PutCfg) (volume : Bytes) (cand : Candidate) (hg : cand.gate = .sameVolume) :
    gateCheck fs c volume cand = none ↔ volumeOf fs c.cwd (realpathStr fs c.cwd cand.path) = volume :=
  Proofs.C07.gate_same_volume fs c volume cand hg

/-- The gate reads the trash directory NAMED: the volume compared with the file's is the volume of
    the directory the kernel reaches from the path as spelled (`realpath(path)`), not the volume of
    the textual collapse of the path (`realpath(normpath(path))`, the code before the fix: for
    `--trash-dir X/link/../T` that is another directory, possibly on another volume). -/
theorem gate_reads_named_trash_dir (fs : FS) (c : PutCfg) (volume : Bytes) (cand : Candidate) (hg : cand.gate = .sameVolume) :
    gateCheck fs c volume cand = none ↔ volumeOf fs c.cwd (realpathStr fs c.cwd cand.path) = volume :=
  Proofs.C07.gate_reads_named_trash_dir fs c volume cand hg

/-- A two-volume world: mount points `/` and `/v`, the link `/v/jump -> /v/deep/inner`, the trash
    directory `/v/ct`, spelled `--trash-dir /v/jump/../../ct`.  The kernel follows the link, goes up
    twice and names `/v/ct` on the volume `/v`: the gate accepts a file of the volume `/v` and refuses
    one of `/`.  The textual collapse of the spelling is "/ct", on the volume `/`: with `normpath`
    first the gate decided the other way round in both cases. -/
example :
    Proofs.C07.NamedEx.cand.path = b "/v/jump/../../ct" ∧ Proofs.C07.NamedEx.cand.gate = .sameVolume ∧
    Proofs.C07.NamedEx.W.isMount [b "v"] = true ∧
    realpathStr Proofs.C07.NamedEx.W Proofs.C07.NamedEx.cfg.cwd Proofs.C07.NamedEx.cand.path = b "/v/ct" ∧
    volumeOf Proofs.C07.NamedEx.W Proofs.C07.NamedEx.cfg.cwd
      (realpathStr Proofs.C07.NamedEx.W Proofs.C07.NamedEx.cfg.cwd Proofs.C07.NamedEx.cand.path) = b "/v" ∧
    gateCheck Proofs.C07.NamedEx.W Proofs.C07.NamedEx.cfg (b "/v") Proofs.C07.NamedEx.cand = none ∧
    gateCheck Proofs.C07.NamedEx.W Proofs.C07.NamedEx.cfg (b "/") Proofs.C07.NamedEx.cand = some .differentVolumes ∧
    normpath Proofs.C07.NamedEx.cand.path = b "/ct" ∧
    volumeOf Proofs.C07.NamedEx.W Proofs.C07.NamedEx.cfg.cwd
      (realpathStr Proofs.C07.NamedEx.W Proofs.C07.NamedEx.cfg.cwd (normpath Proofs.C07.NamedEx.cand.path)) = b "/" ∧
    gateCheck Proofs.C07.NamedEx.W Proofs.C07.NamedEx.cfg (b "/v")
      { Proofs.C07.NamedEx.cand with path := normpath Proofs.C07.NamedEx.cand.path } = some .differentVolumes ∧
    gateCheck Proofs.C07.NamedEx.W Proofs.C07.NamedEx.cfg (b "/")
      { Proofs.C07.NamedEx.cand with path := normpath Proofs.C07.NamedEx.cand.path } = none :=
  ⟨rfl, rfl, by decide +kernel, Proofs.C07.NamedEx.named_gate⟩

/-- … so the FORMER statement of `gate_same_volume` (with `normpath cand.path`) does not hold of the
    code as it is now: there the gate is open while the volume of the collapsed path is not the file's. -/
example :
    ¬ (∀ (fs : FS) (c : PutCfg) (volume : Bytes) (cand : Candidate), cand.gate = .sameVolume →
        (gateCheck fs c volume cand = none ↔
          volumeOf fs c.cwd (realpathStr fs c.cwd (normpath cand.path)) = volume)) :=
  Proofs.C07.NamedEx.former_statement_false

/-- The fallback gate opens iff TRASH_ENABLE_HOME_FALLBACK is exactly "1" (the flag alone is not enough:
    fallback candidates exist only with --home-fallback, see `candidates_order`). -/
theorem fallback_gate_iff (fs : FS) (c : PutCfg) (volume : Bytes) (cand : Candidate) (hg : cand.gate = .homeFallback) :
    gateCheck fs c volume cand = none ↔ c.env.fallbackEnv = some (b "1") := Proofs.C07.fallback_gate_iff fs c volume cand hg

/-- A candidate that fails its security check or its gate is left without issuing a single call:
    nothing is created in it, the next candidate is tried. -/
theorem rejected_candidate_untouched (φ : Oracle) (c : PutCfg) (path volume : Bytes) (cand : Candidate) (st : PutSt) (s : RunState)
    (h : securityCheck s.fs c.cwd cand ≠ none ∨ gateCheck s.fs c volume cand ≠ none) :
    let r := run φ (trashFileIn c path volume cand st) s
    (∃ reason, r.1.1 = .error reason) ∧ r.2.trace = s.trace ∧ r.2.fs = s.fs :=
  Proofs.C07.rejected_candidate_untouched φ c path volume cand st s h

/-- Directories are created private: every mkdir issued by `mkdir_p(p, 0700)` is for `p` itself with
    mode 0700 or for a missing ancestor of `p` (default mode). -/
theorem created_private (φ : Oracle) (p : CPath) (s : RunState) :
    ∀ c r, (c, r) ∈ (run φ (mkdirP p 0o700) s).2.trace → (c, r) ∈ s.trace ∨
      (∃ q m, c = .mkdir q m ∧ ((q = p ∧ m = 0o700) ∨ (q <+: p ∧ q ≠ p ∧ m = 0o777))) :=
  Proofs.C07.created_private φ p s

/-! ### a symbolic link that does not resolve, on the way to a candidate trash directory -/

/-- A candidate that passed its security check and its gate, but on whose path a dangling symbolic
    link stands (`danglingOnPath`: the first prefix of the path string that does not exist with links
    followed is itself there, a link that does not resolve), is given up with the error `mkdir(2)`
    reports (`ENOENT` through the link, `EEXIST` on it) before a single call is issued: nothing is
    created through the link — file system, trace and history are unchanged, no scripted input is
    consumed.  Under every fault oracle. -/
theorem dangling_link_blocks_candidate (φ : Oracle) (c : PutCfg) (path volume : Bytes) (cand : Candidate) (st : PutSt)
    (s : RunState) (e : Errno)
    (hsec : securityCheck s.fs c.cwd cand = none) (hgate : gateCheck s.fs c volume cand = none)
    (hd : danglingOnPath s.fs c.cwd cand.path = some e) :
    let r := run φ (trashFileIn c path volume cand st) s
    r.1 = (.error (.mkdirError e), st) ∧ r.2.fs = s.fs ∧ r.2.trace = s.trace ∧ r.2.hist = s.hist :=
  Proofs.C07.dangling_link_blocks_candidate φ c path volume cand st s e hsec hgate hd

/-- … and the caller goes on to the next candidate, from the very same run state, with the reason recorded. -/
theorem dangling_link_next_candidate (φ : Oracle) (c : PutCfg) (path volume : Bytes) (cand : Candidate)
    (rest : List Candidate) (reasons : List Reason) (st : PutSt) (s : RunState) (e : Errno)
    (hsec : securityCheck s.fs c.cwd cand = none) (hgate : gateCheck s.fs c volume cand = none)
    (hd : danglingOnPath s.fs c.cwd cand.path = some e) :
    run φ (tryCandidates c path volume (cand :: rest) reasons st) s =
      run φ (tryCandidates c path volume rest (.mkdirError e :: reasons) st) s :=
  Proofs.C07.dangling_link_next_candidate φ c path volume cand rest reasons st s e hsec hgate hd

/-- Non-vacuity: `/t -> /nowhere` (missing).  `--trash-dir /t` meets the hypotheses with `EEXIST`
    (the link is the path itself), `--trash-dir /t/sub` with `ENOENT` (the link is a proper prefix). -/
example :
    (securityCheck Proofs.C07.Ex.fsDangling Proofs.C07.Ex.cfg.cwd Proofs.C07.Ex.candT = none ∧
     gateCheck Proofs.C07.Ex.fsDangling Proofs.C07.Ex.cfg (b "/") Proofs.C07.Ex.candT = none ∧
     danglingOnPath Proofs.C07.Ex.fsDangling Proofs.C07.Ex.cfg.cwd Proofs.C07.Ex.candT.path = some .EEXIST) ∧
    (securityCheck Proofs.C07.Ex.fsDangling Proofs.C07.Ex.cfg.cwd Proofs.C07.Ex.candTSub = none ∧
     gateCheck Proofs.C07.Ex.fsDangling Proofs.C07.Ex.cfg (b "/") Proofs.C07.Ex.candTSub = none ∧
     danglingOnPath Proofs.C07.Ex.fsDangling Proofs.C07.Ex.cfg.cwd Proofs.C07.Ex.candTSub.path = some .ENOENT) :=
  ⟨Proofs.C07.Ex.hyps_T, Proofs.C07.Ex.hyps_TSub⟩

/-- … and the theorem at work there: `trash-put --trash-dir /t /x` gives the candidate up with
    `mkdirError EEXIST`, the file system is the one it started from. -/
example :
    let r := run noFaults (trashFileIn Proofs.C07.Ex.cfg (b "/x") (b "/") Proofs.C07.Ex.candT ⟨[], []⟩)
      { fs := Proofs.C07.Ex.fsDangling }
    r.1.1 = .error (.mkdirError .EEXIST) ∧ r.2.fs = Proofs.C07.Ex.fsDangling ∧ r.2.trace = [] := by
  intro r
  obtain ⟨h1, h2, h3, _⟩ := dangling_link_blocks_candidate noFaults Proofs.C07.Ex.cfg (b "/x") (b "/") Proofs.C07.Ex.candT
    ⟨[], []⟩ { fs := Proofs.C07.Ex.fsDangling } .EEXIST Proofs.C07.Ex.hyps_T.1 Proofs.C07.Ex.hyps_T.2.1
    Proofs.C07.Ex.hyps_T.2.2
  exact ⟨by rw [h1], h2, h3⟩

/-- One `mkdir_p` on a path string without such an obstacle is `mkdir_p` on the canonical path. -/
theorem no_dangling_link_mkdirP (φ : Oracle) (cwd : CPath) (p : Bytes) (mode : Nat) (s : RunState)
    (hd : danglingOnPath s.fs cwd p = none) :
    run φ (mkdirPStr cwd p mode) s = run φ (mkdirP (dirC s.fs cwd p) mode) s :=
  Proofs.C07.no_dangling_link_mkdirP φ cwd p mode s hd

/-- `Janitor.trash_file_in` without the dangling-link guard: the three `mkdir_p` go straight to the
    canonical paths (`dirC` of the state each one starts from).  This is the model as it was before
    the guard was added, except that `files/` and `info/` handed to `putCore` are canonicalised after
    the three calls (as `trashFileIn` does now), not after the second and the third. -/
def trashFileInCanon (c : PutCfg) (path volume : Bytes) (cand : Candidate) (st : PutSt) :
    Prog (Except Reason Bytes × PutSt) := do
  let fs ← read
  match securityCheck fs c.cwd cand with
  | some r => pure (.error r, st)
  | none =>
  match gateCheck fs c volume cand with
  | some r => pure (.error r, st)
  | none =>
  match ← mkdirP (dirC fs c.cwd cand.path) 0o700 with
  | .error e => pure (.error (.mkdirError e), st)
  | .ok () =>
  let fs1 ← read
  match ← mkdirP (dirC fs1 c.cwd (pjoin cand.path (b "files"))) 0o700 with
  | .error e => pure (.error (.mkdirError e), st)
  | .ok () =>
  let fs2 ← read
  match ← mkdirP (dirC fs2 c.cwd (pjoin cand.path (b "info"))) 0o700 with
  | .error e => pure (.error (.mkdirError e), st)
  | .ok () =>
  let fs ← read
  let filesC := dirC fs c.cwd (pjoin cand.path (b "files"))
  let infoC := dirC fs c.cwd (pjoin cand.path (b "info"))
  let fs ← read
  let loc := originalLocation fs c.cwd path cand
  let content := formatTrashinfoWith loc c.dateStr
  let srcStr := normpath path
  putCore infoC filesC (basename loc) content
    (fun fs' => if pIsmount fs' c.cwd srcStr then .error .EBUSY else resolve fs' c.cwd srcStr) st

/-- The positive companion: when no dangling link stands on the way of any of the three paths — each
    judged in the state its `mkdir_p` starts from (`h2`, `h3`: after the earlier `mkdir_p`) — the guard
    is invisible: `trashFileIn` runs exactly as `trashFileInCanon`.  Under every fault oracle. -/
theorem no_dangling_link_canonical (φ : Oracle) (c : PutCfg) (path volume : Bytes) (cand : Candidate) (st : PutSt)
    (s : RunState)
    (h1 : danglingOnPath s.fs c.cwd cand.path = none)
    (h2 : danglingOnPath (run φ (mkdirP (dirC s.fs c.cwd cand.path) 0o700) s).2.fs c.cwd
            (pjoin cand.path (b "files")) = none)
    (h3 : let s1 := (run φ (mkdirP (dirC s.fs c.cwd cand.path) 0o700) s).2
          danglingOnPath (run φ (mkdirP (dirC s1.fs c.cwd (pjoin cand.path (b "files"))) 0o700) s1).2.fs c.cwd
            (pjoin cand.path (b "info")) = none) :
    run φ (trashFileIn c path volume cand st) s = run φ (trashFileInCanon c path volume cand st) s :=
  Proofs.C07.no_dangling_link_canonical φ c path volume cand st s h1 h2 h3

/-- Non-vacuity: `--trash-dir /t` where nothing is at `/t` yet (the three directories get created). -/
example :
    danglingOnPath Proofs.C07.Ex.fsFresh Proofs.C07.Ex.cfg.cwd Proofs.C07.Ex.candT.path = none ∧
    danglingOnPath (run noFaults (mkdirP (dirC Proofs.C07.Ex.fsFresh Proofs.C07.Ex.cfg.cwd Proofs.C07.Ex.candT.path) 0o700)
      { fs := Proofs.C07.Ex.fsFresh }).2.fs Proofs.C07.Ex.cfg.cwd (pjoin Proofs.C07.Ex.candT.path (b "files")) = none ∧
    (let s1 := (run noFaults (mkdirP (dirC Proofs.C07.Ex.fsFresh Proofs.C07.Ex.cfg.cwd Proofs.C07.Ex.candT.path) 0o700)
        { fs := Proofs.C07.Ex.fsFresh }).2
     danglingOnPath (run noFaults (mkdirP (dirC s1.fs Proofs.C07.Ex.cfg.cwd (pjoin Proofs.C07.Ex.candT.path (b "files"))) 0o700)
        s1).2.fs Proofs.C07.Ex.cfg.cwd (pjoin Proofs.C07.Ex.candT.path (b "info")) = none) :=
  Proofs.C07.Ex.hyps_fresh

/-- a canonical path none of whose ancestors-or-self is a symlink or missing: all are directories -/
def Plain (fs : FS) (p : CPath) : Prop := ∀ q, q <+: p → fs.isDirAt q = true

/-- canonical names: non-empty, no '/', not "." or "..", at most 255 bytes -/
def GoodNames (p : CPath) : Prop := ∀ n ∈ p, n ≠ [] ∧ slash ∉ n ∧ n ≠ [dot] ∧ n ≠ dotdot ∧ n.length ≤ 255

/-- On a plain canonical directory the lexical ascent of `VolumeOfImpl.volume_of` ends exactly at
    the root of the device the directory lives on (this is what ties `volume_of` to devices, hence
    "same volume" to "rename cannot fail with EXDEV"). -/
theorem volumeOf_is_device_root (fs : FS) (cwd p : CPath) (hp : Plain fs p) (hn : GoodNames p) (hroot : fs.isMount [] = true) :
    volumeOf fs cwd (toStr p) = toStr (dev fs p) := Proofs.C07.volumeOf_is_device_root fs cwd p hp hn hroot

end TrashVerif.C07
