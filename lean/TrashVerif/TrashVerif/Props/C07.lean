/-
  Props/C07.lean — property theorems for C07 (the prescribed trash dir, on the file's own volume).
  Decision logic of trash-put: home path from the environment, candidate order, gates, security
  check, modes of created directories, and the link between the lexical volume ascent and devices.
-/
import TrashVerif.Model.Put
import TrashVerif.Proofs.C07
namespace TrashVerif.C07
open TrashVerif Prog FS

/-- $XDG_DATA_HOME/Trash when XDG_DATA_HOME is set and non-empty, else $HOME/.local/share/Trash,
    else nothing. -/
theorem home_path_spec (e : Env) :
    homeTrashPaths e =
      match e.xdg, e.home with
      | some x, h => if x ≠ [] then [x ++ b "/Trash"] else (match h with | some h => [h ++ b "/.local/share/Trash"] | none => [])
      | none, some h => [h ++ b "/.local/share/Trash"]
      | none, none => [] := Proofs.C07.home_path_spec e

/-- `--trash-dir` restricts the choice to that directory. -/
theorem candidates_custom (fs : FS) (c : PutCfg) (volume d : Bytes) (h : c.trashDir = some d) (hd : d ≠ []) :
    candidatesFor fs c volume =
      [{ path := d, volume := volumeOf fs c.cwd d, relative := true, topCheck := false, gate := .sameVolume }] :=
  Proofs.C07.candidates_custom fs c volume d h hd

/-- Otherwise the order is: home trash, $topdir/.Trash/$uid (checked), $topdir/.Trash-$uid, and —
    only with --home-fallback — the home trash again behind the fallback gate. -/
theorem candidates_order (fs : FS) (c : PutCfg) (volume : Bytes) (h : c.trashDir = none ∨ c.trashDir = some []) :
    ∃ homes : List Candidate,
      homes.map (·.path) = homeTrashPaths c.env ∧ (∀ x ∈ homes, x.gate = .sameVolume ∧ x.topCheck = false ∧ x.relative = false) ∧
      candidatesFor fs c volume =
        homes ++
        [{ path := pjoin volume (b ".Trash/" ++ Bytes.ofNat c.uid), volume := volume, relative := true, topCheck := true, gate := .sameVolume },
         { path := pjoin volume (b ".Trash-" ++ Bytes.ofNat c.uid), volume := volume, relative := true, topCheck := false, gate := .sameVolume }] ++
        (if c.homeFallback then homes.map fun x => { x with gate := .homeFallback } else []) :=
  Proofs.C07.candidates_order fs c volume h

/-- The same-volume gate lets a candidate through only when the volume of the *resolved* trash
    directory is the volume of the file's resolved parent. -/
theorem gate_same_volume (fs : FS) (c : PutCfg) (volume : Bytes) (cand : Candidate) (hg : cand.gate = .sameVolume) :
    gateCheck fs c volume cand = none ↔ volumeOf fs c.cwd (realpathStr fs c.cwd (normpath cand.path)) = volume :=
  Proofs.C07.gate_same_volume fs c volume cand hg

/-- The fallback gate opens iff TRASH_ENABLE_HOME_FALLBACK is exactly "1" (the flag alone is not enough:
    fallback candidates exist only with --home-fallback, see `candidates_order`). -/
theorem fallback_gate_iff (fs : FS) (c : PutCfg) (volume : Bytes) (cand : Candidate) (hg : cand.gate = .homeFallback) :
    gateCheck fs c volume cand = none ↔ c.env.fallbackEnv = some (b "1") := Proofs.C07.fallback_gate_iff fs c volume cand hg

/-- A candidate that fails its security check or its gate is left without issuing a single call:
    nothing is created in it, the next candidate is tried. -/
theorem rejected_candidate_untouched (φ : Oracle) (c : PutCfg) (path volume : Bytes) (cand : Candidate) (st : PutSt) (s : RunState)
    (h : securityCheck s.fs c.cwd cand ≠ none ∨ gateCheck s.fs c volume cand ≠ none) :
    let r := run φ (trashFileIn c path volume cand st) s
    (∃ reason, r.1.1 = .error reason) ∧ r.2.trace = s.trace ∧ r.2.fs = s.fs :=
  Proofs.C07.rejected_candidate_untouched φ c path volume cand st s h

/-- Directories are created private: every mkdir issued by `mkdir_p(p, 0700)` is for `p` itself with
    mode 0700 or for a missing ancestor of `p` (default mode). -/
theorem created_private (φ : Oracle) (p : CPath) (s : RunState) :
    ∀ c r, (c, r) ∈ (run φ (mkdirP p 0o700) s).2.trace → (c, r) ∈ s.trace ∨
      (∃ q m, c = .mkdir q m ∧ ((q = p ∧ m = 0o700) ∨ (q <+: p ∧ q ≠ p ∧ m = 0o777))) :=
  Proofs.C07.created_private φ p s

/-- a canonical path none of whose ancestors-or-self is a symlink or missing: all are directories -/
def Plain (fs : FS) (p : CPath) : Prop := ∀ q, q <+: p → fs.isDirAt q = true

/-- canonical names: non-empty, no '/', not "." or "..", at most 255 bytes -/
def GoodNames (p : CPath) : Prop := ∀ n ∈ p, n ≠ [] ∧ slash ∉ n ∧ n ≠ [dot] ∧ n ≠ dotdot ∧ n.length ≤ 255

/-- On a plain canonical directory the lexical ascent of `VolumeOfImpl.volume_of` ends exactly at
    the root of the device the directory lives on (this is what ties `volume_of` to devices, hence
    "same volume" to "rename cannot fail with EXDEV"). -/
theorem volumeOf_is_device_root (fs : FS) (cwd p : CPath) (hp : Plain fs p) (hn : GoodNames p) (hroot : fs.isMount [] = true) :
    volumeOf fs cwd (toStr p) = toStr (dev fs p) := Proofs.C07.volumeOf_is_device_root fs cwd p hp hn hroot

end TrashVerif.C07
