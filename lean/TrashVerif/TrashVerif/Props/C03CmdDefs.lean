/-
  Props/C03CmdDefs.lean — vocabulary of the COMMAND-level theorems of C03 (Props/C03Cmd.lean): what a
  WHOLE run of `trash-put` leaves in the info file it writes.
-/
import TrashVerif.Model.Put
import TrashVerif.Model.Date
import TrashVerif.Spec.C03
namespace TrashVerif.C03Cmd
open TrashVerif

/-- the run's clock reading: `c.dateStr` — what `format_date(clock.now())` yields — is the rendering
    `YYYY-MM-DDThh:mm:ss` of the valid date `d` (four-digit year) -/
structure Clock (c : PutCfg) (d : Date) : Prop where
  reading : c.dateStr = d.fmt
  valid : d.valid = true
  fourDigits : 1000 ≤ d.y

/-- In the state `s`, the info file `p` was written for the original location `loc` at the time `d`:
    * `bytes`: it is a regular file of mode 0o600 holding exactly `format_trashinfo(loc, d)`;
    * `conformant`: these bytes satisfy the Spec predicate `C03.Holds` for `loc` ([Trash Info] header,
      `Path=` percent-encoded per RFC 2396 keeping '/', decoding — by the Spec's own strict un-escaper —
      to exactly `loc`, `DeletionDate=` of shape `dddd-dd-ddTdd:dd:dd`, final newline);
    * `path`: `parse_path` of the text as read gives back exactly `loc`;
    * `date`, `deletionDate`: `parse_trashinfo` / `parse_deletion_date` give back exactly `d`. -/
structure InfoWritten (s : FS) (p : CPath) (loc : Bytes) (d : Date) : Prop where
  bytes : s.get p = some (.file (formatTrashinfoWith loc d.fmt) 0o600 0)
  conformant : C03.Holds (formatTrashinfoWith loc d.fmt) loc = true
  path : (readText (formatTrashinfoWith loc d.fmt)).bind parsePath = some loc
  date : (readText (formatTrashinfoWith loc d.fmt)).map parseDate = some (.date d)
  deletionDate : (readText (formatTrashinfoWith loc d.fmt)).bind parseDeletionDate = some d

end TrashVerif.C03Cmd
