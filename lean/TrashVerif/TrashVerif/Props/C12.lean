/-
  Props/C12.lean — property theorems for C12 (pattern matching part).
-/
import TrashVerif.Spec.C12
import TrashVerif.Proofs.C12
namespace TrashVerif.C12
open TrashVerif Glob

/-- `itemMatches` decides `Accepts`. -/
theorem itemMatches_iff (i : GItem) (x : Nat) : itemMatches i x = true ↔ Accepts i x :=
  Proofs.C12.itemMatches_iff i x

/-- The greedy, non-backtracking strategy of `fnmatch.translate`'s regular expression
    (leading fixed part, leftmost match of every interior fixed part, final fixed part anchored at
    the end) decides the declarative relation — for every item list without two adjacent stars
    (which `parse` guarantees) and every string over any alphabet. -/
theorem glob_correct (items : List GItem) (s : List Nat)
    (hns : ∀ i, i + 1 < items.length → ¬ (items[i]? = some GItem.star ∧ items[i+1]? = some GItem.star)) :
    (match segments items with
     | [] => false
     | first :: more => match matchPrefix first s with
       | some r => matchTail more r
       | none => false) = true ↔ Matches items s := Proofs.C12.glob_correct items s hns

/-- `parse` never produces two adjacent stars. -/
theorem parse_no_double_star (pat : Cps) :
    ∀ i, i + 1 < (parse pat).length → ¬ ((parse pat)[i]? = some GItem.star ∧ (parse pat)[i+1]? = some GItem.star) :=
  Proofs.C12.parse_no_double_star pat

/-- Hence: the model of `fnmatchcase` is declarative matching of the parsed pattern. -/
theorem globMatch_iff (pat name : Cps) : globMatch pat name = true ↔ Matches (parse pat) name :=
  Proofs.C12.globMatch_iff pat name

/-- The subject is the full path iff the pattern starts with '/', else the base name. -/
theorem rm_subject (pattern loc : Bytes) (h : pattern ≠ []) :
    rmMatches pattern loc = some (globMatch (decodeSE pattern)
      (decodeSE (if pattern.head? = some slash then loc else basename loc))) :=
  Proofs.C12.rm_subject pattern loc h

/-- Literal patterns match exactly themselves (case-sensitively): no metacharacter, no surprise. -/
theorem literal_pattern (pat name : Cps) (h : ∀ c ∈ pat, c ≠ 42 ∧ c ≠ 63 ∧ c ≠ 91) :
    globMatch pat name = true ↔ name = pat := Proofs.C12.literal_pattern pat name h

example : globMatch (decodeSE (b "*.o")) (decodeSE (b "foo.o")) = true ∧
          globMatch (decodeSE (b "*.o")) (decodeSE (b "foo.O")) = false ∧
          globMatch (decodeSE (b "[!a-c]?")) (decodeSE (b "dz")) = true := by decide +kernel

end TrashVerif.C12
