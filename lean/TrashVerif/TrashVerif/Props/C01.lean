/-
  Props/C01.lean — property theorems for C01 (trash-put conserves data).
  Resolved layer: `putCore` (persist, move, cleanup) on canonical paths, fault-free.
  String layer: what `normpath` and the dot test do to an argument.
-/
import TrashVerif.Props.PutCoreDefs
import TrashVerif.Proofs.C01
namespace TrashVerif.C01
open TrashVerif PutCore Prog

/-- If the core reports success, the whole entry — every node below it, with bytes, link targets,
    modes and mtimes — sits under `files/N`, `N.trashinfo` holds the content, the entry is gone from
    its place, the name was free before, and nothing else changed. -/
theorem put_ok_moves_whole (fs : FS) (infoC filesC src : CPath) (base content : Bytes) (st st' : PutSt)
    (h : Setting fs infoC filesC src) (name : Bytes) (s' : RunState)
    (hr : run noFaults (putCore infoC filesC base content (fun _ => .ok src) st) { fs := fs } = ((.ok name, st'), s')) :
    Trashed fs s'.fs infoC filesC src name content := Proofs.C01.put_ok_moves_whole fs infoC filesC src base content st st' h name s' hr

/-- In that setting the move cannot fail: the only fault-free failures are "no free name within the
    budget" and "name too long", and then nothing at all was changed. -/
theorem put_fail_untouched (fs : FS) (infoC filesC src : CPath) (base content : Bytes) (st st' : PutSt)
    (h : Setting fs infoC filesC src) (r : Reason) (s' : RunState)
    (hr : run noFaults (putCore infoC filesC base content (fun _ => .ok src) st) { fs := fs } = ((.error r, st'), s')) :
    (∃ e, r = .persistError e) ∧ ∀ q, s'.fs.get q = fs.get q := Proofs.C01.put_fail_untouched fs infoC filesC src base content st st' h r s' hr

/-- When the entry cannot be moved at all (a mount point, an unresolvable spelling) the info file
    that was created is removed again: nothing is left in the trash, the run reports a failure. -/
theorem put_refused_untouched (fs : FS) (infoC filesC : CPath) (base content : Bytes) (st : PutSt) (e : Errno)
    (hi : fs.isDirAt infoC = true) :
    let res := run noFaults (putCore infoC filesC base content (fun _ => .error e) st) { fs := fs }
    (∃ r, res.1.1 = .error r) ∧ Untouched fs res.2.fs infoC := Proofs.C01.put_refused_untouched fs infoC filesC base content st e hi

/-- The dot test and `normpath` agree: an argument that passes the test and has a last component
    keeps exactly that component under `normpath` (so the name moved and recorded is the one given),
    and it is a real name. -/
theorem norm_keeps_last_component (a : Bytes) (hne : ∃ c ∈ a, c ≠ slash) (hd : isDotEntry (rstripSlash a) = false) :
    basename (normpath a) = basename (rstripSlash a) ∧ basename (normpath a) ≠ [] ∧
    basename (normpath a) ≠ [dot] ∧ basename (normpath a) ≠ dotdot := Proofs.C01.norm_keeps_last_component a hne hd

/-- Dot entries, however spelled with trailing slashes, are refused. -/
theorem dot_entries_refused (a : Bytes) (k : Nat) (h : basename a = [dot] ∨ basename a = dotdot) :
    isDotEntry (rstripSlash (a ++ List.replicate k slash)) = true := Proofs.C01.dot_entries_refused a k h

end TrashVerif.C01
