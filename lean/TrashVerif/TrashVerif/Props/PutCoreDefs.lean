/-
  Props/PutCoreDefs.lean — hypotheses and conclusions shared by the put-core theorems
  (C01, C05, C17).  Everything is phrased on `FS.get`.
-/
import TrashVerif.Model.Put
namespace TrashVerif.PutCore
open TrashVerif

/-- The setting of one `Janitor.trash_file_in` after its checks and mkdirs succeeded: `info/` and
    `files/` are real, distinct directories; the entry exists, is not a mount point, is neither
    an ancestor of, nor inside, those directories; it lives on the device of `files/`. -/
structure Setting (fs : FS) (infoC filesC src : CPath) : Prop where
  infoDir : fs.isDirAt infoC = true
  filesDir : fs.isDirAt filesC = true
  distinct : ¬ FS.under infoC filesC = true ∧ ¬ FS.under filesC infoC = true
  srcExists : (fs.get src).isSome = true
  srcNotRoot : src ≠ []
  srcNotMount : fs.isMount src = false
  sameDev : fs.dev (FS.parent src) = fs.dev filesC
  notAncestor : ¬ FS.under src infoC = true ∧ ¬ FS.under src filesC = true
  notInside : ¬ FS.under infoC src = true ∧ ¬ FS.under filesC src = true

/-- a directory keeps its kind and mode (its mtime may be refreshed) -/
def keptDir (fs fs' : FS) (q : CPath) : Prop :=
  ∀ m t, fs.get q = some (.dir m t) → ∃ t', fs'.get q = some (.dir m t')

/-- "the whole entry now sits under files/N next to N.trashinfo and is gone from its place;
    nothing else changed" -/
structure Trashed (fs fs' : FS) (infoC filesC src : CPath) (name content : Bytes) : Prop where
  wasFreePayload : fs.get (filesC ++ [stemOf name]) = none
  wasFreeInfo : fs.get (infoC ++ [name]) = none
  whole : ∀ rel, fs'.get (filesC ++ [stemOf name] ++ rel) = fs.get (src ++ rel)
  gone : ∀ rel, fs'.get (src ++ rel) = none
  info : fs'.get (infoC ++ [name]) = some (.file content 0o600 0)
  frame : ∀ q, ¬ FS.under src q = true → ¬ FS.under (filesC ++ [stemOf name]) q = true → q ≠ infoC ++ [name] →
      q ≠ FS.parent src → q ≠ filesC → q ≠ infoC → fs'.get q = fs.get q
  dirs : keptDir fs fs' (FS.parent src) ∧ keptDir fs fs' filesC ∧ keptDir fs fs' infoC

/-- "nothing happened": every path as before, except that `info/` may have a fresh mtime -/
structure Untouched (fs fs' : FS) (infoC : CPath) : Prop where
  same : ∀ q, q ≠ infoC → fs'.get q = fs.get q
  infoDirKept : keptDir fs fs' infoC

/-- the invariant of every state a kill can leave behind (rename path): the entry is complete at
    its origin, or complete under `files/N`; and a payload under a name that was free is there
    only together with its complete info file -/
def CrashOk (fs s : FS) (infoC filesC src : CPath) (content : Bytes) : Prop :=
  ((∀ rel, s.get (src ++ rel) = fs.get (src ++ rel)) ∨
   (∃ n, fs.get (filesC ++ [n]) = none ∧ ∀ rel, s.get (filesC ++ [n] ++ rel) = fs.get (src ++ rel))) ∧
  (∀ n, fs.get (filesC ++ [n]) = none → (s.get (filesC ++ [n])).isSome = true →
      s.get (infoC ++ [n ++ trashinfoExt]) = some (.file content 0o600 0))

end TrashVerif.PutCore
