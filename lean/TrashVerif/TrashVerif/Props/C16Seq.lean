/-
  Props/C16Seq.lean — C16 for argument lists of ANY length: a run of `trash-put` IS the left fold of the
  handling of one argument (`C16Seq.putOne`), it never stops at a failed argument, its exit status and
  diagnostics are those of the fold, and N everyday arguments are handled as each is handled alone.

  Props/C16.lean says what the exit status means, Props/C16Indep.lean treats TWO arguments; here: N.

  (1) `put_run_is_fold` (EVERY fault oracle, configuration, scripted input, run state, argument list):
      `run φ (runPut c args st) s = finish (putSeq φ c args st s)` — an EQUATION (outcomes, abort status,
      exit status, file system, history, trace, outputs, call counter).  `putSeq` is `List.foldl` of
      `stepArg`: `putOne` (= `trash_single` + the stderr line) on `args[0]` in `(st, s)`, on `args[1]` in
      the scripted input (stdin replies, random numbers) and run state the first left, ….
      CONTRAST with `trash-restore` (Props/C13Order.lean, `restoreSeq` ends at the first FAILURE): `stepArg`
      does not look at the outcomes so far.  The ONLY thing that ends the loop early is an uncaught
      exception (`SeqSt.crash = some _`): `EOFError` from `input()` when `-i` asks and stdin is used up
      (`PutCrash.eof`), or the `OSError` of the clean-up `unlink` of a just-written `.trashinfo` after a
      failed move (`PutCrash.cleanup`, outcome `.crashed` of `trashSingle`).  Then: traceback on stderr,
      exit status 1, the arguments after it are not handled (`crash_stops`).
  (2) `every_argument_attempted`: for every index `k`, unless an exception escaped from one of the
      arguments 0..k-1, the run contains `putOne` on `args[k]` (its calls are in the final trace),
      WHATEVER the outcomes of 0..k-1 were; `all_attempted_without_crash`: in a run without uncaught
      exception that holds for every `k`.
  (3) `exit_zero_iff_all_fine`: exit status 0 iff no exception escaped and every outcome of the fold is
      trashed / skipped-missing / declined; a skip is legitimate (`-f` resp. `-i`); every failed argument
      has its own "cannot trash" line naming it; the outcomes name the arguments in order; the exit status is
      0, 74 or (exactly when an exception escaped) 1.
  (4) `n_args_independent_partial`: `C16Indep.home_pair_independent_partial` for N arguments, under the
      PAIRWISE form of its hypotheses (`HomeItems`), by induction over the fold.  PARTIAL exactly as
      the binary theorem is (everyday world, everyday arguments, home trash only, fault-free, no
      scripted random numbers), see there.  The general induction step DOES go through (the hypotheses
      on the later arguments survive the trashing of the first: `home_items_after`).
      NOT proved here: that the final file system of the N-run agrees with the file system of each
      alone run on that argument's own paths (origin, `files/<name>`, `info/<name>.trashinfo`).  For the
      argument handled LAST it follows from `home_items_after` + `C16Indep.home_alone` + C01
      `put_ok_moves_whole`; for the earlier ones a frame lemma is missing that carries the `Trashed` facts
      of argument i through the trashings i+1..N-1 (their `files/` names differ by `wasFreePayload`).
  (5) `three_args_example`, `three_args_force_example`: kernel-checked world.
-/
import TrashVerif.Props.C16
import TrashVerif.Props.C16Indep
import TrashVerif.Props.C16SeqDefs
import TrashVerif.Proofs.C16Seq
import TrashVerif.Proofs.C16SeqHome
import TrashVerif.Proofs.C16SeqEx
namespace TrashVerif.C16Seq
open TrashVerif Prog FS C16Indep

/-! ### (1) the run is the fold -/

/-- THE FOLD THEOREM (every fault oracle `φ`, every configuration, scripted input, run state and
    argument list).  The run of `trash-put args` equals `putOne` on `args[0]`, then — in the scripted
    input and the run state that left — on `args[1]`, …, never ending at a failed argument; then the
    exit status (`finish`). -/
theorem put_run_is_fold (φ : Oracle) (c : PutCfg) (args : List Bytes) (st : PutSt) (s : RunState) :
    run φ (runPut c args st) s = finish (putSeq φ c args st s) := Proofs.C16Seq.run_is_fold φ c args st s

/-- `putSeq` is literally `List.foldl`; the fold over `pre ++ suf` is the fold over `suf` from the state
    the fold over `pre` reaches (N-ary form of `C18Cmd.put_then`, for every oracle) -/
theorem putSeq_is_foldl (φ : Oracle) (c : PutCfg) (args : List Bytes) (st : PutSt) (s : RunState) :
    putSeq φ c args st s = args.foldl (stepArg φ c) { outcomes := [], crash := none, st := st, s := s } := rfl

theorem putSeq_append (φ : Oracle) (c : PutCfg) (pre suf : List Bytes) (st : PutSt) (s : RunState) :
    putSeq φ c (pre ++ suf) st s = suf.foldl (stepArg φ c) (putSeq φ c pre st s) :=
  Proofs.C16Seq.putSeq_append φ c pre suf st s

/-- WHAT STOPS THE LOOP, precisely: only an uncaught exception.  From a state with `crash = some _`
    nothing more happens; from a state with `crash = none` the next argument IS handled — `stepArg` runs
    `putOne` on it — whatever `outcomes` holds. -/
theorem crash_stops (φ : Oracle) (c : PutCfg) (args : List Bytes) (σ : SeqSt) (h : σ.crash ≠ none) :
    args.foldl (stepArg φ c) σ = σ := Proofs.C16Seq.foldl_crashed φ c args σ h

theorem no_crash_goes_on (φ : Oracle) (c : PutCfg) (σ : SeqSt) (a : Bytes) (h : σ.crash = none) :
    stepArg φ c σ a =
      match (run φ (putOne c a σ.st) σ.s).1.1 with
      | .ok o => SeqSt.mk (σ.outcomes ++ [(a, o)]) none (run φ (putOne c a σ.st) σ.s).1.2 (run φ (putOne c a σ.st) σ.s).2
      | .error e => SeqSt.mk σ.outcomes (some e) (run φ (putOne c a σ.st) σ.s).1.2 (run φ (putOne c a σ.st) σ.s).2 :=
  Proofs.C16Seq.stepArg_go φ c σ a h

/-- `putOne` is `trash_single` plus one line on stderr; it reports `.error` exactly for the two
    uncaught exceptions -/
theorem putOne_spec (φ : Oracle) (c : PutCfg) (a : Bytes) (st : PutSt) (s : RunState) :
    run φ (putOne c a st) s =
      match (run φ (trashSingle c a st) s).1.1 with
      | .error e => ((.error e, (run φ (trashSingle c a st) s).1.2),
          { (run φ (trashSingle c a st) s).2 with
            outs := .stderr "traceback" (b "EOFError") :: (run φ (trashSingle c a st) s).2.outs })
      | .ok (.crashed _) => ((.error .cleanup, (run φ (trashSingle c a st) s).1.2),
          { (run φ (trashSingle c a st) s).2 with
            outs := .stderr "traceback" (b "OSError") :: (run φ (trashSingle c a st) s).2.outs })
      | .ok o => ((.ok o, (run φ (trashSingle c a st) s).1.2),
          if o.failed = true then { (run φ (trashSingle c a st) s).2 with
            outs := .stderr "cannot-trash" a :: (run φ (trashSingle c a st) s).2.outs }
          else (run φ (trashSingle c a st) s).2) := Proofs.C16Seq.run_putOne φ c a st s

/-! ### (2) every argument is attempted -/

/-- EVERY ARGUMENT IS ATTEMPTED (every oracle).  For each index `k`: unless an exception escaped while the
    arguments 0..k-1 were handled (`before.crash = none` — NO hypothesis on their outcomes: failed,
    refused, skipped or trashed), all of them were reported, and the fold goes on with `putOne` on
    `args[k]` in the scripted input and run state they left: the state after `k+1` arguments is the
    result of that very run, the whole fold continues from it, and every system call of that run is in
    the trace of the whole run. -/
theorem every_argument_attempted (φ : Oracle) (c : PutCfg) (args : List Bytes) (st : PutSt) (s : RunState)
    (k : Nat) (hk : k < args.length) :
    let before := putSeq φ c (args.take k) st s
    let one := run φ (putOne c args[k] before.st) before.s
    before.crash = none →
      before.outcomes.map (·.1) = args.take k ∧
      putSeq φ c (args.take (k + 1)) st s =
        (match one.1.1 with
         | .ok o => SeqSt.mk (before.outcomes ++ [(args[k], o)]) none one.1.2 one.2
         | .error e => SeqSt.mk before.outcomes (some e) one.1.2 one.2) ∧
      putSeq φ c args st s = (args.drop (k + 1)).foldl (stepArg φ c) (putSeq φ c (args.take (k + 1)) st s) ∧
      (∀ x ∈ one.2.trace, x ∈ (run φ (runPut c args st) s).2.trace) := by
  intro before one hb
  have h := Proofs.C16Seq.kth_attempted φ c args st s k hk hb
  rw [put_run_is_fold]
  exact h

/-- … and in a run that no exception aborted, that is the case for EVERY index -/
theorem all_attempted_without_crash (φ : Oracle) (c : PutCfg) (args : List Bytes) (st : PutSt) (s : RunState)
    (h : (run φ (runPut c args st) s).1.crash = none) (k : Nat) :
    (putSeq φ c (args.take k) st s).crash = none := by
  rw [put_run_is_fold] at h
  exact Proofs.C16Seq.prefix_crash_free φ c args st s k h

/-! ### (3) exit status and diagnostics, N-ary -/

/-- EXIT STATUS AND DIAGNOSTICS (every oracle, any number of arguments).  With `σ` the final state of
    the fold: the run exits 0 iff no exception escaped and EVERY per-argument outcome is `Fine` (trashed,
    skipped as missing, declined); skips are legitimate (`-f` resp. `-i`; `C16.skip_reasons` says more
    about each); every failed argument is named by its own "cannot trash" line on stderr; without
    exception the outcomes name the arguments in order; no outcome of the fold is `.crashed`; the
    exit status is 1 exactly when an exception escaped, else 0 or 74. -/
theorem exit_zero_iff_all_fine (φ : Oracle) (c : PutCfg) (args : List Bytes) (st : PutSt) (s : RunState) :
    let σ := putSeq φ c args st s
    let r := run φ (runPut c args st) s
    (r.1.exit = 0 ↔ σ.crash = none ∧ ∀ o ∈ σ.outcomes, Fine o.2) ∧
    (∀ o ∈ σ.outcomes, o.2 = .skippedMissing → c.mode = .force) ∧
    (∀ o ∈ σ.outcomes, o.2 = .declined → c.mode = .interactive) ∧
    (∀ o ∈ σ.outcomes, o.2.failed = true → Out.stderr "cannot-trash" o.1 ∈ r.2.outs) ∧
    (∀ o ∈ σ.outcomes, ¬ Fine o.2 → o.2.failed = true) ∧
    (σ.crash = none → σ.outcomes.map (·.1) = args) ∧
    (σ.crash ≠ none → r.1.exit = 1) ∧ (σ.crash = none → r.1.exit = 0 ∨ r.1.exit = 74) := by
  intro σ r
  have hr : r = finish σ := put_run_is_fold φ c args st s
  have I := Proofs.C16Seq.inv_putSeq φ c args st s
  rw [hr]
  refine ⟨Proofs.C16Seq.exit_zero_iff σ I.notCrashed, I.force, I.inter, I.diag, ?_, ?_,
    (Proofs.C16Seq.exit_values σ).1, (Proofs.C16Seq.exit_values σ).2⟩
  · intro o ho hn
    cases hf : o.2.failed with
    | true => rfl
    | false => exact absurd ((Proofs.C16Seq.fine_iff o.2 (I.notCrashed o ho)).1 hf) hn
  · intro hc
    have := (Proofs.C16Seq.names_foldl φ c args (initSt st s) hc).2
    rw [show (initSt st s).outcomes = [] from rfl, List.map_nil, List.nil_append] at this
    exact this

/-! ### (4) N everyday arguments -/

/-- `n_args_independent_partial`.  `C16Indep.home_pair_independent_partial` for ANY number of arguments.
    In a `HomeWorld`, with no scripted random numbers, for a list of `Item`s (`x.arg` the canonical
    absolute spelling of `x.P/x.n`) that are `HomeItems`: each a `GoodArg` whose core run ALONE on the
    initial file system succeeds under `x.name`; PAIRWISE unrelated (neither canonical path a prefix of
    the other); PAIRWISE, the name an earlier one receives is not a variant of a later one's name.
    Then `trash-put x₀ … x_{N-1}` reports, for every argument, exactly what `trash-put xᵢ` alone
    reports from the INITIAL file system (trashed into the home trash under `xᵢ.name`); no abort,
    exit status 0.
    PARTIAL with respect to the intent in the ways the binary theorem is: every argument must be an
    everyday argument that IS trashed (for failing/refused ones in front see
    `C16Indep.inert_prefix_transparent` / `silent_prefix_transparent`, which are N-ary already);
    canonical absolute spellings, no symlinks on the way; only the home-trash candidate (same volume,
    trash directory already there); fault-free; `st.ints = []`.  The counterexamples of
    Props/C16Indep.lean show that none of the exclusions can simply be dropped. -/
theorem n_args_independent_partial (c : PutCfg) (fs : FS) (H : CPath) (st : PutSt) (items : List Item)
    (W : HomeWorld c fs H) (hints : st.ints = []) (HI : HomeItems c fs H st items) :
    let all := run noFaults (runPut c (items.map Item.arg) st) { fs := fs }
    all.1.outcomes = items.flatMap (fun x => (run noFaults (runPut c [x.arg] st) { fs := fs }).1.outcomes) ∧
    (∀ x ∈ items, (run noFaults (runPut c [x.arg] st) { fs := fs }).1.outcomes =
        [(x.arg, .trashed (homeStr H) x.name)] ∧
      (run noFaults (runPut c [x.arg] st) { fs := fs }).1.exit = 0) ∧
    all.1.crash = none ∧ all.1.exit = 0 := Proofs.C16SeqHome.n_home W hints HI

/-- the induction step: after the first argument was trashed the world is still a `HomeWorld` and the
    remaining arguments are still `HomeItems` — with the SAME names — in the file system it left -/
theorem home_items_after (c : PutCfg) (fs : FS) (H : CPath) (st : PutSt) (x : Item) (rest : List Item)
    (W : HomeWorld c fs H) (HI : HomeItems c fs H st (x :: rest)) :
    let fs' := (run noFaults (homeCore c H x.P x.n st) { fs := fs }).2.fs
    HomeWorld c fs' H ∧ HomeItems c fs' H st rest := Proofs.C16SeqHome.items_after W HI

/-- Non-vacuity of `HomeItems`, and the theorem at work: HOME=/h with an existing trash,
    `trash-put /p/x /p/y` (the world of Props/C16Indep.lean). -/
example :
    (run noFaults (runPut Proofs.C16IndepHome.Ex.cfgH [Proofs.C16SeqHome.Ex.ix.arg, Proofs.C16SeqHome.Ex.iy.arg]
      Proofs.C16IndepHome.Ex.st0) { fs := Proofs.C16IndepHome.Ex.fsH }).1.exit = 0 :=
  (n_args_independent_partial _ _ _ _ _ Proofs.C16IndepHome.Ex.world rfl Proofs.C16SeqHome.Ex.itemsXY).2.2.2

/-! ### (5) non-vacuity -/

section examples
open Proofs.C16SeqEx
open TrashVerif.Proofs.C16Indep.Cex (P cfg0 st0)

/-- World `W3`: HOME=/h (no trash directory yet), the file `/x`, the directory `/a` holding `/a/y`, nothing
    at `/nope`; one volume.  `trash-put /x /nope /a`: the first and the third are trashed into the home
    trash (the directory with its content), the second fails as non-existent and is the one named on
    stderr; exit status 74; no abort. -/
theorem three_args_example :
    let r := run noFaults (runPut cfg0 [b "/x", b "/nope", b "/a"] st0) { fs := W3 }
    r.1.outcomes = [(b "/x", .trashed homeT (b "x.trashinfo")), (b "/nope", .failedMissing),
                    (b "/a", .trashed homeT (b "a.trashinfo"))] ∧
    r.1.crash = none ∧ r.1.exit = 74 ∧ r.2.outs = [.stderr "cannot-trash" (b "/nope")] ∧
    r.2.fs.get (P "/x") = none ∧ r.2.fs.get (P "/a") = none ∧
    r.2.fs.get (P "/h/.local/share/Trash/files/x") = some (.file [120] 0o644 0) ∧
    r.2.fs.get (P "/h/.local/share/Trash/files/a/y") = some (.file [120] 0o644 0) := by
  intro r
  have hr : r = run noFaults (Proofs.C16Eval.runPutS cfg0 args3 st0) { fs := W3 } := by
    show run noFaults (runPut cfg0 args3 st0) { fs := W3 } = _
    rw [Proofs.C16Eval.runPut_eq]
  rw [hr]; exact plain_run

/-- the same with `-f`: the missing path is skipped without a word, exit status 0, same file system -/
theorem three_args_force_example :
    let r := run noFaults (runPut cfgF [b "/x", b "/nope", b "/a"] st0) { fs := W3 }
    r.1.outcomes = [(b "/x", .trashed homeT (b "x.trashinfo")), (b "/nope", .skippedMissing),
                    (b "/a", .trashed homeT (b "a.trashinfo"))] ∧
    r.1.crash = none ∧ r.1.exit = 0 ∧ r.2.outs = [] ∧
    r.2.fs.toList = (run noFaults (runPut cfg0 [b "/x", b "/nope", b "/a"] st0) { fs := W3 }).2.fs.toList := by
  intro r
  have hr : r = run noFaults (Proofs.C16Eval.runPutS cfgF args3 st0) { fs := W3 } := by
    show run noFaults (runPut cfgF args3 st0) { fs := W3 } = _
    rw [Proofs.C16Eval.runPut_eq]
  have h0 : run noFaults (runPut cfg0 [b "/x", b "/nope", b "/a"] st0) { fs := W3 } =
      run noFaults (Proofs.C16Eval.runPutS cfg0 args3 st0) { fs := W3 } := by
    show run noFaults (runPut cfg0 args3 st0) { fs := W3 } = _
    rw [Proofs.C16Eval.runPut_eq]
  rw [hr, h0]; exact force_run

end examples

section audit
#print axioms put_run_is_fold
#print axioms putSeq_append
#print axioms crash_stops
#print axioms no_crash_goes_on
#print axioms putOne_spec
#print axioms every_argument_attempted
#print axioms all_attempted_without_crash
#print axioms exit_zero_iff_all_fine
#print axioms n_args_independent_partial
#print axioms home_items_after
#print axioms three_args_example
#print axioms three_args_force_example
end audit

end TrashVerif.C16Seq
