/-
  Props/C09HistDefs.lean — definitions for the history-level statement of C09 (Props/C09Hist.lean):
  the operations on one trash directory `(infoC, filesC)`, the concrete step that runs the real
  model cores fault-free, the abstract bag specification, the state invariant and the per-operation
  local side conditions.  Shared by Props/C09Hist.lean (statements) and Proofs/C09Hist.lean (proofs).
-/
import TrashVerif.Props.C09
namespace TrashVerif.C09Hist
open TrashVerif PutCore Prog FS C09

/-! ### operations, events -/

/-- one command acting on the trash directory: `trash-put` of one entry, the purge of one entry
    (what `trash-rm` / `trash-empty` do per selected `.trashinfo`), `trash-restore` of one entry -/
inductive Op where
  | put (src : CPath) (base content : Bytes)
  | purge (name : Bytes)
  | restore (name : Bytes) (dst : CPath)
deriving DecidableEq, Repr

/-- what an operation did to the bag -/
inductive Event where
  | added (name content : Bytes)
  | removed (name : Bytes)
deriving DecidableEq, Repr

/-- `files/<name without .trashinfo>`: where the payload of the info file `name` lives -/
def payloadOf (filesC : CPath) (name : Bytes) : CPath := filesC ++ [stemOf name]

def putEvent (content : Bytes) : Except Reason Bytes → Option Event
  | .ok name => some (.added name content)
  | .error _ => none

def removedEvent (name : Bytes) : Res → Option Event
  | .ok () => some (.removed name)
  | .error _ => none

/-- The concrete step: run the model core of the operation, fault-free, on the current state;
    report the new state and what the core's own result says happened. -/
def applyOp (infoC filesC : CPath) (σ : FS × PutSt) : Op → (FS × PutSt) × Option Event
  | .put src base content =>
    let r := run noFaults (putCore infoC filesC base content (fun _ => .ok src) σ.2) { fs := σ.1 }
    ((r.2.fs, r.1.2), putEvent content r.1.1)
  | .purge name =>
    let r := run noFaults (purgePair (.ok (payloadOf filesC name)) (.ok (infoC ++ [name]))) { fs := σ.1 }
    ((r.2.fs, σ.2), removedEvent name r.1)
  | .restore name dst =>
    let r := run noFaults (restoreCore (.ok (payloadOf filesC name)) (.ok dst) (.ok (infoC ++ [name]))) { fs := σ.1 }
    ((r.2.fs, σ.2), removedEvent name r.1)

/-- run a history; the events are reported oldest first -/
def runOps (infoC filesC : CPath) : FS × PutSt → List Op → (FS × PutSt) × List (Option Event)
  | σ, [] => (σ, [])
  | σ, op :: ops =>
    ((runOps infoC filesC (applyOp infoC filesC σ op).1 ops).1,
     (applyOp infoC filesC σ op).2 :: (runOps infoC filesC (applyOp infoC filesC σ op).1 ops).2)

/-! ### the abstract specification -/

abbrev Bag := Bytes → Option Node

/-- the node `trash-put` leaves in `info/` -/
def infoNode (content : Bytes) : Node := .file content 0o600 0

def specStep (bg : Bag) : Option Event → Bag
  | none => bg
  | some (.added name content) => fun n => if n = name then some (infoNode content) else bg n
  | some (.removed name) => fun n => if n = name then none else bg n

/-- the same specification on a finite list of the names present -/
def liveStep (l : List Bytes) : Option Event → List Bytes
  | none => l
  | some (.added name _) => name :: l
  | some (.removed name) => l.filter (· ≠ name)

/-! ### invariant and local side conditions -/

def isFileAt (fs : FS) (p : CPath) : Bool := match fs.get p with | some n => n.isFile | none => false

/-- `info/` and `files/` are directories, neither inside the other.  Nothing else is needed of the
    state: no shape of the tree, no `dom` well-formedness, nothing about the other entries. -/
structure TrashInv (fs : FS) (infoC filesC : CPath) : Prop where
  infoDir : fs.isDirAt infoC = true
  filesDir : fs.isDirAt filesC = true
  apartIF : ¬ FS.under infoC filesC = true
  apartFI : ¬ FS.under filesC infoC = true

/-- neither at/below nor an ancestor of `info/` and `files/` -/
def Outside (infoC filesC p : CPath) : Prop :=
  ¬ FS.under p infoC = true ∧ ¬ FS.under p filesC = true ∧ ¬ FS.under infoC p = true ∧ ¬ FS.under filesC p = true

instance (infoC filesC p : CPath) : Decidable (Outside infoC filesC p) := by unfold Outside; infer_instance

/-- What the caller of one operation can check on the operation's own arguments in the state in
    which it runs.
    * put: the entry exists, is not `/`, not a mount point, lives on the device of `files/`, and is
      outside the trash directory.
    * purge: the info path is not a directory (it may be absent, a regular file or a symlink).
    * restore: the info file is a regular file, the payload exists and is not a mount point, the
      destination is free, not `/`, outside the trash directory, its name is short enough and its
      parent is an existing directory on the device of `files/`. -/
def Op.ok (fs : FS) (infoC filesC : CPath) : Op → Prop
  | .put src _ _ =>
    (fs.get src).isSome = true ∧ src ≠ [] ∧ fs.isMount src = false ∧ fs.dev (FS.parent src) = fs.dev filesC ∧
    Outside infoC filesC src
  | .purge name => fs.isDirAt (infoC ++ [name]) = false
  | .restore name dst =>
    isFileAt fs (infoC ++ [name]) = true ∧
    (fs.get (payloadOf filesC name)).isSome = true ∧ fs.isMount (payloadOf filesC name) = false ∧
    fs.get dst = none ∧ dst ≠ [] ∧ (dst.getLast?.getD []).length ≤ 255 ∧
    fs.isDirAt (FS.parent dst) = true ∧ fs.dev filesC = fs.dev (FS.parent dst) ∧
    Outside infoC filesC dst

instance (fs : FS) (infoC filesC : CPath) (op : Op) : Decidable (Op.ok fs infoC filesC op) := by
  cases op <;> (dsimp only [Op.ok]; infer_instance)

/-- every operation of the history is locally ok in the state in which it runs -/
def HistOk (infoC filesC : CPath) : FS × PutSt → List Op → Prop
  | _, [] => True
  | σ, op :: ops => Op.ok σ.1 infoC filesC op ∧ HistOk infoC filesC (applyOp infoC filesC σ op).1 ops

instance instDecidableHistOk (infoC filesC : CPath) :
    (ops : List Op) → (σ : FS × PutSt) → Decidable (HistOk infoC filesC σ ops)
  | [], _ => isTrue trivial
  | op :: ops, σ =>
    have := instDecidableHistOk infoC filesC ops (applyOp infoC filesC σ op).1
    inferInstanceAs (Decidable (Op.ok σ.1 infoC filesC op ∧ HistOk infoC filesC (applyOp infoC filesC σ op).1 ops))

/-! ### what a directory listing of `info/` sees -/

/-- every present path is listed in `dom` (the executable model lists directories through `dom`) -/
def DomWf (fs : FS) : Prop := ∀ q, (fs.get q).isSome = true → q ∈ fs.dom

/-- the names `os.listdir(info/)` returns (the expression `listdirStr` evaluates on the resolved
    directory): sorted, without duplicates -/
def infoNames (fs : FS) (infoC : CPath) : List Bytes := (FS.sortedChildren fs infoC).filterMap fun q => q.getLast?

/-- the names present after the events, starting from the names `l` -/
def liveNames (l : List Bytes) (evs : List (Option Event)) : List Bytes := evs.foldl liveStep l

end TrashVerif.C09Hist
