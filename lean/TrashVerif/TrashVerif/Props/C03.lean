/-
  Props/C03.lean — property theorems for C03 (only statements of interest live here; helper
  lemmas are in Proofs/C03.lean).
-/
import TrashVerif.Spec.C03
import TrashVerif.Proofs.C03
namespace TrashVerif.C03
open TrashVerif Bytes

/-- Un-escaping (as trash-list / trash-restore / trash-rm do it) inverts the escaping, for every byte string. -/
theorem unquote_quote (s : Bytes) : unquote (quote s) = s := Proofs.C03.unquote_quote s

/-- … and is never lossy on what trash-put writes. -/
theorem unquote_quote_exact (s : Bytes) (h0 : (0 : UInt8) ∉ s) :
    unquoteLossy (quote s) = false := Proofs.C03.unquote_quote_exact s h0

/-- The escaped value uses only unreserved characters, '/' and well-formed upper-case escapes:
    in particular no newline, CR, '=', space or '['. -/
theorem quote_alphabet (s : Bytes) :
    (quote s).all pathByteOk = true ∧ escapesOk (quote s) = true := Proofs.C03.quote_alphabet s

/-- The spec's own un-escaping rule (independent relation) yields exactly the original location. -/
theorem specUnescape_quote (s : Bytes) : Unesc (quote s) s := Proofs.C03.unesc_quote s

/-- The relation is functional and is what the executable oracle computes. -/
theorem unesc_iff (s t : Bytes) : Unesc s t ↔ specUnescape s = some t := Proofs.C03.unesc_iff s t

/-- What trash-put writes satisfies the Spec predicate, for every location and every valid date. -/
theorem format_conformant (loc : Bytes) (d : Date) (hd : d.valid = true) (hy : 1000 ≤ d.y) :
    Holds (formatTrashinfoWith loc d.fmt) loc = true := Proofs.C03.format_conformant loc d hd hy

/-- Every reader entry point recovers the exact location … -/
theorem parsePath_format (loc : Bytes) (d : Date) (hd : d.valid = true) (hy : 1000 ≤ d.y) :
    (readText (formatTrashinfoWith loc d.fmt)).bind parsePath = some loc :=
  Proofs.C03.parsePath_format loc d hd hy

/-- … and the exact date. -/
theorem parseDate_format (loc : Bytes) (d : Date) (hd : d.valid = true) (hy : 1000 ≤ d.y) :
    (readText (formatTrashinfoWith loc d.fmt)).map parseDate = some (.date d) :=
  Proofs.C03.parseDate_format loc d hd hy

/-- non-vacuity: a concrete location with newline, '%', space and a two-byte character, a leap-day date -/
example : Holds (formatTrashinfoWith [97, 10, 37, 32, 0xC3, 0xA9] (Date.fmt ⟨2024, 2, 29, 23, 59, 59⟩))
    [97, 10, 37, 32, 0xC3, 0xA9] = true := by decide +kernel

end TrashVerif.C03
