/-
  Props/C09Hist.lean — C09 at history level (resolved layer): after ANY finite history of
  trash-put / purge (trash-rm, trash-empty) / trash-restore operations on one trash directory, the
  bag of that directory — and hence what a listing of `info/`, and trash-list, see — is exactly
  "what was put and neither restored nor purged".

  The definitions (operations `Op`, the concrete step `applyOp` that runs the model cores `putCore`,
  `purgePair`, `restoreCore` fault-free, the abstract `specStep` on bags, the invariant `TrashInv`,
  the local side conditions `Op.ok`, `HistOk`) are in Props/C09HistDefs.lean.

  Shape of the result: a genuine induction.
    * `TrashInv fs infoC filesC` (info/ and files/ are directories, neither inside the other) is all
      that is assumed of the INITIAL state only;
    * each operation has to satisfy `Op.ok` — conditions on its own arguments, checkable by its caller
      in the state in which it runs (`HistOk` threads them through the run);
    * `inv_preserved` + `step_refines` are the induction step, `history` the induction.
  Nothing is assumed of intermediate states beyond the local conditions; no tree-shape, `dom`, or
  "no orphans" hypothesis is needed for the bag (they are needed only for `listing_names`: `DomWf`,
  which is itself preserved: `domwf_preserved`).

  Every statement here is at the strength intended; there is no `_partial` statement.  What the local
  conditions exclude is shown to matter by counterexamples: `restore_into_info_counterexample`,
  `put_from_info_counterexample` (kernel-checked) and the `#guard` on `HCex.fsPurge` in
  Proofs/C09Hist.lean (purging a directory under info/; evaluation only, `rmtree` is not
  kernel-reducible).  Not covered (would need the error paths of `shutil.move`): a restore whose
  payload is missing or whose destination is on another device — `Op.ok` asks for the same-volume
  case in which `restoreCore` provably succeeds.
-/
import TrashVerif.Props.C09HistDefs
import TrashVerif.Proofs.C09Hist
namespace TrashVerif.C09Hist
open TrashVerif PutCore Prog FS C09

/-! ### (a) the invariant is preserved -/

theorem inv_preserved (fs : FS) (infoC filesC : CPath) (st : PutSt) (op : Op)
    (inv : TrashInv fs infoC filesC) (ok : Op.ok fs infoC filesC op) :
    TrashInv (applyOp infoC filesC (fs, st) op).1.1 infoC filesC :=
  Proofs.C09Hist.step_inv st op inv ok

/-- `dom` well-formedness (needed only to read directory listings) is preserved too -/
theorem domwf_preserved (fs : FS) (infoC filesC : CPath) (st : PutSt) (op : Op)
    (inv : TrashInv fs infoC filesC) (ok : Op.ok fs infoC filesC op) (hw : DomWf fs) :
    DomWf (applyOp infoC filesC (fs, st) op).1.1 :=
  Proofs.C09Hist.step_domwf st op inv ok hw

/-! ### (b) every operation refines the specification step -/

theorem step_refines (fs : FS) (infoC filesC : CPath) (st : PutSt) (op : Op)
    (inv : TrashInv fs infoC filesC) (ok : Op.ok fs infoC filesC op) :
    bag (applyOp infoC filesC (fs, st) op).1.1 infoC =
      specStep (bag fs infoC) (applyOp infoC filesC (fs, st) op).2 :=
  Proofs.C09Hist.step_refines st op inv ok

/-! ### the events are truthful -/

/-- put reports `added name content` only for a name `<stem>.trashinfo` that was free in the bag and
    whose payload slot `files/<stem>` was free, and then the whole entry sits under `files/<stem>`;
    it never reports a removal; when it reports nothing the file system is unchanged. -/
theorem put_event (fs : FS) (infoC filesC src : CPath) (base content : Bytes) (st : PutSt)
    (inv : TrashInv fs infoC filesC) (ok : Op.ok fs infoC filesC (.put src base content)) :
    (∀ name c, (applyOp infoC filesC (fs, st) (.put src base content)).2 = some (.added name c) →
      c = content ∧ bag fs infoC name = none ∧ fs.get (payloadOf filesC name) = none ∧
      name = stemOf name ++ trashinfoExt ∧
      ∀ rel, (applyOp infoC filesC (fs, st) (.put src base content)).1.1.get (payloadOf filesC name ++ rel) =
        fs.get (src ++ rel)) ∧
    ((applyOp infoC filesC (fs, st) (.put src base content)).2 = none →
      (applyOp infoC filesC (fs, st) (.put src base content)).1.1 = fs) ∧
    (∀ name, (applyOp infoC filesC (fs, st) (.put src base content)).2 ≠ some (.removed name)) :=
  ⟨(Proofs.C09Hist.step_put st inv ok).2.2.1, (Proofs.C09Hist.step_put st inv ok).2.2.2.1,
   (Proofs.C09Hist.step_put st inv ok).2.2.2.2.1⟩

/-- purge reports the removal of its own name or nothing, and a removal only of a name that was
    there; it does report it when the info file is there and the payload is not a directory
    (for directory payloads see C15 `purge_rerun_completes_partial`). -/
theorem purge_event (fs : FS) (infoC filesC : CPath) (name : Bytes) (st : PutSt)
    (inv : TrashInv fs infoC filesC) (ok : Op.ok fs infoC filesC (.purge name)) :
    ((applyOp infoC filesC (fs, st) (.purge name)).2 = some (.removed name) ∨
     (applyOp infoC filesC (fs, st) (.purge name)).2 = none) ∧
    ((applyOp infoC filesC (fs, st) (.purge name)).2 = some (.removed name) → (bag fs infoC name).isSome = true) ∧
    ((bag fs infoC name).isSome = true → fs.isDirAt (payloadOf filesC name) = false →
      (applyOp infoC filesC (fs, st) (.purge name)).2 = some (.removed name)) :=
  ⟨(Proofs.C09Hist.step_purge st inv ok).2.2.1, (Proofs.C09Hist.step_purge st inv ok).2.2.2.1,
   Proofs.C09Hist.purge_succeeds st inv ok⟩

/-- restore (locally ok) always succeeds: it reports the removal of its name and the whole payload
    is at the destination -/
theorem restore_event (fs : FS) (infoC filesC : CPath) (name : Bytes) (dst : CPath) (st : PutSt)
    (inv : TrashInv fs infoC filesC) (ok : Op.ok fs infoC filesC (.restore name dst)) :
    (applyOp infoC filesC (fs, st) (.restore name dst)).2 = some (.removed name) ∧
    ∀ rel, (applyOp infoC filesC (fs, st) (.restore name dst)).1.1.get (dst ++ rel) =
      fs.get (payloadOf filesC name ++ rel) :=
  ⟨(Proofs.C09Hist.step_restore st inv ok).2.2.1, (Proofs.C09Hist.step_restore st inv ok).2.2.2.1⟩

/-! ### (c) histories -/

/-- THE HISTORY THEOREM.  From any state satisfying the invariant, after any history whose
    operations are locally ok in the states in which they run, the invariant holds again and the bag
    is the initial bag with the reported events applied in order: every `added` name inserted,
    every `removed` name erased, nothing else. -/
theorem history (infoC filesC : CPath) (ops : List Op) (σ : FS × PutSt)
    (inv : TrashInv σ.1 infoC filesC) (hok : HistOk infoC filesC σ ops) :
    TrashInv (runOps infoC filesC σ ops).1.1 infoC filesC ∧
    bag (runOps infoC filesC σ ops).1.1 infoC =
      (runOps infoC filesC σ ops).2.foldl specStep (bag σ.1 infoC) :=
  Proofs.C09Hist.history infoC filesC ops σ inv hok

/-- … on names: when `l0` lists the names initially in the bag, the names in the bag after the
    history are exactly those of `liveNames l0 events` (put and neither restored nor purged). -/
theorem history_names (infoC filesC : CPath) (ops : List Op) (σ : FS × PutSt) (l0 : List Bytes)
    (inv : TrashInv σ.1 infoC filesC) (hok : HistOk infoC filesC σ ops)
    (hl0 : ∀ n, n ∈ l0 ↔ (bag σ.1 infoC n).isSome = true) :
    ∀ n, (bag (runOps infoC filesC σ ops).1.1 infoC n).isSome = true ↔
      n ∈ liveNames l0 (runOps infoC filesC σ ops).2 :=
  Proofs.C09Hist.history_names infoC filesC ops σ l0 inv hok hl0

theorem history_domwf (infoC filesC : CPath) (ops : List Op) (σ : FS × PutSt)
    (inv : TrashInv σ.1 infoC filesC) (hok : HistOk infoC filesC σ ops) (hw : DomWf σ.1) :
    DomWf (runOps infoC filesC σ ops).1.1 :=
  Proofs.C09Hist.history_domwf infoC filesC ops σ inv hok hw

/-! ### what a listing, and trash-list, see -/

/-- the listing of `info/` (what `os.listdir` returns in the model) has no duplicates and contains
    exactly the names of the bag -/
theorem listing_names (fs : FS) (infoC : CPath) (hw : DomWf fs) :
    (infoNames fs infoC).Nodup ∧ ∀ n, n ∈ infoNames fs infoC ↔ (bag fs infoC n).isSome = true :=
  ⟨Proofs.C09Hist.nodup_infoNames fs infoC, Proofs.C09Hist.mem_infoNames hw⟩

/-- Corollary with `C09.list_is_bag`: run trash-list's scan of the trash directory `p` (volume `v`)
    after the history, `p/info` resolving to `infoC` in the final state.  It prints exactly one
    event per `.trashinfo` name of the listing of `info/`, in listing order; that listing has no
    duplicates and holds exactly the names put (or initially there) and neither restored nor purged. -/
theorem list_after_history (φ : Oracle) (cwd : CPath) (p v : Bytes) (infoC filesC : CPath) (ops : List Op)
    (σ : FS × PutSt) (l0 : List Bytes)
    (inv : TrashInv σ.1 infoC filesC) (hok : HistOk infoC filesC σ ops) (hw : DomWf σ.1)
    (hl0 : ∀ n, n ∈ l0 ↔ (bag σ.1 infoC n).isSome = true)
    (hres : FS.resolve (runOps infoC filesC σ ops).1.1 cwd (pjoin p (b "info")) true = .ok infoC) :
    (run φ (listEvents cwd [.found p v]) { fs := (runOps infoC filesC σ ops).1.1 }).2.outs =
      ((((infoNames (runOps infoC filesC σ ops).1.1 infoC).filter isTrashinfoName).map fun n =>
          listOne (runOps infoC filesC σ ops).1.1 cwd v (pjoin (pjoin p (b "info")) n))).reverse ∧
    (infoNames (runOps infoC filesC σ ops).1.1 infoC).Nodup ∧
    ∀ n, n ∈ infoNames (runOps infoC filesC σ ops).1.1 infoC ↔ n ∈ liveNames l0 (runOps infoC filesC σ ops).2 :=
  Proofs.C09Hist.list_after_history φ cwd p v infoC filesC ops σ l0 inv hok hw hl0 hres

/-! ### the local conditions matter -/

/-- Without "the destination is outside the trash directory" the refinement is FALSE: restoring to
    `/t/i/b` (inside `info/`, every other condition of `Op.ok` holds) reports `removed a.trashinfo`,
    yet the bag also gained `b`. -/
theorem restore_into_info_counterexample :
    ∃ (fs : FS) (infoC filesC : CPath) (st : PutSt) (name : Bytes) (dst : CPath),
      TrashInv fs infoC filesC ∧
      isFileAt fs (infoC ++ [name]) = true ∧
      (fs.get (payloadOf filesC name)).isSome = true ∧ fs.isMount (payloadOf filesC name) = false ∧
      fs.get dst = none ∧ dst ≠ [] ∧ (dst.getLast?.getD []).length ≤ 255 ∧
      fs.isDirAt (FS.parent dst) = true ∧ fs.dev filesC = fs.dev (FS.parent dst) ∧
      bag (applyOp infoC filesC (fs, st) (.restore name dst)).1.1 infoC ≠
        specStep (bag fs infoC) (applyOp infoC filesC (fs, st) (.restore name dst)).2 :=
  Proofs.C09Hist.restore_into_info_counterexample

/-- Without "the entry is outside the trash directory" the refinement is FALSE: trashing `/t/i/x`
    (an element of the bag itself) reports `added x.trashinfo` only, yet the bag lost `x`. -/
theorem put_from_info_counterexample :
    ∃ (fs : FS) (infoC filesC : CPath) (st : PutSt) (src : CPath) (base content : Bytes),
      TrashInv fs infoC filesC ∧
      (fs.get src).isSome = true ∧ src ≠ [] ∧ fs.isMount src = false ∧ fs.dev (FS.parent src) = fs.dev filesC ∧
      bag (applyOp infoC filesC (fs, st) (.put src base content)).1.1 infoC ≠
        specStep (bag fs infoC) (applyOp infoC filesC (fs, st) (.put src base content)).2 :=
  Proofs.C09Hist.put_from_info_counterexample

/-! ### (d) non-vacuity: a concrete history satisfying every hypothesis -/

namespace Demo

def dirN : Node := .dir 0o755 7
/-- `/t/i`, `/t/f` -/
def I : CPath := [[116], [105]]
def F : CPath := [[116], [102]]
/-- `/`, `/t`, `/t/i`, `/t/f`, the file `/a`, the directory `/b` with the file `/b/c`; `/` is the only mount point -/
def fs0 : FS := FS.ofList
  [([], dirN), ([[116]], dirN), (I, dirN), (F, dirN), ([[97]], .file [120] 0o644 3),
   ([[98]], dirN), ([[98], [99]], .file [121] 0o644 3)] [[]]
def st0 : PutSt := ⟨[], []⟩
def aInfo : Bytes := [97] ++ trashinfoExt
def bInfo : Bytes := [98] ++ trashinfoExt
/-- put `/a`; put `/b`; purge `a.trashinfo`; restore `b.trashinfo` to `/r` -/
def ops : List Op := [.put [[97]] [97] [67], .put [[98]] [98] [68], .purge aInfo, .restore bInfo [[114]]]

end Demo

open Demo in
example : TrashInv fs0 I F := by constructor <;> decide +kernel

open Demo in
example : HistOk I F (fs0, st0) ops := by decide +kernel

open Demo in
example : DomWf fs0 := Proofs.C09Hist.domwf_ofList _ _

/-- every operation of the demo history did something: two additions, two removals -/
example : (runOps Demo.I Demo.F (Demo.fs0, Demo.st0) Demo.ops).2 =
    [some (.added Demo.aInfo [67]), some (.added Demo.bInfo [68]), some (.removed Demo.aInfo),
     some (.removed Demo.bInfo)] := by decide +kernel

/-- … and a prefix of it leaves exactly `b.trashinfo` in the (initially empty) bag -/
example : liveNames [] (runOps Demo.I Demo.F (Demo.fs0, Demo.st0) (Demo.ops.take 3)).2 = [Demo.bInfo] := by
  decide +kernel

/-- the history theorem instantiated on the demo -/
example :
    bag (runOps Demo.I Demo.F (Demo.fs0, Demo.st0) Demo.ops).1.1 Demo.I =
      (runOps Demo.I Demo.F (Demo.fs0, Demo.st0) Demo.ops).2.foldl specStep (bag Demo.fs0 Demo.I) :=
  (history Demo.I Demo.F Demo.ops (Demo.fs0, Demo.st0) (by constructor <;> decide +kernel) (by decide +kernel)).2

end TrashVerif.C09Hist
