/-
  Props/C05Seq.lean — C05 for argument lists of ANY length.

  "If trash-put is killed at any point, each entry it was asked to trash is still complete at its
   original location or complete under files/ of a trash directory - never missing from both, never
   partly in each - and every payload present under files/ has its .trashinfo already present,
   complete and parseable."

  Props/C05Cmd.lean proves this of WHOLE runs on ONE argument.  Here:
  (1) `crash_states_append` (EVERY fault oracle): the crash states of the run on `args1 ++ args2` are the crash
      states of the run on `args1` — without their last one, which is the first of what follows — followed by
      the crash states of the run on `args2` started in the scripted input and RUN STATE (file system, trace of
      calls, call counter: what the oracle looks at) the first left; when an exception escaped from `args1`
      (`crash = some _`) they are those of the run on `args1`.  `crashStatesFrom` (Props/C05SeqDefs.lean) is
      `crashStates` from an arbitrary run state; `crash_states_append_noFaults`: without faults only the file
      system matters and it IS `crashStates`.  `mem_crash_states_append`: membership form.
  (2) `n_args_crash_inv_home_partial`: N everyday arguments into the existing home trash (`HomeWorld`,
      `HomeItems` of Props/C16SeqDefs.lean).  EVERY crash state of the N-argument run satisfies, for EVERY
      argument, `EntryInv`: whole at its origin (every node as in the INITIAL state) or whole under
      `files/<name>` and nothing at the origin; whenever `files/<name>` exists, `info/<name>.trashinfo` is a
      regular file, conformant, complete and parses.  By induction over the list with (1), the one-argument
      theorem (`put_run_crash_inv_home_existing`) for the argument in flight, and the frame
      `n_args_frame` (a path that is none of an argument's paths is never changed).
      `_partial` ONLY in its setting (that of `C16Seq.n_args_independent_partial`: everyday arguments that ARE
      trashed, home trash already there, fault-free, no scripted random numbers); the statement about the
      crash states is the full one of the task.  `EntryInv` is `C05Cmd.CrashInv` without the clause "every
      OTHER slot of files/ is as it was" — false for N ≥ 2, the other arguments' slots do change.
  (3) `two_args_crash_states_evaluated`: `trash-put /x /a` (file, directory tree), all 17 crash states, by the kernel.
-/
import TrashVerif.Props.C05Cmd
import TrashVerif.Props.C16Seq
import TrashVerif.Props.C05SeqDefs
import TrashVerif.Proofs.C05Seq
import TrashVerif.Proofs.C05SeqHome
import TrashVerif.Proofs.C05SeqEx
namespace TrashVerif.C05Seq
open TrashVerif Prog FS C16Indep C16Seq C05Cmd
open TrashVerif.C03Cmd (Clock)

/-! ### (1) the composition law -/

/-- `crash_states_append` (every oracle, configuration, scripted input, argument lists). -/
theorem crash_states_append (φ : Oracle) (c : PutCfg) (args1 args2 : List Bytes) (st : PutSt) (fs : FS) :
    crashStates φ (runPut c (args1 ++ args2) st) fs =
      match (putSeq φ c args1 st { fs := fs }).crash with
      | some _ => crashStates φ (runPut c args1 st) fs
      | none => (crashStates φ (runPut c args1 st) fs).dropLast ++
          crashStatesFrom φ (runPut c args2 (putSeq φ c args1 st { fs := fs }).st) (putSeq φ c args1 st { fs := fs }).s :=
  Proofs.C05Seq.crashStates_append φ c args1 args2 st fs

/-- `crashStates` is `crashStatesFrom` the fresh run state; the dropped last state of the first run is the first
    of the second (its initial file system) -/
theorem crash_states_from_init {α} (φ : Oracle) (p : Prog α) (fs : FS) :
    crashStates φ p fs = crashStatesFrom φ p { fs := fs } := rfl

/-- without faults the crash states from a run state are those from its file system -/
theorem crash_states_from_noFaults {α} (p : Prog α) (s : RunState) :
    crashStatesFrom noFaults p s = crashStates noFaults p s.fs := Proofs.C05Seq.crashStatesFrom_noFaults p s

/-- the fault-free form: the second run starts in the file system (and scripted input) the first left -/
theorem crash_states_append_noFaults (c : PutCfg) (args1 args2 : List Bytes) (st : PutSt) (fs : FS) :
    crashStates noFaults (runPut c (args1 ++ args2) st) fs =
      match (putSeq noFaults c args1 st { fs := fs }).crash with
      | some _ => crashStates noFaults (runPut c args1 st) fs
      | none => (crashStates noFaults (runPut c args1 st) fs).dropLast ++
          crashStates noFaults (runPut c args2 (putSeq noFaults c args1 st { fs := fs }).st)
            (run noFaults (runPut c args1 st) { fs := fs }).2.fs := by
  rw [crash_states_append, put_run_is_fold]
  cases (putSeq noFaults c args1 st { fs := fs }).crash with
  | some e => rfl
  | none => simp only [crash_states_from_noFaults]; rfl

/-- membership: a crash state of the run on `args1 ++ args2` is one of the run on `args1`, or — no exception
    having escaped — one of the run on `args2` from the state the first left -/
theorem mem_crash_states_append (c : PutCfg) (args1 args2 : List Bytes) (st : PutSt) (fs s : FS)
    (h : s ∈ crashStates noFaults (runPut c (args1 ++ args2) st) fs) :
    s ∈ crashStates noFaults (runPut c args1 st) fs ∨
    ((putSeq noFaults c args1 st { fs := fs }).crash = none ∧
      s ∈ crashStates noFaults (runPut c args2 (putSeq noFaults c args1 st { fs := fs }).st)
        (run noFaults (runPut c args1 st) { fs := fs }).2.fs) := by
  rw [crash_states_append_noFaults] at h
  cases hc : (putSeq noFaults c args1 st { fs := fs }).crash with
  | some e => rw [hc] at h; exact Or.inl h
  | none =>
    rw [hc] at h
    rcases List.mem_append.1 h with h | h
    · exact Or.inl ((List.dropLast_sublist _).subset h)
    · exact Or.inr ⟨rfl, h⟩

/-! ### (2) N everyday arguments into the home trash -/

/-- `n_args_crash_inv_home_partial`. -/
theorem n_args_crash_inv_home_partial (c : PutCfg) (fs : FS) (H : CPath) (st : PutSt) (d : Date) (items : List Item)
    (W : HomeWorld c fs H) (hints : st.ints = []) (K : Clock c d) (HI : HomeItems c fs H st items) :
    ∀ s ∈ crashStates noFaults (runPut c (items.map Item.arg) st) fs, ∀ x ∈ items,
      EntryInv fs s (infoC H) (filesC H) x.src (stemOf x.name) x.arg d :=
  Proofs.C05SeqHome.n_inv hints K items fs W HI

/-- THE FRAME over N arguments: a path that is not at or below an argument, not at or below its slot
    `files/<name>`, not its info file, not an ancestor of the argument, not `files/` or `info/` themselves — for
    every argument — has the node it had, in every crash state. -/
theorem n_args_frame (c : PutCfg) (fs : FS) (H : CPath) (st : PutSt) (items : List Item)
    (W : HomeWorld c fs H) (hints : st.ints = []) (HI : HomeItems c fs H st items) :
    ∀ s ∈ crashStates noFaults (runPut c (items.map Item.arg) st) fs, ∀ q,
      (∀ y ∈ items, ¬ y.src <+: q ∧ ¬ (filesC H ++ [stemOf y.name]) <+: q ∧ q ≠ infoC H ++ [y.name] ∧ ¬ q <+: y.src ∧
        q ≠ filesC H ∧ q ≠ infoC H) →
      s.get q = fs.get q := fun s hs q hq =>
  Proofs.C05SeqHome.n_frame hints items fs W HI s hs q
    (fun y hy => ⟨(hq y hy).1, (hq y hy).2.1, (hq y hy).2.2.1, (hq y hy).2.2.2.1, (hq y hy).2.2.2.2.1, (hq y hy).2.2.2.2.2⟩)

/-- the consequence the property text names: no payload without a parseable info file, for every argument -/
theorem n_args_no_payload_without_info (c : PutCfg) (fs : FS) (H : CPath) (st : PutSt) (d : Date) (items : List Item)
    (W : HomeWorld c fs H) (hints : st.ints = []) (K : Clock c d) (HI : HomeItems c fs H st items) :
    ∀ s ∈ crashStates noFaults (runPut c (items.map Item.arg) st) fs, ∀ x ∈ items,
      (s.get (filesC H ++ [stemOf x.name])).isSome = true →
      InfoParses s (infoC H ++ [stemOf x.name ++ trashinfoExt]) x.arg d :=
  fun s hs x hx => (n_args_crash_inv_home_partial c fs H st d items W hints K HI s hs x hx).infoFirst

/-- Non-vacuity of the hypotheses: HOME=/h with an existing trash, `trash-put /p/x /p/y` (the world of
    Props/C16Indep.lean), the theorem at work. -/
example (d : Date) (K : Clock Proofs.C16IndepHome.Ex.cfgH d) :
    ∀ s ∈ crashStates noFaults (runPut Proofs.C16IndepHome.Ex.cfgH
        ([Proofs.C16SeqHome.Ex.ix, Proofs.C16SeqHome.Ex.iy].map Item.arg) Proofs.C16IndepHome.Ex.st0)
        Proofs.C16IndepHome.Ex.fsH,
      ∀ x ∈ [Proofs.C16SeqHome.Ex.ix, Proofs.C16SeqHome.Ex.iy],
        EntryInv Proofs.C16IndepHome.Ex.fsH s (infoC Proofs.C16IndepHome.Ex.H) (filesC Proofs.C16IndepHome.Ex.H) x.src
          (stemOf x.name) x.arg d :=
  n_args_crash_inv_home_partial _ _ _ _ d _ Proofs.C16IndepHome.Ex.world rfl K Proofs.C16SeqHome.Ex.itemsXY

/-! ### (3) a two-argument world, every crash state evaluated by the kernel -/

/-- `two_args_crash_states_evaluated`.  World `W3` of Proofs/C16SeqEx.lean: HOME=/h (no trash directory yet), the
    file `/x`, the directory `/a` holding `/a/y`.  `trash-put /x /a` has 17 crash states; per state, is there
    something at `/x`, `files/x`, `info/x.trashinfo`, `/a`, `/a/y`, `files/a`, `files/a/y`, `info/a.trashinfo`
    (`summary`): before each of the five `mkdir`s and before the create of `x.trashinfo` nothing has moved; then
    `x.trashinfo` is there and `/x` in place (before write, close, rename); then `/x` is under `files/x` while `/a`
    is whole at its place (before the three `mkdir`s that fail with EEXIST, the create); then `a.trashinfo` too
    (before write, close, rename); finally `/a`, `/a/y` are gone and `files/a`, `files/a/y` there.  NEVER is an
    entry in both places or in neither, never is the tree `/a` split; and in every state a payload under
    `files/` has an info file from which `parsePath` reads its location (`ok`). -/
theorem two_args_crash_states_evaluated :
    let t := true
    let f := false
    (crashStates noFaults (runPut Proofs.C16Indep.Cex.cfg0 [b "/x", b "/a"] Proofs.C16Indep.Cex.st0)
        Proofs.C16SeqEx.W3).map Proofs.C05SeqEx.summary =
      [[t, f, f, t, t, f, f, f], [t, f, f, t, t, f, f, f], [t, f, f, t, t, f, f, f], [t, f, f, t, t, f, f, f],
       [t, f, f, t, t, f, f, f], [t, f, f, t, t, f, f, f],
       [t, f, t, t, t, f, f, f], [t, f, t, t, t, f, f, f], [t, f, t, t, t, f, f, f],
       [f, t, t, t, t, f, f, f], [f, t, t, t, t, f, f, f], [f, t, t, t, t, f, f, f], [f, t, t, t, t, f, f, f],
       [f, t, t, t, t, f, f, t], [f, t, t, t, t, f, f, t], [f, t, t, t, t, f, f, t],
       [f, t, t, f, f, t, t, t]] ∧
    (crashStates noFaults (runPut Proofs.C16Indep.Cex.cfg0 [b "/x", b "/a"] Proofs.C16Indep.Cex.st0)
        Proofs.C16SeqEx.W3).all Proofs.C05SeqEx.ok = true := by
  intro t f
  rw [Proofs.C16Eval.runPut_eq]
  exact Proofs.C05SeqEx.eval2

section audit
#print axioms crash_states_append
#print axioms crash_states_from_noFaults
#print axioms crash_states_append_noFaults
#print axioms mem_crash_states_append
#print axioms n_args_crash_inv_home_partial
#print axioms n_args_frame
#print axioms n_args_no_payload_without_info
#print axioms two_args_crash_states_evaluated
end audit

end TrashVerif.C05Seq
