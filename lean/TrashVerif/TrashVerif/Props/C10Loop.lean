/-
  Props/C10Loop.lean — C10 and C12 at the level of the LOOPS: over a whole `info/` directory,
  `emptyInfos` (trash-empty) and `rmInfos` (trash-rm) remove exactly the selected entries — each of
  them whole, payload and `.trashinfo` — and leave every other entry, every orphan payload and
  everything outside the trash directory byte-for-byte intact.  One trash directory, fault-free
  (`noFaults`); `namespace C10Loop` = trash-empty, `namespace C12Loop` = trash-rm.

  The definitions are in Props/C10LoopDefs.lean:
    * `Setting fs cwd t infoC filesC names` — the trash directory given by the string `t`, with canonical
      `info/` and `files/`; `names` = the `*.trashinfo` names the scan lists (`scan_names` ties them to
      `infosOf`); the loops receive `infoStrs t names`.  Its last field is the resolved layer: in
      every state the loop can reach (`Within`) the info strings and the payload strings
      `pathOfBackupCopy` derives from them resolve to `infoC/N.trashinfo` and `filesC/N`.
      `plain_setting` discharges it — from conditions on the INITIAL state only — for a trash
      directory given by its canonical spelling with no symbolic link on the way.
    * `PurgedExactly fs fs' infoC filesC D` — "`fs'` is `fs` with exactly the entries `D` removed".

  The subtle point.  Inside the loops the decision (`okToDelete`, resp. readability / `Path=` / pattern)
  is evaluated on the CURRENT state.  The theorems are phrased against the INITIAL state: the decision
  about an entry reads only that entry's own info file (`Proofs.C10Loop.okToDelete_stable`,
  `rmSelects_stable`), which the removal of other entries does not touch — PROVIDED no listed info
  is a symbolic link (`Setting.notLink`): `symlink_info_counterexample` shows the statement is false
  otherwise.  "Removed whole" needs the payload to be a tree without mount point
  (`Setting.payTree`): `mount_in_payload_counterexample`.  With these two hypotheses the statements
  are at full strength; there is no `_partial` statement.  What the hypotheses do allow: an info that
  is a directory (unreadable: kept by DAYS and by trash-rm, removed with `rmtree` by a plain
  trash-empty), an info without payload, names like `x.trashinfo.trashinfo` (payload
  `files/x.trashinfo`), payloads that are symbolic links (unlinked, never followed) or directories,
  orphan payloads (untouched by these loops).

  The DAYS overflow (`Decision.crash`): `empty_selects_exactly` assumes that no decision crashes —
  which is the case as soon as now − DAYS days is representable (`empty_decision_is_spec`);
  `empty_stops_at_overflow` says what holds otherwise: the loop stops at the first entry with a
  parsable date, every entry before it was handled, nothing else was touched.
  trash-rm: the pattern is assumed non-empty (an empty pattern makes `fnmatch`'s caller raise
  IndexError at the first parsable entry).
-/
import TrashVerif.Props.C10LoopDefs
import TrashVerif.Props.C10
import TrashVerif.Props.C12
import TrashVerif.Props.C14
import TrashVerif.Proofs.C10Loop
import TrashVerif.Proofs.C10LoopEx
namespace TrashVerif.C10Loop
open TrashVerif PutCore Prog FS C09Hist

/-! ### the setting -/

/-- The resolved layer discharged: for the trash directory with canonical path `T` (≠ `/`), given to
    the commands by its canonical spelling `toStr T`, all of `Setting` follows from facts about the
    initial state: `T/info` and `T/files` are directories reached through directories only, and the
    listed names contain no '/' and are at most 255 bytes long (true of every real listing; the flat
    model has to be told). -/
theorem plain_setting (fs : FS) (cwd T : CPath) (names : List Bytes)
    (hT0 : T ≠ []) (hTn : C07.GoodNames T)
    (hI : C07.Plain fs (T ++ [b "info"])) (hF : C07.Plain fs (T ++ [b "files"]))
    (wf : DomWf fs) (nodup : names.Nodup)
    (isInfo : ∀ n ∈ names, isTrashinfoName n = true)
    (good : ∀ n ∈ names, slash ∉ n ∧ n.length ≤ 255)
    (notLink : ∀ n ∈ names, fs.isLinkAt (T ++ [b "info"] ++ [n]) = false)
    (infoTree : ∀ n ∈ names, TreeOk fs (T ++ [b "info"] ++ [n]))
    (payTree : ∀ n ∈ names, TreeOk fs (T ++ [b "files"] ++ [stemOf n])) :
    Setting fs cwd (toStr T) (T ++ [b "info"]) (T ++ [b "files"]) names :=
  Proofs.C10Loop.plain_setting fs cwd T names hT0 hTn hI hF wf nodup isInfo good notLink infoTree payTree

/-- The names of the setting are what the scan yields: when `t/info` resolves to the directory
    `infoC`, `infosOf` returns exactly `infoStrs t names` for `names` = the `*.trashinfo` names of
    the listing of `infoC`, and these are distinct. -/
theorem scan_names (fs : FS) (cwd infoC : CPath) (t : Bytes)
    (hres : FS.resolve fs cwd (pjoin t (b "info")) true = .ok infoC) (hd : fs.isDirAt infoC = true) :
    infosOf fs cwd t = .ok (infoStrs t ((infoNames fs infoC).filter isTrashinfoName)) ∧
    ((infoNames fs infoC).filter isTrashinfoName).Nodup ∧
    ∀ n ∈ (infoNames fs infoC).filter isTrashinfoName, isTrashinfoName n = true :=
  ⟨Proofs.C09Hist.infosOf_resolved hres hd, (Proofs.C09Hist.nodup_infoNames fs infoC).filter _,
   fun _ hn => (List.mem_filter.1 hn).2⟩

/-! ### trash-empty -/

/-- THE SELECTION THEOREM of trash-empty (not `--dry-run`), against the INITIAL state `fs`:
    the loop does not crash; every listed entry that `okToDelete` — evaluated on `fs` — says to delete
    is gone whole (its info file, and everything at or below its payload); every listed entry it
    says to keep is intact (its info file, and everything at or below its payload); and (last
    conjunct, `PurgedExactly`) every path that is not at or below an info file or payload of a
    deleted entry — kept and unlisted entries, orphan payloads, everything outside the trash
    directory — is exactly as before, `info/` and `files/` keeping kind and mode. -/
theorem empty_selects_exactly (fs : FS) (cwd : CPath) (t : Bytes) (infoC filesC : CPath) (names : List Bytes)
    (o : EmptyOpts) (S : Setting fs cwd t infoC filesC names) (hdry : o.dryRun = false)
    (hnc : ∀ n ∈ names, ∀ c, okToDelete fs cwd o (infoStr t n) ≠ .crash c) :
    let r := run noFaults (emptyInfos cwd o (infoStrs t names)) { fs := fs }
    r.1 = none ∧
    (∀ n ∈ names, okToDelete fs cwd o (infoStr t n) = .delete →
      (∀ rel, r.2.fs.get (infoC ++ [n] ++ rel) = none) ∧
      (∀ rel, r.2.fs.get (filesC ++ [stemOf n] ++ rel) = none)) ∧
    (∀ n ∈ names, okToDelete fs cwd o (infoStr t n) = .keep →
      (∀ rel, r.2.fs.get (infoC ++ [n] ++ rel) = fs.get (infoC ++ [n] ++ rel)) ∧
      (∀ rel, r.2.fs.get (filesC ++ [stemOf n] ++ rel) = fs.get (filesC ++ [stemOf n] ++ rel))) ∧
    PurgedExactly fs r.2.fs infoC filesC (emptySelected fs cwd o t names) :=
  Proofs.C10Loop.empty_selects_exactly fs cwd t infoC filesC names o S hdry hnc

/-- a consequence of `PurgedExactly` worth spelling out: nothing outside the trash directory changes
    (`Outside`: neither at/below nor an ancestor of `info/`, `files/`) -/
theorem purged_outside (fs fs' : FS) (infoC filesC : CPath) (D : List Bytes)
    (P : PurgedExactly fs fs' infoC filesC D) (q : CPath) (hq : Outside infoC filesC q) : fs'.get q = fs.get q :=
  Proofs.C10Loop.purged_outside P q hq

/-- … and neither does any entry that is not among the removed ones, listed or not: its info file
    and its whole payload are as before -/
theorem purged_other (fs fs' : FS) (infoC filesC : CPath) (D : List Bytes) (inv : TrashInv fs infoC filesC)
    (P : PurgedExactly fs fs' infoC filesC D) (hD : ∀ d ∈ D, isTrashinfoName d = true)
    (m : Bytes) (hm : isTrashinfoName m = true) (hmD : m ∉ D) :
    (∀ rel, fs'.get (infoC ++ [m] ++ rel) = fs.get (infoC ++ [m] ++ rel)) ∧
    (∀ rel, fs'.get (filesC ++ [stemOf m] ++ rel) = fs.get (filesC ++ [stemOf m] ++ rel)) :=
  Proofs.C10Loop.purged_other (Proofs.C09Hist.GeoI.of_inv inv) P hD hm hmD

/-- The DAYS overflow.  When the decision for the listed name `n` crashes (on the initial state) and
    none before it does, the loop returns that crash, and the state it leaves is the initial one with
    exactly the selected entries BEFORE `n` removed: `n` and everything after it are untouched. -/
theorem empty_stops_at_overflow (fs : FS) (cwd : CPath) (t : Bytes) (infoC filesC : CPath) (pre post : List Bytes)
    (n : Bytes) (c : Crash) (o : EmptyOpts) (S : Setting fs cwd t infoC filesC (pre ++ n :: post))
    (hdry : o.dryRun = false)
    (hpre : ∀ m ∈ pre, ∀ c', okToDelete fs cwd o (infoStr t m) ≠ .crash c')
    (hn : okToDelete fs cwd o (infoStr t n) = .crash c) :
    let r := run noFaults (emptyInfos cwd o (infoStrs t (pre ++ n :: post))) { fs := fs }
    r.1 = some c ∧ PurgedExactly fs r.2.fs infoC filesC (emptySelected fs cwd o t pre) :=
  Proofs.C10Loop.empty_stops_at_overflow fs cwd t infoC filesC pre post n c o S hdry hpre hn

/-- The decision in the property's words (with C10 `olderThan_spec`): without DAYS every entry is
    deleted; with DAYS (valid clock) an entry is deleted iff its info file is readable and the date
    of its DeletionDate line is strictly earlier than now − DAYS days (`C10.shouldPurge`: calendar
    arithmetic); the decision crashes iff the entry is readable and dated and now − DAYS days is not
    representable (then with `.overflow`); hence, when now − DAYS days is representable, no decision
    crashes and an entry is kept iff it is unreadable, undated, or not older. -/
theorem empty_decision_is_spec (fs : FS) (cwd : CPath) (o : EmptyOpts) (i : Bytes) :
    (o.days = none → okToDelete fs cwd o i = .delete) ∧
    (∀ days, o.days = some days → o.now.valid = true → o.nowUs < 1000000 →
      (okToDelete fs cwd o i = .delete ↔
        ∃ text d, contentsOf fs cwd i = some text ∧ parseDeletionDate text = some d ∧
          C10.shouldPurge days o.now o.nowUs d = true) ∧
      (∀ c, okToDelete fs cwd o i = .crash c ↔
        c = .overflow ∧ (∃ text d, contentsOf fs cwd i = some text ∧ parseDeletionDate text = some d) ∧
          C10.minusDays days o.now = none) ∧
      (C10.minusDays days o.now ≠ none →
        (okToDelete fs cwd o i = .keep ↔ ¬ ∃ text d, contentsOf fs cwd i = some text ∧
          parseDeletionDate text = some d ∧ C10.shouldPurge days o.now o.nowUs d = true))) :=
  Proofs.C10Loop.empty_decision_is_spec fs cwd o i

/-- hence the hypothesis `hnc` of `empty_selects_exactly` holds whenever there is no DAYS argument, or
    the clock is valid and now − DAYS days is representable -/
theorem empty_no_crash (fs : FS) (cwd : CPath) (o : EmptyOpts)
    (h : o.days = none ∨ ∃ days, o.days = some days ∧ o.now.valid = true ∧ o.nowUs < 1000000 ∧
      C10.minusDays days o.now ≠ none) :
    ∀ i c, okToDelete fs cwd o i ≠ .crash c := Proofs.C10Loop.empty_no_crash fs cwd o h

/-- … where the date is that of the FIRST DeletionDate line only (with C10 `first_date_line_only`):
    a first line that does not parse means "no date" (kept), whatever follows. -/
theorem deletion_date_first_line (pre post l : Bytes)
    (hpre : ∀ x ∈ lines pre, Bytes.startsWith x dateKey = false)
    (hl : Bytes.startsWith l dateKey = true) (hnl : (10 : UInt8) ∉ l) :
    parseDeletionDate (pre ++ [10] ++ l ++ [10] ++ post) = strptimeBody (l.drop dateKey.length) :=
  Proofs.C10Loop.deletion_date_first_line pre post l hpre hl hnl

/-- `--dry-run`, at the level of the loop (for the whole command: C14 `dry_run_frame`): no call, the
    file system is the initial one — for every list of info paths, every state, every oracle. -/
theorem empty_dry_run_changes_nothing (φ : Oracle) (cwd : CPath) (o : EmptyOpts) (infos : List Bytes) (s : RunState)
    (h : o.dryRun = true) :
    let r := run φ (emptyInfos cwd o infos) s
    r.2.trace = s.trace ∧ r.2.fs = s.fs :=
  Proofs.C10Loop.empty_dry_run_changes_nothing φ cwd o infos s h

/-! ### the hypotheses matter (kernel-checked; the worlds are in Proofs/C10LoopEx.lean) -/

/-- Without `notLink` the selection theorem is FALSE.  World `Cex.WL`: `info/b.trashinfo` is a
    symbolic link to `a.trashinfo`, an old entry.  Every hypothesis of `plain_setting` but `notLink`
    holds, no decision crashes, and on the initial state `b` is to be deleted (its text is `a`'s);
    but when its turn comes `a` is gone, the link dangles, `b` is unreadable — and kept. -/
theorem symlink_info_counterexample :
    ∃ (fs : FS) (T : CPath) (names : List Bytes) (o : EmptyOpts) (n : Bytes),
      PlainHyps fs T names ∧ (∀ m ∈ names, TreeOk fs (T ++ [b "files"] ++ [stemOf m])) ∧
      o.dryRun = false ∧ (∀ m ∈ names, ∀ c, okToDelete fs [] o (infoStr (toStr T) m) ≠ .crash c) ∧
      n ∈ names ∧ okToDelete fs [] o (infoStr (toStr T) n) = .delete ∧
      (run noFaults (emptyInfos [] o (infoStrs (toStr T) names)) { fs := fs }).2.fs.get (T ++ [b "info"] ++ [n]) ≠ none :=
  Proofs.C10LoopEx.symlink_info_counterexample

/-- Without the "no mount point" half of `payTree` an entry is NOT removed whole.  World `Cex.WM`:
    the payload `files/a` holds a mount point; every other hypothesis holds (no link, the payload is
    a well-formed tree).  trash-empty: the removal of the payload fails (EBUSY, reported as
    "cannot-remove"), the info file is removed all the same — the payload is stranded without it
    (`emptyInfos` goes on after a failed payload removal; `purgePair` does not).  trash-rm on the
    same world stops with an OSError and keeps the info file. -/
theorem mount_in_payload_counterexample :
    ∃ (fs : FS) (T : CPath) (names : List Bytes) (o : EmptyOpts) (n : Bytes),
      PlainHyps fs T names ∧ (∀ m ∈ names, fs.isLinkAt (T ++ [b "info"] ++ [m]) = false) ∧
      (∀ m ∈ names, ∀ q x, FS.under (T ++ [b "files"] ++ [stemOf m]) q = true → (fs.get (q ++ [x])).isSome = true →
        fs.isDirAt q = true) ∧
      o.dryRun = false ∧ n ∈ names ∧ okToDelete fs [] o (infoStr (toStr T) n) = .delete ∧
      (run noFaults (emptyInfos [] o (infoStrs (toStr T) names)) { fs := fs }).1 = none ∧
      (run noFaults (emptyInfos [] o (infoStrs (toStr T) names)) { fs := fs }).2.fs.get (T ++ [b "info"] ++ [n]) = none ∧
      (run noFaults (emptyInfos [] o (infoStrs (toStr T) names)) { fs := fs }).2.fs.get (T ++ [b "files"] ++ [stemOf n]) ≠ none ∧
      Out.stderr "cannot-remove" (pathOfBackupCopy (infoStr (toStr T) n)) ∈
        (run noFaults (emptyInfos [] o (infoStrs (toStr T) names)) { fs := fs }).2.outs ∧
      rmSelects fs [] (b "aa") (b "/") (infoStr (toStr T) n) = true ∧
      (run noFaults (rmInfos [] (b "aa") (b "/") (infoStrs (toStr T) names)) { fs := fs }).1 = some .osError ∧
      (run noFaults (rmInfos [] (b "aa") (b "/") (infoStrs (toStr T) names)) { fs := fs }).2.fs.get (T ++ [b "info"] ++ [n]) =
        fs.get (T ++ [b "info"] ++ [n]) :=
  Proofs.C10LoopEx.mount_in_payload_counterexample

/-! ### non-vacuity: `/t` with an old, a recent and an undated entry; `trash-empty 1` on 2024-03-02

  `Demo.W`: `old` (2020-01-01, payload a directory holding a file), `new` (2024-03-01 12:00:00),
  `und` (no DeletionDate line), an orphan payload, a file outside.  Everything below is checked by
  the kernel, the loops being run through the twins of Proofs/C10LoopEval.lean. -/

open Proofs.C10LoopEx.Demo in
/-- the setting holds in the demo world, for every working directory -/
example (cwd : CPath) : Setting W cwd (b "/t") I F names := W_setting cwd

open Proofs.C10LoopEx.Demo in
/-- the scan yields exactly the strings the loop is given -/
example : infosOf W [] (b "/t") = .ok (infoStrs (b "/t") names) := W_infos

open Proofs.C10LoopEx.Demo in
/-- DAYS = 1 selects exactly the old entry: the recent and the undated one are kept -/
example : okToDelete W [] o1 (infoStr (b "/t") oldN) = .delete ∧
    okToDelete W [] o1 (infoStr (b "/t") newN) = .keep ∧
    okToDelete W [] o1 (infoStr (b "/t") undN) = .keep ∧
    emptySelected W [] o1 (b "/t") names = [oldN] := ⟨W_decisions.1, W_decisions.2.1, W_decisions.2.2, W_selected⟩

open Proofs.C10LoopEx.Demo in
/-- the run itself: four calls, and the final state is the initial one without `info/old.trashinfo`,
    `files/old`, `files/old/x` (the two directories have the fresh mtime 0) -/
example :
    (run noFaults (emptyInfos [] o1 (infoStrs (b "/t") names)) { fs := W }).1 = none ∧
    (run noFaults (emptyInfos [] o1 (infoStrs (b "/t") names)) { fs := W }).2.trace.length = 4 ∧
    (run noFaults (emptyInfos [] o1 (infoStrs (b "/t") names)) { fs := W }).2.fs.toList =
      [([], dirN), (T, dirN), (I, .dir 0o755 0), (F, .dir 0o755 0),
       (I ++ [newN], .file (b "[Trash Info]\nPath=/home/a/new\nDeletionDate=2024-03-01T12:00:00\n") 0o600 3),
       (I ++ [undN], .file (b "[Trash Info]\nPath=/home/a/und\n") 0o600 3),
       (F ++ [b "new"], .file [121] 0o644 3), (F ++ [b "und"], .file [122] 0o644 3),
       (F ++ [b "orphan"], .file [123] 0o644 3),
       ([b "home"], dirN), ([b "home", b "keep"], .file [124] 0o644 3)] := W_run

open Proofs.C10LoopEx.Demo in
/-- the selection theorem instantiated on the demo world -/
example : PurgedExactly W (run noFaults (emptyInfos [] o1 (infoStrs (b "/t") names)) { fs := W }).2.fs I F [oldN] := by
  have := (empty_selects_exactly W [] (b "/t") I F names o1 (W_setting []) rfl W_nocrash).2.2.2
  rwa [W_selected] at this

end TrashVerif.C10Loop

namespace TrashVerif.C12Loop
open TrashVerif PutCore Prog FS C09Hist C10Loop

/-- THE SELECTION THEOREM of trash-rm (non-empty pattern), against the INITIAL state `fs`:
    the loop does not crash; a listed entry is purged — gone whole, info file and everything at or
    below its payload — iff `rmSelects` holds of it on `fs` (its info file is readable, has a `Path=`
    line, and the pattern matches `volume/Path`: `rm_decision_is_spec`); every other listed entry is
    intact, info file and whole payload; every path that is not at or below an info file or payload
    of a purged entry is exactly as before (`PurgedExactly`); and the output is exactly one
    `unparsable` report per listed info that is unreadable or has no `Path=` line, in listing order
    (`outs` is newest first) — these are kept (`rmUnparsable` excludes `rmSelects`). -/
theorem rm_selects_exactly (fs : FS) (cwd : CPath) (t : Bytes) (infoC filesC : CPath) (names : List Bytes)
    (pattern volume : Bytes) (S : Setting fs cwd t infoC filesC names) (hp : pattern ≠ []) :
    let r := run noFaults (rmInfos cwd pattern volume (infoStrs t names)) { fs := fs }
    r.1 = none ∧
    (∀ n ∈ names, rmSelects fs cwd pattern volume (infoStr t n) = true →
      (∀ rel, r.2.fs.get (infoC ++ [n] ++ rel) = none) ∧
      (∀ rel, r.2.fs.get (filesC ++ [stemOf n] ++ rel) = none)) ∧
    (∀ n ∈ names, rmSelects fs cwd pattern volume (infoStr t n) = false →
      (∀ rel, r.2.fs.get (infoC ++ [n] ++ rel) = fs.get (infoC ++ [n] ++ rel)) ∧
      (∀ rel, r.2.fs.get (filesC ++ [stemOf n] ++ rel) = fs.get (filesC ++ [stemOf n] ++ rel))) ∧
    PurgedExactly fs r.2.fs infoC filesC (rmSelected fs cwd pattern volume t names) ∧
    r.2.outs = (((infoStrs t names).filter (rmUnparsable fs cwd)).map (Out.stderr "unparsable")).reverse :=
  Proofs.C10Loop.rm_selects_exactly fs cwd t infoC filesC names pattern volume S hp

/-- The verdicts in the property's words (with C12 `rm_subject`; `C12.globMatch_iff` turns the match
    into declarative glob matching): an entry is selected iff its info file is readable, has a
    `Path=` line, and the pattern matches the original location `volume/Path` — the whole path for a
    pattern starting with '/', its base name otherwise; it is reported iff it is unreadable or has
    no `Path=` line. -/
theorem rm_decision_is_spec (fs : FS) (cwd : CPath) (pattern volume i : Bytes) (hp : pattern ≠ []) :
    (rmSelects fs cwd pattern volume i = true ↔
      ∃ text rel, contentsOf fs cwd i = some text ∧ parsePath text = some rel ∧
        Glob.globMatch (decodeSE pattern)
          (decodeSE (if pattern.head? = some slash then pjoin volume rel else basename (pjoin volume rel))) = true) ∧
    (rmUnparsable fs cwd i = true ↔
      contentsOf fs cwd i = none ∨ ∃ text, contentsOf fs cwd i = some text ∧ parsePath text = none) :=
  Proofs.C10Loop.rm_decision_is_spec fs cwd pattern volume i hp

/-- `rmDirs` — what `runRm` runs over the trash directories found — on ONE trash directory is the
    scan followed by the loop: with `scan_names`, `rm_selects_exactly` is a statement about
    `rmDirs cwd pattern [(t, volume)]` (under every oracle). -/
theorem rm_dir_is_loop (φ : Oracle) (cwd : CPath) (pattern t v : Bytes) (s : RunState) (infos : List Bytes)
    (h : infosOf s.fs cwd t = .ok infos) :
    run φ (rmDirs cwd pattern [(t, v)]) s = run φ (rmInfos cwd pattern v infos) s :=
  Proofs.C10Loop.rmDirs_one φ cwd pattern t v s infos h

/-! ### non-vacuity: the demo directory with two more names — `bad.trashinfo` (no `Path=` line) and
    the directory `dir.trashinfo` (unreadable); `trash-rm 'n*'` -/

open Proofs.C10LoopEx.Demo in
example (cwd : CPath) : Setting W2 cwd (b "/t") I F names2 := W2_setting cwd

open Proofs.C10LoopEx.Demo in
example : infosOf W2 [] (b "/t") = .ok (infoStrs (b "/t") names2) := W2_infos

open Proofs.C10LoopEx.Demo in
/-- exactly `new` is selected; the two unparsable names are reported and kept; `new` is gone whole,
    `old` (with its directory payload) is intact -/
example :
    rmSelected W2 [] (b "n*") (b "/") (b "/t") names2 = [newN] ∧
    (run noFaults (rmInfos [] (b "n*") (b "/") (infoStrs (b "/t") names2)) { fs := W2 }).1 = none ∧
    (run noFaults (rmInfos [] (b "n*") (b "/") (infoStrs (b "/t") names2)) { fs := W2 }).2.outs =
      [.stderr "unparsable" (b "/t/info/dir.trashinfo"), .stderr "unparsable" (b "/t/info/bad.trashinfo")] ∧
    (run noFaults (rmInfos [] (b "n*") (b "/") (infoStrs (b "/t") names2)) { fs := W2 }).2.fs.get (I ++ [newN]) = none ∧
    (run noFaults (rmInfos [] (b "n*") (b "/") (infoStrs (b "/t") names2)) { fs := W2 }).2.fs.get (F ++ [b "new"]) = none ∧
    (run noFaults (rmInfos [] (b "n*") (b "/") (infoStrs (b "/t") names2)) { fs := W2 }).2.fs.get (I ++ [oldN]) = W2.get (I ++ [oldN]) ∧
    (run noFaults (rmInfos [] (b "n*") (b "/") (infoStrs (b "/t") names2)) { fs := W2 }).2.fs.get (F ++ [b "old", b "x"]) =
      W2.get (F ++ [b "old", b "x"]) ∧
    (run noFaults (rmInfos [] (b "n*") (b "/") (infoStrs (b "/t") names2)) { fs := W2 }).2.fs.get (I ++ [dirI]) = some dirN :=
  ⟨W2_selected, W2_run⟩

open Proofs.C10LoopEx.Demo in
/-- the selection theorem instantiated on the demo world -/
example : PurgedExactly W2 (run noFaults (rmInfos [] (b "n*") (b "/") (infoStrs (b "/t") names2)) { fs := W2 }).2.fs I F [newN] := by
  have := (rm_selects_exactly W2 [] (b "/t") I F names2 (b "n*") (b "/") (W2_setting []) (by decide +kernel)).2.2.2.1
  rwa [W2_selected] at this

end TrashVerif.C12Loop
