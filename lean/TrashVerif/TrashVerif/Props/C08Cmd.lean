/-
  Props/C08Cmd.lean — C08 at the COMMAND level:
  "If $topdir/.Trash is a symbolic link, is not a directory, or lacks the sticky bit, … trash-list,
   trash-restore, trash-empty and trash-rm neither show nor restore nor delete anything stored under
   $topdir/.Trash/$uid."

  Props/C08.lean proves the DECISION level (the scanner never yields an insecure `.Trash/$uid`).  Here
  whole runs of the four commands are framed: everything at or below a canonical subtree `r` — meant
  to be the canonical location of `v/.Trash/$uid`, see the examples — is left exactly as it was, and no
  stdout line is produced from it.  The statements hold for EVERY subtree `r` that is apart from what
  the commands do handle; the insecurity of `v/.Trash` enters as: `v/.Trash/$uid` is not among the
  directories handled (`insecure_not_scanned`, `insecure_not_restored`), so the geometry hypotheses
  are asked of the OTHER directories only (`tv.1 ≠ topDir c v → …`).

  Vocabulary (Props/C08CmdDefs.lean): `Apart r q` (neither canonical path at or below the other),
  `StrApart`/`DirApart` (where `t/info` and `t/files` lead, links followed, is apart from `r`),
  `Tidy` (a directory string without trailing '/'), `PlainNames` (every name of the world is a file
  name), `EntryApart`, `Sealed`, `NoRenameFailed` (trash-restore).

  Strength.
  * trash-empty, trash-rm, trash-list: under EVERY fault oracle, from any run state, hypotheses on
    the INITIAL world only; the conclusion covers every state a kill can leave behind.  The
    geometry hypothesis `hgeo` is needed (`link_into_insecure`: `v/.Trash-$uid -> v/.Trash/$uid`),
    and so is `PlainNames` (`plain_names_needed`; a well-formedness condition the flat file-system
    model does not enforce).  How it works: the loops only remove, so the state only shrinks; a path
    `t/info/n` that resolves in a shrunk state resolved to the same place initially, and that place
    is `<where t/info leads>/n` (`Proofs.C08Cmd.resolve_name_shr`).
  * trash-restore: `_partial`.  Under every fault oracle, but the geometry of the offered entries
    is asked in EVERY state of the run (in the initial state alone it is not enough:
    `restore_initial_geometry_not_enough` — a restored symbolic link redirects a later destination),
    and the copy fallback of `shutil.move` (entered when a `rename` fails: EXDEV or a fault) is
    covered only in worlds where no link outside `r` leads into `r` (`Sealed`; `copy2` opens its
    destination following links) — or not entered at all (`NoRenameFailed`).
-/
import TrashVerif.Props.C08
import TrashVerif.Props.C08CmdDefs
import TrashVerif.Proofs.C08CmdRestore
import TrashVerif.Proofs.C08CmdEx
namespace TrashVerif.C08Cmd
open TrashVerif Prog FS

/-! ### the insecure directory is not among the directories handled -/

/-- trash-restore's spelling `join(v, ".Trash/$uid")` is the scanner's `join(join(v, ".Trash"), "$uid")` -/
theorem topDir_restore (c : ReadCfg) (v : Bytes) : pjoin v (b ".Trash/" ++ Bytes.ofNat c.uid) = topDir c v :=
  Proofs.C08Cmd.topDir_restore c v

/-- When `v/.Trash` is insecure (and `v/.Trash/$uid` is not, by accident, the home trash directory
    of the environment), NO directory the scanner of trash-list / trash-empty / trash-rm yields is the
    string `v/.Trash/$uid` — whichever volume it was generated for (`scan_skips_insecure`,
    `scan_found_only_valid`, and `v'/.Trash-$uid` is never the same string). -/
theorem insecure_not_scanned (fs : FS) (c : ReadCfg) (v : Bytes)
    (hi : C08.Insecure fs c.cwd (dirname (topDir c v))) (hhome : topDir c v ∉ homeTrashPaths c.env) :
    ∀ tv ∈ foundDirs (scanTrashDirs fs c), tv.1 ≠ topDir c v :=
  Proofs.C08Cmd.top_not_found hi hhome

/-- … nor any directory of trash-restore's list (`restore_found_only_valid`), unless `--trash-dir`
    names it -/
theorem insecure_not_restored (fs : FS) (c : ReadCfg) (o : RestoreOpts) (v : Bytes)
    (hi : C08.Insecure fs c.cwd (dirname (topDir c v))) (hhome : topDir c v ∉ homeTrashPaths c.env)
    (hdir : o.trashDir ≠ some (topDir c v)) :
    ∀ tv ∈ restoreTrashDirs fs c o.trashDir, tv.1 ≠ topDir c v :=
  Proofs.C08Cmd.restoreDirs_ne_top hi hhome hdir

/-- every directory the scanner yields is `Tidy` (so `Tidy` is asked of `--trash-dir` arguments only) -/
theorem scanned_tidy (fs : FS) (c : ReadCfg) (tv : Bytes × Bytes) (h : tv ∈ foundDirs (scanTrashDirs fs c)) :
    Tidy tv.1 := Proofs.C08Cmd.tidy_found h

/-! ### (1) the key lemmas: what the loops touch -/

/-- trash-empty's loop over trash directories, under EVERY fault oracle, from any run state: when the
    names of the world are plain and, for every directory `t` of the list, `t` is tidy and `t/info`,
    `t/files` lead (in the INITIAL state, links followed) to places apart from `r`, then everything
    at or below `r` is unchanged — in the final state and in every state recorded on the way. -/
theorem emptyDirs_frame (φ : Oracle) (cwd : CPath) (o : EmptyOpts) (r : CPath) (dirs : List (Bytes × Bytes))
    (s : RunState) (hn : PlainNames s.fs) (hd : ∀ tv ∈ dirs, Tidy tv.1 ∧ DirApart s.fs cwd r tv.1) :
    (∀ rel, (run φ (emptyDirs cwd o dirs) s).2.fs.get (r ++ rel) = s.fs.get (r ++ rel)) ∧
    ∀ x ∈ (run φ (emptyDirs cwd o dirs) s).2.hist, x ∈ s.hist ∨ ∀ rel, x.get (r ++ rel) = s.fs.get (r ++ rel) :=
  Proofs.C08Cmd.emptyDirs_frame φ cwd o r dirs s hn hd

/-- the same for trash-rm's loop -/
theorem rmDirs_frame (φ : Oracle) (cwd : CPath) (pattern : Bytes) (r : CPath) (dirs : List (Bytes × Bytes))
    (s : RunState) (hn : PlainNames s.fs) (hd : ∀ tv ∈ dirs, Tidy tv.1 ∧ DirApart s.fs cwd r tv.1) :
    (∀ rel, (run φ (rmDirs cwd pattern dirs) s).2.fs.get (r ++ rel) = s.fs.get (r ++ rel)) ∧
    ∀ x ∈ (run φ (rmDirs cwd pattern dirs) s).2.hist, x ∈ s.hist ∨ ∀ rel, x.get (r ++ rel) = s.fs.get (r ++ rel) :=
  Proofs.C08Cmd.rmDirs_frame φ cwd pattern r dirs s hn hd

/-- The restoring of a list of entries (`Restorer.restore_trashed_file` on each), under EVERY fault
    oracle.  `_partial`: the geometry of each entry (`EntryApart`: the directory `fs.mkdirs` creates
    — and, when the parent string has a `.`/`..` component, every head of it `os.makedirs` may make —,
    the destination — and the directory it leads to, when `shutil.move` moves INTO it —, the payload,
    the info file, as the strings resolve) is asked in EVERY state of the run, and either no link
    outside `r` leads into `r` in any of them, or no `rename` failed.  Then every state a kill can
    leave behind, the final one included, has everything at or below `r` as it was. -/
theorem restoreMany_frame_partial (φ : Oracle) (cwd : CPath) (ov : Bool) (es : List Entry) (fs : FS) (r : CPath)
    (hgeo : ∀ e ∈ es, ∀ x ∈ crashStates φ (restoreMany cwd ov es) fs,
      EntryApart (crashStates φ (restoreMany cwd ov es) fs) x cwd r e)
    (hmove : (∀ x ∈ crashStates φ (restoreMany cwd ov es) fs, Sealed x r) ∨
      NoRenameFailed (run φ (restoreMany cwd ov es) { fs := fs }).2.trace) :
    ∀ x ∈ crashStates φ (restoreMany cwd ov es) fs, ∀ rel, x.get (r ++ rel) = fs.get (r ++ rel) :=
  Proofs.C08Cmd.restoreMany_frame φ cwd ov es fs r hgeo hmove

/-! ### (2) the commands -/

/-- trash-empty, under EVERY fault oracle, whatever the options (`--trash-dir`, days, dry-run,
    verbose, interactive with any reply).  `v/.Trash` is insecure; the names of the world are plain;
    `v/.Trash/$uid` is not the home trash directory, and is not named by `--trash-dir` (trash-empty
    does empty a directory it is explicitly given; those arguments are tidy); and — `hgeo`, the
    geometry of the world — every OTHER directory the selector yields has its `info/` and `files/`
    leading to places apart from `r`.  Then `v/.Trash/$uid` is not among the directories emptied and
    nothing at or below `r` changes, in the final state and in every state a kill can leave behind.
    (`r`: any canonical subtree; the canonical location of `v/.Trash/$uid` in the intended reading.)
    Without `hgeo` the statement is FALSE: `link_into_insecure`.  Without `hn`: `plain_names_needed`. -/
theorem empty_frames_insecure (φ : Oracle) (c : ReadCfg) (o : EmptyOpts) (reply : Option Bytes) (s : RunState)
    (v : Bytes) (r : CPath)
    (hi : C08.Insecure s.fs c.cwd (dirname (topDir c v)))
    (hn : PlainNames s.fs) (hhome : topDir c v ∉ homeTrashPaths c.env)
    (huser : ∀ d ∈ o.userDirs, d ≠ topDir c v ∧ Tidy d)
    (hgeo : ∀ tv ∈ foundDirs (selectTrashDirs s.fs c o.userDirs), tv.1 ≠ topDir c v → DirApart s.fs c.cwd r tv.1) :
    (∀ tv ∈ foundDirs (selectTrashDirs s.fs c o.userDirs), tv.1 ≠ topDir c v) ∧
    (∀ rel, (run φ (runEmpty c o reply) s).2.fs.get (r ++ rel) = s.fs.get (r ++ rel)) ∧
    (∀ x ∈ (run φ (runEmpty c o reply) s).2.hist, x ∈ s.hist ∨ ∀ rel, x.get (r ++ rel) = s.fs.get (r ++ rel)) :=
  Proofs.C08Cmd.empty_frames_insecure φ c o reply s v r hi hn hhome huser hgeo

/-- trash-rm, under EVERY fault oracle, whatever the arguments -/
theorem rm_frames_insecure (φ : Oracle) (c : ReadCfg) (args : List Bytes) (s : RunState) (v : Bytes) (r : CPath)
    (hi : C08.Insecure s.fs c.cwd (dirname (topDir c v)))
    (hn : PlainNames s.fs) (hhome : topDir c v ∉ homeTrashPaths c.env)
    (hgeo : ∀ tv ∈ foundDirs (scanTrashDirs s.fs c), tv.1 ≠ topDir c v → DirApart s.fs c.cwd r tv.1) :
    (∀ tv ∈ foundDirs (scanTrashDirs s.fs c), tv.1 ≠ topDir c v) ∧
    (∀ rel, (run φ (runRm c args) s).2.fs.get (r ++ rel) = s.fs.get (r ++ rel)) ∧
    (∀ x ∈ (run φ (runRm c args) s).2.hist, x ∈ s.hist ∨ ∀ rel, x.get (r ++ rel) = s.fs.get (r ++ rel)) :=
  Proofs.C08Cmd.rm_frames_insecure φ c args s v r hi hn hhome hgeo

/-- trash-list issues no call at all, whatever the world, the arguments and the oracle: the final
    file system IS the initial one; trace, history and call counter are unchanged. -/
theorem list_frames_everything (φ : Oracle) (c : ReadCfg) (dirs : List Bytes) (s : RunState) :
    (run φ (runList c dirs) s).2.fs = s.fs ∧ (run φ (runList c dirs) s).2.trace = s.trace ∧
    (run φ (runList c dirs) s).2.hist = s.hist ∧ (run φ (runList c dirs) s).2.n = s.n :=
  Proofs.C08Cmd.list_frames_everything φ c dirs s

/-- trash-restore, under EVERY fault oracle, whatever the options, the reply and the sort mode.
    `_partial`, see the header: `v/.Trash` is insecure, `v/.Trash/$uid` is not the home trash directory
    and is not named by `--trash-dir`; for every entry of every OTHER directory of the list the
    geometry `EntryApart` holds in every state of the run; no link outside `r` leads into `r` in any
    of them, or no `rename` failed.  Then `v/.Trash/$uid` is not among the directories read and every
    state a kill can leave behind, the final one included, has everything at or below `r` as it was.
    That the geometry in the initial state alone does not suffice: `restore_initial_geometry_not_enough`. -/
theorem restore_frames_insecure_partial (φ : Oracle) (c : ReadCfg) (o : RestoreOpts) (reply : Option Bytes) (fs : FS)
    (v : Bytes) (r : CPath)
    (hi : C08.Insecure fs c.cwd (dirname (topDir c v)))
    (hhome : topDir c v ∉ homeTrashPaths c.env) (hdir : o.trashDir ≠ some (topDir c v))
    (hgeo : ∀ tv ∈ restoreTrashDirs fs c o.trashDir, tv.1 ≠ topDir c v →
      ∀ e ∈ restoreEntriesOf fs c.cwd tv.1 tv.2, ∀ x ∈ crashStates φ (runRestore c o reply) fs,
        EntryApart (crashStates φ (runRestore c o reply) fs) x c.cwd r e)
    (hmove : (∀ x ∈ crashStates φ (runRestore c o reply) fs, Sealed x r) ∨
      NoRenameFailed (run φ (runRestore c o reply) { fs := fs }).2.trace) :
    (∀ tv ∈ restoreTrashDirs fs c o.trashDir, tv.1 ≠ topDir c v) ∧
    ∀ x ∈ crashStates φ (runRestore c o reply) fs, ∀ rel, x.get (r ++ rel) = fs.get (r ++ rel) :=
  Proofs.C08Cmd.restore_frames_insecure φ c o reply fs v r hi hhome hdir hgeo hmove

/-! ### (3) "neither show" -/

/-- trash-list's output is `listOutsOf` of what the selector yields (`C09.list_is_bag` over the whole
    scan): in order, one event per skipped directory and per `.trashinfo` of a found one, up to the
    first directory that cannot be listed — then the traceback. -/
theorem list_is_scan (φ : Oracle) (c : ReadCfg) (dirs : List Bytes) (s : RunState) :
    ∃ res extra, (extra = [] ∨ extra = [Out.stderr "traceback" []]) ∧
      run φ (runList c dirs) s =
        (res, { s with outs := extra ++ (listOutsOf s.fs c.cwd (selectTrashDirs s.fs c dirs)).reverse ++ s.outs }) :=
  Proofs.C08Cmd.runList_run φ c dirs s

/-- Every line trash-list prints on stdout is the line (`listOne`) of an info file `t/info/n` of a
    directory `t` the selector yielded — never the insecure `v/.Trash/$uid` —, `n` a plain trashinfo
    name; and that info path denotes (final link not followed) a place apart from `r`. -/
theorem list_shows_nothing_insecure (φ : Oracle) (c : ReadCfg) (dirs : List Bytes) (s : RunState) (v : Bytes) (r : CPath)
    (hi : C08.Insecure s.fs c.cwd (dirname (topDir c v)))
    (hn : PlainNames s.fs) (hhome : topDir c v ∉ homeTrashPaths c.env) (huser : ∀ d ∈ dirs, d ≠ topDir c v)
    (hgeo : ∀ tv ∈ foundDirs (selectTrashDirs s.fs c dirs), tv.1 ≠ topDir c v → DirApart s.fs c.cwd r tv.1) :
    ∀ line, Out.stdout line ∈ (run φ (runList c dirs) s).2.outs → Out.stdout line ∈ s.outs ∨
      ∃ t v' n, (t, v') ∈ foundDirs (selectTrashDirs s.fs c dirs) ∧ t ≠ topDir c v ∧
        isTrashinfoName n = true ∧ PlainName n ∧
        Out.stdout line = listOne s.fs c.cwd v' (pjoin (pjoin t (b "info")) n) ∧
        ∀ p, FS.resolve s.fs c.cwd (pjoin (pjoin t (b "info")) n) = .ok p → Apart r p :=
  Proofs.C08Cmd.list_shows_nothing_insecure φ c dirs s v r hi hn hhome huser hgeo

/-- Every entry trash-restore is offered — hence lists, hence can restore — comes from a directory of
    its list that is not the insecure `v/.Trash/$uid`. -/
theorem restore_offers_nothing_insecure (c : ReadCfg) (o : RestoreOpts) (fs : FS) (v : Bytes)
    (hi : C08.Insecure fs c.cwd (dirname (topDir c v)))
    (hhome : topDir c v ∉ homeTrashPaths c.env) (hdir : o.trashDir ≠ some (topDir c v)) :
    ∀ e ∈ restoreEntries fs c o, ∃ tv ∈ restoreTrashDirs fs c o.trashDir, tv.1 ≠ topDir c v ∧
      e ∈ restoreEntriesOf fs c.cwd tv.1 tv.2 :=
  Proofs.C08Cmd.restore_offers_nothing_insecure c o fs v hi hhome hdir

/-- trash-restore's listing (the prompt answered by EOF), under every oracle: nothing is touched, and
    every stdout line is the "No files trashed" message or the line of such an entry. -/
theorem restore_shows_nothing_insecure (φ : Oracle) (c : ReadCfg) (o : RestoreOpts) (s : RunState) (v : Bytes)
    (hi : C08.Insecure s.fs c.cwd (dirname (topDir c v)))
    (hhome : topDir c v ∉ homeTrashPaths c.env) (hdir : o.trashDir ≠ some (topDir c v)) :
    (run φ (runRestore c o none) s).2.fs = s.fs ∧ (run φ (runRestore c o none) s).2.trace = s.trace ∧
    ∀ line, Out.stdout line ∈ (run φ (runRestore c o none) s).2.outs → Out.stdout line ∈ s.outs ∨
      line = b "No files trashed from current dir ('" ++ toStr c.cwd ++ b "')" ∨
      ∃ i e, line = restoreLine i e ∧ ∃ tv ∈ restoreTrashDirs s.fs c o.trashDir, tv.1 ≠ topDir c v ∧
        e ∈ restoreEntriesOf s.fs c.cwd tv.1 tv.2 :=
  Proofs.C08Cmd.restore_shows_nothing_insecure φ c o s v hi hhome hdir

/-! ### (4) non-vacuity, the runs evaluated, and the hypotheses shown necessary

World `W` (Proofs/C08CmdEx.lean): two volumes, `/` and the mount point `/m`; HOME=/h with one entry in
the home trash (`/q/a`); `/m/.Trash` is a directory WITHOUT the sticky bit and `/m/.Trash/1000` is
populated: the pair `files/x` + `info/x.trashinfo` and the orphan payload `files/orph`;
`/m/.Trash-1000` holds the pair `y` and the orphan `o2`.  uid 1000, mount points `["/m"]`, cwd `/`.
`R` = `/m/.Trash/1000`. -/
section examples
open TrashVerif.Proofs.C08CmdEx

/-- `R` is the canonical location of `v/.Trash/$uid` for `v = /m`, and `/m/.Trash` is insecure -/
example : topDir rc (b "/m") = b "/m/.Trash/1000" ∧ FS.resolve W rc.cwd (topDir rc (b "/m")) true = .ok R ∧
    C08.Insecure W rc.cwd (dirname (topDir rc (b "/m"))) :=
  ⟨top_is, by rw [Proofs.C16Eval.resolve_eq]; decide +kernel, insecureW⟩

/-- the scanner: the home trash, the skip, `/m/.Trash-1000` -/
example : scanTrashDirs W rc =
    [.found (b "/h/.local/share/Trash") [slash], .skippedNotSticky (b "/m/.Trash/1000"), .found (b "/m/.Trash-1000") (b "/m")] := by
  rw [Proofs.C08CmdEval.scanTrashDirs_eq]; exact scanW

/-- non-vacuity of `empty_frames_insecure`, and the theorem instantiated: after `trash-empty`
    everything at or below `/m/.Trash/1000` is as it was -/
example : ∀ rel, (run noFaults (runEmpty rc eo none) { fs := W }).2.fs.get (R ++ rel) = W.get (R ++ rel) :=
  (empty_frames_insecure noFaults rc eo none { fs := W } (b "/m") R insecureW plainW homeW
    (fun _ h => absurd h List.not_mem_nil) geoW).2.1

/-- … independently, the run evaluated by the kernel: exit 0; the home entry, the pair and the orphan
    of `/m/.Trash-1000` are gone; the pair and the orphan under `/m/.Trash/1000` are there -/
example :
    let f := (run noFaults (runEmpty rc eo none) { fs := W }).2.fs
    f.get (TH ++ [b "files", b "a"]) = none ∧ f.get (TA ++ [b "files", b "y"]) = none ∧ f.get (TA ++ [b "files", b "o2"]) = none ∧
    f.get (R ++ [b "files", b "x"]) = some (.file [120] 0o644 0) ∧ (f.get (R ++ [b "info", b "x.trashinfo"])).isSome = true ∧
    f.get (R ++ [b "files", b "orph"]) = some (.file [111] 0o644 0) := by
  rw [empty_twin]; decide +kernel

/-- `rm_frames_insecure` instantiated on `trash-rm '*'` -/
example : ∀ rel, (run noFaults (runRm rc [b "*"]) { fs := W }).2.fs.get (R ++ rel) = W.get (R ++ rel) :=
  (rm_frames_insecure noFaults rc [b "*"] { fs := W } (b "/m") R insecureW plainW homeW
    (fun tv htv hne => geoW tv (by
      have : selectTrashDirs W rc [] = scanTrashDirs W rc := by simp [selectTrashDirs]
      rw [this]; exact htv) hne)).2.1

/-- … the run evaluated: both pairs in use are gone, the insecure directory keeps its own -/
example :
    let f := (run noFaults (runRm rc [b "*"]) { fs := W }).2.fs
    f.get (TH ++ [b "files", b "a"]) = none ∧ f.get (TA ++ [b "files", b "y"]) = none ∧
    f.get (R ++ [b "files", b "x"]) = some (.file [120] 0o644 0) ∧ (f.get (R ++ [b "info", b "x.trashinfo"])).isSome = true := by
  rw [rm_twin]; decide +kernel

/-- trash-list evaluated: the two entries in use on stdout, the skipped directory on stderr
    (`C08.list_reports_skip`), nothing from `/m/.Trash/1000` -/
example : (run noFaults (runList rc []) { fs := W }).2.outs.reverse =
    [.stdout (b "2020-01-01 00:00:00 /q/a"), .stderr "skipped-not-sticky" (b "/m/.Trash/1000"),
     .stdout (b "2020-01-01 00:00:00 /m/y")] := by
  rw [list_twin]; exact listW_eval

/-- trash-restore is offered the two entries in use, not `x` -/
example : (restoreEntries W rc ro).map (fun e => (e.loc, e.info)) =
    [(b "/q/a", b "/h/.local/share/Trash/info/a.trashinfo"), (b "/m/y", b "/m/.Trash-1000/info/y.trashinfo")] := by
  rw [Proofs.C02CmdEval.restoreEntries_eq]; exact offerW

/-- non-vacuity of `restore_frames_insecure_partial` (`trash-restore /` answered "0-1": both entries
    restored, no rename fails), and the theorem instantiated on the final state -/
example : ∀ rel, (run noFaults (runRestore rc ro (some (b "0-1"))) { fs := W }).2.fs.get (R ++ rel) = W.get (R ++ rel) :=
  (restore_frames_insecure_partial noFaults rc ro (some (b "0-1")) W (b "/m") R insecureW homeW (by decide)
    geoRestoreW (Or.inr noFailW)).2 _ (Proofs.C08Cmd.mem_crashStates_iff.2 (Or.inl rfl))

/-- … the run evaluated: `/q/a` and `/m/y` are back, the insecure directory keeps its own -/
example :
    let f := (run noFaults (runRestore rc ro (some (b "0-1"))) { fs := W }).2.fs
    f.get [b "q", b "a"] = some (.file [65] 0o644 0) ∧ f.get [b "m", b "y"] = some (.file [121] 0o644 0) ∧
    f.get (R ++ [b "files", b "x"]) = some (.file [120] 0o644 0) ∧ f.get (R ++ [b "files", b "orph"]) = some (.file [111] 0o644 0) := by
  rw [restore_twin]; decide +kernel

/-- `empty_frames_insecure` and `rm_frames_insecure` WITHOUT `hgeo` are FALSE.  World `WL`: as `W`, but
    `/m/.Trash-1000` is a symbolic link to `/m/.Trash/1000`.  Every other hypothesis holds, the scanner
    skips `/m/.Trash/1000` — and yields `/m/.Trash-1000`; `trash-empty` deletes the pair and the
    orphan stored under the insecure directory, `trash-rm '*'` the pair.  (REAL behaviour, not a
    modelling artefact: the check of `$topdir/.Trash` says nothing about what `.Trash-$uid` is.) -/
theorem link_into_insecure :
    C08.Insecure WL rc.cwd (dirname (topDir rc (b "/m"))) ∧
    PlainNames WL ∧ topDir rc (b "/m") ∉ homeTrashPaths rc.env ∧
    (∀ tv ∈ foundDirs (scanTrashDirs WL rc), tv.1 ≠ topDir rc (b "/m")) ∧
    FS.resolve WL rc.cwd (topDir rc (b "/m")) true = .ok R ∧
    (run noFaults (runEmpty rc eo none) { fs := WL }).2.fs.get (R ++ [b "files", b "x"]) = none ∧
    (run noFaults (runEmpty rc eo none) { fs := WL }).2.fs.get (R ++ [b "info", b "x.trashinfo"]) = none ∧
    (run noFaults (runEmpty rc eo none) { fs := WL }).2.fs.get (R ++ [b "files", b "orph"]) = none ∧
    (run noFaults (runRm rc [b "*"]) { fs := WL }).2.fs.get (R ++ [b "files", b "x"]) = none ∧
    (WL.get (R ++ [b "files", b "x"])).isSome = true ∧ (WL.get (R ++ [b "info", b "x.trashinfo"])).isSome = true ∧
    (WL.get (R ++ [b "files", b "orph"])).isSome = true :=
  Proofs.C08CmdEx.link_into_insecure

/-- `empty_frames_insecure` WITHOUT `PlainNames` is FALSE.  World `WN`: as `W`, plus an entry of
    `/m/.Trash-1000/info` whose NAME is `../../.Trash/1000/info/x.trashinfo` (no kernel produces such
    a name; the flat model allows it).  Every other hypothesis holds, yet `trash-empty` deletes the
    pair stored under the insecure directory. -/
theorem plain_names_needed :
    C08.Insecure WN rc.cwd (dirname (topDir rc (b "/m"))) ∧
    topDir rc (b "/m") ∉ homeTrashPaths rc.env ∧
    (∀ tv ∈ foundDirs (selectTrashDirs WN rc []), tv.1 ≠ topDir rc (b "/m") → DirApart WN rc.cwd R tv.1) ∧
    ¬ PlainNames WN ∧
    (run noFaults (runEmpty rc eo none) { fs := WN }).2.fs.get (R ++ [b "files", b "x"]) = none ∧
    (run noFaults (runEmpty rc eo none) { fs := WN }).2.fs.get (R ++ [b "info", b "x.trashinfo"]) = none ∧
    (WN.get (R ++ [b "files", b "x"])).isSome = true ∧ (WN.get (R ++ [b "info", b "x.trashinfo"])).isSome = true :=
  Proofs.C08CmdEx.plain_names_needed

/-- In `restore_frames_insecure_partial` the geometry has to be asked in every state of the run.  World
    `WC`: `/m/.Trash-1000` holds the symbolic link `lnk -> /m/.Trash/1000` (from `/m/lnk`, 2020) and the
    file `z` (from `/m/lnk/files/zz`, 2021).  In `WC` both entries are apart from `/m/.Trash/1000`
    (`EntryApart` with the initial state only), `/m/.Trash` is insecure, no rename fails; answered
    "0-1", trash-restore restores the link, then the file THROUGH it: `files/zz` appears under the
    insecure directory.  (REAL behaviour.) -/
theorem restore_initial_geometry_not_enough :
    C08.Insecure WC rc.cwd (dirname (topDir rc (b "/m"))) ∧
    topDir rc (b "/m") ∉ homeTrashPaths rc.env ∧
    (∀ tv ∈ restoreTrashDirs WC rc ro.trashDir, tv.1 ≠ topDir rc (b "/m") →
      ∀ e ∈ restoreEntriesOf WC rc.cwd tv.1 tv.2, EntryApart [WC] WC rc.cwd R e) ∧
    NoRenameFailed (run noFaults (runRestore rc ro (some (b "0-1"))) { fs := WC }).2.trace ∧
    (run noFaults (runRestore rc ro (some (b "0-1"))) { fs := WC }).1.exit = 0 ∧
    WC.get (R ++ [b "files", b "zz"]) = none ∧
    (run noFaults (runRestore rc ro (some (b "0-1"))) { fs := WC }).2.fs.get (R ++ [b "files", b "zz"]) =
      some (.file [122] 0o644 0) :=
  Proofs.C08CmdEx.restore_initial_geometry_not_enough

/-- The condition `parentHeads` of `EntryApart` is needed (`os.makedirs` works on the path STRING).
    World `WD`: `/m/.Trash-1000` holds the file `z`, recorded as trashed from
    `/m/.Trash/1000/gone/../../../zz`; `/m/.Trash/1000/gone` does not exist.  The other five conditions
    of `EntryApart` hold for that entry in EVERY state of the run (the `realpath` of the parent string
    is `/m`), `/m/.Trash` is insecure, no rename fails — yet `os.makedirs("/m/.Trash/1000/gone/../../..")`
    makes the directory `gone` INSIDE the insecure directory before it fails with `EEXIST` (exit 1).
    (REAL behaviour.) -/
theorem restore_parent_heads_needed :
    C08.Insecure WD rc.cwd (dirname (topDir rc (b "/m"))) ∧
    topDir rc (b "/m") ∉ homeTrashPaths rc.env ∧
    (∀ tv ∈ restoreTrashDirs WD rc ro.trashDir, tv.1 ≠ topDir rc (b "/m") →
      ∀ e ∈ restoreEntriesOf WD rc.cwd tv.1 tv.2, ∀ x ∈ crashStates noFaults (runRestore rc ro (some (b "0"))) WD,
        ¬ FS.under R (dirC x rc.cwd (dirname e.loc)) = true ∧
        (∀ d, FS.resolve x rc.cwd e.loc = .ok d → Apart R d) ∧
        (∀ x' ∈ crashStates noFaults (runRestore rc ro (some (b "0"))) WD, ∀ d, FS.resolve x' rc.cwd e.loc = .ok d →
          ∀ q, followC x d = some q → Apart R q) ∧
        (∀ p, FS.resolve x rc.cwd (pathOfBackupCopy e.info) = .ok p → Apart R p) ∧
        (∀ i, FS.resolve x rc.cwd e.info = .ok i → Apart R i)) ∧
    NoRenameFailed (run noFaults (runRestore rc ro (some (b "0"))) { fs := WD }).2.trace ∧
    (run noFaults (runRestore rc ro (some (b "0"))) { fs := WD }).1.exit = 1 ∧
    WD.get (R ++ [b "gone"]) = none ∧
    (run noFaults (runRestore rc ro (some (b "0"))) { fs := WD }).2.fs.get (R ++ [b "gone"]) = some (.dir 0o755 0) :=
  Proofs.C08CmdEx.restore_parent_heads_needed

/-- the twins ARE the commands -/
theorem twins (c : ReadCfg) (o : EmptyOpts) (args : List Bytes) (fs : FS) :
    run noFaults (runEmpty c o none) { fs := fs } = emptyS c o fs ∧
    run noFaults (runRm c args) { fs := fs } = rmS c args fs ∧
    run noFaults (runList c []) { fs := fs } = listS c fs :=
  ⟨empty_twin c o fs, rm_twin c args fs, list_twin c fs⟩

end examples

end TrashVerif.C08Cmd
