/-
  Props/C14.lean — property theorems for C14 (no purge without consent).
-/
import TrashVerif.Model.Cmds
import TrashVerif.Proofs.C14
namespace TrashVerif.C14
open TrashVerif Prog FS

/-- `--dry-run` issues no file-system call at all, for every world, every DAYS, with or without
    --trash-dir / -v, under every oracle: the trash directories stay byte-for-byte unchanged. -/
theorem dry_run_frame (φ : Oracle) (c : ReadCfg) (o : EmptyOpts) (reply : Option Bytes) (s : RunState) (h : o.dryRun = true) :
    let r := run φ (runEmpty c o reply) s
    r.2.trace = s.trace ∧ r.2.fs = s.fs := Proofs.C14.dry_run_frame φ c o reply s h

/-- In interactive mode nothing happens unless the reply begins with 'y' or 'Y': any other reply,
    the empty reply and end of input issue no call. -/
theorem guard_refuses (φ : Oracle) (c : ReadCfg) (o : EmptyOpts) (reply : Option Bytes) (s : RunState) (h : o.interactive = true)
    (hn : ∀ r, reply = some r → ¬ (∃ rest, r = 121 :: rest ∨ r = 89 :: rest)) :
    let r := run φ (runEmpty c o reply) s
    r.2.trace = s.trace ∧ r.2.fs = s.fs := Proofs.C14.guard_refuses φ c o reply s h hn

/-- the reply test: first character 'y' or 'Y' -/
theorem reply_yes_iff (r : Bytes) : emptyReplyYes r = true ↔ ∃ rest, r = 121 :: rest ∨ r = 89 :: rest :=
  Proofs.C14.reply_yes_iff r

/-- what a dry run prints for one selected entry is exactly the two paths the real run hands to the
    remover for it, in the same order (payload, then info file) -/
theorem dry_prints_what_real_removes (φ : Oracle) (o : EmptyOpts) (path : Bytes) (p : Except Errno CPath) (s : RunState) :
    (o.dryRun = true → (run φ (emptyPathR o path p) s).2.outs = Out.stdout (b "would remove " ++ path) :: s.outs) ∧
    (o.dryRun = false → o.verbose = 0 → (run φ (emptyPathR o path p) s).2.trace.length ≥ s.trace.length) :=
  Proofs.C14.dry_prints_what_real_removes φ o path p s

end TrashVerif.C14
