/-
  Props/C05.lean — property theorems for C05 (killing trash-put loses nothing, strands no payload).
-/
import TrashVerif.Props.PutCoreDefs
import TrashVerif.Proofs.C05
namespace TrashVerif.C05
open TrashVerif PutCore Prog

/-- Every state a kill can leave behind — before each of the mutating calls of the core, and the
    final one — keeps the entry complete at its origin or complete under `files/N`, and shows a
    payload only next to its complete `.trashinfo` (the info file is written before the move). -/
theorem put_crash_inv (fs : FS) (infoC filesC src : CPath) (base content : Bytes) (st : PutSt)
    (h : Setting fs infoC filesC src) :
    ∀ s ∈ crashStates noFaults (putCore infoC filesC base content (fun _ => .ok src) st) fs,
      CrashOk fs s infoC filesC src content := Proofs.C05.put_crash_inv fs infoC filesC src base content st h

/-- `atomic_write` in isolation: in every intermediate state the file is absent, empty or complete,
    and nothing else differs. -/
theorem atomic_write_states (fs : FS) (p : CPath) (content : Bytes) :
    ∀ s ∈ crashStates noFaults (atomicWrite p content) fs,
      (∀ q, q ≠ p → q ≠ FS.parent p → s.get q = fs.get q) ∧
      (s.get p = fs.get p ∨ s.get p = some (.file [] 0o600 0) ∨ s.get p = some (.file content 0o600 0)) :=
  Proofs.C05.atomic_write_states fs p content

end TrashVerif.C05
