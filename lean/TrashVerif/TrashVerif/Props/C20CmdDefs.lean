/-
  Props/C20CmdDefs.lean — vocabulary of the WHOLE-COMMAND agreement theorems of C20 (Props/C20Cmd.lean):
  the MEANING of a listed `.trashinfo` of a scanned trash directory (`TDir` of Props/C12CmdDefs.lean),
  in terms of `C20.meaningPath` / `C20.meaningDate`, and the lists built from it that the four commands
  are compared against.
-/
import TrashVerif.Props.C10CmdDefs
import TrashVerif.Props.C19CmdDefs
import TrashVerif.Props.C20
namespace TrashVerif.C20Cmd
open TrashVerif PutCore Prog FS C09Hist C10Loop C12Cmd C10Cmd

/-- THE MEANING of the listed name `n` of the trash directory `d`: `none` when the info file cannot be
    read or its text has no `Path` line; otherwise the pair
    (absolute original location, deletion date) = (`C20.meaningPath d.v text`, `C20.meaningDate text`):
    the first `Path` line, kept when absolute and joined to the volume `d.v` of THE DIRECTORY otherwise;
    the first `DeletionDate` line when it parses (`none`: no date). -/
def meaningOf (fs : FS) (cwd : CPath) (d : TDir) (n : Bytes) : Option (Bytes × Option Date) :=
  (contentsOf fs cwd (infoStr (toStr d.T) n)).bind fun text =>
    (C20.meaningPath d.v text).map fun p => (p, C20.meaningDate text)

/-- a date as trash-list shows it: `YYYY-MM-DD hh:mm:ss`, or the question marks -/
def shownDate : Option Date → Bytes
  | some dt => dt.str
  | none => unknownDate

/-- the stdout line of trash-list for a meaning: `<date> <path>` -/
def lineOfMeaning (m : Bytes × Option Date) : Bytes := shownDate m.2 ++ [32] ++ m.1

/-- the meanings of the whole world: directory by directory (scan order), name by name (listing
    order), the names without meaning dropped -/
def meanings (fs : FS) (cwd : CPath) (ds : List TDir) : List (Bytes × Option Date) :=
  ds.flatMap fun d => d.names.filterMap (meaningOf fs cwd d)

/-- the entry trash-restore should build for the name `n` of `d`: location and date = the meaning,
    info path = `T/info/n` -/
def entryOf (fs : FS) (cwd : CPath) (d : TDir) (n : Bytes) : Option Entry :=
  (meaningOf fs cwd d n).map fun m => { loc := m.1, date := m.2, info := infoStr (toStr d.T) n }

/-- … for the whole world, in scan / listing order -/
def entries (fs : FS) (cwd : CPath) (ds : List TDir) : List Entry :=
  ds.flatMap fun d => d.names.filterMap (entryOf fs cwd d)

/-- the `(path, date)` pair of an entry of trash-restore -/
def pairOf (e : Entry) : Bytes × Option Date := (e.loc, e.date)

/-- the trash directories of trash-restore (no `--trash-dir`) whose `info/` can be listed — the others
    (`$topdir/.Trash-uid` is tried for every mount point, existing or not) contribute nothing -/
def restoreDirsWithInfo (fs : FS) (c : ReadCfg) : List (Bytes × Bytes) :=
  (restoreTrashDirs fs c none).filter fun tv => (listdirStr fs c.cwd (pjoin tv.1 (b "info"))).isSome

/-- the date LISTED for a meaning is a date (not the question marks) that `trash-empty DAYS` finds old -/
def ListedOld (days : Nat) (o : EmptyOpts) (m : Bytes × Option Date) : Prop :=
  ∃ dt, m.2 = some dt ∧ olderThan days o.now o.nowUs dt = .yes

end TrashVerif.C20Cmd
