/-
  Props/C16SeqDefs.lean — definitions for Props/C16Seq.lean: a run of `trash-put` over N arguments as an
  explicit LEFT FOLD of the handling of one argument.
-/
import TrashVerif.Model.Put
import TrashVerif.Props.C16IndepDefs
namespace TrashVerif.C16Seq
open TrashVerif Prog FS

/-- The handling of ONE argument, as `Context.trash_each` does it for each element of its loop:
    `trash_single`, then the line that goes to stderr — "cannot trash …" naming the argument when it
    failed, the traceback when an exception escapes (EOF on the prompt; the `OSError` of a failing
    clean-up, which the model reports as the outcome `.crashed`).  `.ok o`: the loop goes on (`o` is
    never `.crashed`); `.error e`: the exception ends the run. -/
def putOne (c : PutCfg) (a : Bytes) (st : PutSt) : Prog (Except PutCrash ArgOutcome × PutSt) := do
  let (r, st) ← trashSingle c a st
  match r with
  | .error e => do say (.stderr "traceback" (b "EOFError")); pure (.error e, st)
  | .ok (.crashed _) => do say (.stderr "traceback" (b "OSError")); pure (.error .cleanup, st)
  | .ok o => if o.failed then do say (.stderr "cannot-trash" a); pure (.ok o, st) else pure (.ok o, st)

/-- the state of the loop between two arguments: what was reported so far (oldest first), whether an
    exception has ended the run, the scripted input that is left (replies on stdin, random numbers), and
    the run state (file system, history, trace of system calls, outputs, call counter) -/
structure SeqSt where
  outcomes : List (Bytes × ArgOutcome)
  crash : Option PutCrash
  st : PutSt
  s : RunState

/-- one round of the loop.  The ONLY thing that keeps an argument from being handled is an exception that
    escaped before (`crash = some _`); the outcome of the arguments before it is not looked at. -/
def stepArg (φ : Oracle) (c : PutCfg) (σ : SeqSt) (a : Bytes) : SeqSt :=
  match σ.crash with
  | some _ => σ
  | none =>
    match (run φ (putOne c a σ.st) σ.s).1.1 with
    | .ok o => { outcomes := σ.outcomes ++ [(a, o)], crash := none,
                 st := (run φ (putOne c a σ.st) σ.s).1.2, s := (run φ (putOne c a σ.st) σ.s).2 }
    | .error e => { outcomes := σ.outcomes, crash := some e,
                    st := (run φ (putOne c a σ.st) σ.s).1.2, s := (run φ (putOne c a σ.st) σ.s).2 }

def initSt (st : PutSt) (s : RunState) : SeqSt := { outcomes := [], crash := none, st := st, s := s }

/-- THE FOLD: `putOne` on `args[0]` in `(st, s)`, on `args[1]` in the state that left, … -/
def putSeq (φ : Oracle) (c : PutCfg) (args : List Bytes) (st : PutSt) (s : RunState) : SeqSt :=
  args.foldl (stepArg φ c) (initSt st s)

/-- `TrashPutReporter.exit_code` (74 when something failed, else 0), resp. the status 1 of an uncaught
    exception -/
def exitOf (σ : SeqSt) : Nat :=
  match σ.crash with
  | some _ => 1
  | none => if σ.outcomes.any (·.2.failed) then 74 else 0

def finish (σ : SeqSt) : PutResult × RunState :=
  ({ outcomes := σ.outcomes, crash := σ.crash, exit := exitOf σ }, σ.s)

/-- the outcomes that count as success: trashed, or legitimately skipped -/
def Fine (o : ArgOutcome) : Prop := (∃ t n, o = .trashed t n) ∨ o = .skippedMissing ∨ o = .declined

/-! ### N everyday arguments (the setting of `C16Indep.home_pair_independent_partial`) -/

/-- an everyday argument: parent, last name, and the name its core run alone gives it in the trash -/
structure Item where
  P : CPath
  n : Name
  name : Bytes

def Item.src (x : Item) : CPath := x.P ++ [x.n]
def Item.arg (x : Item) : Bytes := toStr (x.P ++ [x.n])

/-- the entries are unrelated: neither canonical path is a prefix of the other -/
def Unrel (x y : Item) : Prop := ¬ x.src <+: y.src ∧ ¬ y.src <+: x.src

/-- the name the EARLIER argument `x` receives is not a variant (`_<n>` suffix, truncation) of the
    LATER argument `y`'s name -/
def NoVariant (x y : Item) : Prop :=
  ∀ suffix, C16Indep.IsSuffix suffix → ∀ tooLong, trashinfoBasename y.n suffix tooLong ≠ x.name

/-- the pairwise form of the hypotheses of `home_pair_independent_partial` -/
structure HomeItems (c : PutCfg) (fs : FS) (H : CPath) (st : PutSt) (items : List Item) : Prop where
  good : ∀ x ∈ items, C16Indep.GoodArg fs H x.P x.n
  core : ∀ x ∈ items, (run noFaults (C16Indep.homeCore c H x.P x.n st) { fs := fs }).1.1 = .ok x.name
  unrel : items.Pairwise Unrel
  names : items.Pairwise NoVariant

end TrashVerif.C16Seq
