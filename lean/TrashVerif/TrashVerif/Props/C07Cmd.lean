/-
  Props/C07Cmd.lean — COMMAND-level theorems for C07 (the prescribed trash dir, on the file's own
  volume): the real `runPut`, fault-free, for one everyday argument whose prescribed trash directory
  does NOT exist yet.

  "A file on the volume of the home trash goes to the home trash; a file on another volume goes to
   $topdir/.Trash/$uid when $topdir/.Trash exists and passes the checks, otherwise to
   $topdir/.Trash-$uid; --trash-dir restricts the choice to that directory.  Missing trash
   directories are created on demand, private (mode 0700), without prompting.  The directory used is
   always on the same volume as the file, so trashing is a rename and never a silent copy."

  Every theorem below gives, for `trash-put <arg>`:
    * the outcome (`.trashed <trash dir> <name>.trashinfo`), exit status 0, no diagnostics;
    * the COMPLETE list of system calls, in order, all successful (`firstUseTrace`): `mkdir` of the
      missing ancestors with `os.makedirs`' default mode 0o777, `mkdir` of the trash directory, of
      `files/` and of `info/` with mode 0o700, exclusive create (0o600) / write / close of the info
      file, and ONE `rename` of the entry — hence no copy (`first_use_is_one_rename`);
    * the state `fs1` after the directories were made (`SiteCreated`: which directory has which mode,
      nothing else touched but the mtime of the directory the first new one was made in) and the
      final state as `Trashed fs1 …` (C01: the whole subtree under `files/n`, the info file with
      the formatted content, the entry gone, nothing else changed but three mtimes).
      `first_use_final` turns the two into one path-by-path description of the final state.
  Hypotheses are in the style of C16Indep `HomeWorld`/`GoodArg`: canonical spellings, plain
  directories, no symbolic link on the way (Props/C07CmdDefs.lean).
  `home_alone` (Props/C16Indep.lean) is the companion for a home trash that already exists.
  Two kernel-checked counterexamples show what `MountsOk` and `Arg.shortName` are for.
-/
import TrashVerif.Props.C07CmdDefs
import TrashVerif.Props.C01
import TrashVerif.Proofs.C07Cmd
import TrashVerif.Proofs.C07CmdEx
namespace TrashVerif.C07Cmd
open TrashVerif Prog FS PutCore C16Indep
open TrashVerif.C07 (Plain GoodNames)

/-! ### 1. first use of the home trash -/

/-- `home_first_use`.  HOME = `H`, XDG_DATA_HOME unset, and `$HOME/.local/share/Trash = Q ++ x :: R`
    where `Q` exists (plain directories) and NOTHING is at or below `Q/x` — `Q = H/.local/share`,
    `x = Trash`, `R = []` when only `Trash` is missing; `Q = H`, `x = .local`, `R = [share, Trash]` when
    `$HOME` is all there is.  For an everyday entry `P/n` of the volume of `Q` that is not an
    ancestor of `Q`: `trash-put P/n` reports "trashed into the home trash as `n.trashinfo`", exits 0
    without a diagnostic, issues exactly the calls of `firstUseTrace` (ancestors `mkdir … 0o777`,
    then `Trash`, `Trash/files`, `Trash/info` with `mkdir … 0o700`, the info file, one `rename`), and
    reaches a state `Trashed` (C01) from the state `fs1` in which the directories exist
    (`SiteCreated`: ancestors 0o755 = 0o777 under the umask, the three trash directories 0o700). -/
theorem home_first_use (c : PutCfg) (fs : FS) (H Q : CPath) (x : Name) (R P : CPath) (n : Name)
    (C : HomeCfg c H) (hsplit : trashC H = Q ++ x :: R) (S : FreshSite fs Q x R) (A : Arg fs P n)
    (hm : MountsOk fs) (hvol : dev fs P = dev fs Q) (hapart : ¬ (P ++ [n]) <+: Q) (st : PutSt) :
    let r := run noFaults (runPut c [toStr (P ++ [n])] st) { fs := fs }
    r.1.outcomes = [(toStr (P ++ [n]), .trashed (homeStr H) (n ++ trashinfoExt))] ∧ r.1.crash = none ∧ r.1.exit = 0 ∧
    r.2.outs = [] ∧
    r.2.trace = firstUseTrace Q x R (P ++ [n]) n (formatTrashinfoWith (locOf P n) c.dateStr) ∧
    ∃ fs1, SiteCreated fs fs1 Q x R ∧
      Trashed fs1 r.2.fs (infoC H) (filesC H) (P ++ [n]) (n ++ trashinfoExt)
        (formatTrashinfoWith (locOf P n) c.dateStr) :=
  Proofs.C07Cmd.home_first_use C hsplit S A hm hvol hapart st

/-- The same, with the final state described path by path: the `R.length` missing ancestors are
    directories of mode 0o755, `Trash` is a directory of mode 0o700 (mtime 0), `Trash/files` and
    `Trash/info` are directories of mode 0o700; every node of the entry's subtree is under
    `files/n`, nothing is left at `P/n`, `info/n.trashinfo` holds the formatted content with mode
    0o600; `Q` and `P` keep kind and mode; every other path outside `Q/x` is as it was. -/
theorem home_first_use_final (c : PutCfg) (fs : FS) (H Q : CPath) (x : Name) (R P : CPath) (n : Name)
    (C : HomeCfg c H) (hsplit : trashC H = Q ++ x :: R) (S : FreshSite fs Q x R) (A : Arg fs P n)
    (hm : MountsOk fs) (hvol : dev fs P = dev fs Q) (hapart : ¬ (P ++ [n]) <+: Q) (st : PutSt) :
    let r := run noFaults (runPut c [toStr (P ++ [n])] st) { fs := fs }
    let fs' := r.2.fs
    r.1.outcomes = [(toStr (P ++ [n]), .trashed (homeStr H) (n ++ trashinfoExt))] ∧ r.1.crash = none ∧ r.1.exit = 0 ∧
    r.2.outs = [] ∧
    (∀ k, k < R.length → fs'.get (Q ++ x :: R.take k) = some (.dir 0o755 0)) ∧
    fs'.get (trashC H) = some (.dir 0o700 0) ∧
    (∃ t, fs'.get (filesC H) = some (.dir 0o700 t)) ∧ (∃ t, fs'.get (infoC H) = some (.dir 0o700 t)) ∧
    (∀ rel, fs'.get (filesC H ++ [n] ++ rel) = fs.get (P ++ [n] ++ rel)) ∧
    (∀ rel, fs'.get (P ++ [n] ++ rel) = none) ∧
    fs'.get (infoC H ++ [n ++ trashinfoExt]) = some (.file (formatTrashinfoWith (locOf P n) c.dateStr) 0o600 0) ∧
    (∀ q, ¬ (P ++ [n]) <+: q → ¬ Q ++ [x] <+: q → q ≠ Q → q ≠ P → fs'.get q = fs.get q) ∧
    keptDir fs fs' Q ∧ keptDir fs fs' P :=
  Proofs.C07Cmd.home_first_use_final C hsplit S A hm hvol hapart st

/-- Variant 1: `$HOME/.local/share` exists, `Trash` does not. -/
theorem home_first_use_trash_missing (c : PutCfg) (fs : FS) (H P : CPath) (n : Name)
    (C : HomeCfg c H) (S : FreshSite fs (H ++ [b ".local", b "share"]) (b "Trash") []) (A : Arg fs P n)
    (hm : MountsOk fs) (hvol : dev fs P = dev fs (H ++ [b ".local", b "share"]))
    (hapart : ¬ (P ++ [n]) <+: H ++ [b ".local", b "share"]) (st : PutSt) :
    let r := run noFaults (runPut c [toStr (P ++ [n])] st) { fs := fs }
    let fs' := r.2.fs
    r.1.outcomes = [(toStr (P ++ [n]), .trashed (homeStr H) (n ++ trashinfoExt))] ∧ r.1.crash = none ∧ r.1.exit = 0 ∧
    r.2.outs = [] ∧
    fs'.get (trashC H) = some (.dir 0o700 0) ∧
    (∃ t, fs'.get (filesC H) = some (.dir 0o700 t)) ∧ (∃ t, fs'.get (infoC H) = some (.dir 0o700 t)) ∧
    (∀ rel, fs'.get (filesC H ++ [n] ++ rel) = fs.get (P ++ [n] ++ rel)) ∧
    (∀ rel, fs'.get (P ++ [n] ++ rel) = none) ∧
    fs'.get (infoC H ++ [n ++ trashinfoExt]) = some (.file (formatTrashinfoWith (locOf P n) c.dateStr) 0o600 0) ∧
    (∀ q, ¬ (P ++ [n]) <+: q → ¬ trashC H <+: q → q ≠ H ++ [b ".local", b "share"] → q ≠ P → fs'.get q = fs.get q) ∧
    keptDir fs fs' (H ++ [b ".local", b "share"]) ∧ keptDir fs fs' P :=
  Proofs.C07Cmd.home_first_use_trash_missing C S A hm hvol hapart st

/-- Variant 2: nothing is at or below `$HOME/.local`: `.local` and `.local/share` are made with the
    default mode (0o755 after the umask), `Trash`, `Trash/files`, `Trash/info` with mode 0o700. -/
theorem home_first_use_fresh_home (c : PutCfg) (fs : FS) (H P : CPath) (n : Name)
    (C : HomeCfg c H) (S : FreshSite fs H (b ".local") [b "share", b "Trash"]) (A : Arg fs P n)
    (hm : MountsOk fs) (hvol : dev fs P = dev fs H) (hapart : ¬ (P ++ [n]) <+: H) (st : PutSt) :
    let r := run noFaults (runPut c [toStr (P ++ [n])] st) { fs := fs }
    let fs' := r.2.fs
    r.1.outcomes = [(toStr (P ++ [n]), .trashed (homeStr H) (n ++ trashinfoExt))] ∧ r.1.crash = none ∧ r.1.exit = 0 ∧
    r.2.outs = [] ∧
    fs'.get (H ++ [b ".local"]) = some (.dir 0o755 0) ∧ fs'.get (H ++ [b ".local", b "share"]) = some (.dir 0o755 0) ∧
    fs'.get (trashC H) = some (.dir 0o700 0) ∧
    (∃ t, fs'.get (filesC H) = some (.dir 0o700 t)) ∧ (∃ t, fs'.get (infoC H) = some (.dir 0o700 t)) ∧
    (∀ rel, fs'.get (filesC H ++ [n] ++ rel) = fs.get (P ++ [n] ++ rel)) ∧
    (∀ rel, fs'.get (P ++ [n] ++ rel) = none) ∧
    fs'.get (infoC H ++ [n ++ trashinfoExt]) = some (.file (formatTrashinfoWith (locOf P n) c.dateStr) 0o600 0) ∧
    (∀ q, ¬ (P ++ [n]) <+: q → ¬ H ++ [b ".local"] <+: q → q ≠ H → q ≠ P → fs'.get q = fs.get q) ∧
    keptDir fs fs' H ∧ keptDir fs fs' P :=
  Proofs.C07Cmd.home_first_use_fresh_home C S A hm hvol hapart st

/-- Non-vacuity: HOME=/h; (1) `/h/.local/share` exists without `Trash`, (2) only `/h` exists; the file `/p/x`. -/
example :
    (HomeCfg Proofs.C07CmdEx.cfgH Proofs.C07CmdEx.H ∧
     FreshSite Proofs.C07CmdEx.fs1 (Proofs.C07CmdEx.H ++ [b ".local", b "share"]) (b "Trash") [] ∧
     Arg Proofs.C07CmdEx.fs1 [b "p"] (b "x") ∧ MountsOk Proofs.C07CmdEx.fs1) ∧
    (FreshSite Proofs.C07CmdEx.fs2 Proofs.C07CmdEx.H (b ".local") [b "share", b "Trash"] ∧
     Arg Proofs.C07CmdEx.fs2 [b "p"] (b "x") ∧ MountsOk Proofs.C07CmdEx.fs2) :=
  ⟨⟨Proofs.C07CmdEx.homeCfg, Proofs.C07CmdEx.site1, Proofs.C07CmdEx.arg1, Proofs.C07CmdEx.mounts1⟩,
   ⟨Proofs.C07CmdEx.site2, Proofs.C07CmdEx.arg2, Proofs.C07CmdEx.mounts2⟩⟩

/-- … the theorems at work there … -/
example :
    (run noFaults (runPut Proofs.C07CmdEx.cfgH [toStr ([b "p"] ++ [b "x"])] Proofs.C07CmdEx.st0)
      { fs := Proofs.C07CmdEx.fs1 }).1.outcomes =
      [(toStr ([b "p"] ++ [b "x"]), .trashed (homeStr Proofs.C07CmdEx.H) (b "x" ++ trashinfoExt))] ∧
    (run noFaults (runPut Proofs.C07CmdEx.cfgH [toStr ([b "p"] ++ [b "x"])] Proofs.C07CmdEx.st0)
      { fs := Proofs.C07CmdEx.fs2 }).2.fs.get (Proofs.C07CmdEx.H ++ [b ".local", b "share"]) = some (.dir 0o755 0) :=
  ⟨(home_first_use_trash_missing _ _ _ _ _ Proofs.C07CmdEx.homeCfg Proofs.C07CmdEx.site1 Proofs.C07CmdEx.arg1
      Proofs.C07CmdEx.mounts1 (by decide +kernel) (by decide +kernel) _).1,
   (home_first_use_fresh_home _ _ _ _ _ Proofs.C07CmdEx.homeCfg Proofs.C07CmdEx.site2 Proofs.C07CmdEx.arg2
      Proofs.C07CmdEx.mounts2 (by decide +kernel) (by decide +kernel) _).2.2.2.2.2.1⟩

/-- … and the model itself evaluated by the kernel on the second world (through the twins of
    Proofs/C16Eval.lean): outcome, the five directories with their modes, the payload, the source. -/
example :
    (run noFaults (runPut Proofs.C07CmdEx.cfgH [b "/p/x"] Proofs.C07CmdEx.st0) { fs := Proofs.C07CmdEx.fs2 }).1.outcomes =
      [(b "/p/x", .trashed (b "/h/.local/share/Trash") (b "x.trashinfo"))] ∧
    (let fs' := (run noFaults (runPut Proofs.C07CmdEx.cfgH [b "/p/x"] Proofs.C07CmdEx.st0) { fs := Proofs.C07CmdEx.fs2 }).2.fs
     fs'.get [b "h", b ".local"] = some (.dir 0o755 0) ∧ fs'.get [b "h", b ".local", b "share"] = some (.dir 0o755 0) ∧
     fs'.get [b "h", b ".local", b "share", b "Trash"] = some (.dir 0o700 0) ∧
     fs'.get [b "h", b ".local", b "share", b "Trash", b "files"] = some (.dir 0o700 0) ∧
     fs'.get [b "h", b ".local", b "share", b "Trash", b "info"] = some (.dir 0o700 0) ∧
     fs'.get [b "h", b ".local", b "share", b "Trash", b "files", b "x"] = some (.file [120] 0o644 7) ∧
     fs'.get [b "p", b "x"] = none) := Proofs.C07CmdEx.eval2

/-! ### what a first use is, whatever the trash directory -/

/-- From the two-step description (`SiteCreated`, then `Trashed`) to the final state, path by path:
    ancestors 0o755, the trash directory 0o700 (mtime 0), `files/` and `info/` 0o700, the whole
    entry under `files/<stem>`, nothing left at its place, the info file; outside the entry and
    `Q/x` only `Q` and the entry's parent changed, and they kept kind and mode. -/
theorem first_use_final (fs fs1 fs' : FS) (Q : CPath) (x : Name) (R src : CPath) (name content : Bytes)
    (SC : SiteCreated fs fs1 Q x R)
    (T : Trashed fs1 fs' (infoOf (Q ++ x :: R)) (filesOf (Q ++ x :: R)) src name content)
    (hfresh : ∀ rel, fs.get (Q ++ x :: rel) = none) (hsrc : (fs.get src).isSome = true) (hapart : ¬ src <+: Q) :
    (∀ k, k < R.length → fs'.get (Q ++ x :: R.take k) = some (.dir 0o755 0)) ∧
    fs'.get (Q ++ x :: R) = some (.dir 0o700 0) ∧
    (∃ t, fs'.get (filesOf (Q ++ x :: R)) = some (.dir 0o700 t)) ∧
    (∃ t, fs'.get (infoOf (Q ++ x :: R)) = some (.dir 0o700 t)) ∧
    (∀ rel, fs'.get (filesOf (Q ++ x :: R) ++ [stemOf name] ++ rel) = fs.get (src ++ rel)) ∧
    (∀ rel, fs'.get (src ++ rel) = none) ∧
    fs'.get (infoOf (Q ++ x :: R) ++ [name]) = some (.file content 0o600 0) ∧
    (∀ q, ¬ src <+: q → ¬ Q ++ [x] <+: q → q ≠ Q → q ≠ FS.parent src → fs'.get q = fs.get q) ∧
    keptDir fs fs' Q ∧ keptDir fs fs' (FS.parent src) :=
  Proofs.C07Cmd.first_use_final SC T hfresh hsrc hapart

/-- A first use moves the entry with ONE `rename` — the trace contains it, every call succeeded, no
    call is a `createTrunc` (the copy fallback's `open(dst,'wb')`), the only `write` is that of the
    info file — and creates directories private: every `mkdir` is for the trash directory, `files/`
    or `info/` with mode 0o700, or for a missing ancestor with `os.makedirs`' default 0o777. -/
theorem first_use_is_one_rename (Q : CPath) (x : Name) (R src : CPath) (stem content : Bytes) :
    (Call.rename src (filesOf (Q ++ x :: R) ++ [stem]), Except.ok ()) ∈ firstUseTrace Q x R src stem content ∧
    ∀ cr ∈ firstUseTrace Q x R src stem content, cr.2 = Except.ok () ∧ (∀ p m, cr.1 ≠ Call.createTrunc p m) ∧
      (∀ p d, cr.1 = Call.write p d → p = infoOf (Q ++ x :: R) ++ [stem ++ trashinfoExt] ∧ d = content) ∧
      (∀ p m, cr.1 = Call.mkdir p m → (m = 0o700 ∧ (p = Q ++ x :: R ∨ p = filesOf (Q ++ x :: R) ∨ p = infoOf (Q ++ x :: R))) ∨
        (m = 0o777 ∧ ∃ k, k < R.length ∧ p = Q ++ x :: R.take k)) :=
  Proofs.C07Cmd.firstUse_rename_only Q x R src stem content

/-! ### 2. another volume, no `$topdir/.Trash`: `$topdir/.Trash-$uid` -/

/-- `other_volume_alt`.  HOME on another device than the mount point `V` (`OtherVolume`); an
    everyday entry `V/P'/n` of the volume `V`; nothing at `V/.Trash`, nothing at or below
    `V/.Trash-$uid`.  `trash-put V/P'/n` skips the home trash (volume gate) and `V/.Trash/$uid`
    (no parent), makes `V/.Trash-$uid`, `files/`, `info/` with mode 0o700 and trashes the entry THERE:
    the recorded `Path=` is `P'/n`, relative to `V`; the move is one `rename` (see `firstUseTrace`). -/
theorem other_volume_alt (c : PutCfg) (fs : FS) (H Qh Rh V P' : CPath) (n : Name) (C : HomeCfg c H)
    (W : OtherVolume fs H Qh Rh V) (hm : MountsOk fs) (S : FreshSite fs V (altName c.uid) []) (A : Arg fs (V ++ P') n)
    (hon : dev fs (V ++ P') = V) (hu : GoodNames [uidName c.uid]) (hnoTop : fs.get (V ++ [b ".Trash"]) = none)
    (st : PutSt) :
    let r := run noFaults (runPut c [toStr ((V ++ P') ++ [n])] st) { fs := fs }
    r.1.outcomes = [(toStr ((V ++ P') ++ [n]), .trashed (toStr (V ++ [altName c.uid])) (n ++ trashinfoExt))] ∧
    r.1.crash = none ∧ r.1.exit = 0 ∧ r.2.outs = [] ∧
    r.2.trace = firstUseTrace V (altName c.uid) [] ((V ++ P') ++ [n]) n (formatTrashinfoWith (relLoc P' n) c.dateStr) ∧
    ∃ fs1, SiteCreated fs fs1 V (altName c.uid) [] ∧
      Trashed fs1 r.2.fs (infoOf (V ++ [altName c.uid])) (filesOf (V ++ [altName c.uid])) ((V ++ P') ++ [n])
        (n ++ trashinfoExt) (formatTrashinfoWith (relLoc P' n) c.dateStr) :=
  Proofs.C07Cmd.other_volume_alt C W hm S A hon hu hnoTop st

/-! ### 3. another volume with `$topdir/.Trash` -/

/-- `other_volume_top`.  As above, but `V/.Trash` is a real directory (not a symbolic link, not a
    mount point) with the sticky bit, and nothing is at or below `V/.Trash/$uid`: the entry goes to
    `V/.Trash/$uid`, made with mode 0o700 together with `files/` and `info/`. -/
theorem other_volume_top (c : PutCfg) (fs : FS) (H Qh Rh V P' : CPath) (n : Name) (m t : Nat) (C : HomeCfg c H)
    (W : OtherVolume fs H Qh Rh V) (hm : MountsOk fs)
    (S : FreshSite fs (V ++ [b ".Trash"]) (uidName c.uid) []) (A : Arg fs (V ++ P') n)
    (hon : dev fs (V ++ P') = V) (htop : fs.get (V ++ [b ".Trash"]) = some (.dir m t)) (hsticky : m &&& 0o1000 ≠ 0)
    (hnm : fs.isMount (V ++ [b ".Trash"]) = false) (hapart : ¬ ((V ++ P') ++ [n]) <+: V ++ [b ".Trash"]) (st : PutSt) :
    let r := run noFaults (runPut c [toStr ((V ++ P') ++ [n])] st) { fs := fs }
    r.1.outcomes = [(toStr ((V ++ P') ++ [n]),
      .trashed (toStr (V ++ [b ".Trash"] ++ [uidName c.uid])) (n ++ trashinfoExt))] ∧
    r.1.crash = none ∧ r.1.exit = 0 ∧ r.2.outs = [] ∧
    r.2.trace = firstUseTrace (V ++ [b ".Trash"]) (uidName c.uid) [] ((V ++ P') ++ [n]) n
      (formatTrashinfoWith (relLoc P' n) c.dateStr) ∧
    ∃ fs1, SiteCreated fs fs1 (V ++ [b ".Trash"]) (uidName c.uid) [] ∧
      Trashed fs1 r.2.fs (infoOf (V ++ [b ".Trash"] ++ [uidName c.uid])) (filesOf (V ++ [b ".Trash"] ++ [uidName c.uid]))
        ((V ++ P') ++ [n]) (n ++ trashinfoExt) (formatTrashinfoWith (relLoc P' n) c.dateStr) :=
  Proofs.C07Cmd.volume_top C W hm S A hon htop hsticky hnm hapart st

/-- `other_volume_top_insecure`.  `V/.Trash` exists but is NOT a sticky directory (`InsecureTop`: a
    regular file, a symbolic link — wherever it points —, or a directory without the sticky bit):
    `V/.Trash/$uid` is refused by the security check without a system call, and the entry goes to
    `V/.Trash-$uid` exactly as in `other_volume_alt`. -/
theorem other_volume_top_insecure (c : PutCfg) (fs : FS) (H Qh Rh V P' : CPath) (n : Name) (C : HomeCfg c H)
    (W : OtherVolume fs H Qh Rh V) (hm : MountsOk fs) (S : FreshSite fs V (altName c.uid) []) (A : Arg fs (V ++ P') n)
    (hon : dev fs (V ++ P') = V) (hu : GoodNames [uidName c.uid]) (hins : InsecureTop fs V) (st : PutSt) :
    let r := run noFaults (runPut c [toStr ((V ++ P') ++ [n])] st) { fs := fs }
    r.1.outcomes = [(toStr ((V ++ P') ++ [n]), .trashed (toStr (V ++ [altName c.uid])) (n ++ trashinfoExt))] ∧
    r.1.crash = none ∧ r.1.exit = 0 ∧ r.2.outs = [] ∧
    r.2.trace = firstUseTrace V (altName c.uid) [] ((V ++ P') ++ [n]) n (formatTrashinfoWith (relLoc P' n) c.dateStr) ∧
    ∃ fs1, SiteCreated fs fs1 V (altName c.uid) [] ∧
      Trashed fs1 r.2.fs (infoOf (V ++ [altName c.uid])) (filesOf (V ++ [altName c.uid])) ((V ++ P') ++ [n])
        (n ++ trashinfoExt) (formatTrashinfoWith (relLoc P' n) c.dateStr) :=
  Proofs.C07Cmd.other_volume_top_insecure C W hm S A hon hu hins st

/-- Non-vacuity: HOME=/h on "/", the mount point `/v` with the file `/v/d/x`, uid 0;
    `fsO`: no `/v/.Trash`; `fsT`: `/v/.Trash` with mode 1777; `fsI`: `/v/.Trash` with mode 0777. -/
example :
    (OtherVolume Proofs.C07CmdEx.fsO Proofs.C07CmdEx.H Proofs.C07CmdEx.H [b ".local", b "share", b "Trash"] Proofs.C07CmdEx.V ∧
     FreshSite Proofs.C07CmdEx.fsO Proofs.C07CmdEx.V (altName Proofs.C07CmdEx.cfgH.uid) [] ∧
     Arg Proofs.C07CmdEx.fsO (Proofs.C07CmdEx.V ++ [b "d"]) (b "x") ∧ MountsOk Proofs.C07CmdEx.fsO ∧
     GoodNames [uidName Proofs.C07CmdEx.cfgH.uid]) ∧
    (OtherVolume Proofs.C07CmdEx.fsT Proofs.C07CmdEx.H Proofs.C07CmdEx.H [b ".local", b "share", b "Trash"] Proofs.C07CmdEx.V ∧
     FreshSite Proofs.C07CmdEx.fsT (Proofs.C07CmdEx.V ++ [b ".Trash"]) (uidName Proofs.C07CmdEx.cfgH.uid) [] ∧
     Arg Proofs.C07CmdEx.fsT (Proofs.C07CmdEx.V ++ [b "d"]) (b "x") ∧ MountsOk Proofs.C07CmdEx.fsT) ∧
    (OtherVolume Proofs.C07CmdEx.fsI Proofs.C07CmdEx.H Proofs.C07CmdEx.H [b ".local", b "share", b "Trash"] Proofs.C07CmdEx.V ∧
     FreshSite Proofs.C07CmdEx.fsI Proofs.C07CmdEx.V (altName Proofs.C07CmdEx.cfgH.uid) [] ∧
     Arg Proofs.C07CmdEx.fsI (Proofs.C07CmdEx.V ++ [b "d"]) (b "x") ∧ MountsOk Proofs.C07CmdEx.fsI ∧
     InsecureTop Proofs.C07CmdEx.fsI Proofs.C07CmdEx.V) :=
  ⟨⟨Proofs.C07CmdEx.otherO, Proofs.C07CmdEx.altO, Proofs.C07CmdEx.argO, Proofs.C07CmdEx.mountsO, Proofs.C07CmdEx.uidGood⟩,
   ⟨Proofs.C07CmdEx.otherT, Proofs.C07CmdEx.topSite, Proofs.C07CmdEx.argT, Proofs.C07CmdEx.mountsT⟩,
   ⟨Proofs.C07CmdEx.otherI, Proofs.C07CmdEx.altI, Proofs.C07CmdEx.argI, Proofs.C07CmdEx.mountsI, Proofs.C07CmdEx.insecureI⟩⟩

/-- … the three theorems at work there … -/
example :
    (run noFaults (runPut Proofs.C07CmdEx.cfgH [toStr ((Proofs.C07CmdEx.V ++ [b "d"]) ++ [b "x"])] Proofs.C07CmdEx.st0)
      { fs := Proofs.C07CmdEx.fsO }).1.outcomes =
      [(toStr ((Proofs.C07CmdEx.V ++ [b "d"]) ++ [b "x"]),
        .trashed (toStr (Proofs.C07CmdEx.V ++ [altName Proofs.C07CmdEx.cfgH.uid])) (b "x" ++ trashinfoExt))] ∧
    (run noFaults (runPut Proofs.C07CmdEx.cfgH [toStr ((Proofs.C07CmdEx.V ++ [b "d"]) ++ [b "x"])] Proofs.C07CmdEx.st0)
      { fs := Proofs.C07CmdEx.fsT }).1.outcomes =
      [(toStr ((Proofs.C07CmdEx.V ++ [b "d"]) ++ [b "x"]),
        .trashed (toStr (Proofs.C07CmdEx.V ++ [b ".Trash"] ++ [uidName Proofs.C07CmdEx.cfgH.uid])) (b "x" ++ trashinfoExt))] ∧
    (run noFaults (runPut Proofs.C07CmdEx.cfgH [toStr ((Proofs.C07CmdEx.V ++ [b "d"]) ++ [b "x"])] Proofs.C07CmdEx.st0)
      { fs := Proofs.C07CmdEx.fsI }).1.outcomes =
      [(toStr ((Proofs.C07CmdEx.V ++ [b "d"]) ++ [b "x"]),
        .trashed (toStr (Proofs.C07CmdEx.V ++ [altName Proofs.C07CmdEx.cfgH.uid])) (b "x" ++ trashinfoExt))] :=
  ⟨(other_volume_alt _ _ _ _ _ _ _ _ Proofs.C07CmdEx.homeCfg Proofs.C07CmdEx.otherO Proofs.C07CmdEx.mountsO
      Proofs.C07CmdEx.altO Proofs.C07CmdEx.argO (by decide +kernel) Proofs.C07CmdEx.uidGood (by decide +kernel) _).1,
   (other_volume_top _ _ _ _ _ _ _ _ 0o1777 0 Proofs.C07CmdEx.homeCfg Proofs.C07CmdEx.otherT Proofs.C07CmdEx.mountsT
      Proofs.C07CmdEx.topSite Proofs.C07CmdEx.argT (by decide +kernel) (by decide +kernel)
      (by decide) (by decide +kernel) (by decide +kernel) _).1,
   (other_volume_top_insecure _ _ _ _ _ _ _ _ Proofs.C07CmdEx.homeCfg Proofs.C07CmdEx.otherI Proofs.C07CmdEx.mountsI
      Proofs.C07CmdEx.altI Proofs.C07CmdEx.argI (by decide +kernel) Proofs.C07CmdEx.uidGood Proofs.C07CmdEx.insecureI _).1⟩

/-- … and the model evaluated by the kernel: the three trash directories, and the `Path=d/x` recorded
    relative to `/v`. -/
example :
    (run noFaults (runPut Proofs.C07CmdEx.cfgH [b "/v/d/x"] Proofs.C07CmdEx.st0) { fs := Proofs.C07CmdEx.fsO }).1.outcomes =
      [(b "/v/d/x", .trashed (b "/v/.Trash-0") (b "x.trashinfo"))] ∧
    (run noFaults (runPut Proofs.C07CmdEx.cfgH [b "/v/d/x"] Proofs.C07CmdEx.st0) { fs := Proofs.C07CmdEx.fsT }).1.outcomes =
      [(b "/v/d/x", .trashed (b "/v/.Trash/0") (b "x.trashinfo"))] ∧
    (run noFaults (runPut Proofs.C07CmdEx.cfgH [b "/v/d/x"] Proofs.C07CmdEx.st0) { fs := Proofs.C07CmdEx.fsI }).1.outcomes =
      [(b "/v/d/x", .trashed (b "/v/.Trash-0") (b "x.trashinfo"))] ∧
    (run noFaults (runPut Proofs.C07CmdEx.cfgH [b "/v/d/x"] Proofs.C07CmdEx.st0) { fs := Proofs.C07CmdEx.fsO }).2.fs.get
      (Proofs.C07CmdEx.V ++ [altName 0, b "info", b "x.trashinfo"]) =
      some (.file (formatTrashinfoWith (b "d/x") (b "D")) 0o600 0) := Proofs.C07CmdEx.evalVolumes

/-! ### 4. `--trash-dir` -/

/-- `custom_trash_dir`.  `trash-put --trash-dir D` with `D = Q ++ x :: R` yet to be made below the
    existing `Q`, on the volume `V = dev Q` of the entry `V/P'/n`: the entry goes to `D` — created with
    mode 0o700 (missing ancestors 0o755), `files/`, `info/` — and the recorded `Path=` is `P'/n`,
    relative to the volume root `V` (also when `V` is "/"). -/
theorem custom_trash_dir (c : PutCfg) (fs : FS) (Q : CPath) (x : Name) (R V P' : CPath) (n : Name)
    (C : CustomCfg c (Q ++ x :: R)) (S : FreshSite fs Q x R) (hV : dev fs Q = V) (A : Arg fs (V ++ P') n)
    (hon : dev fs (V ++ P') = V) (hm : MountsOk fs) (hapart : ¬ ((V ++ P') ++ [n]) <+: Q) (st : PutSt) :
    let r := run noFaults (runPut c [toStr ((V ++ P') ++ [n])] st) { fs := fs }
    r.1.outcomes = [(toStr ((V ++ P') ++ [n]), .trashed (toStr (Q ++ x :: R)) (n ++ trashinfoExt))] ∧
    r.1.crash = none ∧ r.1.exit = 0 ∧ r.2.outs = [] ∧
    r.2.trace = firstUseTrace Q x R ((V ++ P') ++ [n]) n (formatTrashinfoWith (relLoc P' n) c.dateStr) ∧
    ∃ fs1, SiteCreated fs fs1 Q x R ∧
      Trashed fs1 r.2.fs (infoOf (Q ++ x :: R)) (filesOf (Q ++ x :: R)) ((V ++ P') ++ [n])
        (n ++ trashinfoExt) (formatTrashinfoWith (relLoc P' n) c.dateStr) :=
  Proofs.C07Cmd.custom_same_volume C S hV A hon hm hapart st

/-- `custom_trash_dir_other_volume`.  `--trash-dir D` where `D = Q ++ R` (existing part `Q`, missing
    part `R`, possibly empty) lies on ANOTHER device than the entry: the only candidate is refused
    by the volume gate BEFORE anything is made — the run state is the initial one but for the
    diagnostic: file system unchanged, not a single system call (no `mkdir`), outcome
    `failedAll [differentVolumes]`, exit status 74.  (No fallback: with `--trash-dir` the candidate
    list has one element.) -/
theorem custom_trash_dir_other_volume (c : PutCfg) (fs : FS) (Q R P : CPath) (n : Name)
    (C : CustomCfg c (Q ++ R)) (S : Site fs Q R) (A : Arg fs P n) (hm : MountsOk fs)
    (hother : dev fs Q ≠ dev fs P) (st : PutSt) :
    run noFaults (runPut c [toStr (P ++ [n])] st) { fs := fs } =
      ({ outcomes := [(toStr (P ++ [n]), .failedAll [.differentVolumes])], crash := none, exit := 74 },
       { fs := fs, outs := [.stderr "cannot-trash" (toStr (P ++ [n]))] }) :=
  Proofs.C07Cmd.custom_other_volume C S A hm hother st

/-- Non-vacuity: the world `fsO`; `--trash-dir /v/t` (the entry's volume), `--trash-dir /h/t` (another). -/
example :
    (CustomCfg Proofs.C07CmdEx.cfgSame (Proofs.C07CmdEx.V ++ b "t" :: []) ∧
     FreshSite Proofs.C07CmdEx.fsO Proofs.C07CmdEx.V (b "t") []) ∧
    (CustomCfg Proofs.C07CmdEx.cfgOther (Proofs.C07CmdEx.H ++ [b "t"]) ∧ Site Proofs.C07CmdEx.fsO Proofs.C07CmdEx.H [b "t"]) :=
  ⟨⟨Proofs.C07CmdEx.customSame, Proofs.C07CmdEx.siteSame⟩, ⟨Proofs.C07CmdEx.customOther, Proofs.C07CmdEx.siteOther⟩⟩

/-- … the two theorems at work there … -/
example :
    (run noFaults (runPut Proofs.C07CmdEx.cfgSame [toStr ((Proofs.C07CmdEx.V ++ [b "d"]) ++ [b "x"])] Proofs.C07CmdEx.st0)
      { fs := Proofs.C07CmdEx.fsO }).1.outcomes =
      [(toStr ((Proofs.C07CmdEx.V ++ [b "d"]) ++ [b "x"]),
        .trashed (toStr (Proofs.C07CmdEx.V ++ b "t" :: [])) (b "x" ++ trashinfoExt))] ∧
    (run noFaults (runPut Proofs.C07CmdEx.cfgOther [toStr ((Proofs.C07CmdEx.V ++ [b "d"]) ++ [b "x"])] Proofs.C07CmdEx.st0)
      { fs := Proofs.C07CmdEx.fsO }).2.fs = Proofs.C07CmdEx.fsO :=
  ⟨(custom_trash_dir _ _ _ _ _ _ _ _ Proofs.C07CmdEx.customSame Proofs.C07CmdEx.siteSame (by decide +kernel)
      Proofs.C07CmdEx.argO (by decide +kernel) Proofs.C07CmdEx.mountsO (by decide +kernel) _).1,
   by rw [custom_trash_dir_other_volume _ _ _ _ _ _ Proofs.C07CmdEx.customOther Proofs.C07CmdEx.siteOther
      Proofs.C07CmdEx.argO Proofs.C07CmdEx.mountsO (by decide +kernel) _]⟩

/-- … and the model evaluated by the kernel. -/
example :
    (run noFaults (runPut Proofs.C07CmdEx.cfgSame [b "/v/d/x"] Proofs.C07CmdEx.st0) { fs := Proofs.C07CmdEx.fsO }).1.outcomes =
      [(b "/v/d/x", .trashed (b "/v/t") (b "x.trashinfo"))] ∧
    (run noFaults (runPut Proofs.C07CmdEx.cfgOther [b "/v/d/x"] Proofs.C07CmdEx.st0) { fs := Proofs.C07CmdEx.fsO }).1.outcomes =
      [(b "/v/d/x", .failedAll [.differentVolumes])] ∧
    (run noFaults (runPut Proofs.C07CmdEx.cfgOther [b "/v/d/x"] Proofs.C07CmdEx.st0) { fs := Proofs.C07CmdEx.fsO }).1.exit = 74 :=
  Proofs.C07CmdEx.evalCustom

/-! ### what the hypotheses are for -/

/-- COUNTEREXAMPLE (modelling artefact) — `MountsOk.mountsExist` cannot be dropped from the theorems
    above.  The world `fs2` of variant 2 with a mount table that names the ABSENT path
    `/h/.local/share/Trash/files`: `volume_of` ignores the entry while the path is absent, so the
    gate lets the home trash through; once `files/` has been made it counts as a mount point,
    `rename` answers EXDEV and `shutil.move` COPIES (`createTrunc`, `write`, `utime`, `chmod`,
    `unlink`): "never a silent cross-device copy" fails.  No real mount table names an absent
    path (same artefact as C16Indep `independence_full_counterexample_absent_mount_entry`). -/
theorem first_use_absent_mount_entry_counterexample :
    (run noFaults (runPut Proofs.C07CmdEx.cfgH [b "/p/x"] Proofs.C07CmdEx.st0) { fs := Proofs.C07CmdEx.fsM }).1.outcomes =
      [(b "/p/x", .trashed (b "/h/.local/share/Trash") (b "x.trashinfo"))] ∧
    (run noFaults (runPut Proofs.C07CmdEx.cfgH [b "/p/x"] Proofs.C07CmdEx.st0) { fs := Proofs.C07CmdEx.fsM }).2.trace.map
        Proofs.C07CmdEx.brief =
      [("unlink", none), ("chmod", none), ("utime", none), ("write", none), ("createTrunc", none),
       ("rename", some .EXDEV), ("close", none), ("write", none), ("createExcl", none),
       ("mkdir", none), ("mkdir", none), ("mkdir", none), ("mkdir", none), ("mkdir", none)] :=
  Proofs.C07CmdEx.absent_mount_entry_copies

/-- COUNTEREXAMPLE (real behaviour) — `Arg.shortName` cannot be dropped: a 250-byte name is NOT
    recorded as `n.trashinfo` (260 bytes): the first exclusive create fails with ENAMETOOLONG, the
    second attempt shortens the name (238 bytes + `_1.trashinfo`), and the entry is trashed under
    that name. -/
theorem first_use_long_name_counterexample :
    (run noFaults (runPut Proofs.C07CmdEx.cfgH [toStr [b "p", Proofs.C07CmdEx.longN]] Proofs.C07CmdEx.st0)
      { fs := Proofs.C07CmdEx.fsL }).1.outcomes =
      [(toStr [b "p", Proofs.C07CmdEx.longN],
        .trashed (b "/h/.local/share/Trash") (List.replicate 238 120 ++ b "_1" ++ trashinfoExt))] ∧
    (run noFaults (runPut Proofs.C07CmdEx.cfgH [toStr [b "p", Proofs.C07CmdEx.longN]] Proofs.C07CmdEx.st0)
      { fs := Proofs.C07CmdEx.fsL }).2.trace.map Proofs.C07CmdEx.brief =
      [("rename", none), ("close", none), ("write", none), ("createExcl", none),
       ("createExcl", some .ENAMETOOLONG),
       ("mkdir", none), ("mkdir", none), ("mkdir", none), ("mkdir", none), ("mkdir", none)] :=
  Proofs.C07CmdEx.long_name_is_shortened

end TrashVerif.C07Cmd
