/-
  Props/C10.lean — property theorems for C10 (date arithmetic and purge decision).
-/
import TrashVerif.Spec.C10
import TrashVerif.Proofs.C10
namespace TrashVerif.C10
open TrashVerif

/-- The seconds count used by the model is strictly monotone w.r.t. calendar order. -/
theorem toSec_lex (a c : Date) (ha : a.valid = true) (hc : c.valid = true) (ua uc : Nat)
    (hua : ua < 1000000) (huc : uc < 1000000) :
    lexLt a ua c uc = true ↔ a.toMicros ua < c.toMicros uc := Proofs.C10.toSec_lex a c ha hc ua uc hua huc

/-- Walking the calendar back `n` days is subtracting `n` from the ordinal, and it fails exactly
    when the result would precede 0001-01-01. -/
theorem minusDays_ordinal (n : Nat) (t : Date) (ht : t.valid = true) :
    (∀ r, minusDays n t = some r → r.valid = true ∧ r.ordinal + n = t.ordinal ∧ r.H = t.H ∧ r.M = t.M ∧ r.S = t.S) ∧
    (minusDays n t = none ↔ t.ordinal ≤ n) := Proofs.C10.minusDays_ordinal n t ht

/-- The model of `older_than` agrees with the calendar spec for every DAYS, every current time and
    every deletion date: purge iff strictly earlier than now − DAYS days; the OverflowError case is
    exactly the case where now − DAYS days is not representable. -/
theorem olderThan_spec (days : Nat) (now : Date) (us : Nat) (d : Date)
    (hn : now.valid = true) (hd : d.valid = true) (hus : us < 1000000) :
    (olderThan days now us d = .yes ↔ shouldPurge days now us d = true) ∧
    (olderThan days now us d = .overflow ↔ minusDays days now = none) :=
  Proofs.C10.olderThan_spec days now us d hn hd hus

/-- An entry trashed exactly DAYS days ago (to the second, TRASH_DATE clock) is kept … -/
theorem boundary_kept (days : Nat) (now d : Date) (hn : now.valid = true) (hd : d.valid = true)
    (h : minusDays days now = some d) : olderThan days now 0 d = .no :=
  Proofs.C10.boundary_kept days now d hn hd h

/-- … one second older is purged. -/
theorem one_second_older_purged (days : Nat) (now d e : Date) (hn : now.valid = true) (hd : d.valid = true)
    (he : e.valid = true) (h : minusDays days now = some d) (hs : e.toSec + 1 = d.toSec) :
    olderThan days now 0 e = .yes := Proofs.C10.one_second_older_purged days now d e hn hd he h hs

/-- Entries dated in the future are never purged. -/
theorem future_kept (days : Nat) (now : Date) (us : Nat) (d : Date)
    (h : now.toMicros us ≤ d.toMicros) : olderThan days now us d ≠ .yes :=
  Proofs.C10.future_kept days now us d h

/-- More DAYS never purges more. -/
theorem days_antitone (d1 d2 : Nat) (now : Date) (us : Nat) (d : Date) (h : d1 ≤ d2)
    (h2 : olderThan d2 now us d = .yes) : olderThan d1 now us d = .yes :=
  Proofs.C10.days_antitone d1 d2 now us d h h2

/-- Only the first DeletionDate line counts; a missing or malformed first line yields no date,
    whatever follows. -/
theorem first_date_line_only (pre post : Bytes) (l : Bytes)
    (hpre : ∀ x ∈ lines pre, Bytes.startsWith x dateKey = false)
    (hl : Bytes.startsWith l dateKey = true) (hnl : (10 : UInt8) ∉ l) :
    parseDate (pre ++ [10] ++ l ++ [10] ++ post) =
      (match strptimeBody (l.drop dateKey.length) with | some t => .date t | none => .invalid) :=
  Proofs.C10.first_date_line_only pre post l hpre hl hnl

/-- non-vacuity: 2024-03-01 minus 1 day is the leap day; minus 366 days is 2023-03-01 -/
example : minusDays 1 ⟨2024, 3, 1, 12, 0, 0⟩ = some ⟨2024, 2, 29, 12, 0, 0⟩ ∧
          minusDays 366 ⟨2024, 3, 1, 12, 0, 0⟩ = some ⟨2023, 3, 1, 12, 0, 0⟩ ∧
          olderThan 1 ⟨2024, 3, 1, 12, 0, 0⟩ 0 ⟨2024, 2, 29, 11, 59, 59⟩ = .yes ∧
          olderThan 1 ⟨2024, 3, 1, 12, 0, 0⟩ 0 ⟨2024, 2, 29, 12, 0, 0⟩ = .no := by decide +kernel

end TrashVerif.C10
