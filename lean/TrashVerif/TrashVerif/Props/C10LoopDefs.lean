/-
  Props/C10LoopDefs.lean — definitions for the loop-level selection theorems of trash-empty (C10) and
  trash-rm (C12): Props/C10Loop.lean (statements), Proofs/C10Loop.lean (proofs).

  One trash directory, given as the string `t` the scan found; `infoC` / `filesC` are the canonical
  paths of its `info/` and `files/`; `names` is what the listing of `info/` yields (`infosOf`:
  the `*.trashinfo` names, without duplicates); the loops `emptyInfos` / `rmInfos` receive the
  strings `infoStrs t names`.
-/
import TrashVerif.Props.C09HistDefs
import TrashVerif.Props.C07
namespace TrashVerif.C10Loop
open TrashVerif PutCore Prog FS C09Hist

/-- the path string the readers (`infosOf`) build for the name `n` of `info/` of the trash directory `t` -/
def infoStr (t n : Bytes) : Bytes := pjoin (pjoin t (b "info")) n

/-- the argument of the loops: the strings `infosOf` yields for the listed names -/
def infoStrs (t : Bytes) (names : List Bytes) : List Bytes := names.map (infoStr t)

/-- `fs'` differs from `fs` only strictly inside `info/` and `files/` (and in the mtimes of the two
    directories): every state the loops can reach. -/
structure Within (infoC filesC : CPath) (fs fs' : FS) : Prop where
  mounts : fs'.mounts = fs.mounts
  same : ∀ q, q ≠ infoC → q ≠ filesC → ¬ FS.strictlyUnder infoC q = true → ¬ FS.strictlyUnder filesC q = true →
    fs'.get q = fs.get q
  dirs : keptDir fs fs' infoC ∧ keptDir fs fs' filesC

/-- at or below `P` the state is a tree (the parent of every present path is a directory) that holds
    no mount point — what every real file system guarantees of a payload that can be removed
    (the flat model and mount tables allow more: see C15 `purge_rerun_completes_partial`). -/
structure TreeOk (fs : FS) (P : CPath) : Prop where
  closed : ∀ q x, FS.under P q = true → (fs.get (q ++ [x])).isSome = true → fs.isDirAt q = true
  noMount : ∀ q, FS.under P q = true → fs.isMount q = false

/-- The setting of one pass of `emptyInfos` / `rmInfos` over one trash directory.
    * `inv`, `wf`: `info/` and `files/` are directories, neither inside the other; `dom` lists every
      present path (the model lists directories through `dom`).
    * `nodup`, `isInfo`: the names are distinct `*.trashinfo` names (what `infosOf` yields).
    * `notLink`: no listed info is a symbolic link (it may be a regular file — or a directory, which
      is unreadable).  Needed: see `symlink_info_counterexample`.
    * `infoTree`, `payTree`: what is at `info/N.trashinfo` and at `files/N` is a tree without mount
      point (`payTree` also when nothing is there: then nothing is below it either).
      Needed: see `mount_in_payload_counterexample`.
    * `resolves` (the resolved layer): in every state the loop can reach, the info string and the
      payload string `pathOfBackupCopy` derives from it resolve (final component not followed) to
      `infoC/N.trashinfo` and `filesC/N`.  `plain_setting` discharges it for a trash directory
      given by its canonical spelling, no symbolic link on the way. -/
structure Setting (fs : FS) (cwd : CPath) (t : Bytes) (infoC filesC : CPath) (names : List Bytes) : Prop where
  inv : TrashInv fs infoC filesC
  wf : DomWf fs
  nodup : names.Nodup
  isInfo : ∀ n ∈ names, isTrashinfoName n = true
  notLink : ∀ n ∈ names, fs.isLinkAt (infoC ++ [n]) = false
  infoTree : ∀ n ∈ names, TreeOk fs (infoC ++ [n])
  payTree : ∀ n ∈ names, TreeOk fs (filesC ++ [stemOf n])
  resolves : ∀ fs', Within infoC filesC fs fs' → ∀ n ∈ names,
    FS.resolve fs' cwd (infoStr t n) = .ok (infoC ++ [n]) ∧
    FS.resolve fs' cwd (pathOfBackupCopy (infoStr t n)) = .ok (filesC ++ [stemOf n])

/-- "`fs'` is `fs` with exactly the entries `D` (names of `info/`) removed":
    every entry of `D` is gone whole — `info/N.trashinfo` and everything at or below `files/N`;
    every path that is not at or below an entry of `D` is exactly as before, except that the two
    directories keep kind and mode only (their mtime may be refreshed); the mount table is the same;
    and when `D` is empty nothing at all happened. -/
structure PurgedExactly (fs fs' : FS) (infoC filesC : CPath) (D : List Bytes) : Prop where
  infoGone : ∀ n ∈ D, ∀ rel, fs'.get (infoC ++ [n] ++ rel) = none
  payloadGone : ∀ n ∈ D, ∀ rel, fs'.get (filesC ++ [stemOf n] ++ rel) = none
  frame : ∀ q, q ≠ infoC → q ≠ filesC →
    (∀ n ∈ D, ¬ FS.under (infoC ++ [n]) q = true ∧ ¬ FS.under (filesC ++ [stemOf n]) q = true) →
    fs'.get q = fs.get q
  dirs : keptDir fs fs' infoC ∧ keptDir fs fs' filesC
  mounts : fs'.mounts = fs.mounts
  nothing : D = [] → fs' = fs

/-- what trash-empty decides to delete, evaluated on the state `fs` -/
def emptySelected (fs : FS) (cwd : CPath) (o : EmptyOpts) (t : Bytes) (names : List Bytes) : List Bytes :=
  names.filter fun n => okToDelete fs cwd o (infoStr t n) = .delete

/-- trash-rm's verdict on one info path, evaluated on the state `fs`: purge it -/
def rmSelects (fs : FS) (cwd : CPath) (pattern volume i : Bytes) : Bool :=
  match contentsOf fs cwd i with
  | none => false
  | some text =>
    match parsePath text with
    | none => false
    | some rel => rmMatches pattern (pjoin volume rel) = some true

/-- … report it as unparsable (unreadable, or no `Path=` line) and keep it -/
def rmUnparsable (fs : FS) (cwd : CPath) (i : Bytes) : Bool :=
  match contentsOf fs cwd i with
  | none => true
  | some text => (parsePath text).isNone

def rmSelected (fs : FS) (cwd : CPath) (pattern volume t : Bytes) (names : List Bytes) : List Bytes :=
  names.filter fun n => rmSelects fs cwd pattern volume (infoStr t n)

/-- The checkable hypotheses of `plain_setting` other than `notLink` and `payTree` (used to phrase the
    counterexamples): the trash directory is the canonical path `T` (not `/`) with good names,
    `T/info` and `T/files` are directories reached through directories only, `dom` lists every
    present path, the names are distinct `*.trashinfo` names without '/', of at most 255 bytes, and
    what is at `info/N.trashinfo` is a tree without mount point. -/
def PlainHyps (fs : FS) (T : CPath) (names : List Bytes) : Prop :=
  T ≠ [] ∧ C07.GoodNames T ∧ C07.Plain fs (T ++ [b "info"]) ∧ C07.Plain fs (T ++ [b "files"]) ∧ DomWf fs ∧
  names.Nodup ∧ (∀ n ∈ names, isTrashinfoName n = true) ∧ (∀ n ∈ names, slash ∉ n ∧ n.length ≤ 255) ∧
  (∀ n ∈ names, TreeOk fs (T ++ [b "info"] ++ [n]))

/-- a decidable check of `TreeOk` on worlds given by their list of nodes -/
def treeCheck (fs : FS) (P : CPath) : Bool :=
  (fs.dom.all fun p => !((fs.get p).isSome && FS.under P p.dropLast && p != []) || fs.isDirAt p.dropLast) &&
  (fs.mounts.all fun m => !FS.under P m)

end TrashVerif.C10Loop
