/-
  Props/C18CmdDefs.lean — vocabulary of the COMMAND-level theorems of C18 (Props/C18Cmd.lean):
  `trash-put` on an argument that names a symbolic link, spelled with or without trailing slashes.
-/
import TrashVerif.Props.C07CmdDefs
import TrashVerif.Props.C02CmdDefs
namespace TrashVerif.C18Cmd
open TrashVerif Prog FS

/-- the argument as typed: the canonical absolute spelling of `P/n` followed by `k` slashes
    (`/p/link`, `/p/link/`, `/p/link//`, …) -/
def spelled (P : CPath) (n : Name) (k : Nat) : Bytes := toStr (P ++ [n]) ++ List.replicate k slash

/-- `L` is a symbolic link with target string `t` — dangling, to a file, to a directory, absolute,
    relative, to another link, to the top of another volume: `t` is ARBITRARY.  `leaf` is
    well-formedness of the model's path-indexed state: nothing is stored below a link node. -/
structure IsLink (fs : FS) (L : CPath) (t : Bytes) : Prop where
  node : fs.get L = some (.link t)
  leaf : ∀ z rel, fs.get (L ++ z :: rel) = none

/-- where the link leads when followed (`stat`): the kernel resolves the spelling of `P/n`, final
    symbolic link followed, to the canonical path `D` -/
def LeadsTo (fs : FS) (cwd P : CPath) (n : Name) (D : CPath) : Prop :=
  resolve fs cwd (toStr (P ++ [n])) true = .ok D

/-- The spellings `trash-put` accepts: no trailing slash, or the link leads to a directory
    (`os.path.isdir`).  `lexists("link/")` is `lstat("link/")`, in which the kernel FOLLOWS the link and
    insists on a directory: for a dangling link (ENOENT) or a link to a file (ENOTDIR) the argument
    `link/` "does not exist" — see `put_link_full_counterexample_*`. -/
def SlashOk (fs : FS) (cwd P : CPath) (n : Name) (k : Nat) : Prop :=
  k = 0 ∨ pIsdir fs cwd (toStr (P ++ [n])) = true

/-- `D` is not on the way to the link nor to the two new names in the trash directory: then no
    path at or below `D` is one of the six paths a put changes -/
structure Aside (D S Fn In : CPath) : Prop where
  notLink : ¬ D <+: S
  notPayload : ¬ D <+: Fn
  notInfo : ¬ D <+: In

/-- `P/n` is a symbolic link, reached without symbolic links, whose target string is the canonical
    spelling of the directory `D`, itself reached without symbolic links: the argument `P/n/e` names
    the entry `D/e` THROUGH the link. -/
structure Through (fs : FS) (P : CPath) (n : Name) (D : CPath) : Prop where
  linkNames : C07.GoodNames (P ++ [n])
  parentPlain : C07.Plain fs P
  link : fs.get (P ++ [n]) = some (.link (toStr D))
  targetNames : C07.GoodNames D
  targetPlain : C07.Plain fs D

end TrashVerif.C18Cmd
