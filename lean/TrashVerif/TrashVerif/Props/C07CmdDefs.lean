/-
  Props/C07CmdDefs.lean — hypotheses and conclusions of the COMMAND-level theorems of C07
  (Props/C07Cmd.lean): worlds in which the trash directory `trash-put` must use does not exist yet.
  Everything is phrased on `FS.get`, canonical paths and canonical spellings (`toStr`).
-/
import TrashVerif.Model.Put
import TrashVerif.Props.C07
import TrashVerif.Props.PutCoreDefs
import TrashVerif.Props.C16IndepDefs
namespace TrashVerif.C07Cmd
open TrashVerif Prog FS
open TrashVerif.C07 (Plain GoodNames)

/-- `files/` and `info/` of the trash directory `T` -/
def filesOf (T : CPath) : CPath := T ++ [b "files"]
def infoOf (T : CPath) : CPath := T ++ [b "info"]

/-- A trash directory yet to be made, `T = Q ++ x :: R`: `Q` is an existing directory reached
    without symbolic links (`Plain`), all names are canonical, and nothing is at or below
    `Q/x` (so `x` and the `R.length` components after it are missing). -/
structure FreshSite (fs : FS) (Q : CPath) (x : Name) (R : CPath) : Prop where
  names : GoodNames (Q ++ x :: R)
  basePlain : Plain fs Q
  fresh : ∀ rel, fs.get (Q ++ x :: rel) = none

/-- A trash directory path `Q ++ R` all of whose existing part `Q` is plain and whose tail `R`
    (possibly empty) is missing: what the volume gate needs to know about a candidate. -/
structure Site (fs : FS) (Q R : CPath) : Prop where
  names : GoodNames (Q ++ R)
  basePlain : Plain fs Q
  missing : ∀ x R', R = x :: R' → ∀ rel, fs.get (Q ++ x :: rel) = none

/-- An everyday argument: the canonical absolute spelling `toStr (P ++ [n])` of an existing entry
    (of any kind) that is not a mount point, whose parent `P` is reached without symlinks, and whose
    name leaves room for the `.trashinfo` extension. -/
structure Arg (fs : FS) (P : CPath) (n : Name) : Prop where
  names : GoodNames (P ++ [n])
  shortName : n.length + 10 ≤ 255
  parentPlain : Plain fs P
  present : (fs.get (P ++ [n])).isSome = true
  notMount : fs.isMount (P ++ [n]) = false

/-- well-formed mount table: "/" is a mount point, every entry names an existing path -/
structure MountsOk (fs : FS) : Prop where
  rootMounted : fs.isMount [] = true
  mountsExist : ∀ m ∈ fs.mounts, (fs.get m).isSome = true

/-- The state `fs1` reached from `fs` once `mkdir_p` made the trash directory `T = Q ++ x :: R`,
    `T/files` and `T/info`: the missing ancestors `Q/x`, …, (all but the last component) are directories of
    mode 0o755 (`os.makedirs`' default 0o777 under the umask 0o022); `T`, `T/files` and `T/info` are
    directories of mode 0o700; `Q` keeps kind and mode (its mtime is refreshed); every other path
    is as it was; the mount table is unchanged. -/
structure SiteCreated (fs fs1 : FS) (Q : CPath) (x : Name) (R : CPath) : Prop where
  mounts : fs1.mounts = fs.mounts
  base : ∃ m t, fs.get Q = some (.dir m t) ∧ fs1.get Q = some (.dir m 0)
  ancestors : ∀ k, k < R.length → fs1.get (Q ++ x :: R.take k) = some (.dir 0o755 0)
  trashDir : fs1.get (Q ++ x :: R) = some (.dir 0o700 0)
  filesDir : fs1.get (filesOf (Q ++ x :: R)) = some (.dir 0o700 0)
  infoDir : fs1.get (infoOf (Q ++ x :: R)) = some (.dir 0o700 0)
  frame : ∀ q, q ≠ Q → ¬ (Q ++ [x] <+: q ∧ q <+: Q ++ x :: R) →
    q ≠ filesOf (Q ++ x :: R) → q ≠ infoOf (Q ++ x :: R) → fs1.get q = fs.get q

/-- the `mkdir` calls for the missing ancestors `Q/x`, `Q/x/R₀`, … (all but `Q ++ x :: R` itself),
    newest first, each with `os.makedirs`' default mode and successful -/
def ancestorCalls (Q : CPath) (x : Name) (R : CPath) : List (Call × Res) :=
  (List.range R.length).reverse.map fun k => (Call.mkdir (Q ++ x :: R.take k) 0o777, Except.ok ())

/-- The complete list of system calls (newest first, all successful) of a first use of the trash
    directory `T = Q ++ x :: R` for the entry `src` recorded under `name = stem.trashinfo`:
    the missing ancestors (default mode), then `T`, `T/files`, `T/info` with mode 0o700, the info
    file (exclusive create 0o600, one write, close), and ONE `rename` of the entry — no copy. -/
def firstUseTrace (Q : CPath) (x : Name) (R : CPath) (src : CPath) (stem content : Bytes) : List (Call × Res) :=
  let T := Q ++ x :: R
  [(Call.rename src (filesOf T ++ [stem]), Except.ok ()),
   (Call.close (infoOf T ++ [stem ++ trashinfoExt]), Except.ok ()),
   (Call.write (infoOf T ++ [stem ++ trashinfoExt]) content, Except.ok ()),
   (Call.createExcl (infoOf T ++ [stem ++ trashinfoExt]) 0o600, Except.ok ()),
   (Call.mkdir (infoOf T) 0o700, Except.ok ()),
   (Call.mkdir (filesOf T) 0o700, Except.ok ()),
   (Call.mkdir T 0o700, Except.ok ())] ++ ancestorCalls Q x R

/-- what `OriginalLocation.for_file` records for `V/P'/n` in a trash directory of the volume `V`
    (relative paths): `P'/n`, the components joined by '/' -/
def relLoc (P' : CPath) (n : Name) : Bytes := Bytes.joinWith [slash] (P' ++ [n])

/-- the everyday configuration: no `--trash-dir`, no `--force-volume`, no prompts, XDG_DATA_HOME unset,
    HOME the canonical spelling of `H ≠ /` -/
structure HomeCfg (c : PutCfg) (H : CPath) : Prop where
  noTrashDir : c.trashDir = none
  noForcedVolume : c.forcedVolume = none
  noPrompt : c.mode ≠ .interactive
  xdgUnset : c.env.xdg = none
  home : c.env.home = some (toStr H)
  homeNotRoot : H ≠ []

/-- the last component of `$topdir/.Trash-$uid` and of `$topdir/.Trash/$uid` -/
def altName (uid : Nat) : Name := b ".Trash-" ++ Bytes.ofNat uid
def uidName (uid : Nat) : Name := Bytes.ofNat uid

/-- A second volume: `V` is a mount point reached without symlinks; the home trash path
    `$HOME/.local/share/Trash = Qh ++ Rh` (existing part `Qh`, missing part `Rh`, possibly empty)
    lies on ANOTHER device than `V`. -/
structure OtherVolume (fs : FS) (H Qh Rh V : CPath) : Prop where
  homeSplit : C16Indep.trashC H = Qh ++ Rh
  homeSite : Site fs Qh Rh
  homeElsewhere : dev fs Qh ≠ V
  volPlain : Plain fs V
  volNames : GoodNames V
  volMount : fs.isMount V = true

/-- `$topdir/.Trash` exists but is not a sticky directory: a regular file, a symbolic link, or a
    directory without the sticky bit -/
def InsecureTop (fs : FS) (V : CPath) : Prop :=
  ∃ nd, fs.get (V ++ [b ".Trash"]) = some nd ∧ ∀ m t, nd = .dir m t → m &&& 0o1000 = 0

/-- `trash-put --trash-dir D` (canonical spelling of `D`), no `--force-volume`, no prompts -/
structure CustomCfg (c : PutCfg) (D : CPath) : Prop where
  trashDir : c.trashDir = some (toStr D)
  noForcedVolume : c.forcedVolume = none
  noPrompt : c.mode ≠ .interactive

end TrashVerif.C07Cmd
