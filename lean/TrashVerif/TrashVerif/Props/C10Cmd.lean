/-
  Props/C10Cmd.lean — C10 at the COMMAND level:
  "trash-empty with a DAYS argument removes an entry if and only if its DeletionDate is strictly earlier
   than now minus DAYS days; entries whose date is missing or unparseable are kept.  trash-empty without
   DAYS removes every entry and every payload lacking a .trashinfo.  An entry is always removed whole -
   payload and .trashinfo - and entries that are kept are left byte-for-byte intact."

  Props/C10.lean is the date arithmetic, Props/C10Loop.lean ONE `info/` directory.  Here: the WHOLE
  COMMAND `runEmpty c o reply` over the SEVERAL trash directories the selector finds (scanner, or
  `--trash-dir`), with the ORPHAN pass, mirroring Props/C12Cmd.lean.

  Vocabulary (Props/C12CmdDefs.lean, Props/C10CmdDefs.lean).  `TDir`, `PlainDir`, `PlainWorld`, `Apart`, `Gone`,
  `Intact`, `PurgedAll` are those of trash-rm.  `EmptyWorld fs ds` = `PlainWorld fs ds` + `OrphansOk` for every
  directory (the names of `files/` are file names of at most 245 bytes; an orphan payload is a tree without
  mount point).  `orphans fs d`: the names of `files/` without `info/NAME.trashinfo`.  `DatedOld … d n`: the info
  file of `n` is readable, has a parsable DeletionDate `dt`, and `olderThan days now dt = .yes` (C10
  `olderThan_spec`: `dt` strictly earlier than now − DAYS days).  `swept … d` = the selected names of `d`, then
  its orphans (an orphan `m` counted as the entry `m.trashinfo`).  `DaysRun` bundles the hypotheses of (1).

  THE ORPHAN PASS RUNS WITH DAYS TOO.  The reading "payloads without .trashinfo are purged only when no DAYS
  is given" is FALSE of the model and of /repo's code: `Emptier.files_to_delete` yields `list_orphans` for
  every trash directory whatever `parsed_days` is (/repo/trashcli/empty/emptier.py, REAL behaviour; the
  property's own text promises nothing about orphans under DAYS).  Statement (1) therefore says what happens:
  with DAYS every orphan payload is GONE (`orphan_purged_with_days` is the kernel-checked instance).
  The full statement that is false, for the record:
  --  theorem empty_days_orphans_intact_FALSE … (H : DaysRun fs c o reply ds days) :
  --    ∀ d ∈ ds, ∀ m ∈ orphans fs d, PayloadIntact fs (run noFaults (runEmpty c o reply) { fs := fs }).2.fs d m
  Everything else of (1) is at full strength; no statement is `_partial`.

  Interactive mode: the theorems cover both the non-interactive run and the interactive run with a
  consenting reply (`go`; a refusing reply / EOF: C14Loop `guard_refuses_completely`).

  Hypotheses added to the fixed text: the fault-free oracle; `scan` (the selector yields these directories:
  discharged by evaluation on a concrete world); `EmptyWorld`; `noOverflow` for (1) — what happens otherwise is
  (3).  The overflow does not depend on the entry's date (`overflow_indep`): it is that of now − DAYS days
  (`no_overflow_of_minusDays`).

  How it is proved: the induction over the directories is `Proofs.C14LoopMulti.real_dirs`, generalised in
  Proofs/C10CmdDirs.lean (`real_dirs_local`: "no decision crashes" asked of the listed names on the initial
  state only); Proofs/C10Cmd.lean turns the `EmptyWorld` into its `DirsSetting` and the per-directory
  conclusions into `PurgedAll` against the initial state; `C12Cmd`'s `intact_of_not_selected` gives `Intact`.
-/
import TrashVerif.Props.C10CmdDefs
import TrashVerif.Props.C10
import TrashVerif.Props.C10Loop
import TrashVerif.Props.C12Cmd
import TrashVerif.Proofs.C10CmdTop
import TrashVerif.Proofs.C10CmdOverflow
import TrashVerif.Proofs.C10CmdEx
namespace TrashVerif.C10Cmd
open TrashVerif PutCore Prog FS C09Hist C10Loop C12Cmd

/-! ### (1) `trash-empty DAYS` selects exactly the dated-and-old entries -/

/-- THE SELECTION THEOREM of `trash-empty DAYS` over the trash directories `ds = d_1 … d_k` (home trash and
    volume trash directories, or `--trash-dir` arguments), not `--dry-run`, not interactive or with a
    consenting reply, under the fault-free oracle, now − DAYS days representable, against the INITIAL
    state `fs`:
    * exit code 0, no crash;
    * a listed name `n` of a directory `d` is `Gone` — info file AND everything at or below the payload — IFF
      it is `DatedOld` (readable, parsable DeletionDate, `olderThan` says yes); when it is not — unreadable,
      undated, unparsable, young, exactly DAYS days old, dated in the future — it is `Intact`: info file and
      whole payload exactly as before;
    * every ORPHAN payload (name of `files/` without info file) is gone whole — the orphan pass runs with
      DAYS too (REAL behaviour, see the header);
    * `PurgedAll`: every path that is not at or below a removed info file / payload / orphan and is not one of
      the directories `info/`, `files/` (which keep kind and mode) is exactly as before, same mount table;
    * nothing that is not at or below `info/` or `files/` of a visited directory changes. -/
theorem empty_days_command_selects_exactly (fs : FS) (c : ReadCfg) (o : EmptyOpts) (reply : Option Bytes) (ds : List TDir)
    (days : Nat) (hscan : foundDirs (selectTrashDirs fs c o.userDirs) = ds.map TDir.pair) (W : EmptyWorld fs ds)
    (hdays : o.days = some days) (hdry : o.dryRun = false)
    (hgo : o.interactive = false ∨ ∃ r, reply = some r ∧ emptyReplyYes r = true)
    (hno : ∀ dt, olderThan days o.now o.nowUs dt ≠ .overflow) :
    (run noFaults (runEmpty c o reply) { fs := fs }).1.exit = 0 ∧
    (run noFaults (runEmpty c o reply) { fs := fs }).1.crash = none ∧
    (∀ d ∈ ds, ∀ n ∈ d.names,
      (Gone (run noFaults (runEmpty c o reply) { fs := fs }).2.fs d n ↔ DatedOld fs c.cwd days o d n) ∧
      (¬ DatedOld fs c.cwd days o d n → Intact fs (run noFaults (runEmpty c o reply) { fs := fs }).2.fs d n)) ∧
    (∀ d ∈ ds, ∀ m ∈ orphans fs d, PayloadGone (run noFaults (runEmpty c o reply) { fs := fs }).2.fs d m) ∧
    PurgedAll fs (run noFaults (runEmpty c o reply) { fs := fs }).2.fs ds (swept fs c.cwd o) ∧
    (∀ q, (∀ d ∈ ds, ¬ FS.under d.I q = true ∧ ¬ FS.under d.F q = true) →
      (run noFaults (runEmpty c o reply) { fs := fs }).2.fs.get q = fs.get q) :=
  Proofs.C10Cmd.empty_days_command_selects_exactly fs c o reply ds days hscan W hdays hdry hgo hno

/-- the same, from the bundle -/
theorem days_run (fs : FS) (c : ReadCfg) (o : EmptyOpts) (reply : Option Bytes) (ds : List TDir) (days : Nat)
    (H : DaysRun fs c o reply ds days) (d : TDir) (hd : d ∈ ds) (n : Bytes) (hn : n ∈ d.names) :
    (Gone (run noFaults (runEmpty c o reply) { fs := fs }).2.fs d n ↔ DatedOld fs c.cwd days o d n) ∧
    (¬ DatedOld fs c.cwd days o d n → Intact fs (run noFaults (runEmpty c o reply) { fs := fs }).2.fs d n) :=
  (empty_days_command_selects_exactly fs c o reply ds days H.scan H.world H.hdays H.real H.go H.noOverflow).2.2.1 d hd n hn

/-- what is selected, in the property's words: a listed name is selected iff it is dated and old -/
theorem selected_iff_dated_old (fs : FS) (cwd : CPath) (o : EmptyOpts) (days : Nat) (d : TDir) (n : Bytes)
    (hdays : o.days = some days) (hn : n ∈ d.names) : n ∈ emptySel fs cwd o d ↔ DatedOld fs cwd days o d n :=
  Proofs.C10Cmd.mem_emptySel_days hdays hn

/-- "every other entry, in every trash directory": a `*.trashinfo` name `m` of a visited directory that is
    not swept — listed or not — keeps its info file and its whole payload, whatever state `fs'` is
    `PurgedAll` of `fs` -/
theorem empty_other_entries_intact (fs fs' : FS) (cwd : CPath) (o : EmptyOpts) (ds : List TDir) (W : EmptyWorld fs ds)
    (P : PurgedAll fs fs' ds (swept fs cwd o)) (d : TDir) (hd : d ∈ ds) (m : Bytes)
    (hm : isTrashinfoName m = true) (hmD : m ∉ swept fs cwd o d) : Intact fs fs' d m :=
  Proofs.C12Cmd.intact_of_not_selected cwd W.world P (Proofs.C10Cmd.swept_isInfo W) hd hm hmD

/-- the orphans, spelled out: `m` is an orphan of `d` iff `files/m` is there and `info/m.trashinfo` is not -/
theorem orphan_iff (fs : FS) (ds : List TDir) (W : EmptyWorld fs ds) (d : TDir) (hd : d ∈ ds) (m : Bytes) :
    m ∈ orphans fs d ↔ (fs.get (d.F ++ [m])).isSome = true ∧ fs.get (d.I ++ [infoNameOf m]) = none :=
  Proofs.C10Cmd.orphan_iff W hd m

/-- the overflow of `olderThan` does not depend on the entry's date … -/
theorem overflow_indep (days : Nat) (now : Date) (us : Nat) (d d' : Date) :
    olderThan days now us d = .overflow ↔ olderThan days now us d' = .overflow :=
  Proofs.C10Cmd.overflow_indep days now us d d'

/-- … it is that of now − DAYS days: `noOverflow` holds when the clock is valid and that date is representable -/
theorem no_overflow_of_minusDays (days : Nat) (now : Date) (us : Nat) (hv : now.valid = true) (hus : us < 1000000)
    (h : C10.minusDays days now ≠ none) : ∀ dt, olderThan days now us dt ≠ .overflow :=
  Proofs.C10Cmd.no_overflow_of_minusDays days now us hv hus h

/-! ### (2) `trash-empty` without DAYS -/

/-- `trash-empty` (no DAYS) over the directories `ds`, same setting.  Directory by directory, in scan order:
    first the pairs of every listed `*.trashinfo` name (payload, then info file), then — `files/` listed anew —
    every child of `files/` for which `info/NAME.trashinfo` does not exist.  In the final state:
    * exit code 0, no crash;
    * every listed name of every directory is `Gone`, info file and payload;
    * EVERY child of `files/` is gone with everything below it (the payloads of the listed names and the
      orphans: there is nothing else);
    * `info/` and `files/` themselves stay, kind and mode;
    * `PurgedAll` for `swept` = the listed names, then the orphans: in particular the children of `info/` that
      are NOT `*.trashinfo` names stay exactly as they are;
    * nothing that is not at or below `info/` or `files/` of a visited directory changes. -/
theorem empty_all_command (fs : FS) (c : ReadCfg) (o : EmptyOpts) (reply : Option Bytes) (ds : List TDir)
    (hscan : foundDirs (selectTrashDirs fs c o.userDirs) = ds.map TDir.pair) (W : EmptyWorld fs ds)
    (hdays : o.days = none) (hdry : o.dryRun = false)
    (hgo : o.interactive = false ∨ ∃ r, reply = some r ∧ emptyReplyYes r = true) :
    (run noFaults (runEmpty c o reply) { fs := fs }).1.exit = 0 ∧
    (run noFaults (runEmpty c o reply) { fs := fs }).1.crash = none ∧
    (∀ d ∈ ds, ∀ n ∈ d.names, Gone (run noFaults (runEmpty c o reply) { fs := fs }).2.fs d n) ∧
    (∀ d ∈ ds, ∀ m, (fs.get (d.F ++ [m])).isSome = true →
      PayloadGone (run noFaults (runEmpty c o reply) { fs := fs }).2.fs d m) ∧
    (∀ d ∈ ds, keptDir fs (run noFaults (runEmpty c o reply) { fs := fs }).2.fs d.I ∧
      keptDir fs (run noFaults (runEmpty c o reply) { fs := fs }).2.fs d.F) ∧
    PurgedAll fs (run noFaults (runEmpty c o reply) { fs := fs }).2.fs ds (swept fs c.cwd o) ∧
    (∀ d ∈ ds, swept fs c.cwd o d = d.names ++ (orphans fs d).map infoNameOf) ∧
    (∀ q, (∀ d ∈ ds, ¬ FS.under d.I q = true ∧ ¬ FS.under d.F q = true) →
      (run noFaults (runEmpty c o reply) { fs := fs }).2.fs.get q = fs.get q) :=
  Proofs.C10Cmd.empty_all_command fs c o reply ds hscan W hdays hdry hgo

/-! ### (3) the DAYS overflow, across directories -/

/-- When now − DAYS days is NOT representable (`olderThan` overflows: for one date, hence for all), the command
    raises OverflowError at the FIRST DATED entry it meets — the name `n` of the directory `d`, the listed
    names of the earlier directories `pre` and the earlier names `npre` of `d` being undated or unreadable:
    exit code 1, `crash = some .overflow`.  What was purged before stays purged: no entry (nothing can be
    selected), but the ORPHANS of the earlier directories, whose orphan passes have run; the listed entries
    of the earlier directories are intact; and everything from `d` on — `d` itself, ITS orphans, every later
    directory — is exactly as before, as is everything outside. -/
theorem empty_command_stops_at_overflow (fs : FS) (c : ReadCfg) (o : EmptyOpts) (reply : Option Bytes) (days : Nat)
    (pre post : List TDir) (d : TDir) (npre npost : List Bytes) (n : Bytes)
    (hscan : foundDirs (selectTrashDirs fs c o.userDirs) = (pre ++ d :: post).map TDir.pair)
    (W : EmptyWorld fs (pre ++ d :: post))
    (hdays : o.days = some days) (hdry : o.dryRun = false)
    (hgo : o.interactive = false ∨ ∃ r, reply = some r ∧ emptyReplyYes r = true)
    (hov : ∀ dt, olderThan days o.now o.nowUs dt = .overflow)
    (hnames : d.names = npre ++ n :: npost)
    (hpre : ∀ e ∈ pre, ∀ m ∈ e.names, ¬ Dated fs c.cwd e m)
    (hnpre : ∀ m ∈ npre, ¬ Dated fs c.cwd d m) (hn : Dated fs c.cwd d n) :
    (run noFaults (runEmpty c o reply) { fs := fs }).1.exit = 1 ∧
    (run noFaults (runEmpty c o reply) { fs := fs }).1.crash = some .overflow ∧
    (∀ e ∈ pre, ∀ m ∈ orphans fs e, PayloadGone (run noFaults (runEmpty c o reply) { fs := fs }).2.fs e m) ∧
    (∀ e ∈ pre, ∀ m ∈ e.names, Intact fs (run noFaults (runEmpty c o reply) { fs := fs }).2.fs e m) ∧
    PurgedAll fs (run noFaults (runEmpty c o reply) { fs := fs }).2.fs pre (fun e => (orphans fs e).map infoNameOf) ∧
    (∀ e ∈ d :: post, ∀ q, e.T <+: q → (run noFaults (runEmpty c o reply) { fs := fs }).2.fs.get q = fs.get q) ∧
    (∀ q, (∀ e ∈ pre, ¬ FS.under e.I q = true ∧ ¬ FS.under e.F q = true) →
      (run noFaults (runEmpty c o reply) { fs := fs }).2.fs.get q = fs.get q) :=
  Proofs.C10Cmd.empty_command_stops_at_overflow fs c o reply days pre post d npre npost n hscan W hdays hdry hgo hov
    hnames hpre hnpre hn

/-! ### (4) the property's words -/

section words
variable (fs : FS) (c : ReadCfg) (o : EmptyOpts) (reply : Option Bytes) (ds : List TDir) (days : Nat)
  (H : DaysRun fs c o reply ds days) (d : TDir) (hd : d ∈ ds) (n : Bytes) (hn : n ∈ d.names)
include H hd hn

/-- an entry deleted EXACTLY DAYS days ago (to the second, TRASH_DATE clock) is intact … -/
theorem boundary_entry_intact (text : Bytes) (dt : Date)
    (h1 : contentsOf fs c.cwd (infoStr (toStr d.T) n) = some text) (h2 : parseDeletionDate text = some dt)
    (hus : o.nowUs = 0) (hv : o.now.valid = true) (hdv : dt.valid = true) (hb : C10.minusDays days o.now = some dt) :
    Intact fs (run noFaults (runEmpty c o reply) { fs := fs }).2.fs d n :=
  (days_run fs c o reply ds days H d hd n hn).2
    (Proofs.C10Cmd.not_datedOld_of_dated h1 h2 (by rw [hus, C10.boundary_kept days o.now dt hv hdv hb]; decide))

/-- … one second older is gone, info file and payload -/
theorem one_second_older_gone (text : Bytes) (dB dt : Date)
    (h1 : contentsOf fs c.cwd (infoStr (toStr d.T) n) = some text) (h2 : parseDeletionDate text = some dt)
    (hus : o.nowUs = 0) (hv : o.now.valid = true) (hBv : dB.valid = true) (hdv : dt.valid = true)
    (hb : C10.minusDays days o.now = some dB) (hs : dt.toSec + 1 = dB.toSec) :
    Gone (run noFaults (runEmpty c o reply) { fs := fs }).2.fs d n :=
  (days_run fs c o reply ds days H d hd n hn).1.2
    ⟨text, dt, h1, h2, by rw [hus]; exact C10.one_second_older_purged days o.now dB dt hv hBv hdv hb hs⟩

/-- an entry dated in the future (not before now) is intact -/
theorem future_entry_intact (text : Bytes) (dt : Date)
    (h1 : contentsOf fs c.cwd (infoStr (toStr d.T) n) = some text) (h2 : parseDeletionDate text = some dt)
    (hf : o.now.toMicros o.nowUs ≤ dt.toMicros) :
    Intact fs (run noFaults (runEmpty c o reply) { fs := fs }).2.fs d n :=
  (days_run fs c o reply ds days H d hd n hn).2
    (Proofs.C10Cmd.not_datedOld_of_dated h1 h2 (C10.future_kept days o.now o.nowUs dt hf))

/-- an entry without DeletionDate line — or whose first DeletionDate line does not parse
    (`C10Loop.deletion_date_first_line`) — is intact -/
theorem undated_entry_intact (text : Bytes)
    (h1 : contentsOf fs c.cwd (infoStr (toStr d.T) n) = some text) (h2 : parseDeletionDate text = none) :
    Intact fs (run noFaults (runEmpty c o reply) { fs := fs }).2.fs d n :=
  (days_run fs c o reply ds days H d hd n hn).2 (Proofs.C10Cmd.not_datedOld_of_undated h1 h2)

/-- an entry whose info file cannot be read (a directory, no permission) is intact -/
theorem unreadable_entry_intact (h1 : contentsOf fs c.cwd (infoStr (toStr d.T) n) = none) :
    Intact fs (run noFaults (runEmpty c o reply) { fs := fs }).2.fs d n :=
  (days_run fs c o reply ds days H d hd n hn).2 (Proofs.C10Cmd.not_datedOld_of_unreadable h1)

/-- an entry that is dated but not older (young, boundary, future alike) is intact -/
theorem not_older_entry_intact (text : Bytes) (dt : Date)
    (h1 : contentsOf fs c.cwd (infoStr (toStr d.T) n) = some text) (h2 : parseDeletionDate text = some dt)
    (h3 : olderThan days o.now o.nowUs dt = .no) :
    Intact fs (run noFaults (runEmpty c o reply) { fs := fs }).2.fs d n :=
  (days_run fs c o reply ds days H d hd n hn).2 (Proofs.C10Cmd.not_datedOld_of_dated h1 h2 (by rw [h3]; decide))

end words

/-! ### (5) non-vacuity: world `WE` (Proofs/C10CmdEx.lean)

  Two volumes, `/` and the mount point `/m`; HOME=/h, uid 1000; the clock says 2024-03-31 12:00:00.
  Home trash `dH`: `old` (2024-03-01 11:59:59, a directory holding `x`), `edge` (2024-03-01 12:00:00 — exactly 30
  days ago), `young` (2024-03-20).  Volume trash `dA` = `/m/.Trash-1000`: `und` (no DeletionDate line), `fut`
  (2030-01-01), and the ORPHAN payload `files/stray`. -/
section examples
open TrashVerif.Proofs.C10CmdEx
open TrashVerif.Proofs.C08CmdEx (rc)
open TrashVerif.Proofs.C12CmdEx (HF HI AF AI)

/-- the hypotheses hold: the scan finds the two directories, the world is an `EmptyWorld`, no overflow -/
theorem WE_daysRun : DaysRun WE rc o30 none [dH, dA] 30 :=
  ⟨WE_scan, WE_world, rfl, rfl, Or.inl rfl, WE_no_overflow⟩

example : orphans WE dH = [] ∧ orphans WE dA = [b "stray"] := WE_orphans

/-- the selection theorem and its corollaries instantiated: `old` (one second older than the boundary) is
    gone; `edge` (exactly 30 days), `young`, `fut` (future), `und` (undated) are intact; the orphan is gone -/
example :
    Gone (run noFaults (runEmpty rc o30 none) { fs := WE }).2.fs dH (b "old.trashinfo") ∧
    Intact WE (run noFaults (runEmpty rc o30 none) { fs := WE }).2.fs dH (b "edge.trashinfo") ∧
    Intact WE (run noFaults (runEmpty rc o30 none) { fs := WE }).2.fs dH (b "young.trashinfo") ∧
    Intact WE (run noFaults (runEmpty rc o30 none) { fs := WE }).2.fs dA (b "fut.trashinfo") ∧
    Intact WE (run noFaults (runEmpty rc o30 none) { fs := WE }).2.fs dA (b "und.trashinfo") ∧
    PayloadGone (run noFaults (runEmpty rc o30 none) { fs := WE }).2.fs dA (b "stray") := by
  have hH : dH ∈ [dH, dA] := List.mem_cons_self
  have hA : dA ∈ [dH, dA] := List.mem_cons_of_mem _ List.mem_cons_self
  obtain ⟨⟨t1, a1, c1⟩, ⟨t2, a2, c2⟩, ⟨t3, a3, c3⟩, ⟨t4, a4, c4⟩, ⟨t5, a5, c5⟩⟩ := WE_entries
  refine ⟨?_, ?_, ?_, ?_, ?_, ?_⟩
  · exact one_second_older_gone WE rc o30 none _ 30 WE_daysRun dH hH _ (by decide +kernel) t1 ⟨2024, 3, 1, 12, 0, 0⟩ _ a1 c1 rfl
      (by decide +kernel) (by decide +kernel) (by decide +kernel) WE_verdicts.2.2.2.2 (by decide +kernel)
  · exact boundary_entry_intact WE rc o30 none _ 30 WE_daysRun dH hH _ (by decide +kernel) t2 _ a2 c2 rfl
      (by decide +kernel) (by decide +kernel) WE_verdicts.2.2.2.2
  · exact not_older_entry_intact WE rc o30 none _ 30 WE_daysRun dH hH _ (by decide +kernel) t3 _ a3 c3 WE_verdicts.2.2.1
  · exact future_entry_intact WE rc o30 none _ 30 WE_daysRun dA hA _ (by decide +kernel) t5 _ a5 c5 (by decide +kernel)
  · exact undated_entry_intact WE rc o30 none _ 30 WE_daysRun dA hA _ (by decide +kernel) t4 a4 c4
  · exact (empty_days_command_selects_exactly WE rc o30 none _ 30 WE_scan WE_world rfl rfl (Or.inl rfl) WE_no_overflow).2.2.2.1
      dA hA _ (by rw [WE_orphans.2]; exact List.mem_cons_self)

/-- THE ORPHAN IS PURGED WITH DAYS (the counterexample to "only when no DAYS is given"): in `WE` the payload
    `/m/.Trash-1000/files/stray` has no info file, `trash-empty 30` is given a DAYS argument, and the payload
    is there before and gone after.  REAL behaviour of /repo's code (`Emptier.files_to_delete` yields
    `list_orphans(trash_dir.path)` unconditionally). -/
theorem orphan_purged_with_days :
    o30.days = some 30 ∧ WE.get (AI ++ [b "stray.trashinfo"]) = none ∧ (WE.get (AF ++ [b "stray"])).isSome = true ∧
    (run noFaults (runEmpty rc o30 none) { fs := WE }).2.fs.get (AF ++ [b "stray"]) = none := by
  rw [Proofs.C11CmdEval.empty_twin]
  decide +kernel

/-- … independently, `trash-empty 30` evaluated by the kernel: exit 0, and the final state is the initial one
    without `old` (info file, payload directory, the file inside) and without the orphan; `edge`, `young`,
    `und`, `fut`, `/q/keep`, `/m/keep` are exactly as before -/
example :
    (run noFaults (runEmpty rc o30 none) { fs := WE }).1.exit = 0 ∧
    (run noFaults (runEmpty rc o30 none) { fs := WE }).1.crash = none ∧
    (run noFaults (runEmpty rc o30 none) { fs := WE }).2.fs.toList = nodesE.filter (fun pn =>
      pn.1 ∉ [HI ++ [b "old.trashinfo"], HF ++ [b "old"], HF ++ [b "old", b "x"], AF ++ [b "stray"]]) := by
  rw [Proofs.C11CmdEval.empty_twin]; exact WE_run30

/-- `trash-empty` without DAYS: the theorem instantiated (every listed name gone, every child of `files/` gone) … -/
example :
    (∀ d ∈ [dH, dA], ∀ n ∈ d.names, Gone (run noFaults (runEmpty rc oAll none) { fs := WE }).2.fs d n) ∧
    PayloadGone (run noFaults (runEmpty rc oAll none) { fs := WE }).2.fs dA (b "stray") := by
  have h := empty_all_command WE rc oAll none [dH, dA] WE_scan WE_world rfl rfl (Or.inl rfl)
  exact ⟨h.2.2.1, h.2.2.2.1 dA (List.mem_cons_of_mem _ List.mem_cons_self) _ (by decide +kernel)⟩

/-- … and evaluated: only the directories and the outside files are left -/
example :
    (run noFaults (runEmpty rc oAll none) { fs := WE }).1.exit = 0 ∧
    (run noFaults (runEmpty rc oAll none) { fs := WE }).2.fs.toList =
      [([], Proofs.C08CmdEx.dN), ([b "h"], Proofs.C08CmdEx.dN), ([b "h", b ".local"], Proofs.C08CmdEx.dN),
       ([b "h", b ".local", b "share"], Proofs.C08CmdEx.dN), (Proofs.C08CmdEx.TH, Proofs.C08CmdEx.dN),
       (HF, Proofs.C08CmdEx.dN), (HI, Proofs.C08CmdEx.dN), ([b "q"], Proofs.C08CmdEx.dN), ([b "q", b "keep"], .file [9] 0o644 5),
       ([b "m"], Proofs.C08CmdEx.dN), ([b "m", b "keep"], .file [75] 0o644 0), (Proofs.C08CmdEx.TA, .dir 0o700 0),
       (AF, Proofs.C08CmdEx.dN), (AI, Proofs.C08CmdEx.dN)] := by
  rw [Proofs.C11CmdEval.empty_twin]; exact WE_runAll

/-- the overflow: `trash-empty 800000` on 2024-03-31 — `edge`, the first listed name of the home trash, is dated:
    theorem (3) instantiated (`pre = []`, `d = dH`, `npre = []`): exit 1, OverflowError, and everything at or
    below either trash directory is exactly as before … -/
example :
    (run noFaults (runEmpty rc oHuge none) { fs := WE }).1.crash = some .overflow ∧
    (∀ e ∈ [dH, dA], ∀ q, e.T <+: q → (run noFaults (runEmpty rc oHuge none) { fs := WE }).2.fs.get q = WE.get q) := by
  obtain ⟨_, ⟨t2, a2, c2⟩, _⟩ := WE_entries
  have h := empty_command_stops_at_overflow WE rc oHuge none 800000 [] [dA] dH [] [b "old.trashinfo", b "young.trashinfo"]
    (b "edge.trashinfo") WE_scanHuge WE_world rfl rfl (Or.inl rfl) WE_huge_overflows rfl (fun _ h => nomatch h)
    (fun _ h => nomatch h) ⟨t2, _, a2, c2⟩
  exact ⟨h.2.1, h.2.2.2.2.2.1⟩

/-- … and evaluated: exit 1, nothing removed -/
example :
    (run noFaults (runEmpty rc oHuge none) { fs := WE }).1.exit = 1 ∧
    (run noFaults (runEmpty rc oHuge none) { fs := WE }).1.crash = some .overflow ∧
    (run noFaults (runEmpty rc oHuge none) { fs := WE }).2.fs.toList = nodesE := by
  rw [Proofs.C11CmdEval.empty_twin]; exact WE_runHuge

end examples

end TrashVerif.C10Cmd

#print axioms TrashVerif.C10Cmd.empty_days_command_selects_exactly
#print axioms TrashVerif.C10Cmd.days_run
#print axioms TrashVerif.C10Cmd.selected_iff_dated_old
#print axioms TrashVerif.C10Cmd.empty_other_entries_intact
#print axioms TrashVerif.C10Cmd.orphan_iff
#print axioms TrashVerif.C10Cmd.overflow_indep
#print axioms TrashVerif.C10Cmd.no_overflow_of_minusDays
#print axioms TrashVerif.C10Cmd.empty_all_command
#print axioms TrashVerif.C10Cmd.empty_command_stops_at_overflow
#print axioms TrashVerif.C10Cmd.boundary_entry_intact
#print axioms TrashVerif.C10Cmd.one_second_older_gone
#print axioms TrashVerif.C10Cmd.future_entry_intact
#print axioms TrashVerif.C10Cmd.undated_entry_intact
#print axioms TrashVerif.C10Cmd.unreadable_entry_intact
#print axioms TrashVerif.C10Cmd.not_older_entry_intact
#print axioms TrashVerif.C10Cmd.WE_daysRun
#print axioms TrashVerif.C10Cmd.orphan_purged_with_days
#print axioms TrashVerif.Proofs.C10Cmd.real_dirs_local
#print axioms TrashVerif.Proofs.C10CmdEx.WE_world
#print axioms TrashVerif.Proofs.C10CmdEx.WE_run30
#print axioms TrashVerif.Proofs.C10CmdEx.WE_runAll
#print axioms TrashVerif.Proofs.C10CmdEx.WE_runHuge
