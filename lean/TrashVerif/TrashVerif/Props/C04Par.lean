/-
  Props/C04Par.lean — C04 under concurrency: for ANY number of trash-put processes, ANY schedule of
  their system calls, ANY pattern of failing renames, ANY initial trash content and ANY candidate
  name sequences (the random suffixes may collide arbitrarily).
-/
import TrashVerif.Model.Concurrent
import TrashVerif.Proofs.C04Par
namespace TrashVerif.C04Par
open TrashVerif Par

/-- No previously trashed entry is replaced or lost: whatever was under files/N before is still
    there, every info file that existed still exists. -/
theorem preexisting_intact (cand : Nat → Nat → Name) (infos0 : Name → Bool) (files0 : Name → Option Nat)
    (sched : List (Nat × Bool)) :
    let s := runSched cand sched (init infos0 files0)
    (∀ n k, files0 n = some k → s.files n = some (.pre k)) ∧ (∀ n, infos0 n = true → s.infos n = true) :=
  Proofs.C04Par.preexisting_intact cand infos0 files0 sched

/-- Every successful trash-put owns its own pair: a process that finished with `doneOk n` has its
    entry — and nobody else's — under files/n, next to info/n; two successful processes own distinct names. -/
theorem success_owns_distinct (cand : Nat → Nat → Name) (infos0 : Name → Bool) (files0 : Name → Option Nat)
    (sched : List (Nat × Bool)) :
    let s := runSched cand sched (init infos0 files0)
    (∀ p n, s.pc p = .doneOk n → s.files n = some (.src p) ∧ s.infos n = true ∧ s.atOrigin p = false) ∧
    (∀ p q n m, p ≠ q → s.pc p = .doneOk n → s.pc q = .doneOk m → n ≠ m) :=
  Proofs.C04Par.success_owns_distinct cand infos0 files0 sched

/-- Nothing is lost, nothing is duplicated: every process's entry is at its origin xor under exactly
    one files/ name; payloads that appeared are exactly the entries of the successful processes. -/
theorem conservation (cand : Nat → Nat → Name) (infos0 : Name → Bool) (files0 : Name → Option Nat)
    (sched : List (Nat × Bool)) :
    let s := runSched cand sched (init infos0 files0)
    (∀ p, s.atOrigin p = true ↔ ∀ n, s.files n ≠ some (.src p)) ∧
    (∀ p n m, s.files n = some (.src p) → s.files m = some (.src p) → n = m) ∧
    (∀ p n, s.files n = some (.src p) → s.pc p = .doneOk n) :=
  Proofs.C04Par.conservation cand infos0 files0 sched

/-- A rename never lands on an occupied name (so the kernel's replace-on-rename and shutil.move's
    move-into-directory are unreachable): whenever a process is about to move, its target is free. -/
theorem move_target_free (cand : Nat → Nat → Name) (infos0 : Name → Bool) (files0 : Name → Option Nat)
    (sched : List (Nat × Bool)) :
    let s := runSched cand sched (init infos0 files0)
    ∀ p i, s.pc p = .move i → s.files (cand p i) = none ∧ s.infos (cand p i) = true :=
  Proofs.C04Par.move_target_free cand infos0 files0 sched

/-- A failed run leaves no stray info behind for the name it had taken (unless someone else's pair lives there). -/
theorem failed_leaves_nothing (cand : Nat → Nat → Name) (infos0 : Name → Bool) (files0 : Name → Option Nat)
    (sched : List (Nat × Bool)) :
    let s := runSched cand sched (init infos0 files0)
    ∀ p, s.pc p = .doneFail → s.atOrigin p = true := Proofs.C04Par.failed_leaves_nothing cand infos0 files0 sched

/-- non-vacuity: two processes racing for the same first name, interleaved call by call -/
example :
    let cand : Nat → Nat → Name := fun _ i => i
    let s := runSched cand [(0, true), (1, true), (0, true), (1, true), (1, true), (1, true), (0, true), (0, true), (0, true), (1, true),
                            (1, true), (1, true), (1, true)] (init (fun _ => false) (fun _ => none))
    s.pc 0 = .doneOk 0 ∧ s.pc 1 = .doneOk 1 := by decide

end TrashVerif.C04Par
