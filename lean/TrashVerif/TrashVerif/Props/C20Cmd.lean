/-
  Props/C20Cmd.lean — C20 for WHOLE COMMANDS over a world with SEVERAL trash directories:
  "For any .trashinfo - written by trash-put or by another implementation - trash-list, trash-restore,
   trash-rm and trash-empty agree on its meaning: the same absolute original location (an absolute Path is
   kept; a relative Path is resolved by every command against the same base directory, which for $topdir
   trash directories is $topdir), the same deletion date (first DeletionDate line; first Path line),
   unknown lines ignored. Hence what trash-list prints for an entry is the path trash-restore restores it
   to, the path trash-rm matches against, and the date trash-empty DAYS compares."

  Props/C20.lean has the per-reader facts (`meaningPath`, `meaningDate`, `list_reads`, `restore_reads`,
  `rm_reads`, `empty_reads`, `unknown_lines_ignored`, `bases_agree`), Props/C19Cmd.lean ONE entry of one
  scanned directory (`C20Cmd.commands_agree_on_entry`).  Here: the four whole commands on ONE world
  `PlainWorld fs ds` / `EmptyWorld fs ds` (Props/C12CmdDefs.lean, Props/C10CmdDefs.lean) with the trash directories
  `ds = d_1 … d_k`, each with the volume `d.v` the scan pairs it with.

  Vocabulary (Props/C20CmdDefs.lean).  `meaningOf fs cwd d n : Option (Bytes × Option Date)` — THE MEANING of
  the listed name `n` of `d`: `none` when the info file is unreadable or has no `Path` line, else
  `(C20.meaningPath d.v text, C20.meaningDate text)`: the first `Path` line, kept if absolute, joined to `d.v`
  — the volume OF THE DIRECTORY, `$topdir` for `$topdir/.Trash-uid` and `$topdir/.Trash/uid`, `/` for the home
  trash — otherwise; the first `DeletionDate` line if it parses.  `meanings fs cwd ds`: the meanings of the
  world, directory by directory in scan order, name by name in listing order.  `lineOfMeaning m` =
  `<date or question marks> <path>`.  `entries` / `entryOf`: the meaning with the info path.  `ListedOld days o m`:
  the date of the meaning is a date (not the question marks) and `olderThan days now` says yes.

  (1) `list_lines_are_meanings`      stdout of `trash-list` = the lines of `meanings`, in order; names without
                                     meaning give a diagnostic on STDERR (`diagOf`: "io-error" / "parse-error").
  (2) `restore_offers_the_listed`    what `trash-restore /` offers = `sortEntries` of `entries`: a permutation of
                                     them; its `(path, date)` pairs a permutation of `meanings`; with `--sort none`
                                     the very list.  `restored_to_the_listed_path`: the destination is the kernel's
                                     resolution of that path string, and the payload ends up there.
  (3) `rm_matches_the_listed`        `trash-rm PATTERN` removes exactly the names whose LISTED path matches.
  (4) `empty_compares_the_listed_date`  `trash-empty DAYS` removes a listed entry iff its LISTED date is `ListedOld`.
  (5) `four_way_agreement`           the conjunction on one world; non-vacuity world `WQ` evaluated.

  Nothing is `_partial`.  What the statements do NOT say, because it is false (REAL behaviour of /repo's code,
  kernel-checked below as `unlisted_but_purged`): "trash-empty DAYS purges only entries that trash-list shows".
  An info file WITHOUT `Path` line has no meaning, is not listed (stderr diagnostic), not offered, never matched
  — and `trash-empty DAYS` purges it when its `DeletionDate` is old: trash-empty never reads the Path
  (/repo/trashcli/empty/delete_according_date.py; also `C19Cmd.pathless_dated_neighbour_is_purged`).  For
  such names (4) is `C10Cmd.DatedOld`, which is about `meaningDate` too (`datedOld_is_meaningDate`).

  Hypotheses added to the fixed text: fault-free oracle for the mutating commands (trash-list: every oracle);
  `hscan` — the scanner of trash-list / trash-rm / trash-empty finds `ds`; `hscanR` — the trash directories of
  trash-restore whose `info/` can be listed are `ds` too (`restoreDirsWithInfo`; trash-restore tries
  `$topdir/.Trash-uid` for every mount point whether it exists or not, and reads the mount list, not
  TRASH_VOLUMES: `C20.bases_agree` / `C20Cmd.volumes_must_agree_counterexample`); both discharged by evaluation on
  the concrete world; `PlainWorld` / `EmptyWorld`; `pattern ≠ []`; for (4) DAYS, not `--dry-run`, consent, no
  DAYS overflow, no `--trash-dir` — exactly those of `C12Cmd.rm_command_selects_exactly` and
  `C10Cmd.empty_days_command_selects_exactly`; for (2) no `--trash-dir` and the scope `/`.
-/
import TrashVerif.Props.C20CmdDefs
import TrashVerif.Props.C12Cmd
import TrashVerif.Props.C10Cmd
import TrashVerif.Props.C19Cmd
import TrashVerif.Proofs.C20Cmd
import TrashVerif.Proofs.C20CmdEx
namespace TrashVerif.C20Cmd
open TrashVerif PutCore Prog FS C09Hist C10Loop C12Cmd C10Cmd C19Cmd

/-! ### bridges: one meaning, four vocabularies -/

/-- what `meaningOf … = some m` says -/
theorem meaningOf_some_iff (fs : FS) (cwd : CPath) (d : TDir) (n : Bytes) (m : Bytes × Option Date) :
    meaningOf fs cwd d n = some m ↔
      ∃ text, contentsOf fs cwd (infoStr (toStr d.T) n) = some text ∧ C20.meaningPath d.v text = some m.1 ∧
        C20.meaningDate text = m.2 := Proofs.C20Whole.meaningOf_some_iff

/-- BRIDGE to trash-rm (`C12Cmd.EntryAt`): the `loc` of `rm_command_selects_exactly` is the listed path -/
theorem entryAt_iff_meaning (fs : FS) (cwd : CPath) (d : TDir) (n loc : Bytes) :
    EntryAt fs cwd d n loc ↔ ∃ date, meaningOf fs cwd d n = some (loc, date) := Proofs.C20Whole.entryAt_iff_meaning

/-- BRIDGE to trash-empty (`C10Cmd.DatedOld`): for a listed entry, "dated and old" is about the listed date -/
theorem datedOld_iff_listedOld (fs : FS) (cwd : CPath) (d : TDir) (n : Bytes) (days : Nat) (o : EmptyOpts)
    (m : Bytes × Option Date) (hm : meaningOf fs cwd d n = some m) :
    DatedOld fs cwd days o d n ↔ ListedOld days o m := Proofs.C20Whole.datedOld_iff_listedOld hm

/-- … and for every name, listed or not, it is about `C20.meaningDate` of the text -/
theorem datedOld_is_meaningDate (fs : FS) (cwd : CPath) (d : TDir) (n : Bytes) (days : Nat) (o : EmptyOpts) :
    DatedOld fs cwd days o d n ↔ ∃ text dt, contentsOf fs cwd (infoStr (toStr d.T) n) = some text ∧
      C20.meaningDate text = some dt ∧ olderThan days o.now o.nowUs dt = .yes := Iff.rfl

/-- BRIDGE to trash-list: what it prints for one listed name — the line of the meaning on stdout, or, when
    there is no meaning, one diagnostic on STDERR ("io-error": unreadable; "parse-error": no `Path` line) -/
theorem list_one_is_meaning (fs : FS) (cwd : CPath) (d : TDir) (n : Bytes) :
    listOne fs cwd d.v (infoStr (toStr d.T) n) =
      (match meaningOf fs cwd d n with
       | some m => .stdout (lineOfMeaning m)
       | none => diagOf fs cwd (infoStr (toStr d.T) n)) := Proofs.C20Whole.listOne_meaning

/-- BRIDGE to trash-restore: the entry it builds from a `*.trashinfo` name is `entryOf` -/
theorem restore_item_is_meaning (fs : FS) (cwd : CPath) (d : TDir) (n : Bytes) (hn : isTrashinfoName n = true) :
    ReadDefs.restoreItem fs cwd (pjoin (toStr d.T) (b "info")) d.v n = entryOf fs cwd d n :=
  Proofs.C20Whole.restoreItem_meaning hn

/-! ### (1) trash-list -/

/-- `trash-list` on the world, under EVERY oracle: exit 0, no crash; the stdout lines are exactly, directory
    by directory and in listing order, `lineOfMeaning m` = `<date> <path>` for every listed name that has a
    meaning `m` (`meanings`); the stderr events are `listDiags`: one per skipped directory, one diagnostic
    per listed name WITHOUT meaning (`list_one_is_meaning`) — nothing of these on stdout. -/
theorem list_lines_are_meanings (φ : Oracle) (fs : FS) (c : ReadCfg) (ds : List TDir)
    (hscan : foundDirs (scanTrashDirs fs c) = ds.map TDir.pair) (W : PlainWorld fs ds) :
    (run φ (runList c []) { fs := fs }).1.exit = 0 ∧
    (run φ (runList c []) { fs := fs }).1.crash = none ∧
    (run φ (runList c []) { fs := fs }).2.outs.reverse.filter isStdout =
      ((meanings fs c.cwd ds).map fun m => Out.stdout (lineOfMeaning m)) ∧
    (run φ (runList c []) { fs := fs }).2.outs.reverse.filter (fun o => !isStdout o) =
      listDiags fs c.cwd (scanTrashDirs fs c) :=
  Proofs.C20Whole.list_lines_are_meanings φ fs c ds hscan W

/-! ### (2) trash-restore -/

/-- `trash-restore /` (no `--trash-dir`, ANY `--sort`): the offered list is `sortEntries` of `entries` — the
    meanings with their info paths —, hence a permutation of them, and its `(path, date)` pairs are a
    permutation of the `meanings` of (1): same path bytes, same dates, same multiplicities; every offered
    entry is the meaning of a listed name of one of the directories. -/
theorem restore_offers_the_listed (fs : FS) (c : ReadCfg) (o : RestoreOpts) (ds : List TDir)
    (hscanR : restoreDirsWithInfo fs c = ds.map TDir.pair) (W : PlainWorld fs ds) (ho : o.trashDir = none)
    (hp : o.path = [slash]) :
    (C13Cmd.offered fs c o).Perm (entries fs c.cwd ds) ∧
    ((C13Cmd.offered fs c o).map pairOf).Perm (meanings fs c.cwd ds) ∧
    C13Cmd.offered fs c o = sortEntries o.sort (entries fs c.cwd ds) ∧
    (∀ e ∈ C13Cmd.offered fs c o, ∃ d ∈ ds, ∃ n ∈ d.names,
      meaningOf fs c.cwd d n = some (e.loc, e.date) ∧ e.info = infoStr (toStr d.T) n) :=
  Proofs.C20Whole.restore_offers_the_listed fs c o ds hscanR W ho hp

/-- One half of `hscanR` follows from `hscan`: when trash-restore reads the same volume list as the scanner
    (`listVolumes c = c.mountPoints`: no TRASH_VOLUMES; `C20.bases_agree`), every scanned directory of a plain world
    is among trash-restore's directories with a listable `info/`, with the SAME base.  What `hscanR` adds: the
    other candidates of trash-restore (`$topdir/.Trash-uid` of a mount point without one) have no listable
    `info/`, and the order is the scan order — checked by evaluation on the concrete world. -/
theorem scan_dirs_are_restore_dirs (fs : FS) (c : ReadCfg) (ds : List TDir) (hvol : listVolumes c = c.mountPoints)
    (hscan : foundDirs (scanTrashDirs fs c) = ds.map TDir.pair) (W : PlainWorld fs ds) :
    ∀ d ∈ ds, d.pair ∈ restoreDirsWithInfo fs c := Proofs.C20Whole.scan_dirs_are_restore_dirs c hvol hscan W

/-- … and restoring (setting of `C13Cmd.restore_selects_exactly` for the selected items): exit 0; every
    selected entry is the meaning of a listed name; its destination `dst` is the kernel's resolution of
    THAT path string; the whole payload ends up at `dst`. -/
theorem restored_to_the_listed_path (fs : FS) (c : ReadCfg) (o : RestoreOpts) (ds : List TDir)
    (hscanR : restoreDirsWithInfo fs c = ds.map TDir.pair) (W : PlainWorld fs ds) (ho : o.trashDir = none)
    (hp : o.path = [slash]) (reply : Bytes) (I F : CPath) (idxs : List Nat) (sel : List C13Cmd.Item)
    (hreply : parseIndexes reply (C13Cmd.offered fs c o).length = .ok idxs)
    (hsel : C13Cmd.selected (C13Cmd.offered fs c o) idxs = sel.map (·.e))
    (S : C13Cmd.RSetting fs c.cwd I F sel) :
    (run noFaults (runRestore c o (some reply)) { fs := fs }).1.exit = 0 ∧
    (run noFaults (runRestore c o (some reply)) { fs := fs }).1.crash = none ∧
    ∀ it ∈ sel,
      (∃ d ∈ ds, ∃ n ∈ d.names, meaningOf fs c.cwd d n = some (it.e.loc, it.e.date) ∧ it.e.info = infoStr (toStr d.T) n) ∧
      FS.resolve fs c.cwd it.e.loc = .ok it.dst ∧
      (∀ rel, (run noFaults (runRestore c o (some reply)) { fs := fs }).2.fs.get (it.dst ++ rel) =
        fs.get (F ++ [stemOf it.name] ++ rel)) :=
  Proofs.C20Whole.restored_to_the_listed_path fs c o ds hscanR W ho hp reply I F idxs sel hreply hsel S

/-! ### (3) trash-rm -/

/-- `trash-rm PATTERN` (non-empty; in particular one starting with '/', matched against the whole path:
    `C12Cmd.literal_matches_full_path`): a listed name with the meaning `m` is `Gone` — info file and whole
    payload — IFF `rmMatches pattern m.1 = some true`, `m.1` being the path of the line of (1); otherwise it
    is `Intact`; a listed name without meaning is `Intact`. -/
theorem rm_matches_the_listed (fs : FS) (c : ReadCfg) (pattern : Bytes) (more : List Bytes) (ds : List TDir)
    (hscan : foundDirs (scanTrashDirs fs c) = ds.map TDir.pair) (W : PlainWorld fs ds) (hp : pattern ≠ []) :
    (run noFaults (runRm c (pattern :: more)) { fs := fs }).1.exit = 0 ∧
    (run noFaults (runRm c (pattern :: more)) { fs := fs }).1.crash = none ∧
    (∀ d ∈ ds, ∀ n ∈ d.names,
      (∀ m, meaningOf fs c.cwd d n = some m →
        (Gone (run noFaults (runRm c (pattern :: more)) { fs := fs }).2.fs d n ↔ rmMatches pattern m.1 = some true) ∧
        (rmMatches pattern m.1 ≠ some true → Intact fs (run noFaults (runRm c (pattern :: more)) { fs := fs }).2.fs d n)) ∧
      (meaningOf fs c.cwd d n = none → Intact fs (run noFaults (runRm c (pattern :: more)) { fs := fs }).2.fs d n)) :=
  Proofs.C20Whole.rm_matches_the_listed fs c pattern more ds hscan W hp

/-- in particular a LITERAL full-path pattern (starts with '/', no `*`, `?`, `[`): `trash-rm /the/path` removes
    exactly the entries whose listed path IS that byte string (`C12Cmd.literal_matches_full_path`) -/
theorem rm_full_path_is_the_listed_path (fs : FS) (c : ReadCfg) (pattern : Bytes) (more : List Bytes) (ds : List TDir)
    (hscan : foundDirs (scanTrashDirs fs c) = ds.map TDir.pair) (W : PlainWorld fs ds)
    (hs : pattern.head? = some slash) (hlit : ∀ x ∈ pattern, x ≠ 42 ∧ x ≠ 63 ∧ x ≠ 91) :
    ∀ d ∈ ds, ∀ n ∈ d.names, ∀ m, meaningOf fs c.cwd d n = some m →
      (Gone (run noFaults (runRm c (pattern :: more)) { fs := fs }).2.fs d n ↔ m.1 = pattern) := by
  intro d hd n hn m hm
  have hp : pattern ≠ [] := by intro e; rw [e] at hs; cases hs
  have h := (((rm_matches_the_listed fs c pattern more ds hscan W hp).2.2 d hd n hn).1 m hm).1
  rw [C12Cmd.literal_matches_full_path pattern m.1 hs hlit] at h
  refine h.trans ?_
  simp only [Option.some.injEq, decide_eq_true_eq]

/-! ### (4) trash-empty DAYS -/

/-- `trash-empty DAYS` (no `--trash-dir`; hypotheses of `C10Cmd.empty_days_command_selects_exactly`): a listed
    name with the meaning `m` is `Gone` IFF `ListedOld days o m` — the date of the line of (1) is a date, not
    the question marks, and is older than DAYS days —; otherwise it is `Intact`.
    (Names WITHOUT meaning: `C10Cmd.DatedOld` decides, `datedOld_is_meaningDate`; `unlisted_but_purged`.) -/
theorem empty_compares_the_listed_date (fs : FS) (c : ReadCfg) (o : EmptyOpts) (reply : Option Bytes) (ds : List TDir)
    (days : Nat) (hscan : foundDirs (scanTrashDirs fs c) = ds.map TDir.pair) (W : EmptyWorld fs ds)
    (hu : o.userDirs = []) (hdays : o.days = some days) (hdry : o.dryRun = false)
    (hgo : o.interactive = false ∨ ∃ r, reply = some r ∧ emptyReplyYes r = true)
    (hno : ∀ dt, olderThan days o.now o.nowUs dt ≠ .overflow) :
    (run noFaults (runEmpty c o reply) { fs := fs }).1.exit = 0 ∧
    (run noFaults (runEmpty c o reply) { fs := fs }).1.crash = none ∧
    (∀ d ∈ ds, ∀ n ∈ d.names, ∀ m, meaningOf fs c.cwd d n = some m →
      (Gone (run noFaults (runEmpty c o reply) { fs := fs }).2.fs d n ↔ ListedOld days o m) ∧
      (¬ ListedOld days o m → Intact fs (run noFaults (runEmpty c o reply) { fs := fs }).2.fs d n)) :=
  Proofs.C20Whole.empty_compares_the_listed_date fs c o reply ds days hscan W hu hdays hdry hgo hno

/-! ### (5) the four commands on one world -/

/-- FOUR-WAY AGREEMENT.  One world: the trash directories `ds`, found by the scanner of trash-list / trash-rm /
    trash-empty (`hscan`) and by trash-restore (`hscanR`), plain (`EmptyWorld`).  ONE function — `meaningOf`,
    built from `C20.meaningPath` (absolute Path kept, relative Path joined to the volume of the directory) and
    `C20.meaningDate` (first DeletionDate line) — governs all four commands:
    (1) trash-list prints, in order, exactly the lines `<date> <path>` of `meanings`;
    (2) `trash-restore /` offers, up to its sort, exactly the entries with these paths and these dates, and
        restores a selected one to the kernel's resolution of that path;
    (3) `trash-rm PATTERN` removes a listed entry iff PATTERN matches that path;
    (4) `trash-empty DAYS` removes a listed entry iff that date — a date, not question marks — is older than
        DAYS days. -/
theorem four_way_agreement (fs : FS) (c : ReadCfg) (ds : List TDir)
    (hscan : foundDirs (scanTrashDirs fs c) = ds.map TDir.pair)
    (hscanR : restoreDirsWithInfo fs c = ds.map TDir.pair) (W : EmptyWorld fs ds) :
    -- (1) trash-list
    (∀ φ : Oracle,
      (run φ (runList c []) { fs := fs }).1.exit = 0 ∧
      (run φ (runList c []) { fs := fs }).2.outs.reverse.filter isStdout =
        ((meanings fs c.cwd ds).map fun m => Out.stdout (lineOfMeaning m))) ∧
    -- (2) trash-restore /
    (∀ o : RestoreOpts, o.trashDir = none → o.path = [slash] →
      ((C13Cmd.offered fs c o).map pairOf).Perm (meanings fs c.cwd ds) ∧
      (∀ e ∈ C13Cmd.offered fs c o, ∃ d ∈ ds, ∃ n ∈ d.names,
        meaningOf fs c.cwd d n = some (e.loc, e.date) ∧ e.info = infoStr (toStr d.T) n) ∧
      ∀ (reply : Bytes) (I F : CPath) (idxs : List Nat) (sel : List C13Cmd.Item),
        parseIndexes reply (C13Cmd.offered fs c o).length = .ok idxs →
        C13Cmd.selected (C13Cmd.offered fs c o) idxs = sel.map (·.e) → C13Cmd.RSetting fs c.cwd I F sel →
        ∀ it ∈ sel, FS.resolve fs c.cwd it.e.loc = .ok it.dst ∧
          (∀ rel, (run noFaults (runRestore c o (some reply)) { fs := fs }).2.fs.get (it.dst ++ rel) =
            fs.get (F ++ [stemOf it.name] ++ rel))) ∧
    -- (3) trash-rm PATTERN
    (∀ (pattern : Bytes) (more : List Bytes), pattern ≠ [] →
      ∀ d ∈ ds, ∀ n ∈ d.names, ∀ m, meaningOf fs c.cwd d n = some m →
        (Gone (run noFaults (runRm c (pattern :: more)) { fs := fs }).2.fs d n ↔ rmMatches pattern m.1 = some true) ∧
        (rmMatches pattern m.1 ≠ some true → Intact fs (run noFaults (runRm c (pattern :: more)) { fs := fs }).2.fs d n)) ∧
    -- (4) trash-empty DAYS
    (∀ (o : EmptyOpts) (reply : Option Bytes) (days : Nat), o.userDirs = [] → o.days = some days → o.dryRun = false →
      (o.interactive = false ∨ ∃ r, reply = some r ∧ emptyReplyYes r = true) →
      (∀ dt, olderThan days o.now o.nowUs dt ≠ .overflow) →
      ∀ d ∈ ds, ∀ n ∈ d.names, ∀ m, meaningOf fs c.cwd d n = some m →
        (Gone (run noFaults (runEmpty c o reply) { fs := fs }).2.fs d n ↔ ListedOld days o m) ∧
        (¬ ListedOld days o m → Intact fs (run noFaults (runEmpty c o reply) { fs := fs }).2.fs d n)) := by
  refine ⟨fun φ => ?_, fun o ho hp => ?_, fun pattern more hp d hd n hn m hm => ?_,
    fun o reply days hu hdays hdry hgo hno d hd n hn m hm => ?_⟩
  · have h := list_lines_are_meanings φ fs c ds hscan W.world
    exact ⟨h.1, h.2.2.1⟩
  · have h := restore_offers_the_listed fs c o ds hscanR W.world ho hp
    refine ⟨h.2.1, h.2.2.2, fun reply I F idxs sel hreply hsel S it hit => ?_⟩
    have h' := (restored_to_the_listed_path fs c o ds hscanR W.world ho hp reply I F idxs sel hreply hsel S).2.2 it hit
    exact ⟨h'.2.1, h'.2.2⟩
  · exact ((rm_matches_the_listed fs c pattern more ds hscan W.world hp).2.2 d hd n hn).1 m hm
  · exact (empty_compares_the_listed_date fs c o reply ds days hscan W hu hdays hdry hgo hno).2.2 d hd n hn m hm

/-! ### non-vacuity: the world `WQ` (Proofs/C20CmdEx.lean), everything below checked by the kernel

  Two volumes, `/` and the mount point `/m`; HOME=/h, uid 1000; 2024-03-31 12:00:00.
  Home trash (volume `/`): `doc` (Path=/q/doc, 2024-01-05T10:00:00); `dup` — an unknown line before the header,
  Path=/q/first, an unknown key, DeletionDate=2024-03-25T08:00:00, then a second Path=/q/second and a second
  DeletionDate=2020-01-01T00:00:00.  Volume trash `/m/.Trash-1000` (volume `/m`): `rel` (Path=src/rel, relative;
  2024-02-01), `nodate` (Path=src/nd), `nopath` (no Path; 2020-01-01). -/
section examples
open TrashVerif.Proofs.C20CmdEx
open TrashVerif.Proofs.C08CmdEx (rc)
open TrashVerif.Proofs.C12CmdEx (HF HI AF AI)

/-- the hypotheses of `four_way_agreement` hold -/
example : foundDirs (scanTrashDirs WQ rc) = [dH, dA].map TDir.pair ∧ restoreDirsWithInfo WQ rc = [dH, dA].map TDir.pair ∧
    EmptyWorld WQ [dH, dA] ∧ (∀ dt, olderThan 30 o30.now o30.nowUs dt ≠ .overflow) :=
  ⟨WQ_scan, WQ_scanR, WQ_world, WQ_no_overflow⟩

/-- the meanings: first Path / first date for `dup`, `/m` joined for `rel` and `nodate`, none for `nopath` -/
example : meanings WQ rc.cwd [dH, dA] =
    [(b "/q/doc", some ⟨2024, 1, 5, 10, 0, 0⟩), (b "/q/first", some ⟨2024, 3, 25, 8, 0, 0⟩),
     (b "/m/src/nd", none), (b "/m/src/rel", some ⟨2024, 2, 1, 0, 0, 0⟩)] := WQ_meanings

/-- SIDE BY SIDE, each command evaluated on its own:
    trash-list — four lines and one stderr diagnostic;
    `trash-restore --sort none /` — the same four (path, date) pairs in the same order, and sorted by date (the
    default) the same four, undated first;
    `trash-rm /m/src/rel` — exactly `rel` gone;
    `trash-empty 30` — `doc` and `rel` gone (listed dates January, 1 February), `dup` (listed 25 March; its second
    date, 2020, ignored) and `nodate` (question marks) kept. -/
theorem side_by_side :
    (run noFaults (runList rc []) { fs := WQ }).2.outs.reverse =
      [.stdout (b "2024-01-05 10:00:00 /q/doc"),
       .stdout (b "2024-03-25 08:00:00 /q/first"),
       .stdout (b "????-??-?? ??:??:?? /m/src/nd"),
       .stderr "parse-error" (b "/m/.Trash-1000/info/nopath.trashinfo"),
       .stdout (b "2024-02-01 00:00:00 /m/src/rel")] ∧
    (C13Cmd.offered WQ rc opN).map pairOf =
      [(b "/q/doc", some ⟨2024, 1, 5, 10, 0, 0⟩), (b "/q/first", some ⟨2024, 3, 25, 8, 0, 0⟩),
       (b "/m/src/nd", none), (b "/m/src/rel", some ⟨2024, 2, 1, 0, 0, 0⟩)] ∧
    (C13Cmd.offered WQ rc op).map pairOf =
      [(b "/m/src/nd", none), (b "/q/doc", some ⟨2024, 1, 5, 10, 0, 0⟩),
       (b "/m/src/rel", some ⟨2024, 2, 1, 0, 0, 0⟩), (b "/q/first", some ⟨2024, 3, 25, 8, 0, 0⟩)] ∧
    (run noFaults (runRm rc [b "/m/src/rel"]) { fs := WQ }).2.fs.toList = nodesQ.filter (fun pn =>
      pn.1 ∉ [AI ++ [b "rel.trashinfo"], AF ++ [b "rel"]]) ∧
    (run noFaults (runEmpty rc o30 none) { fs := WQ }).2.fs.toList = nodesQ.filter (fun pn =>
      pn.1 ∉ [HI ++ [b "doc.trashinfo"], HF ++ [b "doc"], AI ++ [b "rel.trashinfo"], AF ++ [b "rel"],
               AI ++ [b "nopath.trashinfo"], AF ++ [b "nopath"]]) := by
  refine ⟨WQ_list_run.2, ?_, WQ_offered_date, ?_, ?_⟩
  · rw [WQ_offered_none]; decide +kernel
  · rw [Proofs.C11CmdEval.rm_twin]; exact WQ_rm_run.2
  · rw [Proofs.C11CmdEval.empty_twin]; exact WQ_empty_run.2

/-- the theorem instantiated on `WQ`: trash-list's stdout is the lines of `meanings`; what `trash-restore /`
    offers is a permutation of `meanings`; `trash-rm /m/src/rel` — `rel` is `Gone`, `nodate` `Intact`; `trash-empty 30` —
    `dup` is `Intact` (its FIRST date is young), `rel` is `Gone` -/
example :
    (run noFaults (runList rc []) { fs := WQ }).2.outs.reverse.filter isStdout =
      ((meanings WQ rc.cwd [dH, dA]).map fun m => Out.stdout (lineOfMeaning m)) ∧
    ((C13Cmd.offered WQ rc op).map pairOf).Perm (meanings WQ rc.cwd [dH, dA]) ∧
    Gone (run noFaults (runRm rc [b "/m/src/rel"]) { fs := WQ }).2.fs dA (b "rel.trashinfo") ∧
    Intact WQ (run noFaults (runRm rc [b "/m/src/rel"]) { fs := WQ }).2.fs dA (b "nodate.trashinfo") ∧
    Intact WQ (run noFaults (runEmpty rc o30 none) { fs := WQ }).2.fs dH (b "dup.trashinfo") ∧
    Gone (run noFaults (runEmpty rc o30 none) { fs := WQ }).2.fs dA (b "rel.trashinfo") := by
  obtain ⟨h1, h2, h3, h4⟩ := four_way_agreement WQ rc [dH, dA] WQ_scan WQ_scanR WQ_world
  have hA : dA ∈ [dH, dA] := List.mem_cons_of_mem _ List.mem_cons_self
  have hH : dH ∈ [dH, dA] := List.mem_cons_self
  have h4' := h4 o30 none 30 rfl rfl rfl (Or.inl rfl) WQ_no_overflow
  refine ⟨(h1 noFaults).2, (h2 op rfl (by decide +kernel)).1, ?_, ?_, ?_, ?_⟩
  · exact (h3 (b "/m/src/rel") [] (by decide +kernel) dA hA _ (by decide +kernel) _ WQ_meaningOf.2.2.2.2).1.2 WQ_verdicts.2.2.2.1
  · exact (h3 (b "/m/src/rel") [] (by decide +kernel) dA hA _ (by decide +kernel) _ WQ_meaningOf.2.2.1).2
      (by rw [WQ_verdicts.2.2.1]; decide)
  · refine (h4' dH hH _ (by decide +kernel) _ WQ_meaningOf.2.1).2 ?_
    rintro ⟨dt, hdt, ho⟩
    cases hdt
    have := WQ_verdicts.2.2.2.2.2.1
    rw [show olderThan 30 o30.now o30.nowUs ⟨2024, 3, 25, 8, 0, 0⟩ = olderThan 30 nowQ 0 ⟨2024, 3, 25, 8, 0, 0⟩ from rfl, this] at ho
    cases ho
  · exact (h4' dA hA _ (by decide +kernel) _ WQ_meaningOf.2.2.2.2).1.2 ⟨_, rfl, WQ_verdicts.2.2.2.2.2.2⟩

/-- WHAT IS NOT CLAIMED (REAL behaviour of /repo's code: `trash-empty DAYS` never reads the `Path` line): `nopath`
    has no meaning, trash-list shows it on stderr only, trash-restore does not offer it, `trash-rm '*'` leaves it
    — and `trash-empty 30` purges it, info file and payload, because its DeletionDate (2020) is old. -/
theorem unlisted_but_purged :
    meaningOf WQ rc.cwd dA (b "nopath.trashinfo") = none ∧
    listOne WQ rc.cwd dA.v (infoStr (toStr dA.T) (b "nopath.trashinfo")) =
      .stderr "parse-error" (b "/m/.Trash-1000/info/nopath.trashinfo") ∧
    (∀ e ∈ C13Cmd.offered WQ rc op, e.info ≠ b "/m/.Trash-1000/info/nopath.trashinfo") ∧
    Intact WQ (run noFaults (runRm rc [b "*"]) { fs := WQ }).2.fs dA (b "nopath.trashinfo") ∧
    DatedOld WQ rc.cwd 30 o30 dA (b "nopath.trashinfo") ∧
    Gone (run noFaults (runEmpty rc o30 none) { fs := WQ }).2.fs dA (b "nopath.trashinfo") := by
  have hA : dA ∈ [dH, dA] := List.mem_cons_of_mem _ List.mem_cons_self
  have hD : DatedOld WQ rc.cwd 30 o30 dA (b "nopath.trashinfo") := WQ_nopath_old
  refine ⟨WQ_meaningOf.2.2.2.1, ?_, WQ_nopath_not_offered, ?_, hD, ?_⟩
  · rw [list_one_is_meaning, WQ_meaningOf.2.2.2.1]; exact WQ_nopath_diag
  · exact ((rm_matches_the_listed WQ rc (b "*") [] [dH, dA] WQ_scan WQ_world.world (by decide +kernel)).2.2 dA hA _
      (by decide +kernel)).2 WQ_meaningOf.2.2.2.1
  · exact ((C10Cmd.empty_days_command_selects_exactly WQ rc o30 none [dH, dA] 30
      (by rw [show o30.userDirs = [] from rfl, Proofs.C20Whole.selectTrashDirs_nil]; exact WQ_scan) WQ_world rfl rfl
      (Or.inl rfl) WQ_no_overflow).2.2.1 dA hA _ (by decide +kernel)).1.2 hD

end examples

end TrashVerif.C20Cmd

#print axioms TrashVerif.C20Cmd.meaningOf_some_iff
#print axioms TrashVerif.C20Cmd.entryAt_iff_meaning
#print axioms TrashVerif.C20Cmd.datedOld_iff_listedOld
#print axioms TrashVerif.C20Cmd.datedOld_is_meaningDate
#print axioms TrashVerif.C20Cmd.list_one_is_meaning
#print axioms TrashVerif.C20Cmd.restore_item_is_meaning
#print axioms TrashVerif.C20Cmd.list_lines_are_meanings
#print axioms TrashVerif.C20Cmd.restore_offers_the_listed
#print axioms TrashVerif.C20Cmd.restored_to_the_listed_path
#print axioms TrashVerif.C20Cmd.scan_dirs_are_restore_dirs
#print axioms TrashVerif.C20Cmd.rm_matches_the_listed
#print axioms TrashVerif.C20Cmd.rm_full_path_is_the_listed_path
#print axioms TrashVerif.C20Cmd.empty_compares_the_listed_date
#print axioms TrashVerif.C20Cmd.four_way_agreement
#print axioms TrashVerif.C20Cmd.side_by_side
#print axioms TrashVerif.C20Cmd.unlisted_but_purged
#print axioms TrashVerif.Proofs.C20CmdEx.WQ_world
