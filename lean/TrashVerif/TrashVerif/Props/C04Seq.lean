/-
  Props/C04Seq.lean — C04, the UNBOUNDED sequential half: N entries (base names arbitrary, in
  particular all equal) trashed one after another by the put core into the same trash directory, for
  every N, by induction over the list of puts.  (One and two puts: Props/C04.lean; the concurrent half:
  Props/C04Par.lean.)

  Setting (`Props/C04SeqDefs.lean`): `Puts I F fs0 st0 ks fsN stN` — the chain of successful puts; each
  `k ∈ ks` records the entry `(k.src, k.base, k.content)`, the name `k.name` (= `N.trashinfo`) the core
  returned and the state `k.pre` the put started in (the state — file system and `PutSt` — its
  predecessor left).

  SIDE CONDITION.  Each put is in the `Setting` of the put core in the state it starts in.  The clause of
  it that matters for "however many puts followed" is `Setting.notInside`: the source of a LATER put is
  not inside `info/` or `files/` of the trash directory — in particular it is not the payload or the
  info file of an EARLIER put.  Both halves are needed: `n_puts_needs_outside_files`,
  `n_puts_needs_outside_info` below are kernel-checked runs in which every other clause of `Setting`
  holds and an earlier put's pair is torn apart.  This is REAL behaviour of /repo's code (by reading
  it: `trash-put` has no check that its argument lies outside the trash directory it is about to use;
  `InfoFilePersister.try_persist` only looks for a free name and `shutil.move` moves `files/x` to
  `files/x_1`, leaving `info/x.trashinfo` orphaned).
-/
import TrashVerif.Props.C04SeqDefs
import TrashVerif.Proofs.C04Seq
import TrashVerif.Proofs.C04SeqSame
import TrashVerif.Proofs.C04SeqEx
namespace TrashVerif.C04Seq
open TrashVerif PutCore Prog

/-- 1. The N names taken are pairwise distinct (as info names and as payload names); each was free —
    both `info/<name>.trashinfo` and `files/<name>` — in the state it was taken in; and each is
    distinct from every name present in the trash directory initially (both were free in `fs0`). -/
theorem n_puts_distinct_pairs (I F : CPath) (fs0 fsN : FS) (st0 stN : PutSt) (ks : List Step)
    (h : Puts I F fs0 st0 ks fsN stN) :
    (ks.map (·.name)).Pairwise (· ≠ ·) ∧ (ks.map fun k => stemOf k.name).Pairwise (· ≠ ·) ∧
    (∀ k ∈ ks, k.pre.get (I ++ [k.name]) = none ∧ k.pre.get (F ++ [stemOf k.name]) = none) ∧
    (∀ k ∈ ks, fs0.get (I ++ [k.name]) = none ∧ fs0.get (F ++ [stemOf k.name]) = none) :=
  ⟨(Proofs.C04Seq.names_pairwise h).1, (Proofs.C04Seq.names_pairwise h).2, Proofs.C04Seq.free_pre h,
    Proofs.C04Seq.free_start h⟩

/-- 2. In the final state every payload and every info entry that was in the trash directory initially
    is exactly as it was (same node, same subtree), and the payload of EVERY put of the sequence is
    whole under `files/<name_k>` — the subtree that was at `src_k` when its put started — next to
    `info/<name_k>.trashinfo` with the content written for it, however many puts followed it. -/
theorem n_puts_preserve_earlier (I F : CPath) (fs0 fsN : FS) (st0 stN : PutSt) (ks : List Step)
    (h : Puts I F fs0 st0 ks fsN stN) :
    (∀ n, (fs0.get (F ++ [n])).isSome = true → ∀ rel, fsN.get (F ++ [n] ++ rel) = fs0.get (F ++ [n] ++ rel)) ∧
    (∀ n, (fs0.get (I ++ [n])).isSome = true → ∀ rel, fsN.get (I ++ [n] ++ rel) = fs0.get (I ++ [n] ++ rel)) ∧
    (∀ k ∈ ks, (∀ rel, fsN.get (F ++ [stemOf k.name] ++ rel) = k.pre.get (k.src ++ rel)) ∧
      fsN.get (I ++ [k.name]) = some (.file k.content 0o600 0)) :=
  ⟨Proofs.C04Seq.keep_files h, Proofs.C04Seq.keep_info h, Proofs.C04Seq.pairs_whole h⟩

/-- Why the sources of later puts must lie outside `files/` (`Setting.notInside`, second half): put 1
    trashes `/a/x` as `files/x`; put 2 is given `files/x` itself — every clause of `Setting` holds for it
    except `¬ under F src2` — and succeeds (as `x_1`); afterwards nothing is under `files/x`, while
    `info/x.trashinfo` is still there: the pair of put 1 is torn apart. -/
theorem n_puts_needs_outside_files :
    ∃ (fs : FS) (I F src1 src2 : CPath) (base c1 c2 : Bytes) (st0 st1 st2 : PutSt) (n1 n2 : Bytes) (s1 s2 : RunState),
      Setting fs I F src1 ∧
      run noFaults (putCore I F base c1 (fun _ => .ok src1) st0) { fs := fs } = ((.ok n1, st1), s1) ∧
      (s1.fs.isDirAt I = true ∧ s1.fs.isDirAt F = true ∧
        (¬ FS.under I F = true ∧ ¬ FS.under F I = true) ∧ (s1.fs.get src2).isSome = true ∧ src2 ≠ [] ∧
        s1.fs.isMount src2 = false ∧ s1.fs.dev (FS.parent src2) = s1.fs.dev F ∧
        (¬ FS.under src2 I = true ∧ ¬ FS.under src2 F = true) ∧ ¬ FS.under I src2 = true) ∧
      run noFaults (putCore I F base c2 (fun _ => .ok src2) st1) { fs := s1.fs } = ((.ok n2, st2), s2) ∧
      s2.fs.get (F ++ [stemOf n1]) = none ∧ s2.fs.get (I ++ [n1]) = some (.file c1 0o600 0) :=
  Proofs.C04SeqEx.needs_outside_files

/-- … and outside `info/` (`Setting.notInside`, first half): put 2 is given `info/x.trashinfo`, the info
    file of put 1, and trashes it (as `y`): `files/x` is left without its info file. -/
theorem n_puts_needs_outside_info :
    ∃ (fs : FS) (I F src1 src2 : CPath) (b1 b2 c1 c2 : Bytes) (st0 st1 st2 : PutSt) (n1 n2 : Bytes) (s1 s2 : RunState),
      Setting fs I F src1 ∧
      run noFaults (putCore I F b1 c1 (fun _ => .ok src1) st0) { fs := fs } = ((.ok n1, st1), s1) ∧
      (s1.fs.isDirAt I = true ∧ s1.fs.isDirAt F = true ∧
        (¬ FS.under I F = true ∧ ¬ FS.under F I = true) ∧ (s1.fs.get src2).isSome = true ∧ src2 ≠ [] ∧
        s1.fs.isMount src2 = false ∧ s1.fs.dev (FS.parent src2) = s1.fs.dev F ∧
        (¬ FS.under src2 I = true ∧ ¬ FS.under src2 F = true) ∧ ¬ FS.under F src2 = true) ∧
      run noFaults (putCore I F b2 c2 (fun _ => .ok src2) st1) { fs := s1.fs } = ((.ok n2, st2), s2) ∧
      s2.fs.get (I ++ [n1]) = none ∧ (s2.fs.get (F ++ [stemOf n1])).isSome = true :=
  Proofs.C04SeqEx.needs_outside_info

/-- 3. The names in `files/` (resp. `info/`) after the N puts are the initial ones plus exactly the N
    new ones — nothing else appeared, nothing disappeared.  (With part 1 — the new names are pairwise
    distinct and none of them was there initially — this is "N more complete pairs".)  Stated on
    `FS.get`: the model's `FS.dom` is only a hint for listings and carries no invariant. -/
theorem n_puts_count (I F : CPath) (fs0 fsN : FS) (st0 stN : PutSt) (ks : List Step)
    (h : Puts I F fs0 st0 ks fsN stN) :
    (∀ n, (fsN.get (F ++ [n])).isSome = true ↔
      ((fs0.get (F ++ [n])).isSome = true ∨ n ∈ ks.map fun k => stemOf k.name)) ∧
    (∀ n, (fsN.get (I ++ [n])).isSome = true ↔
      ((fs0.get (I ++ [n])).isSome = true ∨ n ∈ ks.map (·.name))) ∧
    (ks.map (·.name)).length = ks.length ∧ (ks.map fun k => stemOf k.name).length = ks.length :=
  ⟨Proofs.C04Seq.count_files h, Proofs.C04Seq.count_info h, List.length_map _, List.length_map _⟩

/-- What the model's candidate function does: attempt `i < 100` of `Suffix.suffix_for_index` yields
    `sfx i` — nothing for `i = 0`, `_i` after — and consumes no scripted random number. -/
theorem suffixFor_first_hundred (i : Nat) (hi : i < 100) (st : PutSt) : suffixFor i st = (sfx i, st) :=
  Proofs.C04SeqSame.suffixFor_lt i hi st

/-- 4. The same base name N ≤ 100 times, into a trash directory that holds none of `base`, `base_1`, …,
    `base_{N-1}` (neither as payload nor as info file): the names taken are exactly
    `base.trashinfo`, `base_1.trashinfo`, …, `base_{N-1}.trashinfo`, in this order, and no scripted
    random number was consumed.  (`base.length + 13 ≤ 255`: the longest of these names fits NAME_MAX, so
    the truncation branch of `create_trashinfo_basename` is not entered.  Distinctness of these names
    is `C04.suffixes_distinct`, used in the proof.) -/
theorem n_same_base_names (I F : CPath) (fs0 fsN : FS) (st0 stN : PutSt) (ks : List Step) (base : Bytes)
    (h : Puts I F fs0 st0 ks fsN stN) (hN : ks.length ≤ 100) (hb : ∀ k ∈ ks, k.base = base)
    (hlen : base.length + 13 ≤ 255)
    (hfree : ∀ i, i < ks.length →
      fs0.get (F ++ [base ++ sfx i]) = none ∧ fs0.get (I ++ [base ++ sfx i ++ trashinfoExt]) = none) :
    ks.map (·.name) = (List.range ks.length).map (fun i => base ++ sfx i ++ trashinfoExt) ∧ stN = st0 := by
  have := Proofs.C04SeqSame.same_base_from h hlen 0 (by omega) hb (fun i hi => absurd hi (Nat.not_lt_zero i))
    (fun i _ h2 => hfree i (by omega))
  rw [List.range_eq_range']
  exact this

/-- the executable chain `putSeq` (used to evaluate concrete worlds) is a `Puts` chain of its items -/
theorem putSeq_is_chain (I F : CPath) (items : List (CPath × Bytes × Bytes)) (st : PutSt) (fs : FS)
    (ks : List Step) (fsN : FS) (stN : PutSt) (h : putSeq I F items st fs = some (ks, fsN, stN)) :
    Puts I F fs st ks fsN stN ∧ ks.map (fun k => (k.src, k.base, k.content)) = items :=
  Proofs.C04Seq.putSeq_sound I F items st fs ks fsN stN h

/-- 5. Non-vacuity: the world `Proofs.C04SeqEx.fsW` — an empty trash directory `/t`, the file `/a/x`, the
    directory tree `/b/x` (`in`, `sub/deep`), the dangling link `/c/x` — and the three entries, all
    named `x`, trashed in sequence: a `Puts` chain exists; the names are `x`, `x_1`, `x_2`; `files/`
    and `info/` hold exactly three entries each (`FS.children` lists newest first); the last component
    is EVERY node of the final state (the tree is whole under `files/x_1`).  Evaluated by the kernel. -/
theorem three_same_named :
    ∃ ks fsN stN, Puts Proofs.C04SeqEx.I Proofs.C04SeqEx.F Proofs.C04SeqEx.fsW Proofs.C04SeqEx.st0 ks fsN stN ∧
      ks.map (fun k => (k.src, k.base, k.content)) =
        [([b "a", b "x"], b "x", b "i1"), ([b "b", b "x"], b "x", b "i2"), ([b "c", b "x"], b "x", b "i3")] ∧
      ks.map (·.name) = [b "x.trashinfo", b "x_1.trashinfo", b "x_2.trashinfo"] ∧
      FS.children fsN [b "t", b "files"] =
        [[b "t", b "files", b "x_2"], [b "t", b "files", b "x_1"], [b "t", b "files", b "x"]] ∧
      FS.children fsN [b "t", b "info"] =
        [[b "t", b "info", b "x_2.trashinfo"], [b "t", b "info", b "x_1.trashinfo"], [b "t", b "info", b "x.trashinfo"]] ∧
      fsN.toList =
        [([b "t", b "files", b "x_2"], .link (b "nowhere")), ([b "t", b "info", b "x_2.trashinfo"], .file (b "i3") 0o600 0),
         ([b "t", b "files", b "x_1"], .dir 0o750 5), ([b "t", b "files", b "x_1", b "in"], .file (b "two") 0o600 3),
         ([b "t", b "files", b "x_1", b "sub"], .dir 0o755 4),
         ([b "t", b "files", b "x_1", b "sub", b "deep"], .file (b "three") 0o644 2),
         ([b "t", b "info", b "x_1.trashinfo"], .file (b "i2") 0o600 0),
         ([b "t", b "files", b "x"], .file (b "one") 0o644 7), ([b "t", b "info", b "x.trashinfo"], .file (b "i1") 0o600 0),
         ([], .dir 0o755 0), ([b "t"], .dir 0o700 0), ([b "t", b "info"], .dir 0o700 0), ([b "t", b "files"], .dir 0o700 0),
         ([b "a"], .dir 0o755 0), ([b "b"], .dir 0o755 0), ([b "c"], .dir 0o755 0)] := by
  obtain ⟨ks, fsN, stN, p, q, v⟩ := Proofs.C04SeqEx.three_chain
  have v' : Proofs.C04SeqEx.View.mk (ks.map (·.name)) (FS.children fsN Proofs.C04SeqEx.F)
      (FS.children fsN Proofs.C04SeqEx.I) fsN.toList = Proofs.C04SeqEx.expected := v
  simp only [Proofs.C04SeqEx.expected, Proofs.C04SeqEx.View.mk.injEq] at v'
  exact ⟨ks, fsN, stN, p, q, v'.1, v'.2.1, v'.2.2.1, v'.2.2.2⟩

/-- the same evaluation, directly on the executable chain -/
example : (putSeq Proofs.C04SeqEx.I Proofs.C04SeqEx.F Proofs.C04SeqEx.items Proofs.C04SeqEx.st0 Proofs.C04SeqEx.fsW).map
    Proofs.C04SeqEx.view = some Proofs.C04SeqEx.expected := by decide +kernel

/-- the general theorems at work on that world: part 4 predicts the three names -/
example : ∀ ks fsN stN, Puts Proofs.C04SeqEx.I Proofs.C04SeqEx.F Proofs.C04SeqEx.fsW Proofs.C04SeqEx.st0 ks fsN stN →
    ks.length = 3 → (∀ k ∈ ks, k.base = b "x") →
    ks.map (·.name) = [b "x" ++ sfx 0 ++ trashinfoExt, b "x" ++ sfx 1 ++ trashinfoExt, b "x" ++ sfx 2 ++ trashinfoExt] := by
  intro ks fsN stN h h3 hb
  have := (n_same_base_names _ _ _ _ _ _ ks (b "x") h (by omega) hb (by decide +kernel)
    (by rw [h3]; decide +kernel)).1
  rw [h3] at this
  exact this

end TrashVerif.C04Seq
