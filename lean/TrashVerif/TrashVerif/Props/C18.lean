/-
  Props/C18.lean — property theorems for C18 (trash-put never follows a final symlink).
-/
import TrashVerif.Props.PutCoreDefs
import TrashVerif.Proofs.C18
namespace TrashVerif.C18
open TrashVerif PutCore Prog

/-- What is handed to `rename` never ends with a slash (so the kernel cannot be made to follow a
    final symlink): `normpath` output ends with '/' only when it is "/" or "//". -/
theorem normpath_no_trailing_slash (a : Bytes) :
    (normpath a).getLast? = some slash → normpath a = [slash] ∨ normpath a = [slash, slash] :=
  Proofs.C18.normpath_no_trailing_slash a

/-- Written with 0, 1, 2, 3 … trailing slashes, the name that is moved and recorded is the link's own. -/
theorem trailing_slashes_same_name (a : Bytes) (k : Nat) (hne : ∃ c ∈ a, c ≠ slash) (hl : a.getLast? ≠ some slash)
    (hd : isDotEntry a = false) :
    basename (normpath (a ++ List.replicate k slash)) = basename a ∧
    dirname (normpath (a ++ List.replicate k slash)) = dirname (normpath a) :=
  Proofs.C18.trailing_slashes_same_name a k hne hl hd

/-- Kernel resolution of such a string does not follow a symlink in final position: the canonical
    path it yields for `parent/name` is `parent ++ [name]` whatever `name` is (a link is not
    dereferenced). -/
theorem resolve_nofollow_last (fs : FS) (parent : CPath) (name : Bytes)
    (hp : fs.isDirAt parent = true) (hn : name ≠ [] ∧ name ≠ [dot] ∧ name ≠ dotdot ∧ slash ∉ name ∧ name.length ≤ 255) :
    FS.walk fs false FS.linkFuel parent [name] = .ok (parent ++ [name]) :=
  Proofs.C18.resolve_nofollow_last fs parent name hp hn

/-- The core moves the link node itself: after a successful put of a symlink the payload is the
    same link (same target string), the target of the link — wherever it is — is untouched. -/
theorem moves_the_link (fs : FS) (infoC filesC src : CPath) (base content : Bytes) (st st' : PutSt)
    (h : Setting fs infoC filesC src) (t : Bytes) (hl : fs.get src = some (.link t)) (name : Bytes) (s' : RunState)
    (hr : run noFaults (putCore infoC filesC base content (fun _ => .ok src) st) { fs := fs } = ((.ok name, st'), s')) :
    s'.fs.get (filesC ++ [stemOf name]) = some (.link t) ∧ s'.fs.get src = none ∧
    ∀ q, ¬ FS.under src q = true → ¬ FS.under (filesC ++ [stemOf name]) q = true → q ≠ infoC ++ [name] →
      q ≠ FS.parent src → q ≠ filesC → q ≠ infoC → s'.fs.get q = fs.get q :=
  Proofs.C18.moves_the_link fs infoC filesC src base content st st' h t hl name s' hr

/-- The recorded location is built from the resolved *parent* and the link's own name. -/
theorem origloc_of_link (fs : FS) (cwd : CPath) (path : Bytes) (cand : Candidate) (h : cand.relative = false) :
    originalLocation fs cwd path cand =
      pjoin (realpathStr fs cwd (dirname (normpath path))) (basename (normpath path)) :=
  Proofs.C18.origloc_of_link fs cwd path cand h

end TrashVerif.C18
