/-
  Props/C14LoopDefs.lean — vocabulary of the loop- and command-level theorems for C14
  (Props/C14Loop.lean): the path strings `trash-empty` yields (`Emptier.files_to_delete`), the lines
  `--dry-run` / `-v` print for them, and "the paths that exist before and no longer after".
  Everything is phrased with the model's own string functions and constructors.
-/
import TrashVerif.Props.C10LoopDefs
namespace TrashVerif.C14Loop
open TrashVerif Prog FS C10Loop

/-- the two path strings `files_to_delete` yields for the listed name `n`, in the order it yields
    them: `path_of_backup_copy(info)`, then the info path itself -/
def entryPaths (t n : Bytes) : List Bytes := [pathOfBackupCopy (infoStr t n), infoStr t n]

/-- … for a list of names, in order -/
def pathsOf (t : Bytes) (ns : List Bytes) : List Bytes := ns.flatMap (entryPaths t)

/-- `Console.print_dry_run(path)` — the event `emptyPathR` emits under `--dry-run` -/
def dryLine (path : Bytes) : Out := .stdout (b "would remove " ++ path)

/-- `Console.print_removing(path)` — the event `emptyPathR` emits under `-v` before removing -/
def removingLine (path : Bytes) : Out := .stdout (b "removing " ++ path)

/-- Of the path strings `paths`, those that exist in `fs` (`os.path.lexists`) and no longer exist
    in `fs'`: "the paths the run removed". -/
def removedOf (fs fs' : FS) (cwd : CPath) (paths : List Bytes) : List Bytes :=
  paths.filter fun p => pLexists fs cwd p && !pLexists fs' cwd p

/-- what `trash-empty` selects among the info strings `infos` (the scan's own strings), evaluated on `fs` -/
def selectedInfos (fs : FS) (cwd : CPath) (o : EmptyOpts) (infos : List Bytes) : List Bytes :=
  infos.filter fun i => okToDelete fs cwd o i = .delete

/-- what `files_to_delete` yields for ONE trash directory when everything is evaluated on the single
    state `fs` (which is what happens under `--dry-run`, where the state never changes): payload and
    info path of every selected entry in listing order, then the orphans.  (A listing that raises
    contributes nothing here; see `NoCrashDir`.) -/
def announcedDir (fs : FS) (cwd : CPath) (o : EmptyOpts) (t : Bytes) : List Bytes :=
  (match infosOf fs cwd t with
   | .ok infos => (selectedInfos fs cwd o infos).flatMap fun i => [pathOfBackupCopy i, i]
   | .error _ => []) ++
  (match orphansOf fs cwd t with
   | .ok orphans => orphans
   | .error _ => [])

/-- … for the trash directories of a whole run, in order -/
def announced (fs : FS) (cwd : CPath) (o : EmptyOpts) (dirs : List (Bytes × Bytes)) : List Bytes :=
  dirs.flatMap fun tv => announcedDir fs cwd o tv.1

/-- nothing raises while the generator `files_to_delete` walks the directory `t` on the state `fs`:
    `info/` and `files/` can be listed (or are missing) and no DAYS decision overflows -/
def NoCrashDir (fs : FS) (cwd : CPath) (o : EmptyOpts) (t : Bytes) : Prop :=
  (∃ infos, infosOf fs cwd t = .ok infos ∧ ∀ i ∈ infos, ∀ c, okToDelete fs cwd o i ≠ .crash c) ∧
  (∃ orphans, orphansOf fs cwd t = .ok orphans)

/-- the orphan path string the reader builds for the name `m` of `files/` -/
def orphanStr (t m : Bytes) : Bytes := pjoin (pjoin t (b "files")) m

/-- every root path string of ONE trash directory as the readers build them on the state `fs`: payload
    and info path of every listed entry, then every orphan — what a plain `trash-empty` (no DAYS) goes
    through -/
def dirPaths (fs : FS) (cwd : CPath) (t : Bytes) : List Bytes :=
  (match infosOf fs cwd t with
   | .ok infos => infos.flatMap fun i => [pathOfBackupCopy i, i]
   | .error _ => []) ++
  (match orphansOf fs cwd t with
   | .ok orphans => orphans
   | .error _ => [])

/-- the `*.trashinfo` names the scan of the directory `info/` (canonical `I`) lists -/
def listed (fs : FS) (I : CPath) : List Bytes := (C09Hist.infoNames fs I).filter isTrashinfoName

/-- the info name that belongs to the payload name `m` -/
def infoNameOf (m : Bytes) : Bytes := m ++ trashinfoExt

/-- the names of `files/` (canonical `F`) for which `info/` holds nothing: the orphans -/
def orphanNames (fs : FS) (I F : CPath) : List Bytes :=
  (C09Hist.infoNames fs F).filter fun m => (fs.get (I ++ [infoNameOf m])).isNone

/-- The setting of one whole pass of `emptyDirs` over ONE trash directory `t` (scan, loop, orphan pass).
    * `all`: the `C10Loop.Setting` (resolved layer, distinct names, no info file a symbolic link, trees
      without mount point) for the listed names AND for the orphans, an orphan `m` being treated as the
      entry of the (absent) info file `m.trashinfo`;
    * `infoLeads`, `filesLeads`: `t/info` and `t/files` lead to `I` and `F` (every link followed: `listdir`),
      the latter in every state the pass can reach;
    * `payNames`: the names of `files/` are file names (`m.trashinfo` is a trashinfo name: `m` is not
      empty, `.` or `..`) — true of every real listing, the flat model has to be told;
    * `orphResolves`: the path string the reader builds for an orphan resolves to `F/m` in every
      reachable state.
    `plain_dir_setting` discharges all of it for a trash directory given by its canonical spelling. -/
structure DirSetting (fs : FS) (cwd : CPath) (t : Bytes) (I F : CPath) : Prop where
  all : Setting fs cwd t I F (listed fs I ++ (orphanNames fs I F).map infoNameOf)
  infoLeads : FS.resolve fs cwd (pjoin t (b "info")) true = .ok I
  filesLeads : ∀ fs', Within I F fs fs' → FS.resolve fs' cwd (pjoin t (b "files")) true = .ok F
  payNames : ∀ m, (fs.get (F ++ [m])).isSome = true → isTrashinfoName (infoNameOf m) = true
  orphResolves : ∀ fs', Within I F fs fs' → ∀ m ∈ orphanNames fs I F,
    FS.resolve fs' cwd (orphanStr t m) = .ok (F ++ [m])

/-! ### several trash directories -/

/-- one visited trash directory: the string and the volume the selector yields, and the canonical paths
    of its `info/` and `files/` -/
structure TDir where
  t : Bytes
  v : Bytes
  I : CPath
  F : CPath

/-- `q` lies in the REGION of the directory with `info/` = `I`, `files/` = `F`: at or below one of them, or
    above one of them -/
def Region (I F q : CPath) : Prop := I <+: q ∨ F <+: q ∨ q <+: I ∨ q <+: F

/-- `fs'` differs from `fs` only BESIDE the directory: everything in its region is exactly as in `fs`
    (and `dom`, which fixes the order of listings, and the mount table are the same) -/
structure Beside (I F : CPath) (fs fs' : FS) : Prop where
  dom : fs'.dom = fs.dom
  mounts : fs'.mounts = fs.mounts
  same : ∀ q, Region I F q → fs'.get q = fs.get q

/-- neither path is a prefix of the other -/
def Incomp (a c : CPath) : Prop := ¬ a <+: c ∧ ¬ c <+: a

/-- two trash directories lie apart: `info/` and `files/` of the one are incomparable with those of the other -/
def TDir.Apart (a c : TDir) : Prop :=
  Incomp a.I c.I ∧ Incomp a.I c.F ∧ Incomp a.F c.I ∧ Incomp a.F c.F

/-- The setting of a run over SEVERAL trash directories: they lie pairwise apart, and each has its
    `DirSetting` in every state that differs from the initial one only beside it (what the passes over
    the other directories produce).  `plain_dirs_setting` discharges `robust` for directories given
    by their canonical spelling, from facts about the initial state. -/
structure DirsSetting (fs : FS) (cwd : CPath) (ds : List TDir) : Prop where
  wf : C09Hist.DomWf fs
  robust : ∀ d ∈ ds, ∀ fs', Beside d.I d.F fs fs' → C09Hist.DomWf fs' → DirSetting fs' cwd d.t d.I d.F
  apart : ds.Pairwise TDir.Apart

/-- What `plain_dir_setting` asks of the INITIAL state for the trash directory with canonical path `T` (not
    `/`, good names), given to the command by its canonical spelling `toStr T`:
    `T/info`, `T/files` are directories reached through directories only; the listed info names have no
    '/', at most 255 bytes, none is a symbolic link, info file and payload are trees without mount point;
    the names of `files/` are file names of at most 245 bytes (so that `NAME.trashinfo` is a name); an
    orphan payload is a tree without mount point, and nothing lies below its absent info path. -/
structure PlainDirHyps (fs : FS) (T : CPath) : Prop where
  ne : T ≠ []
  good : C07.GoodNames T
  plainI : C07.Plain fs (T ++ [b "info"])
  plainF : C07.Plain fs (T ++ [b "files"])
  goodL : ∀ n ∈ listed fs (T ++ [b "info"]), slash ∉ n ∧ n.length ≤ 255
  notLink : ∀ n ∈ listed fs (T ++ [b "info"]), fs.isLinkAt (T ++ [b "info"] ++ [n]) = false
  infoTree : ∀ n ∈ listed fs (T ++ [b "info"]), TreeOk fs (T ++ [b "info"] ++ [n])
  payTree : ∀ n ∈ listed fs (T ++ [b "info"]), TreeOk fs (T ++ [b "files"] ++ [stemOf n])
  goodP : ∀ m, (fs.get (T ++ [b "files"] ++ [m])).isSome = true →
    m ≠ [] ∧ slash ∉ m ∧ m ≠ [dot] ∧ m ≠ dotdot ∧ m.length ≤ 245
  orphTree : ∀ m ∈ orphanNames fs (T ++ [b "info"]) (T ++ [b "files"]),
    TreeOk fs (T ++ [b "files"] ++ [m]) ∧ TreeOk fs (T ++ [b "info"] ++ [infoNameOf m])

/-- the visited directory for the canonical trash directory `T` with volume `v` -/
def plainDir (T : CPath) (v : Bytes) : TDir := ⟨FS.toStr T, v, T ++ [b "info"], T ++ [b "files"]⟩

/-- the argument of `emptyDirs` -/
def TDir.pairs (ds : List TDir) : List (Bytes × Bytes) := ds.map fun d => (d.t, d.v)

end TrashVerif.C14Loop
