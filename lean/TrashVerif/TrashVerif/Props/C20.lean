/-
  Props/C20.lean — property theorems for C20 (all commands read a trash directory the same way).
  The four readers factor through the same two parsers (`parsePath`, `parseDate`) and differ only
  in the base directory they are handed, which is the same for every kind of trash directory.
-/
import TrashVerif.Props.ReadDefs
import TrashVerif.Proofs.C20
namespace TrashVerif.C20
open TrashVerif Prog FS ReadDefs

/-- the meaning of a `.trashinfo` text for a base directory -/
def meaningPath (base text : Bytes) : Option Bytes := (parsePath text).map (pjoin base)
def meaningDate (text : Bytes) : Option Date := parseDeletionDate text

/-- trash-list prints `meaningPath` (and the date, or question marks) -/
theorem list_reads (fs : FS) (cwd : CPath) (v i text : Bytes) (h : contentsOf fs cwd i = some text) (p : Bytes)
    (hp : meaningPath v text = some p) :
    listOne fs cwd v i = .stdout ((match meaningDate text with | some d => d.str | none => unknownDate) ++ [32] ++ p) :=
  Proofs.C20.list_reads fs cwd v i text h p hp

/-- trash-restore offers and restores to `meaningPath`, sorts and prints `meaningDate` -/
theorem restore_reads (fs : FS) (cwd : CPath) (infoDir v n text : Bytes) (ht : isTrashinfoName n = true)
    (h : contentsOf fs cwd (pjoin infoDir n) = some text) (p : Bytes) (hp : meaningPath v text = some p) :
    restoreItem fs cwd infoDir v n = some { loc := p, date := meaningDate text, info := pjoin infoDir n } :=
  Proofs.C20.restore_reads fs cwd infoDir v n text ht h p hp

/-- trash-rm matches the pattern against `meaningPath` -/
theorem rm_reads (φ : Oracle) (cwd : CPath) (pattern v i text : Bytes) (rest : List Bytes) (s : RunState)
    (h : contentsOf s.fs cwd i = some text) (p : Bytes) (hp : meaningPath v text = some p) (hm : rmMatches pattern p = some false) :
    run φ (rmInfos cwd pattern v (i :: rest)) s = run φ (rmInfos cwd pattern v rest) s :=
  Proofs.C20.rm_reads φ cwd pattern v i text rest s h p hp hm

/-- trash-empty DAYS compares `meaningDate` -/
theorem empty_reads (fs : FS) (cwd : CPath) (o : EmptyOpts) (days : Nat) (i text : Bytes) (hd : o.days = some days)
    (h : contentsOf fs cwd i = some text) :
    okToDelete fs cwd o i =
      match meaningDate text with
      | none => .keep
      | some d => (match olderThan days o.now o.nowUs d with | .overflow => .crash .overflow | .yes => .delete | .no => .keep) :=
  Proofs.C20.empty_reads fs cwd o days i text hd h

/-- first Path line, first DeletionDate line; unknown lines, sections and a missing header are ignored -/
theorem unknown_lines_ignored (pre : List Bytes) (path rest : Bytes)
    (hpre : ∀ l ∈ pre, Bytes.startsWith l pathKey = false ∧ (10 : UInt8) ∉ l) (hnl : (10 : UInt8) ∉ path) :
    parsePath (Bytes.joinWith [10] (pre ++ [pathKey ++ path]) ++ [10] ++ rest) = some (unquote path) :=
  Proofs.C20.unknown_lines_ignored pre path rest hpre hnl

/-- The base directory: for `$topdir` trash dirs it is `$topdir`, for the home trash it is "/" — for
    the scanner of trash-list / trash-empty / trash-rm and for trash-restore alike (same mount list). -/
theorem bases_agree (fs : FS) (c : ReadCfg) (h : listVolumes c = c.mountPoints) (p v : Bytes)
    (hf : (p, v) ∈ foundDirs (scanTrashDirs fs c)) : (p, v) ∈ restoreTrashDirs fs c none :=
  Proofs.C20.bases_agree fs c h p v hf

/-- and `--trash-dir` gets the same base everywhere -/
theorem custom_base_agrees (fs : FS) (c : ReadCfg) (d : Bytes) (hd : d ≠ []) :
    foundDirs (selectTrashDirs fs c [d]) = restoreTrashDirs fs c (some d) := Proofs.C20.custom_base_agrees fs c d hd

end TrashVerif.C20
