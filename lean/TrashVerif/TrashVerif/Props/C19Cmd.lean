/-
  Props/C19Cmd.lean — C19 and C20 at the COMMAND level.

  C19: "A malformed, truncated, non-UTF-8, or foreign file in a trash directory's info/ never prevents
        the commands from handling the well-formed entries next to it: trash-list lists them,
        trash-restore offers and restores them, trash-rm and trash-empty select and purge exactly the
        ones they would without the malformed neighbour; no traceback."
  C20: "All commands agree on what an entry is: for every .trashinfo, the original location trash-list
        prints is the one trash-restore offers and restores to and the one trash-rm matches its
        pattern against, and the deletion date trash-list prints is the one trash-restore shows and
        sorts by and the one trash-empty DAYS compares."

  Props/C19.lean and Props/C20.lean prove these for the per-file readers.  Here they are lifted to whole
  runs, on top of the loop / command level theorems of Props/C10Loop.lean (trash-empty, trash-rm over a
  whole `info/`), Props/C13Cmd.lean (trash-restore for a given reply) and Props/C08Cmd.lean (`list_is_scan`).
  Vocabulary: Props/C19CmdDefs.lean.

  `namespace C19Cmd`
  (1) purge side, in a `C10Loop.Setting` for the listing `names`; `good` = any sublist of it (the malformed
      names may be interleaved anywhere); every dropped name is kept by the decision — evaluated on the
      INITIAL state — for a reason of its own (`malformed_is_kept_by_days`: unreadable or without a valid
      first DeletionDate, for trash-empty DAYS; unreadable or without `Path=` line, for trash-rm):
      * `empty_neighbours_do_not_matter`: the run of trash-empty's loop over `names` IS the run over `good`
        — the same result (a DAYS overflow among the good ones included), the same final run state (file
        system, calls, intermediate states, output) — and the same entries are selected.
        `rm_neighbours_do_not_matter`: the same for trash-rm up to the output (`SameButOuts`): the output of
        the run over `good` is a sublist of the other — the rest are the `unparsable` reports.
      * `empty_good_entries_handled` / `rm_good_entries_handled`: no crash provided no good entry crashes
        the decision (trash-rm: non-empty pattern); every good entry is gone whole or intact according
        to its own verdict, every neighbour is intact, `PurgedExactly` for the selected good entries.
      * `empty_without_neighbours` / `rm_without_neighbours`: compared with the run over `good` on ANY OTHER
        file system that has the good entries (info file and whole payload) as they are — e.g. the one
        without the neighbours —: same selection, and every good entry ends up the same, path by path.
      * `decisions_read_own_info_only`: what all four commands make of a listed name is a function of the
        node at `info/N.trashinfo` alone.
      trash-empty WITHOUT days deletes every listed info file, malformed or not, by specification
      (`C10Loop.empty_decision_is_spec`); there the neighbours are purged like everything else
      (`C10Loop.empty_selects_exactly` applies as it stands).
  (2) listing side:
      * `list_neighbours_do_not_matter`: whenever every directory found can be listed, `runList` exits 0
        without traceback, and its output is, in scan / directory order: on stdout exactly the lines
        (`lineOf`) of the info files that are readable and have a `Path=` line (`listLines`), on stderr one
        event per skipped directory and exactly one diagnostic per other info file (`listDiags`).
        `lines_ignore_neighbours`: the lines of a directory are those of any listing between its
        well-formed part and itself, on any file system on which the good files read the same.
      * `restore_scan_ignores_neighbours`, `offered_is_sorted_good` (one world: the offered list is the sorted
        in-scope entries of the good names), `restore_scan_without_neighbours`, `restore_neighbours_do_not_matter`
        (two worlds): the entries trash-restore scans, the list it offers (sorted: `offered_length`, C19
        `sort_total`) and the listing it prints are the same with and without the neighbours.  Restoring a selected entry
        is `C13Cmd.restore_selects_exactly`, whose setting constrains the SELECTED entries only, and
        `C13Cmd.restored_other` says every other `*.trashinfo` name — the neighbours — is left intact.
  (3) what the hypotheses exclude (kernel-checked): `pathless_dated_neighbour_is_purged` ("malformed" is per
      command), `dated_neighbour_overflow_counterexample` (the DAYS overflow), `symlink_neighbour_counterexample`
      (`Setting.notLink`; see also `C10Loop.symlink_info_counterexample`), `double_suffix_shares_no_payload`.
  (4) non-vacuity on `/m/.Trash-1000` with two good entries and four neighbours (Proofs/C19CmdEx.lean).

  `namespace C20Cmd`: `commands_agree_on_entry`, `volumes_must_agree_counterexample`.

  There is no `_partial` statement.  Scope (that of the theorems lifted): fault-free runs (`noFaults`);
  one trash directory in the resolved layer (`Setting`, discharged by `C10Loop.plain_setting`) for
  trash-empty / trash-rm, whose statements are about the loops `emptyInfos` / `rmInfos` (`rmDirs` on one
  directory in C20) — not about the orphan pass of trash-empty or several directories; trash-list is
  covered as the whole command under every oracle; trash-restore's run as in Props/C13Cmd.lean
  (same-volume case, destinations free and pairwise apart).
-/
import TrashVerif.Props.C19CmdDefs
import TrashVerif.Props.C19
import TrashVerif.Props.C20
import TrashVerif.Props.C10Loop
import TrashVerif.Props.C13Cmd
import TrashVerif.Props.C08Cmd
import TrashVerif.Proofs.C19Cmd
import TrashVerif.Proofs.C19CmdEx
namespace TrashVerif.C19Cmd
open TrashVerif PutCore Prog FS C09Hist C10Loop ReadDefs

/-! ### (1) trash-empty -/

/-- THE ISOLATION THEOREM of trash-empty's loop.  `names` = the listing of `info/` (a `Setting`), `good` =
    any sublist of it; every dropped name is KEPT by `okToDelete` evaluated on the initial state.
    Then the run over `names` and the run over `good` are EQUAL — result (so: no crash unless a good
    entry causes one, and then the same one at the same point) and whole final run state (file
    system, issued calls with their outcomes, intermediate states, output) — and the same entries are
    selected.  With or without `--dry-run`, with or without DAYS (without DAYS nothing is kept, so
    `good = names`). -/
theorem empty_neighbours_do_not_matter (fs : FS) (cwd : CPath) (t : Bytes) (infoC filesC : CPath)
    (names good : List Bytes) (o : EmptyOpts) (S : Setting fs cwd t infoC filesC names) (hsub : good.Sublist names)
    (hbad : ∀ n ∈ names, n ∉ good → okToDelete fs cwd o (infoStr t n) = .keep) :
    run noFaults (emptyInfos cwd o (infoStrs t names)) { fs := fs } =
      run noFaults (emptyInfos cwd o (infoStrs t good)) { fs := fs } ∧
    emptySelected fs cwd o t names = emptySelected fs cwd o t good :=
  Proofs.C19Cmd.empty_neighbours_do_not_matter fs cwd t infoC filesC names good o S hsub hbad

/-- the reason of its own, in the property's words: with DAYS, an info file that is unreadable, or whose
    text has no first DeletionDate line that parses, is kept (C19 `empty_keeps_undated`) -/
theorem malformed_is_kept_by_days (fs : FS) (cwd : CPath) (o : EmptyOpts) (days : Nat) (i : Bytes)
    (hd : o.days = some days) (h : (contentsOf fs cwd i).bind parseDeletionDate = none) :
    okToDelete fs cwd o i = .keep := Proofs.C19Cmd.malformed_is_kept_by_days fs cwd o days i hd h

/-- What the run over the whole listing does (not `--dry-run`; no decision about a GOOD entry crashes —
    `C10Loop.empty_no_crash`): it does not crash; every good entry is gone whole or intact according to
    its own verdict on the initial state; every neighbour is intact, info file and whole payload;
    and the final state is the initial one with exactly the selected GOOD entries removed. -/
theorem empty_good_entries_handled (fs : FS) (cwd : CPath) (t : Bytes) (infoC filesC : CPath)
    (names good : List Bytes) (o : EmptyOpts) (S : Setting fs cwd t infoC filesC names) (hsub : good.Sublist names)
    (hdry : o.dryRun = false)
    (hbad : ∀ n ∈ names, n ∉ good → okToDelete fs cwd o (infoStr t n) = .keep)
    (hnc : ∀ n ∈ good, ∀ c, okToDelete fs cwd o (infoStr t n) ≠ .crash c) :
    let r := run noFaults (emptyInfos cwd o (infoStrs t names)) { fs := fs }
    r.1 = none ∧
    (∀ n ∈ good, okToDelete fs cwd o (infoStr t n) = .delete → EntryGone r.2.fs infoC filesC n) ∧
    (∀ n ∈ good, okToDelete fs cwd o (infoStr t n) = .keep → EntryIntact fs r.2.fs infoC filesC n) ∧
    (∀ n ∈ names, n ∉ good → EntryIntact fs r.2.fs infoC filesC n) ∧
    PurgedExactly fs r.2.fs infoC filesC (emptySelected fs cwd o t good) :=
  Proofs.C19Cmd.empty_good_entries_handled fs cwd t infoC filesC names good o S hsub hdry hbad hnc

/-- … "exactly the ones they would without the malformed neighbour": `fs2` is ANY file system with the
    setting for `good` alone on which every good entry — info file and whole payload — is what it is
    on `fs` (for instance `fs` without the neighbours).  The run over `names` on `fs` and the run over
    `good` on `fs2` do not crash, select the same entries, and leave every good entry the same, path by
    path (info file and payload). -/
theorem empty_without_neighbours (fs fs2 : FS) (cwd : CPath) (t : Bytes) (infoC filesC : CPath)
    (names good : List Bytes) (o : EmptyOpts) (S : Setting fs cwd t infoC filesC names)
    (S2 : Setting fs2 cwd t infoC filesC good) (hsub : good.Sublist names) (hdry : o.dryRun = false)
    (hbad : ∀ n ∈ names, n ∉ good → okToDelete fs cwd o (infoStr t n) = .keep)
    (hnc : ∀ n ∈ good, ∀ c, okToDelete fs cwd o (infoStr t n) ≠ .crash c)
    (hsame : ∀ n ∈ good, EntryIntact fs fs2 infoC filesC n) :
    let r := run noFaults (emptyInfos cwd o (infoStrs t names)) { fs := fs }
    let r2 := run noFaults (emptyInfos cwd o (infoStrs t good)) { fs := fs2 }
    r.1 = none ∧ r2.1 = none ∧
    emptySelected fs cwd o t names = emptySelected fs2 cwd o t good ∧
    ∀ n ∈ good,
      (∀ rel, r.2.fs.get (infoC ++ [n] ++ rel) = r2.2.fs.get (infoC ++ [n] ++ rel)) ∧
      (∀ rel, r.2.fs.get (filesC ++ [stemOf n] ++ rel) = r2.2.fs.get (filesC ++ [stemOf n] ++ rel)) :=
  Proofs.C19Cmd.empty_without_neighbours fs fs2 cwd t infoC filesC names good o S S2 hsub hdry hbad hnc hsame

/-! ### (1) trash-rm -/

/-- THE ISOLATION THEOREM of trash-rm's loop.  Every dropped name is reported as unparsable (unreadable, or
    no `Path=` line) or — the pattern being non-empty — is not matched, on the initial state.  Then the
    run over `names` and the run over `good` agree up to the output (`SameButOuts`: same result — in
    particular no crash unless a good entry causes one —, same final file system, same calls, same
    intermediate states); the output of the run over `good` is a sublist of that of the run over
    `names` (the rest: the reports about the neighbours, `rm_good_entries_handled`); the same entries
    are selected.  For unparsable neighbours no hypothesis on the pattern is needed. -/
theorem rm_neighbours_do_not_matter (fs : FS) (cwd : CPath) (t : Bytes) (infoC filesC : CPath)
    (names good : List Bytes) (pattern volume : Bytes) (S : Setting fs cwd t infoC filesC names)
    (hsub : good.Sublist names)
    (hbad : ∀ n ∈ names, n ∉ good → rmUnparsable fs cwd (infoStr t n) = true ∨
      (pattern ≠ [] ∧ rmSelects fs cwd pattern volume (infoStr t n) = false)) :
    let r := run noFaults (rmInfos cwd pattern volume (infoStrs t names)) { fs := fs }
    let r' := run noFaults (rmInfos cwd pattern volume (infoStrs t good)) { fs := fs }
    SameButOuts r r' ∧ r'.2.outs.Sublist r.2.outs ∧
    rmSelected fs cwd pattern volume t names = rmSelected fs cwd pattern volume t good :=
  Proofs.C19Cmd.rm_neighbours_do_not_matter fs cwd t infoC filesC names good pattern volume S hsub hbad

/-- What the run over the whole listing does (non-empty pattern): no crash; every good entry is gone
    whole or intact according to its own verdict; every neighbour is intact; the final state is the
    initial one with exactly the selected good entries removed; and the output is exactly one
    `unparsable` report per listed info that is unreadable or has no `Path=` line, in listing order
    (newest first). -/
theorem rm_good_entries_handled (fs : FS) (cwd : CPath) (t : Bytes) (infoC filesC : CPath)
    (names good : List Bytes) (pattern volume : Bytes) (S : Setting fs cwd t infoC filesC names)
    (hsub : good.Sublist names) (hp : pattern ≠ [])
    (hbad : ∀ n ∈ names, n ∉ good → rmUnparsable fs cwd (infoStr t n) = true ∨
      (pattern ≠ [] ∧ rmSelects fs cwd pattern volume (infoStr t n) = false)) :
    let r := run noFaults (rmInfos cwd pattern volume (infoStrs t names)) { fs := fs }
    r.1 = none ∧
    (∀ n ∈ good, rmSelects fs cwd pattern volume (infoStr t n) = true → EntryGone r.2.fs infoC filesC n) ∧
    (∀ n ∈ good, rmSelects fs cwd pattern volume (infoStr t n) = false → EntryIntact fs r.2.fs infoC filesC n) ∧
    (∀ n ∈ names, n ∉ good → EntryIntact fs r.2.fs infoC filesC n) ∧
    PurgedExactly fs r.2.fs infoC filesC (rmSelected fs cwd pattern volume t good) ∧
    r.2.outs = (((infoStrs t names).filter (rmUnparsable fs cwd)).map (Out.stderr "unparsable")).reverse :=
  Proofs.C19Cmd.rm_good_entries_handled fs cwd t infoC filesC names good pattern volume S hsub hp hbad

/-- … and compared with the run over `good` on any file system that has the good entries as they are -/
theorem rm_without_neighbours (fs fs2 : FS) (cwd : CPath) (t : Bytes) (infoC filesC : CPath)
    (names good : List Bytes) (pattern volume : Bytes) (S : Setting fs cwd t infoC filesC names)
    (S2 : Setting fs2 cwd t infoC filesC good) (hsub : good.Sublist names) (hp : pattern ≠ [])
    (hbad : ∀ n ∈ names, n ∉ good → rmUnparsable fs cwd (infoStr t n) = true ∨
      (pattern ≠ [] ∧ rmSelects fs cwd pattern volume (infoStr t n) = false))
    (hsame : ∀ n ∈ good, EntryIntact fs fs2 infoC filesC n) :
    let r := run noFaults (rmInfos cwd pattern volume (infoStrs t names)) { fs := fs }
    let r2 := run noFaults (rmInfos cwd pattern volume (infoStrs t good)) { fs := fs2 }
    r.1 = none ∧ r2.1 = none ∧
    rmSelected fs cwd pattern volume t names = rmSelected fs2 cwd pattern volume t good ∧
    ∀ n ∈ good,
      (∀ rel, r.2.fs.get (infoC ++ [n] ++ rel) = r2.2.fs.get (infoC ++ [n] ++ rel)) ∧
      (∀ rel, r.2.fs.get (filesC ++ [stemOf n] ++ rel) = r2.2.fs.get (filesC ++ [stemOf n] ++ rel)) :=
  Proofs.C19Cmd.rm_without_neighbours fs fs2 cwd t infoC filesC names good pattern volume S S2 hsub hp hbad hsame

/-- Each entry's fate is decided by its own info file only: in two settings of the same trash directory
    (different file systems, different listings) in which the name `n` is listed and the node at
    `info/n` is the same, all four commands read the same text and reach the same verdict about `n` —
    trash-empty's decision, trash-rm's selection and report, the event trash-list prints, the entry
    trash-restore builds (or not).  Needs `Setting.notLink`: `symlink_neighbour_counterexample`. -/
theorem decisions_read_own_info_only (fs fs2 : FS) (cwd : CPath) (t : Bytes) (infoC filesC : CPath)
    (names names2 : List Bytes) (n : Bytes) (S : Setting fs cwd t infoC filesC names)
    (S2 : Setting fs2 cwd t infoC filesC names2) (hn : n ∈ names) (hn2 : n ∈ names2)
    (h : fs2.get (infoC ++ [n]) = fs.get (infoC ++ [n])) :
    contentsOf fs2 cwd (infoStr t n) = contentsOf fs cwd (infoStr t n) ∧
    (∀ o, okToDelete fs2 cwd o (infoStr t n) = okToDelete fs cwd o (infoStr t n)) ∧
    (∀ pattern v, rmSelects fs2 cwd pattern v (infoStr t n) = rmSelects fs cwd pattern v (infoStr t n)) ∧
    rmUnparsable fs2 cwd (infoStr t n) = rmUnparsable fs cwd (infoStr t n) ∧
    (∀ v, listOne fs2 cwd v (infoStr t n) = listOne fs cwd v (infoStr t n)) ∧
    (∀ v, restoreItem fs2 cwd (pjoin t (b "info")) v n = restoreItem fs cwd (pjoin t (b "info")) v n) :=
  Proofs.C19Cmd.decisions_read_own_info_only fs fs2 cwd t infoC filesC names names2 n S S2 hn hn2 h

/-! ### (2) trash-list -/

/-- one info file yields its line when it is readable and has a `Path=` line, and otherwise exactly
    one diagnostic about itself ("io-error" / "parse-error" with its own path) -/
theorem list_one_is_line_or_diagnostic (fs : FS) (cwd : CPath) (v i : Bytes) :
    listOne fs cwd v i = (match lineOf fs cwd v i with
      | some l => .stdout l
      | none => diagOf fs cwd i) ∧
    (lineOf fs cwd v i).isSome = wellFormed fs cwd i :=
  ⟨Proofs.C19Cmd.listOne_eq fs cwd v i, Proofs.C19Cmd.lineOf_isSome fs cwd v i⟩

/-- THE ISOLATION THEOREM of trash-list, for the whole command, under EVERY fault oracle, from any run
    state.  Whenever the `info/` of every directory found can be listed (`infosOf … = .ok`: it does not
    exist, or is a directory — a condition on `info/` itself, not on what is in it), whatever `info/`
    holds — malformed, truncated, non-UTF-8, unreadable, foreign files —:
    the command exits 0 without crash and issues no call; it prints `listOutsOf` (no traceback event);
    the stdout events among them are EXACTLY the lines of the `*.trashinfo` names whose info file is
    readable and has a `Path=` line, in scan and directory order (`listLines`); and the stderr events
    are exactly one per skipped directory and one diagnostic per other info file, in order (`listDiags`). -/
theorem list_neighbours_do_not_matter (φ : Oracle) (c : ReadCfg) (dirs : List Bytes) (s : RunState)
    (hls : ∀ tv ∈ foundDirs (selectTrashDirs s.fs c dirs), ∃ l, infosOf s.fs c.cwd tv.1 = .ok l) :
    run φ (runList c dirs) s =
      ({ exit := 0 }, { s with outs := (C08Cmd.listOutsOf s.fs c.cwd (selectTrashDirs s.fs c dirs)).reverse ++ s.outs }) ∧
    (C08Cmd.listOutsOf s.fs c.cwd (selectTrashDirs s.fs c dirs)).filter isStdout =
      (listLines s.fs c.cwd (foundDirs (selectTrashDirs s.fs c dirs))).map Out.stdout ∧
    (C08Cmd.listOutsOf s.fs c.cwd (selectTrashDirs s.fs c dirs)).filter (fun o => !isStdout o) =
      listDiags s.fs c.cwd (selectTrashDirs s.fs c dirs) :=
  Proofs.C19Cmd.list_neighbours_do_not_matter φ c dirs s hls

/-- The lines of one directory do not depend on the neighbours: `infos` = the listing, `good` = any
    sublist that keeps every well-formed info (the others may sit anywhere in the listing), `fs'` =
    any file system on which the good info files read the same (for instance the one without the
    neighbours).  Same lines, same order. -/
theorem lines_ignore_neighbours (fs fs' : FS) (cwd : CPath) (v : Bytes) (infos good : List Bytes)
    (hsub : good.Sublist infos) (hall : (infos.filter (wellFormed fs cwd)).Sublist good)
    (hsame : ∀ i ∈ good, contentsOf fs' cwd i = contentsOf fs cwd i) :
    infos.filterMap (lineOf fs cwd v) = good.filterMap (lineOf fs' cwd v) :=
  Proofs.C19Cmd.lines_ignore_neighbours fs fs' cwd v infos good hsub hall hsame

/-! ### (2) trash-restore -/

/-- the scan of one trash directory is the scan of any part `good` of the listing that keeps every name
    yielding an entry: the other names (not `*.trashinfo`, unreadable, without `Path=` line) contribute
    nothing, wherever they sit -/
theorem restore_scan_ignores_neighbours (fs : FS) (cwd : CPath) (t v : Bytes) (ns good : List Bytes)
    (h : listdirStr fs cwd (pjoin t (b "info")) = some ns)
    (hsub : good.Sublist ns) (hall : (restoreGood fs cwd t v ns).Sublist good) :
    restoreEntriesOf fs cwd t v = good.filterMap (restoreItem fs cwd (pjoin t (b "info")) v) :=
  Proofs.C19Cmd.restore_scan_ignores_neighbours fs cwd t v ns good h hsub hall

/-- … hence the same as the scan on a file system `fs'` whose `info/` lists `good` only, the good info
    files reading the same -/
theorem restore_scan_without_neighbours (fs fs' : FS) (cwd : CPath) (t v : Bytes) (ns good : List Bytes)
    (h : listdirStr fs cwd (pjoin t (b "info")) = some ns) (h' : listdirStr fs' cwd (pjoin t (b "info")) = some good)
    (hsub : good.Sublist ns) (hall : (restoreGood fs cwd t v ns).Sublist good)
    (hsame : ∀ n ∈ good, contentsOf fs' cwd (pjoin (pjoin t (b "info")) n) = contentsOf fs cwd (pjoin (pjoin t (b "info")) n)) :
    restoreEntriesOf fs cwd t v = restoreEntriesOf fs' cwd t v :=
  Proofs.C19Cmd.restore_scan_without_neighbours fs fs' cwd t v ns good h h' hsub hall hsame

/-- THE ISOLATION THEOREM of trash-restore's listing side.  `fs'` (e.g. `fs` without the neighbours) yields
    the same trash directories and, in each of them, the same scan (`restore_scan_without_neighbours`).
    Then trash-restore is offered the same entries, in the same order (scope filter and sort), and
    prints the same numbered listing: the malformed neighbours contribute nothing — they shift no
    index. -/
theorem restore_neighbours_do_not_matter (fs fs' : FS) (c : ReadCfg) (o : RestoreOpts)
    (hdirs : restoreTrashDirs fs' c o.trashDir = restoreTrashDirs fs c o.trashDir)
    (hent : ∀ tv ∈ restoreTrashDirs fs c o.trashDir,
      restoreEntriesOf fs' c.cwd tv.1 tv.2 = restoreEntriesOf fs c.cwd tv.1 tv.2) :
    restoreEntries fs' c o = restoreEntries fs c o ∧ C13Cmd.offered fs' c o = C13Cmd.offered fs c o ∧
    C13Cmd.listing (C13Cmd.offered fs' c o) = C13Cmd.listing (C13Cmd.offered fs c o) :=
  Proofs.C19Cmd.restore_neighbours_do_not_matter fs fs' c o hdirs hent

/-- … in one world: the offered list IS the sorted (`--sort`), in-scope entries of the good names of
    every directory of trash-restore's list — `goodOf tv` = any part of the listing of `tv`'s `info/` that
    keeps every name yielding an entry (nothing, for a directory without `info/`).  Whatever else
    `info/` holds contributes nothing and shifts no index. -/
theorem offered_is_sorted_good (fs : FS) (c : ReadCfg) (o : RestoreOpts) (goodOf : Bytes × Bytes → List Bytes)
    (h : ∀ tv ∈ restoreTrashDirs fs c o.trashDir,
      (∃ ns, listdirStr fs c.cwd (pjoin tv.1 (b "info")) = some ns ∧ (goodOf tv).Sublist ns ∧
        (restoreGood fs c.cwd tv.1 tv.2 ns).Sublist (goodOf tv)) ∨
      (listdirStr fs c.cwd (pjoin tv.1 (b "info")) = none ∧ goodOf tv = [])) :
    C13Cmd.offered fs c o =
      sortEntries o.sort (((restoreTrashDirs fs c o.trashDir).flatMap fun tv =>
        (goodOf tv).filterMap (restoreItem fs c.cwd (pjoin tv.1 (b "info")) tv.2)).filter
          fun e => inScope (C13Cmd.scopeOf c o) e.loc) :=
  Proofs.C19Cmd.offered_is_sorted_good fs c o goodOf h

/-- sorting drops nothing, whatever the dates (undated entries included): as many entries are offered as
    there are scanned entries in scope -/
theorem offered_length (fs : FS) (c : ReadCfg) (o : RestoreOpts) :
    (C13Cmd.offered fs c o).length =
      ((restoreEntries fs c o).filter fun e => inScope (C13Cmd.scopeOf c o) e.loc).length :=
  Proofs.C19Cmd.offered_length fs c o

/-! ### (3) what the hypotheses exclude (kernel-checked; the worlds are in Proofs/C19CmdEx.lean) -/

section counterexamples
open Proofs.C19CmdEx.Demo Proofs.C19CmdEx.Cex

/-- "Malformed" is per command.  In `WO` the neighbour `dated` — no `Path=` line, a valid date of 2020 — is
    malformed for trash-list ("parse-error"), trash-restore (no entry) and trash-rm ("unparsable"), and
    perfectly well-formed for `trash-empty 1`, which PURGES it, info file and payload (and keeps the
    undated `und`).  REAL behaviour: trash-empty DAYS never looks at the `Path=` line.  So for
    trash-empty DAYS the neighbours that do not matter are those without a valid date. -/
theorem pathless_dated_neighbour_is_purged :
    listOne WO [] v (infoStr t datedN) = .stderr "parse-error" (infoStr t datedN) ∧
    restoreItem WO [] (pjoin t (b "info")) v datedN = none ∧
    rmUnparsable WO [] (infoStr t datedN) = true ∧
    okToDelete WO [] o1 (infoStr t datedN) = .delete ∧
    emptySelected WO [] o1 t [datedN, undN] = [datedN] ∧
    (run noFaults (emptyInfos [] o1 (infoStrs t [datedN, undN])) { fs := WO }).1 = none ∧
    (run noFaults (emptyInfos [] o1 (infoStrs t [datedN, undN])) { fs := WO }).2.fs.get (I ++ [datedN]) = none ∧
    (run noFaults (emptyInfos [] o1 (infoStrs t [datedN, undN])) { fs := WO }).2.fs.get (F ++ [b "dated"]) = none ∧
    (run noFaults (emptyInfos [] o1 (infoStrs t [datedN, undN])) { fs := WO }).2.fs.get (I ++ [undN]) = WO.get (I ++ [undN]) :=
  Proofs.C19CmdEx.Cex.pathless_dated_neighbour_is_purged

/-- In `empty_neighbours_do_not_matter` "the dropped names are KEPT" cannot be weakened to "the dropped names
    have no `Path=` line": the DAYS overflow.  `WO`, `trash-empty 1000000000` (now − DAYS days is not
    representable): the setting holds; the run over the well-formed `und` alone does not crash (`und`
    is undated: kept); with the pathless neighbour `dated` in the listing the loop meets a valid date
    and stops with the OverflowError traceback.  (Any dated entry does that, good or not:
    `C10Loop.empty_stops_at_overflow`.) -/
theorem dated_neighbour_overflow_counterexample :
    Setting WO [] t I F [datedN, undN] ∧ [undN].Sublist [datedN, undN] ∧
    rmUnparsable WO [] (infoStr t datedN) = true ∧
    okToDelete WO [] oBig (infoStr t datedN) = .crash .overflow ∧
    (run noFaults (emptyInfos [] oBig (infoStrs t [undN])) { fs := WO }).1 = none ∧
    (run noFaults (emptyInfos [] oBig (infoStrs t [datedN, undN])) { fs := WO }).1 = some .overflow :=
  Proofs.C19CmdEx.Cex.dated_neighbour_overflow_counterexample

/-- Without `Setting.notLink`, `decisions_read_own_info_only` is FALSE, and a neighbour IS coupled to a good
    entry.  `WSold` and `WSnew` differ in the date recorded in `info/a.trashinfo` only; the neighbour
    `info/z.trashinfo` is the same node in both — a symbolic link to `a.trashinfo`; every other hypothesis of
    `C10Loop.plain_setting` holds in both.  Yet the decision of `trash-empty 1` about `z` differs; and in
    the whole pass over the directory (`emptyDirs`: the loop, then the orphans) the payload `files/z`
    is REMOVED in `WSold` — `a` is purged, the link dangles, `z` is "unreadable" and kept, and then
    `files/z` counts as an orphan, the link staying behind — and kept in `WSnew`. -/
theorem symlink_neighbour_counterexample :
    WSold.get (I ++ [zN]) = WSnew.get (I ++ [zN]) ∧ WSold.isLinkAt (I ++ [zN]) = true ∧
    PlainHyps WSold T [aN, zN] ∧ (∀ m ∈ [aN, zN], TreeOk WSold (T ++ [b "files"] ++ [stemOf m])) ∧
    PlainHyps WSnew T [aN, zN] ∧ (∀ m ∈ [aN, zN], TreeOk WSnew (T ++ [b "files"] ++ [stemOf m])) ∧
    okToDelete WSold [] o1 (infoStr t zN) = .delete ∧ okToDelete WSnew [] o1 (infoStr t zN) = .keep ∧
    (run noFaults (emptyDirs [] o1 [(t, v)]) { fs := WSold }).2.fs.get (F ++ [b "z"]) = none ∧
    (run noFaults (emptyDirs [] o1 [(t, v)]) { fs := WSold }).2.fs.get (I ++ [zN]) = some (.link aN) ∧
    (run noFaults (emptyDirs [] o1 [(t, v)]) { fs := WSnew }).2.fs.get (F ++ [b "z"]) = some (.file [122] 0o644 3) :=
  Proofs.C19CmdEx.Cex.symlink_neighbour_counterexample

/-- A neighbour named `<good>.trashinfo.trashinfo` shares no payload with `<good>.trashinfo` (its payload is
    `files/<good>.trashinfo`): two distinct `*.trashinfo` names have distinct payload names. -/
theorem double_suffix_shares_no_payload :
    (∀ n d : Bytes, isTrashinfoName n = true → isTrashinfoName d = true → n ≠ d → stemOf n ≠ stemOf d) ∧
    isTrashinfoName (b "a.trashinfo.trashinfo") = true ∧
    stemOf (b "a.trashinfo.trashinfo") = b "a.trashinfo" ∧ stemOf (b "a.trashinfo") = b "a" ∧
    pathOfBackupCopy (infoStr t (b "a.trashinfo.trashinfo")) = b "/m/.Trash-1000/files/a.trashinfo" ∧
    pathOfBackupCopy (infoStr t (b "a.trashinfo")) = b "/m/.Trash-1000/files/a" :=
  Proofs.C19CmdEx.Cex.double_suffix_shares_no_payload

end counterexamples

/-! ### (4) non-vacuity: `/m/.Trash-1000` (volume `/m`, uid 1000) holds the well-formed `old` (2020-01-01, payload a
    directory with a file) and `new` (2024-03-01 12:00) and, interleaved in directory order, the neighbours
    `dir.trashinfo` (a directory), `empty.trashinfo` (an empty file, with a payload), `nopath.trashinfo` (no
    `Path=` line, an invalid date), `utf8.trashinfo` (bytes FF FE 80 0A), and the foreign file `README`.
    Everything below is checked by the kernel, the commands being run through the twins. -/

section examples
open Proofs.C19CmdEx Proofs.C19CmdEx.Demo

/-- the setting, the sublist, the scan -/
example (cwd : CPath) : Setting W cwd t I F names := W_setting cwd
example : good.Sublist names ∧ infosOf W [] t = .ok (infoStrs t names) ∧
    listdirStr W [] (pjoin t (b "info")) = some (b "README" :: names) := ⟨W_sub, W_infos, W_listdir⟩

/-- `trash-empty 1` on 2024-03-02: every neighbour is kept for a reason of its own — unreadable or undated
    (`malformed_is_kept_by_days`) —, no good entry crashes the decision -/
example : (∀ n ∈ names, n ∉ good → okToDelete W [] o1 (infoStr t n) = .keep) ∧
    (∀ n ∈ good, ∀ c, okToDelete W [] o1 (infoStr t n) ≠ .crash c) := ⟨W_bad_kept, W_good_nocrash⟩
example : okToDelete W [] o1 (infoStr t utf8N) = .keep :=
  malformed_is_kept_by_days W [] o1 1 _ rfl W_bad_undated.2.2.2

/-- the isolation theorem instantiated: the run over the six names is the run over the two good ones -/
example : run noFaults (emptyInfos [] o1 (infoStrs t names)) { fs := W } =
    run noFaults (emptyInfos [] o1 (infoStrs t good)) { fs := W } :=
  (empty_neighbours_do_not_matter W [] t I F names good o1 (W_setting []) W_sub W_bad_kept).1

/-- … and the run evaluated: no crash, nothing printed; `old` is gone whole; `new`, the four neighbours
    (with the payload of `empty`), `README` and `/m/keep` are what they were -/
example :
    (run noFaults (emptyInfos [] o1 (infoStrs t names)) { fs := W }).1 = none ∧
    (run noFaults (emptyInfos [] o1 (infoStrs t names)) { fs := W }).2.outs = [] ∧
    (run noFaults (emptyInfos [] o1 (infoStrs t names)) { fs := W }).2.fs.toList =
      [([], dirN), ([b "m"], dirN), (T, .dir 0o700 7), (I, .dir 0o755 0), (F, .dir 0o755 0),
       (I ++ [b "README"], .file (b "not an entry\n") 0o644 3),
       (I ++ [newN], .file newText 0o600 3),
       (I ++ [emptyN], .file [] 0o600 3),
       (I ++ [nopathN], .file (b "[Trash Info]\nDeletionDate=2020-13-45T00:00:00\n") 0o600 3),
       (I ++ [utf8N], .file [0xff, 0xfe, 0x80, 0x0a] 0o600 3),
       (I ++ [dirI], dirN),
       (F ++ [b "new"], .file [121] 0o644 3),
       (F ++ [b "empty"], .file [122] 0o644 3),
       ([b "m", b "keep"], .file [124] 0o644 3)] := W_empty_run

/-- compared with the directory WITHOUT the neighbours (`Wg`): same selection, same fate of the good entries -/
example : Setting Wg [] t I F good ∧ (∀ n ∈ good, EntryIntact W Wg I F n) := ⟨Wg_setting [], Wg_same⟩
example : emptySelected W [] o1 t names = emptySelected Wg [] o1 t good :=
  (empty_without_neighbours W Wg [] t I F names good o1 (W_setting []) (Wg_setting []) W_sub rfl
    W_bad_kept W_good_nocrash Wg_same).2.2.1

/-- `trash-rm 'o*'`: the neighbours are unparsable; the theorem instantiated … -/
example : ∀ n ∈ names, n ∉ good → rmUnparsable W [] (infoStr t n) = true := W_bad_unparsable
example :
    SameButOuts (run noFaults (rmInfos [] (b "o*") v (infoStrs t names)) { fs := W })
      (run noFaults (rmInfos [] (b "o*") v (infoStrs t good)) { fs := W }) :=
  (rm_neighbours_do_not_matter W [] t I F names good (b "o*") v (W_setting []) W_sub
    (fun n hn hng => Or.inl (W_bad_unparsable n hn hng))).1

/-- … and evaluated: `old` is selected and gone whole, the four neighbours are reported (newest first) and
    kept, the run over the good names alone prints nothing -/
example :
    rmSelected W [] (b "o*") v t names = [oldN] ∧
    (run noFaults (rmInfos [] (b "o*") v (infoStrs t names)) { fs := W }).1 = none ∧
    (run noFaults (rmInfos [] (b "o*") v (infoStrs t names)) { fs := W }).2.outs =
      [.stderr "unparsable" (b "/m/.Trash-1000/info/utf8.trashinfo"), .stderr "unparsable" (b "/m/.Trash-1000/info/nopath.trashinfo"),
       .stderr "unparsable" (b "/m/.Trash-1000/info/empty.trashinfo"), .stderr "unparsable" (b "/m/.Trash-1000/info/dir.trashinfo")] ∧
    (run noFaults (rmInfos [] (b "o*") v (infoStrs t good)) { fs := W }).2.outs = [] ∧
    (run noFaults (rmInfos [] (b "o*") v (infoStrs t names)) { fs := W }).2.fs.get (I ++ [oldN]) = none ∧
    (run noFaults (rmInfos [] (b "o*") v (infoStrs t names)) { fs := W }).2.fs.get (F ++ [b "old", b "x"]) = none ∧
    (run noFaults (rmInfos [] (b "o*") v (infoStrs t names)) { fs := W }).2.fs.get (I ++ [newN]) = W.get (I ++ [newN]) ∧
    (run noFaults (rmInfos [] (b "o*") v (infoStrs t names)) { fs := W }).2.fs.get (I ++ [emptyN]) = W.get (I ++ [emptyN]) ∧
    (run noFaults (rmInfos [] (b "o*") v (infoStrs t names)) { fs := W }).2.fs.get (F ++ [b "empty"]) = W.get (F ++ [b "empty"]) :=
  ⟨W_rm_selected.1, W_rm_run⟩

/-- `trash-list`: the scanner finds the directory, its `info/` can be listed; the theorem instantiated … -/
example : foundDirs (selectTrashDirs W rc []) = [(t, v)] := W_found
example : (C08Cmd.listOutsOf W [] (selectTrashDirs W rc [])).filter isStdout =
    [Out.stdout (b "2024-03-01 12:00:00 /m/new"), Out.stdout (b "2020-01-01 00:00:00 /m/old")] := by
  have h := (list_neighbours_do_not_matter noFaults rc [] { fs := W } W_listable).2.1
  have e : listLines W rc.cwd (foundDirs (selectTrashDirs W rc [])) =
      [b "2024-03-01 12:00:00 /m/new", b "2020-01-01 00:00:00 /m/old"] := by rw [W_found]; exact W_lines
  refine h.trans ?_
  show List.map Out.stdout (listLines W rc.cwd (foundDirs (selectTrashDirs W rc []))) = _
  rw [e]; rfl

/-- … and the whole command evaluated: exit 0, no traceback; the two entries on stdout, one diagnostic per
    neighbour on stderr, in directory order; nothing about `README` -/
example :
    (run noFaults (runList rc []) { fs := W }).1.exit = 0 ∧ (run noFaults (runList rc []) { fs := W }).1.crash = none ∧
    (run noFaults (runList rc []) { fs := W }).2.outs.reverse =
      [.stderr "io-error" (b "/m/.Trash-1000/info/dir.trashinfo"),
       .stderr "parse-error" (b "/m/.Trash-1000/info/empty.trashinfo"),
       .stdout (b "2024-03-01 12:00:00 /m/new"),
       .stderr "parse-error" (b "/m/.Trash-1000/info/nopath.trashinfo"),
       .stdout (b "2020-01-01 00:00:00 /m/old"),
       .stderr "parse-error" (b "/m/.Trash-1000/info/utf8.trashinfo")] := W_list_run

/-- `trash-restore /`: offered are `old` (index 0) and `new` (index 1) — as in the directory without the
    neighbours (`restore_neighbours_do_not_matter` through `restore_scan_without_neighbours`) -/
example : C13Cmd.offered W rc op = [eOld, eNew] ∧ restoreGood W [] t v (b "README" :: names) = good ∧
    restoreEntriesOf W [] t v = restoreEntriesOf Wg [] t v ∧ C13Cmd.offered Wg rc op = C13Cmd.offered W rc op :=
  ⟨W_offered, W_restoreGood, W_scan_same, W_offered_same⟩

/-- in one world: the offered list is the sorted in-scope entries of the two good names (theorem instantiated) -/
example : C13Cmd.offered W rc op =
    sortEntries op.sort (((restoreTrashDirs W rc op.trashDir).flatMap fun tv =>
      good.filterMap (restoreItem W rc.cwd (pjoin tv.1 (b "info")) tv.2)).filter
        fun e => inScope (C13Cmd.scopeOf rc op) e.loc) :=
  offered_is_sorted_good W rc op (fun _ => good) (by
    rw [W_restoreDirs.1]
    intro tv htv
    rw [List.mem_singleton.1 htv]
    refine Or.inl ⟨_, W_listdir, by decide +kernel, ?_⟩
    show (restoreGood W [] t v (b "README" :: names)).Sublist good
    rw [W_restoreGood]
    exact List.Sublist.refl _)

/-- answered "1": the selection theorem of C13Cmd applies as it stands (its setting constrains the selected
    entry only) … -/
example :
    (run noFaults (runRestore rc op (some (b "1"))) { fs := W }).1.exit = 0 ∧
    (run noFaults (runRestore rc op (some (b "1"))) { fs := W }).1.crash = none ∧
    C13Cmd.RestoredExactly W (run noFaults (runRestore rc op (some (b "1"))) { fs := W }).2.fs I F [itNew] :=
  W_restore_theorem

/-- … and the run evaluated: `/m/new` is back, its payload and info file are gone; `old` and the four
    neighbours (with the payload of `empty`) are what they were -/
example :
    (Proofs.C02CmdEx.restoreS rc op (b "1") W).1.exit = 0 ∧
    (Proofs.C02CmdEx.restoreS rc op (b "1") W).2.fs.get [b "m", b "new"] = some (.file [121] 0o644 3) ∧
    (Proofs.C02CmdEx.restoreS rc op (b "1") W).2.fs.get (I ++ [newN]) = none ∧
    (Proofs.C02CmdEx.restoreS rc op (b "1") W).2.fs.get (F ++ [b "new"]) = none ∧
    (Proofs.C02CmdEx.restoreS rc op (b "1") W).2.fs.get (I ++ [oldN]) = W.get (I ++ [oldN]) ∧
    (Proofs.C02CmdEx.restoreS rc op (b "1") W).2.fs.get (F ++ [b "old", b "x"]) = W.get (F ++ [b "old", b "x"]) ∧
    (Proofs.C02CmdEx.restoreS rc op (b "1") W).2.fs.get (I ++ [emptyN]) = W.get (I ++ [emptyN]) ∧
    (Proofs.C02CmdEx.restoreS rc op (b "1") W).2.fs.get (I ++ [nopathN]) = W.get (I ++ [nopathN]) ∧
    (Proofs.C02CmdEx.restoreS rc op (b "1") W).2.fs.get (I ++ [utf8N]) = W.get (I ++ [utf8N]) ∧
    (Proofs.C02CmdEx.restoreS rc op (b "1") W).2.fs.get (I ++ [dirI]) = W.get (I ++ [dirI]) ∧
    (Proofs.C02CmdEx.restoreS rc op (b "1") W).2.fs.get (F ++ [b "empty"]) = W.get (F ++ [b "empty"]) := W_restore_run

end examples

end TrashVerif.C19Cmd

namespace TrashVerif.C20Cmd
open TrashVerif PutCore Prog FS C09Hist C10Loop ReadDefs C19Cmd

/-- ALL COMMANDS AGREE ON WHAT AN ENTRY IS.  One info file of a scanned trash directory: `(t, v)` is a pair the
    scanner of trash-list / trash-empty / trash-rm found, trash-restore using the same volumes
    (`hvol`; C20 `bases_agree`; needed: `volumes_must_agree_counterexample`); `t/info` resolves to the
    directory `I`, the setting of Props/C10Loop.lean holds for its `*.trashinfo` names, `n` is one of
    them, its info file reads `text`, and `parsePath text = some rel`.  Then
    (0) the scan hands trash-list, trash-empty and trash-rm exactly the path `infoStr t n` (among
        `infoStrs t names`) with the volume `v`, and `(t, v)` is among trash-restore's directories too;
    (1) trash-list prints for it — `listOne`, and in the run over this directory under every oracle — the
        line `<date> <v/rel>`, `<date>` = the rendering of `parseDeletionDate text` (`listDate`);
    (2) trash-restore (no `--trash-dir`) scans the entry `scannedEntry`: location `pjoin v rel` — the very
        string trash-list printed —, date `parseDeletionDate text` — the value it sorts by and shows
        (`restoreLine`: the same rendering for a date) —, info path `infoStr t n`; offers it when it is
        in scope; and when it is selected (setting of `C13Cmd.restore_selects_exactly`) the item's name
        is `n`, the run exits 0, and the whole payload `files/stem(n)` ends up at `dst` = the kernel's
        resolution of exactly that string `pjoin v rel`; info file and payload are gone;
    (3) trash-rm's verdict is `rmMatches pattern (pjoin v rel)` — the pattern is matched against that
        same string —, and the run over this directory (`rmDirs`, non-empty pattern) purges the entry
        whole iff it matches, leaves it intact otherwise;
    (4) trash-empty DAYS's decision is `olderThan days now` of that same `parseDeletionDate text` (kept
        when there is none), and — valid clock, now − DAYS days representable — the loop purges the
        entry whole iff that date is strictly earlier than now − DAYS days (`C10.shouldPurge`), leaves it
        intact otherwise. -/
theorem commands_agree_on_entry (fs : FS) (c : ReadCfg) (t v : Bytes) (I F : CPath) (n text rel : Bytes)
    (hvol : listVolumes c = c.mountPoints)
    (hf : (t, v) ∈ foundDirs (scanTrashDirs fs c))
    (hres : FS.resolve fs c.cwd (pjoin t (b "info")) true = .ok I)
    (S : Setting fs c.cwd t I F ((infoNames fs I).filter isTrashinfoName))
    (hn : n ∈ (infoNames fs I).filter isTrashinfoName)
    (htext : contentsOf fs c.cwd (infoStr t n) = some text) (hrel : parsePath text = some rel) :
    -- (0) the scan hands every command the same info path and the same volume
    (infosOf fs c.cwd t = .ok (infoStrs t ((infoNames fs I).filter isTrashinfoName)) ∧
     (t, v) ∈ restoreTrashDirs fs c none) ∧
    -- (1) trash-list
    (listOne fs c.cwd v (infoStr t n) = .stdout (listDate text ++ [32] ++ pjoin v rel) ∧
     ∀ (φ : Oracle) (s : RunState), s.fs = fs →
       Out.stdout (listDate text ++ [32] ++ pjoin v rel) ∈ (run φ (listEvents c.cwd [.found t v]) s).2.outs) ∧
    -- (2) trash-restore
    (∀ o : RestoreOpts, o.trashDir = none →
      scannedEntry t v n text rel ∈ restoreEntries fs c o ∧
      (inScope (C13Cmd.scopeOf c o) (pjoin v rel) = true → scannedEntry t v n text rel ∈ C13Cmd.offered fs c o) ∧
      (∀ k, restoreLine k (scannedEntry t v n text rel) =
        List.replicate (4 - (Bytes.ofNat k).length) 32 ++ Bytes.ofNat k ++ [32] ++
          dateStrOpt (parseDeletionDate text) ++ [32] ++ pjoin v rel) ∧
      ∀ (reply : Bytes) (idxs : List Nat) (sel : List C13Cmd.Item) (it : C13Cmd.Item),
        parseIndexes reply (C13Cmd.offered fs c o).length = .ok idxs →
        C13Cmd.selected (C13Cmd.offered fs c o) idxs = sel.map (·.e) →
        C13Cmd.RSetting fs c.cwd I F sel → it ∈ sel → it.e = scannedEntry t v n text rel →
        it.name = n ∧ FS.resolve fs c.cwd (pjoin v rel) = .ok it.dst ∧
        (run noFaults (runRestore c o (some reply)) { fs := fs }).1.exit = 0 ∧
        (run noFaults (runRestore c o (some reply)) { fs := fs }).1.crash = none ∧
        (∀ r, (run noFaults (runRestore c o (some reply)) { fs := fs }).2.fs.get (it.dst ++ r) = fs.get (F ++ [stemOf n] ++ r)) ∧
        (run noFaults (runRestore c o (some reply)) { fs := fs }).2.fs.get (I ++ [n]) = none ∧
        (∀ r, (run noFaults (runRestore c o (some reply)) { fs := fs }).2.fs.get (F ++ [stemOf n] ++ r) = none)) ∧
    -- (3) trash-rm
    (∀ pattern : Bytes,
      rmSelects fs c.cwd pattern v (infoStr t n) = decide (rmMatches pattern (pjoin v rel) = some true) ∧
      (pattern ≠ [] →
        (run noFaults (rmDirs c.cwd pattern [(t, v)]) { fs := fs }).1 = none ∧
        (rmMatches pattern (pjoin v rel) = some true →
          EntryGone (run noFaults (rmDirs c.cwd pattern [(t, v)]) { fs := fs }).2.fs I F n) ∧
        (rmMatches pattern (pjoin v rel) ≠ some true →
          EntryIntact fs (run noFaults (rmDirs c.cwd pattern [(t, v)]) { fs := fs }).2.fs I F n))) ∧
    -- (4) trash-empty DAYS
    (∀ (o : EmptyOpts) (days : Nat), o.days = some days →
      okToDelete fs c.cwd o (infoStr t n) =
        (match parseDeletionDate text with
         | none => .keep
         | some d => (match olderThan days o.now o.nowUs d with | .overflow => .crash .overflow | .yes => .delete | .no => .keep)) ∧
      (o.dryRun = false → o.now.valid = true → o.nowUs < 1000000 → C10.minusDays days o.now ≠ none →
        (run noFaults (emptyInfos c.cwd o (infoStrs t ((infoNames fs I).filter isTrashinfoName))) { fs := fs }).1 = none ∧
        ((∃ d, parseDeletionDate text = some d ∧ C10.shouldPurge days o.now o.nowUs d = true) →
          EntryGone (run noFaults (emptyInfos c.cwd o (infoStrs t ((infoNames fs I).filter isTrashinfoName))) { fs := fs }).2.fs I F n) ∧
        ((¬ ∃ d, parseDeletionDate text = some d ∧ C10.shouldPurge days o.now o.nowUs d = true) →
          EntryIntact fs (run noFaults (emptyInfos c.cwd o (infoStrs t ((infoNames fs I).filter isTrashinfoName))) { fs := fs }).2.fs I F n))) :=
  Proofs.C20Cmd.commands_agree_on_entry fs c t v I F n text rel hvol hf hres S hn htext hrel

section examples
open Proofs.C19CmdEx Proofs.C19CmdEx.Demo Proofs.C19CmdEx.Cex

/-- In `commands_agree_on_entry` (and C20 `bases_agree`) the hypothesis `listVolumes c = c.mountPoints` is needed:
    TRASH_VOLUMES is consulted by the scanner of trash-list / trash-empty / trash-rm only.  With
    TRASH_VOLUMES=/n, `/n/.Trash-1000` is found by that scanner and is NOT among trash-restore's directories:
    its entries are listed, can be purged, and are never offered for restoring. -/
theorem volumes_must_agree_counterexample :
    listVolumes rcV ≠ rcV.mountPoints ∧
    (b "/n/.Trash-1000", b "/n") ∈ foundDirs (scanTrashDirs WV rcV) ∧
    (b "/n/.Trash-1000", b "/n") ∉ restoreTrashDirs WV rcV none :=
  Proofs.C19CmdEx.Cex.volumes_must_agree_counterexample

/-- non-vacuity: every hypothesis holds for the entry `old` of the demo directory (found by the scanner
    for the volume `/m`) … -/
example : listVolumes rc = rc.mountPoints ∧ (t, v) ∈ foundDirs (scanTrashDirs W rc) ∧
    FS.resolve W rc.cwd (pjoin t (b "info")) true = .ok I ∧
    Setting W rc.cwd t I F ((infoNames W I).filter isTrashinfoName) ∧
    oldN ∈ (infoNames W I).filter isTrashinfoName ∧
    contentsOf W rc.cwd (infoStr t oldN) = some oldText ∧ parsePath oldText = some (b "old") :=
  ⟨by decide +kernel, W_scan_found, W_resolves, W_setting', by rw [W_names]; decide +kernel, W_old_text.1, W_old_text.2.1⟩

/-- … and the conclusion read off: the line trash-list prints, the entry trash-restore is offered (same
    location string, same date), `trash-rm 'o*'` and `trash-empty 1` purging it whole -/
example :
    listOne W [] v (infoStr t oldN) = .stdout (b "2020-01-01 00:00:00 /m/old") ∧
    scannedEntry t v oldN oldText (b "old") = eOld ∧ eOld ∈ C13Cmd.offered W rc op ∧
    EntryGone (run noFaults (rmDirs [] (b "o*") [(t, v)]) { fs := W }).2.fs I F oldN ∧
    EntryGone (run noFaults (emptyInfos [] o1 (infoStrs t names)) { fs := W }).2.fs I F oldN := W_agree

end examples

end TrashVerif.C20Cmd
