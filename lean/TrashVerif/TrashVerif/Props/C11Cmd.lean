/-
  Props/C11Cmd.lean — C11 at the COMMAND level:
  "trash-empty and trash-rm delete only inside the trash directories: whatever the trash directories
   contain — payloads that are symlinks (absolute, relative, dangling) to files or directories
   elsewhere, directory trees containing such links, malformed or oddly named info files — nothing
   outside files/ and info/ of the trash directories in scope is removed or changed: a symlink is
   unlinked, never followed."

  Props/C11.lean frames the removal PRIMITIVES (`rmtree`, `remove_file2`, …, one purged pair).  Here
  WHOLE RUNS of the real commands of Model/Cmds.lean are framed — `runEmpty` (any options: `--trash-dir`,
  days, dry-run, verbose, interactive with any reply), `runRm` (any arguments), and the loops
  `emptyDirs` / `rmDirs` they call — under EVERY fault oracle, in the final state AND in every state
  a kill can leave behind.

  Vocabulary (Props/C11CmdDefs.lean).  A ROOT is the canonical path where `t/files` or `t/info` LEADS in
  the initial state (the string resolved as the kernel resolves it for `listdir`: every symbolic link
  followed), `t` one of the trash directories the run visits — for `runEmpty` the directories of
  `selectTrashDirs` (the scanner's, or the `--trash-dir` arguments verbatim), for `runRm` the scanner's.
  `Framed fs0 cwd dirs x` says what the state `x` keeps of the initial state `fs0`:
    `outside`  every path that is not at or below a root is EXACTLY as it was;
    `roots`    every path that is not strictly below a root — the roots `files/`, `info/` themselves —
               is as it was up to a directory's mtime: `files/` and `info/` are never removed;
    `shrinks`  everywhere — strictly below the roots too — the run only removes: what is still there is
               as it was up to a directory's mtime (nothing created, rewritten, chmod-ed, renamed).

  What is — and is not — needed.
  * NOTHING about the entries: payloads, info files, their names and contents are arbitrary (links to
    anywhere, trees with links, dangling links, unreadable or malformed info files, the names
    `.trashinfo`, `..trashinfo`, `...trashinfo`, directories named `x.trashinfo`, …).
  * NOTHING about the trash-directory strings either: `--trash-dir` arguments are taken verbatim
    (trailing slashes, the empty string, relative, through links).  `path_of_backup_copy` then works
    with `dirname(t/info)/files`, the readers with `t/files` — different strings when `t` ends with '/',
    which resolve alike (`Proofs.C11Cmd.resolve_files_sibling`).
  * NOTHING about mount points: the frame is about paths.  A volume mounted inside a payload IS
    emptied (`mounted_volume_inside_payload_is_emptied`; `shutil.rmtree` does not look at `st_dev`).
  * `PlainNames` of the initial world (every name of every present path is a file name: non-empty,
    no '/', not `.`/`..`) — true of every world a kernel can produce, not enforced by the flat
    file-system model, and needed there: `plain_names_needed`.
  * The BOUNDARY: the roots are where `files/` and `info/` LEAD.  When `t/info` or `t/files` is a symbolic
    link to a directory elsewhere, both commands list THROUGH the link and delete THERE — outside the
    directory entries `files`/`info`, outside the subtree of `t`.  `linked_subdirs_delete_elsewhere`
    (kernel-checked; REAL behaviour of /repo's code: reproduced with the real `trash-empty --trash-dir`
    and the real `RmCmd` on a `tempfile.mkdtemp()` world — `/o/i/x.trashinfo`, `/o/d/x`, `/o/d/g`,
    `/o/d/sub` deleted through `T/info -> /o/i`, `T/files -> /o/d`).  With `RealSubdirs` (neither is a
    symbolic link) every root IS the directory entry `files` / `info` of the trash directory:
    `empty_frame_real_subdirs`, `rm_frame_real_subdirs`, `subdirEntry_shape`.

  How it works (Proofs/C11Cmd.lean): the loops issue only `unlink`/`rmdir` calls of paths STRICTLY below
  a root (calculus `Iss` of Proofs/C04.lean over the invariant "the state only shrank",
  `Proofs.C11.Shr`); a path string `D/n` that resolves in a shrunk state resolved to the same place
  initially, and that place is `<where D leads>/n` (`Proofs.C08Cmd.resolve_name_shr`); such a call keeps
  every path outside the roots exactly and every path that is not the removed one up to mtime.
-/
import TrashVerif.Props.C11
import TrashVerif.Props.C11CmdDefs
import TrashVerif.Proofs.C11Cmd
import TrashVerif.Proofs.C11CmdEx
namespace TrashVerif.C11Cmd
open TrashVerif Prog FS
open TrashVerif.C08Cmd (PlainNames Apart)

/-! ### (1) trash-empty -/

/-- trash-empty's loop over trash directories (`Emptier.do_empty`), under EVERY fault oracle, from any
    run state, for ANY list of directories: the final state and every state recorded on the way are
    `Framed` — every path that is not at or below where `t/files` or `t/info` of a directory of the list
    leads is exactly as it was, `files/` and `info/` themselves are still there, and below them the loop
    only removed. -/
theorem emptyDirs_frame (φ : Oracle) (cwd : CPath) (o : EmptyOpts) (dirs : List (Bytes × Bytes))
    (s : RunState) (hn : PlainNames s.fs) :
    Framed s.fs cwd dirs (run φ (emptyDirs cwd o dirs) s).2.fs ∧
    ∀ x ∈ (run φ (emptyDirs cwd o dirs) s).2.hist, x ∈ s.hist ∨ Framed s.fs cwd dirs x :=
  Proofs.C11Cmd.emptyDirs_frame φ cwd o dirs s hn

/-- The whole command `trash-empty`, under EVERY fault oracle, whatever the options and the reply:
    every state a kill can leave behind — the final one included — is `Framed` relative to the
    directories the selector yields in the initial state. -/
theorem empty_frame (φ : Oracle) (c : ReadCfg) (o : EmptyOpts) (reply : Option Bytes) (fs : FS) (hn : PlainNames fs) :
    ∀ x ∈ crashStates φ (runEmpty c o reply) fs, Framed fs c.cwd (foundDirs (selectTrashDirs fs c o.userDirs)) x :=
  Proofs.C11Cmd.empty_frame φ c o reply fs hn

/-- the same from any run state (history, trace, outputs so far) -/
theorem empty_frame_from (φ : Oracle) (c : ReadCfg) (o : EmptyOpts) (reply : Option Bytes) (s : RunState)
    (hn : PlainNames s.fs) :
    Framed s.fs c.cwd (foundDirs (selectTrashDirs s.fs c o.userDirs)) (run φ (runEmpty c o reply) s).2.fs ∧
    ∀ x ∈ (run φ (runEmpty c o reply) s).2.hist,
      x ∈ s.hist ∨ Framed s.fs c.cwd (foundDirs (selectTrashDirs s.fs c o.userDirs)) x :=
  Proofs.C11Cmd.runEmpty_frame φ c o reply s hn

/-! ### (2) trash-rm -/

/-- trash-rm's loop over trash directories, under EVERY fault oracle, from any run state -/
theorem rmDirs_frame (φ : Oracle) (cwd : CPath) (pattern : Bytes) (dirs : List (Bytes × Bytes))
    (s : RunState) (hn : PlainNames s.fs) :
    Framed s.fs cwd dirs (run φ (rmDirs cwd pattern dirs) s).2.fs ∧
    ∀ x ∈ (run φ (rmDirs cwd pattern dirs) s).2.hist, x ∈ s.hist ∨ Framed s.fs cwd dirs x :=
  Proofs.C11Cmd.rmDirs_frame φ cwd pattern dirs s hn

/-- The whole command `trash-rm`, under EVERY fault oracle, whatever the arguments -/
theorem rm_frame (φ : Oracle) (c : ReadCfg) (args : List Bytes) (fs : FS) (hn : PlainNames fs) :
    ∀ x ∈ crashStates φ (runRm c args) fs, Framed fs c.cwd (foundDirs (scanTrashDirs fs c)) x :=
  Proofs.C11Cmd.rm_frame φ c args fs hn

theorem rm_frame_from (φ : Oracle) (c : ReadCfg) (args : List Bytes) (s : RunState) (hn : PlainNames s.fs) :
    Framed s.fs c.cwd (foundDirs (scanTrashDirs s.fs c)) (run φ (runRm c args) s).2.fs ∧
    ∀ x ∈ (run φ (runRm c args) s).2.hist, x ∈ s.hist ∨ Framed s.fs c.cwd (foundDirs (scanTrashDirs s.fs c)) x :=
  Proofs.C11Cmd.runRm_frame φ c args s hn

/-! ### (3) "a symlink is unlinked, never followed" -/

/-- In the property's words, trash-empty: a symbolic link `p` — a payload, a link somewhere inside a
    trashed tree, anything — whose target leads to `x`, a place apart from `files/` and `info/` of every
    visited trash directory (neither inside one nor above one): `x` and EVERYTHING below it are exactly
    as they were, in every state a kill can leave behind.  (What is at `p` plays no role in the proof:
    nothing apart from the roots is touched, whoever points to it.) -/
theorem outside_targets_untouched (φ : Oracle) (c : ReadCfg) (o : EmptyOpts) (reply : Option Bytes) (fs : FS)
    (hn : PlainNames fs) (p : CPath) (tgt : Bytes) (x : CPath) (_hl : LinkLeads fs p tgt x)
    (hap : ∀ D, Root fs c.cwd (foundDirs (selectTrashDirs fs c o.userDirs)) D → Apart D x) :
    ∀ st ∈ crashStates φ (runEmpty c o reply) fs, ∀ rel, st.get (x ++ rel) = fs.get (x ++ rel) :=
  fun st hst rel => (empty_frame φ c o reply fs hn st hst).outside _ (Proofs.C11Cmd.outside_of_apart hap rel)

/-- … and trash-rm -/
theorem outside_targets_untouched_rm (φ : Oracle) (c : ReadCfg) (args : List Bytes) (fs : FS)
    (hn : PlainNames fs) (p : CPath) (tgt : Bytes) (x : CPath) (_hl : LinkLeads fs p tgt x)
    (hap : ∀ D, Root fs c.cwd (foundDirs (scanTrashDirs fs c)) D → Apart D x) :
    ∀ st ∈ crashStates φ (runRm c args) fs, ∀ rel, st.get (x ++ rel) = fs.get (x ++ rel) :=
  fun st hst rel => (rm_frame φ c args fs hn st hst).outside _ (Proofs.C11Cmd.outside_of_apart hap rel)

/-! ### (4) `files/` and `info/` themselves; odd info names -/

/-- `files/` and `info/` of a visited trash directory (a root that does not lie inside another root) are
    never removed, replaced or chmod-ed by trash-empty — whatever `info/` holds: `.trashinfo`,
    `..trashinfo`, `...trashinfo` (whose payload paths would be `files/`, `files/.`, `files/..`) are not
    trashinfo names (`C11.trashinfo_name_stem`, `C19.infos_only_trashinfo_names`) and are left alone. -/
theorem subdirs_survive (φ : Oracle) (c : ReadCfg) (o : EmptyOpts) (reply : Option Bytes) (fs : FS) (hn : PlainNames fs)
    (D : CPath) (hD : NotInside fs c.cwd (foundDirs (selectTrashDirs fs c o.userDirs)) D) :
    ∀ st ∈ crashStates φ (runEmpty c o reply) fs, SameButMtime (fs.get D) (st.get D) :=
  fun st hst => (empty_frame φ c o reply fs hn st hst).roots D hD

theorem subdirs_survive_rm (φ : Oracle) (c : ReadCfg) (args : List Bytes) (fs : FS) (hn : PlainNames fs)
    (D : CPath) (hD : NotInside fs c.cwd (foundDirs (scanTrashDirs fs c)) D) :
    ∀ st ∈ crashStates φ (runRm c args) fs, SameButMtime (fs.get D) (st.get D) :=
  fun st hst => (rm_frame φ c args fs hn st hst).roots D hD

/-- the three odd names are not trashinfo names -/
theorem odd_names_not_trashinfo :
    isTrashinfoName (b ".trashinfo") = false ∧ isTrashinfoName (b "..trashinfo") = false ∧
    isTrashinfoName (b "...trashinfo") = false ∧ isTrashinfoName (b "....trashinfo") = true := by decide +kernel

/-! ### the frame relative to the directory ENTRIES `files` / `info` -/

/-- a directory entry `files` / `info` of a trash directory is a path `T/files` resp. `T/info` -/
theorem subdirEntry_shape (fs : FS) (cwd : CPath) (dirs : List (Bytes × Bytes)) (p : CPath)
    (h : SubdirEntry fs cwd dirs p) : ∃ T, p = T ++ [b "files"] ∨ p = T ++ [b "info"] :=
  Proofs.C11Cmd.subdirEntry_shape h

/-- when `files` and `info` of every visited directory are not symbolic links, every root is such an
    entry -/
theorem root_is_entry (fs : FS) (cwd : CPath) (dirs : List (Bytes × Bytes))
    (hreal : ∀ tv ∈ dirs, RealSubdirs fs cwd tv.1) (D : CPath) (h : Root fs cwd dirs D) : SubdirEntry fs cwd dirs D :=
  Proofs.C11Cmd.root_real hreal h

/-- trash-empty, when `files/` and `info/` of every visited trash directory are real (not symbolic
    links): every path that is not at or below the directory ENTRY `files` or `info` of a visited
    directory (`t/files`, `t/info` resolved WITHOUT following the final component: `T/files`, `T/info` for
    the canonical `T` of `t`) is exactly as it was, in every state a kill can leave behind.
    Without `hreal` this is FALSE: `linked_subdirs_delete_elsewhere`.  The false statement, for the record:
    --   theorem empty_frame_entries (φ c o reply fs) (hn : PlainNames fs) :
    --     ∀ st ∈ crashStates φ (runEmpty c o reply) fs, ∀ q,
    --       (∀ p, SubdirEntry fs c.cwd (foundDirs (selectTrashDirs fs c o.userDirs)) p → ¬ FS.under p q = true) →
    --       st.get q = fs.get q
    (refuted by `WI`, REAL behaviour); the true general statement is `empty_frame` (roots = where `files/`,
    `info/` LEAD), of which this is the special case of real subdirectories. -/
theorem empty_frame_real_subdirs (φ : Oracle) (c : ReadCfg) (o : EmptyOpts) (reply : Option Bytes) (fs : FS)
    (hn : PlainNames fs)
    (hreal : ∀ tv ∈ foundDirs (selectTrashDirs fs c o.userDirs), RealSubdirs fs c.cwd tv.1) :
    ∀ st ∈ crashStates φ (runEmpty c o reply) fs, ∀ q,
      (∀ p, SubdirEntry fs c.cwd (foundDirs (selectTrashDirs fs c o.userDirs)) p → ¬ FS.under p q = true) →
      st.get q = fs.get q :=
  fun st hst q hq => (empty_frame φ c o reply fs hn st hst).outside q (Proofs.C11Cmd.outside_of_real hreal hq)

theorem rm_frame_real_subdirs (φ : Oracle) (c : ReadCfg) (args : List Bytes) (fs : FS)
    (hn : PlainNames fs)
    (hreal : ∀ tv ∈ foundDirs (scanTrashDirs fs c), RealSubdirs fs c.cwd tv.1) :
    ∀ st ∈ crashStates φ (runRm c args) fs, ∀ q,
      (∀ p, SubdirEntry fs c.cwd (foundDirs (scanTrashDirs fs c)) p → ¬ FS.under p q = true) →
      st.get q = fs.get q :=
  fun st hst q hq => (rm_frame φ c args fs hn st hst).outside q (Proofs.C11Cmd.outside_of_real hreal hq)

/-! ### (5) non-vacuity, the runs evaluated, and the boundary worlds

World `WE` (Proofs/C11CmdEx.lean): two volumes, `/` and the mount point `/m`; HOME=/h, uid 1000, cwd `/`.
Outside sentinels `outsideE`: `/`, `/h` … `/h/.local/share/Trash`, `/o`, `/o/f`, `/o/d`, `/o/d/g`,
`/o/d/sub`, `/o/d/sub/h`, `/q`, `/m`, `/m/keep`, `/m/.Trash-1000` (with distinctive modes and mtimes).
Home trash: `lf -> /o/f`, `ld -> ../../../../../o/d`, `tree/` = { `a`, `lnk -> /o/d`, `sub/rel -> ../../ld` },
`dang -> /nowhere`, each with its `.trashinfo`; the orphan `orph -> /o`.
`/m/.Trash-1000`: `y -> /m/keep`, `tree2/` = { `l -> /o/d`, `up -> ../../..` } with their `.trashinfo`, and the
info files `.trashinfo`, `..trashinfo`, `...trashinfo`.
`HF`, `HI`, `AF`, `AI`: `files/` and `info/` of the two directories. -/
section examples
open TrashVerif.Proofs.C11CmdEx
open TrashVerif.Proofs.C08CmdEx (rc eo dN TH TA R WN)

/-- the hypothesis holds, the run visits the home trash and `/m/.Trash-1000`, the roots are the four
    directories `files/`, `info/` -/
example : PlainNames WE ∧ foundDirs (selectTrashDirs WE rc []) = dirsE ∧ foundDirs (scanTrashDirs WE rc) = dirsE ∧
    rootsOf WE rc.cwd dirsE = [HF, HI, AF, AI] := ⟨plainE, foundE, scanE, rootsE⟩

/-- `Root` is what `rootsOf` computes -/
theorem root_iff_mem (fs : FS) (cwd : CPath) (dirs : List (Bytes × Bytes)) (D : CPath) :
    Root fs cwd dirs D ↔ D ∈ rootsOf fs cwd dirs := Proofs.C11Cmd.root_iff_mem

/-- `empty_frame` instantiated, under EVERY oracle: every sentinel is exactly as it was in every
    state a kill can leave behind, and the four roots are still directories of mode 755 -/
example (φ : Oracle) : ∀ st ∈ crashStates φ (runEmpty rc eo none) WE,
    (∀ pn ∈ outsideE, st.get pn.1 = some pn.2) ∧ (∀ D ∈ [HF, HI, AF, AI], ∃ t, st.get D = some (.dir 0o755 t)) := by
  intro st hst
  have hf := empty_frame φ rc eo none WE plainE st hst
  rw [show foundDirs (selectTrashDirs WE rc eo.userDirs) = dirsE from foundE] at hf
  refine ⟨fun pn hpn => ?_, fun D hD => ?_⟩
  · rw [hf.outside pn.1 (outsideE_ok pn hpn)]
    revert pn; decide +kernel
  · have h2 : WE.get D = some dN := by revert D; decide +kernel
    have h1 := hf.roots D (rootsE_notInside D hD)
    rw [h2] at h1
    cases hg : st.get D with
    | none => rw [hg] at h1; simp [SameButMtime, dN] at h1
    | some nd =>
      rw [hg] at h1
      cases nd with
      | dir m t => simp only [SameButMtime, dN] at h1; exact ⟨t, by rw [← h1]⟩
      | file d m t => simp [SameButMtime, dN] at h1
      | link t => simp [SameButMtime, dN] at h1

/-- `outside_targets_untouched` instantiated on the relative link `ld -> ../../../../../o/d` and on the link
    of a link `tree/sub/rel -> ../../ld`: `/o/d` and everything below it -/
example (φ : Oracle) : ∀ st ∈ crashStates φ (runEmpty rc eo none) WE, ∀ rel,
    st.get ([b "o", b "d"] ++ rel) = WE.get ([b "o", b "d"] ++ rel) :=
  outside_targets_untouched φ rc eo none WE plainE _ _ _ leadsE.2.1
    (by rw [show foundDirs (selectTrashDirs WE rc eo.userDirs) = dirsE from foundE]
        exact apartE _ (by decide +kernel))

example (φ : Oracle) : ∀ st ∈ crashStates φ (runRm rc [b "*"]) WE, ∀ rel,
    st.get ([b "o", b "d"] ++ rel) = WE.get ([b "o", b "d"] ++ rel) :=
  outside_targets_untouched_rm φ rc [b "*"] WE plainE _ _ _ leadsE.2.2.2.1
    (by rw [scanE]; exact apartE _ (by decide +kernel))

/-- … independently, the run of `trash-empty` evaluated by the kernel: exit 0; every pair and the
    orphan gone (the links unlinked); every sentinel exactly as it was; the four roots still there;
    the three odd info files left alone -/
example :
    let r := run noFaults (runEmpty rc eo none) { fs := WE }
    r.1.exit = 0 ∧
    (∀ n ∈ [b "lf", b "ld", b "tree", b "dang", b "orph"], r.2.fs.get (HF ++ [n]) = none) ∧
    (∀ n ∈ [b "lf.trashinfo", b "ld.trashinfo", b "tree.trashinfo", b "dang.trashinfo"], r.2.fs.get (HI ++ [n]) = none) ∧
    (∀ n ∈ [b "y", b "tree2"], r.2.fs.get (AF ++ [n]) = none) ∧
    (∀ n ∈ [b "y.trashinfo", b "tree2.trashinfo"], r.2.fs.get (AI ++ [n]) = none) ∧
    (∀ pn ∈ outsideE, r.2.fs.get pn.1 = some pn.2) ∧
    (∀ D ∈ [HF, HI, AF, AI], r.2.fs.get D = some dN) ∧
    (∀ n ∈ [b ".trashinfo", b "..trashinfo", b "...trashinfo"],
      r.2.fs.get (AI ++ [n]) = WE.get (AI ++ [n]) ∧ (WE.get (AI ++ [n])).isSome = true) := by
  show (run noFaults (runEmpty rc eo none) { fs := WE }).1.exit = 0 ∧ _
  rw [Proofs.C11CmdEval.empty_twin]; exact emptyE_eval

/-- … every state a kill can leave behind, evaluated -/
example : ∀ x ∈ crashStates noFaults (runEmpty rc eo none) WE, ∀ pn ∈ outsideE, x.get pn.1 = some pn.2 := by
  rw [Proofs.C11CmdEval.runEmpty_eq]; exact emptyE_crash

/-- the run of `trash-rm '*'` evaluated: the pairs gone, the orphan link and the odd info files left,
    every sentinel as it was -/
example :
    let r := run noFaults (runRm rc [b "*"]) { fs := WE }
    r.1.exit = 0 ∧
    (∀ n ∈ [b "lf", b "ld", b "tree", b "dang"], r.2.fs.get (HF ++ [n]) = none) ∧
    r.2.fs.get (HF ++ [b "orph"]) = some (.link (b "/o")) ∧
    (∀ n ∈ [b "y", b "tree2"], r.2.fs.get (AF ++ [n]) = none) ∧
    (∀ pn ∈ outsideE, r.2.fs.get pn.1 = some pn.2) ∧
    (∀ D ∈ [HF, HI, AF, AI], r.2.fs.get D = some dN) ∧
    (∀ n ∈ [b ".trashinfo", b "..trashinfo", b "...trashinfo"], r.2.fs.get (AI ++ [n]) = WE.get (AI ++ [n])) := by
  show (run noFaults (runRm rc [b "*"]) { fs := WE }).1.exit = 0 ∧ _
  rw [Proofs.C11CmdEval.rm_twin]; exact rmE_eval

/-- `--trash-dir /m/.Trash-1000//` (taken verbatim): the readers list `/m/.Trash-1000//files`,
    `path_of_backup_copy` says `/m/.Trash-1000/files/y` — the roots are `files/` and `info/` of the volume
    trash directory all the same; `empty_frame` instantiated under every oracle, and the run evaluated -/
example : foundDirs (selectTrashDirs WE rc eoU.userDirs) = dirsU ∧ rootsOf WE rc.cwd dirsU = [AF, AI] ∧
    pjoin (pjoin (b "/m/.Trash-1000//") (b "files")) (b "y") = b "/m/.Trash-1000//files/y" ∧
    pathOfBackupCopy (pjoin (pjoin (b "/m/.Trash-1000//") (b "info")) (b "y.trashinfo")) = b "/m/.Trash-1000/files/y" :=
  ⟨foundU, rootsU, stringsU.1, stringsU.2⟩

example (φ : Oracle) : ∀ st ∈ crashStates φ (runEmpty rc eoU none) WE, ∀ pn ∈ outsideE, st.get pn.1 = some pn.2 := by
  intro st hst pn hpn
  have hf := empty_frame φ rc eoU none WE plainE st hst
  rw [foundU] at hf
  rw [hf.outside pn.1 (outside_of_roots rootsU (by revert pn; decide +kernel))]
  revert pn; decide +kernel

example :
    let r := run noFaults (runEmpty rc eoU none) { fs := WE }
    r.1.exit = 0 ∧
    (∀ n ∈ [b "y", b "tree2"], r.2.fs.get (AF ++ [n]) = none) ∧
    (∀ n ∈ [b "y.trashinfo", b "tree2.trashinfo"], r.2.fs.get (AI ++ [n]) = none) ∧
    (∀ pn ∈ outsideE, r.2.fs.get pn.1 = some pn.2) ∧
    (∀ n ∈ [b "lf", b "ld", b "tree", b "dang", b "orph"], r.2.fs.get (HF ++ [n]) = WE.get (HF ++ [n])) ∧
    r.2.fs.get AF = some dN ∧ r.2.fs.get AI = some dN := by
  show (run noFaults (runEmpty rc eoU none) { fs := WE }).1.exit = 0 ∧ _
  rw [Proofs.C11CmdEval.empty_twin]; exact emptyU_eval

/-- a run under a fault oracle, evaluated (`noUnlink`: every `unlink` fails with EACCES, so
    `remove_file2` falls back to `shutil.rmtree`, which refuses a symbolic link): nothing is removed,
    the link payload `lf -> /o/f` is still there and was not followed, every sentinel is as it was -/
example :
    let r := run noUnlink (runEmpty rc eo none) { fs := WE }
    r.1.exit = 0 ∧ (∀ pn ∈ nodesE, (r.2.fs.get pn.1).isSome = true) ∧
    (∀ pn ∈ outsideE, r.2.fs.get pn.1 = some pn.2) ∧
    r.2.fs.get (HF ++ [b "lf"]) = some (.link (b "/o/f")) ∧
    Out.stderr "cannot-remove" (b "/h/.local/share/Trash/files/lf") ∈ r.2.outs := by
  show (run noUnlink (runEmpty rc eo none) { fs := WE }).1.exit = 0 ∧ _
  rw [Proofs.C11CmdEval.runEmpty_eq]; exact emptyE_noUnlink

/-- The frame relative to the directory entries `files` / `info` — `empty_frame_real_subdirs`,
    `rm_frame_real_subdirs` WITHOUT `RealSubdirs` — is FALSE, and so is any frame relative to the subtree
    of the trash directory.  World `WI`: `/m/.Trash-1000/info -> /o/i`, `/m/.Trash-1000/files -> /o/d`;
    `/o/i/x.trashinfo`, `/o/d/x`, `/o/d/g`, `/o/d/sub/h`.  The names are plain; the run visits the home
    trash (missing) and `/m/.Trash-1000`; the five paths of `goneI` are at or below no entry
    `files`/`info` of a visited directory, not below `/m/.Trash-1000`, not below `/h`; `trash-empty` removes
    all five (pair and orphans), `trash-rm '*'` the pair.  The roots of `WI` are `/o/d` and `/o/i`.
    REAL behaviour of /repo's code (reproduced on a temporary directory). -/
theorem linked_subdirs_delete_elsewhere :
    PlainNames WI ∧
    foundDirs (selectTrashDirs WI rc []) = dirsE ∧ foundDirs (scanTrashDirs WI rc) = dirsE ∧
    ¬ RealSubdirs WI rc.cwd (b "/m/.Trash-1000") ∧
    (∀ q ∈ goneI, (∀ p, SubdirEntry WI rc.cwd dirsE p → ¬ FS.under p q = true) ∧
      ¬ FS.under TA q = true ∧ ¬ FS.under [b "h"] q = true ∧ (WI.get q).isSome = true) ∧
    (∀ q ∈ goneI, (run noFaults (runEmpty rc eo none) { fs := WI }).2.fs.get q = none) ∧
    (run noFaults (runRm rc [b "*"]) { fs := WI }).2.fs.get [b "o", b "i", b "x.trashinfo"] = none ∧
    (run noFaults (runRm rc [b "*"]) { fs := WI }).2.fs.get [b "o", b "d", b "x"] = none ∧
    rootsOf WI rc.cwd dirsE = [[b "o", b "d"], [b "o", b "i"]] :=
  Proofs.C11CmdEx.linked_subdirs_delete_elsewhere

/-- `empty_frame` WITHOUT `PlainNames` is FALSE.  World `WN` (Proofs/C08CmdEx.lean): an entry of
    `/m/.Trash-1000/info` whose NAME is `../../.Trash/1000/info/x.trashinfo` (no kernel produces such a
    name; the flat model allows it).  The pair `files/x`, `info/x.trashinfo` under `/m/.Trash/1000` — a
    directory the run does not visit — is outside every root, and `trash-empty` removes it.
    (A modelling artefact, not behaviour of the real code.) -/
theorem plain_names_needed :
    ¬ PlainNames WN ∧
    foundDirs (selectTrashDirs WN rc []) = dirsE ∧
    Outside WN rc.cwd dirsE (R ++ [b "files", b "x"]) ∧ Outside WN rc.cwd dirsE (R ++ [b "info", b "x.trashinfo"]) ∧
    (WN.get (R ++ [b "files", b "x"])).isSome = true ∧ (WN.get (R ++ [b "info", b "x.trashinfo"])).isSome = true ∧
    (run noFaults (runEmpty rc eo none) { fs := WN }).2.fs.get (R ++ [b "files", b "x"]) = none ∧
    (run noFaults (runEmpty rc eo none) { fs := WN }).2.fs.get (R ++ [b "info", b "x.trashinfo"]) = none :=
  Proofs.C11CmdEx.plain_names_needed

/-- Mount points need no hypothesis.  World `WM`: the payload `tree/` of the home trash holds the mount
    point `mnt` of another volume with the file `data`.  `trash-empty` deletes `data` (and reports that
    `tree` cannot be removed: `rmdir` of a mount point is EBUSY) — `shutil.rmtree` does not stop at
    mount points; the mounted volume lies below the root `files/`: inside the frame's region. -/
theorem mounted_volume_inside_payload_is_emptied :
    FS.isMount WM (HF ++ [b "tree", b "mnt"]) = true ∧
    rootsOf WM rc.cwd (foundDirs (selectTrashDirs WM rc [])) = [HF, HI] ∧
    (WM.get (HF ++ [b "tree", b "mnt", b "data"])).isSome = true ∧
    (run noFaults (runEmpty rc eo none) { fs := WM }).2.fs.get (HF ++ [b "tree", b "mnt", b "data"]) = none ∧
    (run noFaults (runEmpty rc eo none) { fs := WM }).2.fs.get (HF ++ [b "tree", b "mnt"]) = some dN ∧
    Out.stderr "cannot-remove" (b "/h/.local/share/Trash/files/tree") ∈ (run noFaults (runEmpty rc eo none) { fs := WM }).2.outs :=
  Proofs.C11CmdEx.mounted_volume_inside_payload_is_emptied

/-- the twins ARE the commands -/
theorem twins (c : ReadCfg) (o : EmptyOpts) (reply : Option Bytes) (args : List Bytes) :
    runEmpty c o reply = Proofs.C11CmdEval.runEmptyT c o reply ∧ runRm c args = Proofs.C11CmdEval.runRmT c args :=
  ⟨Proofs.C11CmdEval.runEmpty_eq c o reply, Proofs.C11CmdEval.runRm_eq c args⟩

end examples

end TrashVerif.C11Cmd
