def hello := "world"
