/-
  Driver/World.lean — JSON worlds ⇄ model values, and running the command models.
-/
import Lean.Data.Json
import TrashVerif.Model.Cmds
open Lean TrashVerif

namespace World

def hexStr (s : String) : Except String Bytes :=
  match Bytes.ofHex? s.toList with
  | some b => pure b
  | none => throw "bad hex"

def hexField (j : Json) (k : String) : Except String Bytes := do hexStr (← j.getObjValAs? String k)

def optHexField (j : Json) (k : String) : Except String (Option Bytes) :=
  match j.getObjVal? k with
  | .ok (Json.str s) => do pure (some (← hexStr s))
  | _ => pure none

def cpathOf (p : Bytes) : CPath := (Bytes.splitOn slash p).filter (· ≠ [])

def nodeOf (j : Json) : Except String (CPath × Node) := do
  let a ← j.getArr?
  if a.size ≠ 6 then throw "node needs 6 fields"
  let p ← hexStr (← a[0]!.getStr?)
  let k ← a[1]!.getStr?
  let d ← hexStr (← a[2]!.getStr?)
  let mode ← a[3]!.getNat?
  let mtime ← a[4]!.getNat?
  let t ← hexStr (← a[5]!.getStr?)
  match k with
  | "f" => pure (cpathOf p, .file d mode mtime)
  | "d" => pure (cpathOf p, .dir mode mtime)
  | "l" => pure (cpathOf p, .link t)
  | _ => throw "bad node kind"

def fsOf (j : Json) : Except String FS := do
  let ns ← (← j.getObjVal? "nodes").getArr?
  let nodes ← ns.toList.mapM nodeOf
  let ms ← (← j.getObjVal? "mounts").getArr?
  let mounts ← ms.toList.mapM fun m => do pure (cpathOf (← hexStr (← m.getStr?)))
  -- the real root "/" is a directory and a mount point; it holds the sandbox
  let root : CPath × Node := ([], .dir 0o755 0)
  pure (FS.ofList (root :: nodes) ([] :: mounts))

def nodeJson (p : CPath) (n : Node) : Json :=
  let ps := Json.str (Bytes.toHex (FS.toStr p))
  match n with
  | .file d m t => Json.arr #[ps, "f", Json.str (Bytes.toHex d), m, t, ""]
  | .dir m t => Json.arr #[ps, "d", "", m, t, ""]
  | .link t => Json.arr #[ps, "l", "", (0 : Nat), (0 : Nat), Json.str (Bytes.toHex t)]

def fsJson (fs : FS) : Json :=
  Json.arr ((fs.toList.filter fun (p, _) => p ≠ []).map fun (p, n) => nodeJson p n).toArray

def errnoOf (s : String) : Except String Errno :=
  match s with
  | "ENOENT" => pure .ENOENT | "EEXIST" => pure .EEXIST | "ENOTDIR" => pure .ENOTDIR | "EISDIR" => pure .EISDIR
  | "ENOTEMPTY" => pure .ENOTEMPTY | "EXDEV" => pure .EXDEV | "EBUSY" => pure .EBUSY | "EINVAL" => pure .EINVAL
  | "ELOOP" => pure .ELOOP | "ENAMETOOLONG" => pure .ENAMETOOLONG | "EACCES" => pure .EACCES | "EPERM" => pure .EPERM
  | "EROFS" => pure .EROFS | "ENOSPC" => pure .ENOSPC | "EDQUOT" => pure .EDQUOT | "EIO" => pure .EIO
  | "EMLINK" => pure .EMLINK | "OTHER" => pure .OTHER
  | _ => throw s!"unknown errno {s}"

def errnoStr (e : Errno) : String := (reprStr e).replace "TrashVerif.Errno." ""

structure Fault where
  index : Option Nat
  kind : Option String
  nth : Option Nat
  persistent : Bool
  errno : Errno

def faultOf (j : Json) : Except String Fault := do
  let e ← errnoOf (← j.getObjValAs? String "errno")
  let index := (j.getObjValAs? Nat "index").toOption
  let kind := (j.getObjValAs? String "op").toOption
  let nth := (j.getObjValAs? Nat "nth").toOption
  let persistent := ((j.getObjValAs? Bool "persistent").toOption).getD false
  pure { index, kind, nth, persistent, errno := e }

def oracleOf (fs : List Fault) : Prog.Oracle := fun n k c =>
  fs.findSome? fun f =>
    if f.index = some n then some f.errno
    else if f.kind = some c.kind ∧ (f.persistent ∨ f.nth = some k) then some f.errno
    else none

def callJson (c : Call) (r : Res) : Json :=
  let ps : List CPath := match c with
    | .mkdir p _ | .createExcl p _ | .createTrunc p _ | .write p _ | .close p | .unlink p | .rmdir p
    | .symlink _ p | .chmod p _ | .utime p _ => [p]
    | .rename a c => [a, c]
  Json.arr #[c.kind, Json.arr (ps.map fun p => Json.str (Bytes.toHex (FS.toStr p))).toArray,
             match r with | .ok () => "ok" | .error e => errnoStr e]

def outJson : Out → Json
  | .stdout l => Json.arr #["out", Json.str (Bytes.toHex l)]
  | .stderr k a => Json.arr #["err", k, Json.str (Bytes.toHex a)]

def envOf (j : Json) : Except String Env := do
  let e := (j.getObjVal? "env").toOption.getD (Json.mkObj [])
  pure { home := ← optHexField e "HOME", xdg := ← optHexField e "XDG_DATA_HOME",
         fallbackEnv := ← optHexField e "TRASH_ENABLE_HOME_FALLBACK",
         trashVolumes := ← optHexField e "TRASH_VOLUMES", trashDate := ← optHexField e "TRASH_DATE" }

def hexList (j : Json) (k : String) : Except String (List Bytes) :=
  match j.getObjVal? k with
  | .ok (Json.arr a) => a.toList.mapM fun x => do hexStr (← x.getStr?)
  | _ => pure []

def natList (j : Json) (k : String) : List Nat :=
  match j.getObjVal? k with
  | .ok (Json.arr a) => a.toList.filterMap fun x => x.getNat?.toOption
  | _ => []

def reasonStr : Reason → String
  | .noParent => "no-parent" | .parentIsFile => "parent-is-file" | .parentSymlink => "parent-symlink"
  | .parentNotSticky => "parent-not-sticky" | .differentVolumes => "different-volumes"
  | .fallbackDisabled => "fallback-disabled" | .mkdirError e => "mkdir-error:" ++ errnoStr e
  | .infoError e => "info-error:" ++ errnoStr e | .moveError e => "move-error:" ++ errnoStr e
  | .persistError e => "persist-error:" ++ errnoStr e | .cleanupCrash e => "cleanup-crash:" ++ errnoStr e

def outcomeJson : ArgOutcome → Json
  | .trashed t n => Json.mkObj [("o", "trashed"), ("dir", Json.str (Bytes.toHex t)), ("name", Json.str (Bytes.toHex n))]
  | .skippedMissing => Json.mkObj [("o", "skipped-missing")]
  | .declined => Json.mkObj [("o", "declined")]
  | .failedDot => Json.mkObj [("o", "failed-dot")]
  | .failedMissing => Json.mkObj [("o", "failed-missing")]
  | .failedAll rs => Json.mkObj [("o", "failed-all"), ("reasons", Json.arr (rs.map fun r => Json.str (reasonStr r)).toArray)]
  | .crashed e => Json.mkObj [("o", "crashed"), ("errno", errnoStr e)]

/-- common epilogue: final state, outputs, trace, crash states -/
def finish (s : Prog.RunState) (wantStates : Bool) (extra : List (String × Json)) : Json :=
  Json.mkObj (extra ++ [
    ("final", fsJson s.fs),
    ("outs", Json.arr (s.outs.reverse.map outJson).toArray),
    ("trace", Json.arr (s.trace.reverse.map fun (c, r) => callJson c r).toArray),
    ("states", if wantStates then Json.arr ((s.fs :: s.hist).reverse.map fsJson).toArray else Json.arr #[])])

def runPutWorld (j : Json) : Except String Json := do
  let fs ← fsOf j
  let env ← envOf j
  let o := (j.getObjVal? "opts").toOption.getD (Json.mkObj [])
  let mode := match (o.getObjValAs? String "mode").toOption with
    | some "force" => PutMode.force | some "interactive" => .interactive | _ => .unspecified
  let cfg : PutCfg := {
    cwd := cpathOf (← hexField j "cwd"), env := env, uid := (j.getObjValAs? Nat "uid").toOption.getD 0,
    mode := mode, trashDir := ← optHexField o "trashDir",
    homeFallback := ((o.getObjValAs? Bool "homeFallback").toOption).getD false,
    forcedVolume := ← optHexField o "forcedVolume",
    dateStr := (← optHexField j "dateStr").getD (b "@DATE@") }
  let args ← hexList j "args"
  let st : PutSt := { replies := ← hexList j "stdin", ints := natList j "ints" }
  let faults ← match j.getObjVal? "faults" with
    | .ok (Json.arr a) => a.toList.mapM faultOf
    | _ => pure []
  let (r, s) := Prog.run (oracleOf faults) (runPut cfg args st) { fs := fs }
  let wantStates := ((j.getObjValAs? Bool "states").toOption).getD false
  pure (finish s wantStates [
    ("exit", r.exit),
    ("crash", match r.crash with | some .eof => "EOFError" | some .cleanup => "OSError" | none => Json.null),
    ("outcomes", Json.arr (r.outcomes.map fun (a, o) => Json.mkObj [("arg", Json.str (Bytes.toHex a)), ("outcome", outcomeJson o)]).toArray)])

def readCfgOf (j : Json) : Except String ReadCfg := do
  -- the mount table as the listing spells it ("mountTable": e.g. with a trailing slash, as "/" always has), else the
  -- canonical mount points
  let table ← hexList j "mountTable"
  let canon ← hexList j "mounts"
  pure { cwd := cpathOf (← hexField j "cwd"), env := ← envOf j, uid := (j.getObjValAs? Nat "uid").toOption.getD 0,
         mountPoints := if table.isEmpty then canon else table }

def faultsOf (j : Json) : Except String (List Fault) :=
  match j.getObjVal? "faults" with
  | .ok (Json.arr a) => a.toList.mapM faultOf
  | _ => pure []

def crashStr : Crash → String
  | .notADirectory => "NotADirectoryError" | .ioError => "IOError" | .overflow => "OverflowError" | .eof => "EOFError"
  | .typeError => "ValueError" | .indexError => "IndexError" | .osError => "OSError"

def cmdFinish (r : CmdResult) (s : Prog.RunState) (j : Json) : Json :=
  finish s (((j.getObjValAs? Bool "states").toOption).getD false)
    [("exit", r.exit), ("crash", match r.crash with | some c => Json.str (crashStr c) | none => Json.null)]

def replyOf (j : Json) : Except String (Option Bytes) := do
  match ← hexList j "stdin" with
  | [] => pure none
  | l :: _ => pure (some l)

def dateOfArr (j : Json) (k : String) : Except String Date := do
  let a ← j.getObjValAs? (Array Nat) k
  if a.size ≠ 6 then throw "date needs 6 numbers"
  pure { y := a[0]!, m := a[1]!, d := a[2]!, H := a[3]!, M := a[4]!, S := a[5]! }

def runOther (cmd : String) (j : Json) : Except String Json := do
  let fs ← fsOf j
  let c ← readCfgOf j
  let o := (j.getObjVal? "opts").toOption.getD (Json.mkObj [])
  let φ := oracleOf (← faultsOf j)
  match cmd with
  | "list" =>
    let (r, s) := Prog.run φ (runList c (← hexList o "userDirs")) { fs := fs }
    pure (cmdFinish r s j)
  | "restore" =>
    let sort := match (o.getObjValAs? String "sort").toOption with
      | some "path" => SortMode.path | some "none" => .none | _ => .date
    let ro : RestoreOpts := { path := (← optHexField o "path").getD [], sort := sort,
                              trashDir := ← optHexField o "trashDir",
                              overwrite := ((o.getObjValAs? Bool "overwrite").toOption).getD false }
    let (r, s) := Prog.run φ (runRestore c ro (← replyOf j)) { fs := fs }
    pure (cmdFinish r s j)
  | "empty" =>
    let eo : EmptyOpts := { userDirs := ← hexList o "userDirs", days := (o.getObjValAs? Nat "days").toOption,
                            dryRun := ((o.getObjValAs? Bool "dryRun").toOption).getD false,
                            verbose := ((o.getObjValAs? Nat "verbose").toOption).getD 0,
                            interactive := ((o.getObjValAs? Bool "interactive").toOption).getD false,
                            now := ← dateOfArr o "now", nowUs := ((o.getObjValAs? Nat "nowUs").toOption).getD 0 }
    let (r, s) := Prog.run φ (runEmpty c eo (← replyOf j)) { fs := fs }
    pure (cmdFinish r s j)
  | "rm" =>
    let (r, s) := Prog.run φ (runRm c (← hexList j "args")) { fs := fs }
    pure (cmdFinish r s j)
  | c => throw s!"unknown cmd {c}"

end World
