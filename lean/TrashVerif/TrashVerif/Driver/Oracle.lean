/-
  Driver/Oracle.lean — evaluating the Spec predicates on observations of the implementation.
-/
import TrashVerif.Driver.World
import TrashVerif.Spec.PutSpecs
import TrashVerif.Spec.ReadSpecs
open Lean TrashVerif

namespace Oracle
open World

def fsFrom (j : Json) (key : String) : Except String FS := do
  let ns ← (← j.getObjVal? key).getArr?
  let nodes ← ns.toList.mapM nodeOf
  let ms ← (← j.getObjVal? "mounts").getArr?
  let mounts ← ms.toList.mapM fun m => do pure (cpathOf (← hexStr (← m.getStr?)))
  pure (FS.ofList (([], .dir 0o755 0) :: nodes) ([] :: mounts))

def cpathList (j : Json) (k : String) : Except String (List CPath) := do
  pure ((← hexList j k).map cpathOf)

def optCPath (j : Json) (k : String) : Except String (Option CPath) := do
  pure ((← optHexField j k).map cpathOf)

def arrOf (j : Json) (k : String) : List Json :=
  match j.getObjVal? k with
  | .ok (Json.arr a) => a.toList
  | _ => []

def boolOf (j : Json) (k : String) : Bool := ((j.getObjValAs? Bool k).toOption).getD false

def verdict {α} [Repr α] (ok : Bool) (v : α) : Json :=
  Json.mkObj [("ok", ok), ("verdict", (reprStr v).replace "TrashVerif." "")]

def slotsOf (j : Json) : Except String (List Effects.Slot) :=
  (arrOf j "slots").mapM fun s => do
    let e ← s.getObjValAs? String "expect"
    let ex : Effects.Expect ← match e with
      | "kept" => pure Effects.Expect.kept
      | "purged" => pure .purged
      | "any" => pure .any
      | "restored" => do pure (.restored (cpathOf (← hexField s "dest")))
      | x => throw s!"bad expect {x}"
    pure ({ t := cpathOf (← hexField s "t"), n := ← hexField s "n", expect := ex } : Effects.Slot)

def handle (j : Json) : Except String Json := do
  let prop ← j.getObjValAs? String "prop"
  let before ← fsFrom j "before"
  let after ← fsFrom j "after"
  match prop with
  | "C01" => do
    let dirs ← cpathList j "dirs"
    let items ← (arrOf j "items").mapM fun it => do
      pure ({ entry := ← optCPath it "entry", reported := boolOf it "reported" } : C01.Item)
    let v := C01.check before after dirs items
    pure (verdict (v == .ok) v)
  | "C04" => do
    let v := C04.check before after (← cpathList j "dirs")
    pure (verdict (v == .ok) v)
  | "C05" => do
    let v := C05.check before after (← cpathList j "dirs") (← cpathList j "entries")
    pure (verdict (v == .ok) v)
  | "C16" => do
    let items ← (arrOf j "items").mapM fun it => do
      pure ({ entry := ← optCPath it "entry", legitSkip := boolOf it "legitSkip", named := boolOf it "named" } : C16.Item)
    let v := C16.check before after (← cpathList j "dirs") items (← j.getObjValAs? Nat "exit")
    pure (verdict (v == .ok) v)
  | "C18" => do
    let dirs ← (arrOf j "dirsWithBase").mapM fun d => do
      pure (cpathOf (← hexField d "dir"), ← optHexField d "base")
    let items ← (arrOf j "items").mapM fun it => do
      pure ({ link := cpathOf (← hexField it "link"), target := ← optCPath it "target",
              expectAbs := ← hexField it "expectAbs" } : C18.Item)
    let v := C18.check before after dirs items
    pure (verdict (v == .ok) v)
  | "C07" => do
    let cands ← (arrOf j "cands").mapM fun c => do
      pure ({ dir := cpathOf (← hexField c "dir"), files := cpathOf (← hexField c "files"),
              info := cpathOf (← hexField c "info"), kind := ← c.getObjValAs? String "kind",
              parentOk := boolOf c "parentOk", blocked := boolOf c "blocked" } : C07.Cand)
    let v := C07.check before after (cpathOf (← hexField j "dev")) (boolOf j "fallbackEnabled") cands (← optCPath j "got")
    let e := C07.expected before (cpathOf (← hexField j "dev")) (boolOf j "fallbackEnabled") cands
    pure (Json.mkObj [("ok", v == .ok), ("verdict", (reprStr v).replace "TrashVerif." ""),
                      ("expected", match e with | some c => Json.str (Bytes.toHex (FS.toStr c.dir)) | none => Json.null)])
  | "C08" => do
    let ok := C08.check before after (← cpathList j "roots") (boolOf j "mentions")
    pure (Json.mkObj [("ok", ok), ("verdict", if ok then "ok" else "insecure-dir-used")])
  | "effects" => do
    let slots ← slotsOf j
    let v := Effects.check before after (← cpathList j "dirs") slots
    pure (verdict (v == .ok) v)
  | "crash15" => do
    let v := Effects.crashCheck before after (← slotsOf j)
    pure (verdict (v == .ok) v)
  | "bag" => do
    let dirs ← (arrOf j "dirsWithBase").mapM fun d => do pure (cpathOf (← hexField d "dir"), ← hexField d "base")
    let lines ← hexList j "lines"
    let bag := Effects.bagLines after dirs
    pure (Json.mkObj [("ok", Effects.sameMultiset bag lines), ("verdict", if Effects.sameMultiset bag lines then "ok" else "listing-differs-from-bag"),
                      ("bag", Json.arr (bag.map fun l => Json.str (Bytes.toHex l)).toArray)])
  | p => throw s!"no oracle for {p}"

end Oracle
