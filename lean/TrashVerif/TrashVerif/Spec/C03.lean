/-
  Spec/C03.lean — "Every .trashinfo is spec-conformant and decodes back to the exact path and time".
  Written from the property text and the FreeDesktop.org Trash spec / RFC 2396, not from the model:
  an independent strict un-escaper, the alphabet allowed in the Path value, the date shape.
-/
import TrashVerif.Model.Date
namespace TrashVerif.C03
open TrashVerif Bytes

/-- RFC 2396 un-escaping as a relation: every `%` must introduce two hex digits. -/
inductive Unesc : Bytes → Bytes → Prop
  | nil : Unesc [] []
  | lit {s t} (c : UInt8) : c ≠ 37 → Unesc s t → Unesc (c :: s) (c :: t)
  | esc {s t} (h l : UInt8) (x y : Nat) : hexVal? h = some x → hexVal? l = some y → Unesc s t →
      Unesc (37 :: h :: l :: s) (UInt8.ofNat (x * 16 + y) :: t)

/-- executable strict un-escaper (`none` on a malformed escape) -/
def specUnescape : Bytes → Option Bytes
  | [] => some []
  | c :: rest =>
    if c = 37 then
      match rest with
      | h :: l :: rest' =>
        match hexVal? h, hexVal? l with
        | some x, some y => (specUnescape rest').map (UInt8.ofNat (x * 16 + y) :: ·)
        | _, _ => none
      | _ => none
    else (specUnescape rest).map (c :: ·)
termination_by s => s.length
decreasing_by all_goals (simp_all; try omega)

/-- unreserved characters of RFC 2396 §2.3 that `quote` leaves alone, plus '/' and '%' -/
def pathByteOk (c : UInt8) : Bool :=
  let n := c.toNat
  (65 ≤ n && n ≤ 90) || (97 ≤ n && n ≤ 122) || (48 ≤ n && n ≤ 57) ||
  n = 95 || n = 46 || n = 45 || n = 126 || n = 47 || n = 37

def isUpperHex (c : UInt8) : Bool := (48 ≤ c.toNat && c.toNat ≤ 57) || (65 ≤ c.toNat && c.toNat ≤ 70)

/-- every '%' is followed by two upper-case hex digits -/
def escapesOk : Bytes → Bool
  | [] => true
  | c :: rest =>
    if c = 37 then
      match rest with
      | h :: l :: rest' => isUpperHex h && isUpperHex l && escapesOk rest'
      | _ => false
    else escapesOk rest
termination_by s => s.length
decreasing_by all_goals (simp_all; try omega)

/-- `dddd-dd-ddTdd:dd:dd` -/
def dateShapeOk (s : Bytes) : Bool :=
  match s with
  | [y1, y2, y3, y4, 45, m1, m2, 45, d1, d2, 84, h1, h2, 58, n1, n2, 58, s1, s2] =>
    [y1, y2, y3, y4, m1, m2, d1, d2, h1, h2, n1, n2, s1, s2].all isDigit
  | _ => false

/-- The observation: the bytes of one written `.trashinfo`, the original location it was written for. -/
def Holds (content loc : Bytes) : Bool :=
  match lines content with
  | [h, p, d, []] =>
    h = b "[Trash Info]" &&
    startsWith p pathKey && (p.drop pathKey.length).all pathByteOk && escapesOk (p.drop pathKey.length) &&
    specUnescape (p.drop pathKey.length) = some loc &&
    startsWith d dateKey && dateShapeOk (d.drop dateKey.length)
  | _ => false

end TrashVerif.C03
