/-
  Spec/C10.lean — "trash-empty DAYS purges exactly the entries trashed more than DAYS days ago".
  Independent calendar vocabulary: chronological order is the lexicographic order of the fields,
  "DAYS days before" walks the calendar one day at a time.  Nothing here mentions `toSec`.
-/
import TrashVerif.Model.Date
namespace TrashVerif.C10
open TrashVerif

/-- chronological order on (date, microseconds): lexicographic on the fields -/
def lexLt (a : Date) (ua : Nat) (c : Date) (uc : Nat) : Bool :=
  let ka := [a.y, a.m, a.d, a.H, a.M, a.S, ua]
  let kc := [c.y, c.m, c.d, c.H, c.M, c.S, uc]
  decide (ka < kc)

/-- the calendar day before (same time of day); `none` before 0001-01-01 -/
def prevDay (t : Date) : Option Date :=
  if t.d > 1 then some { t with d := t.d - 1 }
  else if t.m > 1 then some { t with m := t.m - 1, d := daysInMonth t.y (t.m - 1) }
  else if t.y > 1 then some { t with y := t.y - 1, m := 12, d := 31 }
  else none

/-- `n` days earlier; `none` when that leaves the representable range (datetime.min) -/
def minusDays : Nat → Date → Option Date
  | 0, t => some t
  | n+1, t => (prevDay t).bind (minusDays n)

/-- The spec's verdict for one dated entry: purge iff strictly earlier than now − DAYS days.
    When now − DAYS days is not representable nothing can be older than it. -/
def shouldPurge (days : Nat) (now : Date) (us : Nat) (d : Date) : Bool :=
  match minusDays days now with
  | some limit => lexLt d 0 limit us
  | none => false

end TrashVerif.C10
