/-
  Spec/Trash.lean — shared vocabulary of the world-level Specs (DESIGN §6.0): snapshots are `FS`
  values, subtree equality, pairs / orphans / new paths of a set of trash directories.
  Only `FS.get`, `FS.dom` and list functions are used: nothing from the command models.
-/
import TrashVerif.Model.FS
import TrashVerif.Model.Codec
namespace TrashVerif.Spec
open TrashVerif Bytes

/-- all relative paths below `p` that exist in `fs` (including `[]` for `p` itself) -/
def relsUnder (fs : FS) (p : CPath) : List CPath :=
  ((fs.dom.filter fun q => FS.under p q && (fs.get q).isSome).map fun q => q.drop p.length).eraseDups

/-- the subtree of `a` at `p` equals the subtree of `c` at `q`: kinds, bytes, link targets, modes, mtimes -/
def subtreeEq (a : FS) (p : CPath) (c : FS) (q : CPath) : Bool :=
  (a.get p).isSome &&
  (relsUnder a p ++ relsUnder c q).all fun rel => a.get (p ++ rel) == c.get (q ++ rel)

/-- nothing at or below `p` -/
def absent (fs : FS) (p : CPath) : Bool := (relsUnder fs p).isEmpty

def trashinfoExt : Bytes := b ".trashinfo"

def filesDir (t : CPath) : CPath := t ++ [b "files"]
def infoDir (t : CPath) : CPath := t ++ [b "info"]
def payloadPath (t : CPath) (n : Name) : CPath := filesDir t ++ [n]
def infoPath (t : CPath) (n : Name) : CPath := infoDir t ++ [n ++ trashinfoExt]

/-- names `N` with `T/files/N` present -/
def payloadNames (fs : FS) (t : CPath) : List Name :=
  (FS.children fs (filesDir t)).filterMap fun q => q.getLast?

/-- names `N` with `T/info/N.trashinfo` present -/
def infoNames (fs : FS) (t : CPath) : List Name :=
  (FS.children fs (infoDir t)).filterMap fun q =>
    match q.getLast? with
    | some n => if endsWith n trashinfoExt then some (n.take (n.length - trashinfoExt.length)) else none
    | none => none

abbrev Slot := CPath × Name     -- (trash dir, name)

def newPayloads (before after : FS) (dirs : List CPath) : List Slot :=
  dirs.eraseDups.flatMap fun t => ((payloadNames after t).filter fun n => (before.get (payloadPath t n)).isNone).map fun n => (t, n)

def newInfos (before after : FS) (dirs : List CPath) : List Slot :=
  dirs.eraseDups.flatMap fun t => ((infoNames after t).filter fun n => (before.get (infoPath t n)).isNone).map fun n => (t, n)

def oldPayloads (before : FS) (dirs : List CPath) : List Slot :=
  dirs.eraseDups.flatMap fun t => (payloadNames before t).map fun n => (t, n)

def oldInfos (before : FS) (dirs : List CPath) : List Slot :=
  dirs.eraseDups.flatMap fun t => (infoNames before t).map fun n => (t, n)

def sameSlots (a c : List Slot) : Bool := a.all (c.contains ·) && c.all (a.contains ·)

/-- the content of a complete `.trashinfo`: header, a Path line, a DeletionDate line, final newline
    (the date value itself is checked by C03) -/
def infoComplete (content : Bytes) : Bool :=
  match lines content with
  | [h, p, d, []] => h = b "[Trash Info]" && startsWith p pathKey && startsWith d dateKey && d.length > dateKey.length
  | _ => false

def infoCompleteAt (fs : FS) (t : CPath) (n : Name) : Bool :=
  match fs.get (infoPath t n) with
  | some (.file data _ _) => infoComplete data
  | _ => false

/-- greedy assignment of entries to distinct new payloads with identical subtrees -/
def assign (before after : FS) : List CPath → List Slot → Option (List (CPath × Slot))
  | [], _ => some []
  | e :: es, free =>
    match free.find? fun (t, n) => subtreeEq before e after (payloadPath t n) with
    | none => none
    | some s => (assign before after es (free.erase s)).map ((e, s) :: ·)

end TrashVerif.Spec
