/-
  Spec/C13.lean — the reply grammar and the scope test of trash-restore, written independently of
  the parser of the model: a relational grammar (what a reply *denotes*) and path components.
-/
import TrashVerif.Model.Index
namespace TrashVerif.C13
open TrashVerif Bytes

/-- decimal digits, single underscores allowed between digits (Python integer literals) -/
inductive Digits : Bytes → Nat → Prop
  | one (c : UInt8) : isDigit c = true → Digits [c] (c.toNat - 48)
  | snoc {s n} (c : UInt8) : Digits s n → isDigit c = true → Digits (s ++ [c]) (n * 10 + (c.toNat - 48))
  | under {s n} (c : UInt8) : Digits s n → isDigit c = true → Digits (s ++ [95, c]) (n * 10 + (c.toNat - 48))

/-- a non-negative integer as `int()` accepts it: blanks, optional '+', digits, blanks -/
inductive IntLit : Bytes → Nat → Prop
  | mk (pre post ds : Bytes) (n : Nat) (plus : Bool) :
      (∀ c ∈ pre, isPyWs c = true) → (∀ c ∈ post, isPyWs c = true) → Digits ds n →
      IntLit (pre ++ (if plus then [43] else []) ++ ds ++ post) n

/-- inclusive range `a..c` (empty when reversed) -/
def inclusive (a c : Nat) : List Nat := (List.range (c + 1 - a)).map (· + a)

/-- one comma-separated item: an index, or `a-b` -/
inductive Item : Bytes → List Nat → Prop
  | single {s n} : IntLit s n → Item s [n]
  | range {a c x y} : IntLit a x → IntLit c y → Item (a ++ [45] ++ c) (inclusive x y)

/-- a reply: items separated by commas; the denotation concatenates, in order, with repetitions -/
inductive Denotes : Bytes → List Nat → Prop
  | last {s is} : (44 : UInt8) ∉ s → Item s is → Denotes s is
  | cons {s is rest js} : (44 : UInt8) ∉ s → Item s is → Denotes rest js → Denotes (s ++ [44] ++ rest) (is ++ js)

/-- path components of a normalised absolute path -/
def comps (p : Bytes) : List Bytes := (splitOn slash p).filter (· ≠ [])

end TrashVerif.C13
