/-
  Spec/ReadSpecs.lean — Specs for the properties about trash-restore / trash-empty / trash-rm /
  trash-list over snapshots: what happened to every trashed entry (slot), what happened outside the
  trash directories, what a kill may leave behind, what the listing must contain.
  Which slots *should* be purged / restored is decided by the harness from the world's own
  ground truth (it generated the entries); this file checks the effect.
-/
import TrashVerif.Spec.C01
import TrashVerif.Model.Date
namespace TrashVerif.Effects
open TrashVerif Spec Bytes

inductive Expect where
  | kept                       -- payload and info byte-for-byte as before
  | purged                     -- payload and info both gone
  | restored (dest : CPath)    -- payload now at dest, identical; payload and info gone from the trash
  | any                        -- malformed neighbour: no expectation
deriving DecidableEq, Repr

structure Slot where
  t : CPath
  n : Name
  expect : Expect
deriving Repr

inductive Verdict where
  | ok
  | keptChanged (i : Nat) | notPurgedWhole (i : Nat) | notRestored (i : Nat) | restoredNotRemoved (i : Nat)
  | outsideChanged (p : Bytes)
deriving DecidableEq, Repr

def slotOk (before after : FS) (s : Slot) : Option (Nat → Verdict) :=
  let p := payloadPath s.t s.n
  let i := infoPath s.t s.n
  match s.expect with
  | .any => none
  | .kept =>
    let payloadSame := if (before.get p).isSome then subtreeEq before p after p else absent after p
    if payloadSame && before.get i == after.get i then none else some .keptChanged
  | .purged => if absent after p && (after.get i).isNone then none else some .notPurgedWhole
  | .restored dest =>
    if ¬ subtreeEq before p after dest then some .notRestored
    else if absent after p && (after.get i).isNone then none else some .restoredNotRemoved

/-- paths the commands may legitimately change: below files/ and info/ of the trash dirs in scope,
    below a restore destination; `files`/`info` themselves and the ancestors of a destination may
    get a fresh mtime (ancestors may also be created) -/
def frameOk (before after : FS) (dirs : List CPath) (dests : List CPath) : Option Bytes :=
  let inside (q : CPath) : Bool :=
    dirs.any (fun t => FS.strictlyUnder (filesDir t) q || FS.strictlyUnder (infoDir t) q) || dests.any (fun d => FS.under d q)
  let soft (q : CPath) : Bool :=
    dirs.any (fun t => q = filesDir t || q = infoDir t) || dests.any (fun d => FS.under q d)
  let all := (before.dom ++ after.dom).eraseDups
  match all.find? fun q =>
      if inside q then false
      else if soft q then ¬ C01.sameButMtime (before.get q) (after.get q)
      else ¬ (before.get q == after.get q) with
  | some q => some (FS.toStr q)
  | none => none

def check (before after : FS) (dirs : List CPath) (slots : List Slot) : Verdict :=
  match (List.range slots.length).findSome? fun i =>
      match slots[i]? with
      | some s => (slotOk before after s).map fun f => f i
      | none => none with
  | some v => v
  | none =>
    let dests := slots.filterMap fun s => match s.expect with | .restored d => some d | _ => none
    match frameOk before after dirs dests with
    | some p => .outsideChanged p
    | none => .ok

/-! ### C15: one crash state of restore / empty / rm -/

inductive CrashVerdict where
  | ok
  | payloadWithoutInfo (i : Nat)      -- a payload (even partly deleted) still under files/N whose info is gone
  | entryLost (i : Nat)               -- an entry being restored is complete neither in the trash nor at its destination
deriving DecidableEq, Repr

def crashCheck (before s : FS) (slots : List Slot) : CrashVerdict :=
  match (List.range slots.length).find? fun i =>
      match slots[i]? with
      | some sl => (before.get (infoPath sl.t sl.n)).isSome && (s.get (payloadPath sl.t sl.n)).isSome && (s.get (infoPath sl.t sl.n)).isNone
      | none => false with
  | some i => .payloadWithoutInfo i
  | none =>
    match (List.range slots.length).find? fun i =>
        match slots[i]? with
        | some sl => (match sl.expect with
            | .restored dest =>
              let p := payloadPath sl.t sl.n
              ¬ (subtreeEq before p s p || subtreeEq before p s dest)
            | _ => false)
        | none => false with
    | some i => .entryLost i
    | none => .ok

/-! ### C09: the listing is the bag -/

/-- one line per `.trashinfo` with a Path, under the trash dirs given with their base ('/' for the
    home trash and custom dirs as the harness resolved them): `date path` -/
def bagLines (fs : FS) (dirs : List (CPath × Bytes)) : List Bytes :=
  dirs.flatMap fun (t, base) =>
    (infoNames fs t).filterMap fun n =>
      if n = [] ∨ n = [dot] ∨ n = dotdot then none else
      match fs.get (infoPath t n) with
      | some (.file data _ _) =>
        match readText data with
        | none => none
        | some text =>
          match parsePath text with
          | none => none
          | some rel => some (maybeDateStr text ++ [32] ++ pjoin base rel)
      | _ => none

def sameMultiset (a c : List Bytes) : Bool := a.all (fun x => a.count x = c.count x) && c.all (fun x => a.count x = c.count x)

end TrashVerif.Effects
