/-
  Spec/PutSpecs.lean — Specs of the other trash-put properties (C04 sequential part, C05, C07, C08,
  C16, C18), over snapshots and facts the harness computes with the real kernel.
-/
import TrashVerif.Spec.C01
namespace TrashVerif
open Spec Bytes

/-! ### C05 — one crash state -/
namespace C05

inductive Verdict where
  | ok
  | lost (i : Nat)              -- entry i is complete neither at its origin nor under files/
  | orphanPayload               -- a new payload without a complete .trashinfo
deriving DecidableEq, Repr

/-- `s` is a state a kill could leave behind -/
def check (before s : FS) (dirs : List CPath) (entries : List CPath) : Verdict :=
  let np := newPayloads before s dirs
  if ¬ np.all (fun (t, n) => infoCompleteAt s t n) then .orphanPayload
  else
    match (List.range entries.length).find? fun i =>
        match entries[i]? with
        | some e => ¬ (C01.untouched before s dirs e || np.any fun (t, n) => subtreeEq before e s (payloadPath t n))
        | none => false with
    | some i => .lost i
    | none => .ok

def Holds (before s : FS) (dirs : List CPath) (entries : List CPath) : Bool := check before s dirs entries = .ok
end C05

/-! ### C04 — previously trashed entries are never replaced, merged into, or lost -/
namespace C04

inductive Verdict where
  | ok
  | oldPayloadChanged | oldInfoChanged
deriving DecidableEq, Repr

def check (before after : FS) (dirs : List CPath) : Verdict :=
  if ¬ (oldPayloads before dirs).all (fun (t, n) => subtreeEq before (payloadPath t n) after (payloadPath t n)) then .oldPayloadChanged
  else if ¬ (oldInfos before dirs).all (fun (t, n) => before.get (infoPath t n) == after.get (infoPath t n)) then .oldInfoChanged
  else .ok

def Holds (before after : FS) (dirs : List CPath) : Bool := check before after dirs = .ok
end C04

/-! ### C16 — truthful exit status, a diagnostic for every failed argument -/
namespace C16

structure Item where
  entry : Option CPath     -- designated entry (none: dot entry or nothing there)
  legitSkip : Bool         -- nonexistent under -f, or declined under -i
  named : Bool             -- some diagnostic on stderr names this argument
deriving Repr

inductive Verdict where
  | ok
  | exitZeroButFailed (i : Nat) | exitNonZeroButAllFine | failedNotNamed (i : Nat)
deriving DecidableEq, Repr

def fine (before after : FS) (dirs : List CPath) (it : Item) : Bool :=
  it.legitSkip || match it.entry with
    | some e => ¬ C01.untouched before after dirs e
    | none => false

def check (before after : FS) (dirs : List CPath) (items : List Item) (exit : Nat) : Verdict :=
  let bad := (List.range items.length).filter fun i =>
    match items[i]? with | some it => ¬ fine before after dirs it | none => false
  match bad with
  | [] => if exit = 0 then .ok else .exitNonZeroButAllFine
  | i :: _ =>
    if exit = 0 then .exitZeroButFailed i
    else match bad.find? fun j => match items[j]? with | some it => ¬ it.named | none => false with
      | some j => .failedNotNamed j
      | none => .ok

def Holds (before after : FS) (dirs : List CPath) (items : List Item) (exit : Nat) : Bool :=
  check before after dirs items exit = .ok
end C16

/-! ### C18 — the link itself is moved, its target untouched, the recorded location is the link's -/
namespace C18

structure Item where
  link : CPath                 -- canonical location of the link (parent resolved by the kernel)
  target : Option CPath        -- canonical location of what it points to, when that exists
  expectAbs : Bytes            -- the link's absolute location as a string
deriving Repr

inductive Verdict where
  | ok
  | targetTouched (i : Nat) | notALinkInTrash (i : Nat) | wrongRecordedPath (i : Nat)
deriving DecidableEq, Repr

/-- what the Path line must hold for a trash dir whose base is `base` (none: absolute paths) -/
def expectedPath (abs : Bytes) (base : Option Bytes) : Bytes :=
  match base with
  | none => abs
  | some bs =>
    let pre := rstripSlash bs ++ [slash]
    if startsWith abs pre then abs.drop pre.length else abs

def recordedPath (fs : FS) (t : CPath) (n : Name) : Option Bytes :=
  match fs.get (infoPath t n) with
  | some (.file data _ _) => (readText data).bind parsePath
  | _ => none

/-- `dirs` pairs every trash dir in scope with its base ($topdir) or none (home trash) -/
def check (before after : FS) (dirs : List (CPath × Option Bytes)) (items : List Item) : Verdict :=
  let ds := dirs.map (·.1)
  let np := newPayloads before after ds
  match (List.range items.length).find? fun i =>
      match items[i]? with
      | some it => (match it.target with
          | some tg => ¬ C01.untouched before after ds tg && ¬ FS.under it.link tg
          | none => false)
      | none => false with
  | some i => .targetTouched i
  | none =>
    match (List.range items.length).find? fun i =>
        match items[i]? with
        | some it =>
          if C01.untouched before after ds it.link then false
          else ¬ np.any fun (t, n) => after.get (payloadPath t n) == before.get it.link && (after.get (payloadPath t n)).any Node.isLink
        | none => false with
    | some i => .notALinkInTrash i
    | none =>
      match (List.range items.length).find? fun i =>
          match items[i]? with
          | some it =>
            if C01.untouched before after ds it.link then false
            else ¬ np.any fun (t, n) =>
              after.get (payloadPath t n) == before.get it.link &&
              recordedPath after t n == some (expectedPath it.expectAbs ((dirs.find? fun d => d.1 = t).bind (·.2)))
          | none => false with
      | some i => .wrongRecordedPath i
      | none => .ok

def Holds (before after : FS) (dirs : List (CPath × Option Bytes)) (items : List Item) : Bool :=
  check before after dirs items = .ok
end C18

/-! ### C07 — the prescribed trash directory, on the file's own volume, created private -/
namespace C07

/-- mkdir -p of the canonical path `p` would yield a directory: its first existing ancestor-or-self is one -/
def creatable (fs : FS) : Nat → CPath → Bool
  | 0, _ => false
  | fuel+1, p =>
    match fs.get p with
    | some (.dir ..) => true
    | some _ => false
    | none => if p = [] then false else creatable fs fuel p.dropLast

structure Cand where
  dir : CPath          -- canonical trash dir (symlinks resolved, missing tail kept)
  files : CPath        -- canonical T/files
  info : CPath         -- canonical T/info
  kind : String        -- "home" | "top" | "alt" | "custom" | "fallback"
  parentOk : Bool      -- for "top": $topdir/.Trash is a sticky, non-symlink directory (as lstat/stat saw it before)
  blocked : Bool := false  -- a symbolic link that does not resolve stands on the way to T, T/files or T/info (as the
                           -- kernel saw the path strings before): no mkdir can create anything through it
deriving Repr

def usable (fs : FS) (c : Cand) : Bool :=
  !c.blocked &&
  creatable fs (c.dir.length + 2) c.dir && creatable fs (c.files.length + 2) c.files && creatable fs (c.info.length + 2) c.info

/-- the spec's choice among the ordered candidates for a file whose parent lives on device `d` -/
def expected (fs : FS) (d : CPath) (fallbackEnabled : Bool) (cands : List Cand) : Option Cand :=
  cands.find? fun c =>
    usable fs c &&
    (if c.kind = "fallback" then fallbackEnabled
     else FS.dev fs c.dir = d && (c.kind ≠ "top" || c.parentOk))

inductive Verdict where
  | ok
  | wrongDir | notTrashedButShould | trashedButShouldNot | notPrivate | crossDevice
deriving DecidableEq, Repr

/-- observation for a single-argument run: where the new pair appeared (canonical trash dir) -/
def check (before after : FS) (d : CPath) (fallbackEnabled : Bool) (cands : List Cand) (got : Option CPath) : Verdict :=
  match expected before d fallbackEnabled cands, got with
  | none, none => .ok
  | none, some _ => .trashedButShouldNot
  | some _, none => .notTrashedButShould
  | some c, some t =>
    if t ≠ c.dir then .wrongDir
    else if c.kind ≠ "fallback" ∧ FS.dev after c.files ≠ d then .crossDevice
    else
      let created := [c.dir, c.files, c.info].filter fun p => (before.get p).isNone
      if created.all (fun p => match after.get p with | some (.dir m _) => m = 0o700 | _ => false) then .ok else .notPrivate

def Holds (before after : FS) (d : CPath) (fb : Bool) (cands : List Cand) (got : Option CPath) : Bool :=
  check before after d fb cands got = .ok
end C07

/-! ### C08 — nothing under an insecure $topdir/.Trash is used -/
namespace C08

/-- `roots`: canonical locations of `$topdir/.Trash/$uid` for every volume whose `.Trash` is insecure -/
def check (before after : FS) (roots : List CPath) (mentions : Bool) : Bool :=
  roots.all (fun r => (relsUnder before r ++ relsUnder after r).all fun rel => before.get (r ++ rel) == after.get (r ++ rel)) && ¬ mentions

def Holds (before after : FS) (roots : List CPath) (mentions : Bool) : Bool := check before after roots mentions
end C08

end TrashVerif
