/-
  Spec/C12.lean — shell-style matching, declaratively (independent of the greedy algorithm of the
  model and of regular expressions): a pattern is a list of items, `Matches` says when it matches.
-/
import TrashVerif.Model.Glob
namespace TrashVerif.C12
open TrashVerif

/-- one non-star item accepts one symbol -/
def Accepts : GItem → Nat → Prop
  | .any, _ => True
  | .lit c, x => c = x
  | .cls neg singles ranges, x =>
    let inSet := x ∈ singles ∨ ∃ r ∈ ranges, r.1 ≤ x ∧ x ≤ r.2
    if neg then ¬ inSet else inSet
  | .never, _ => False
  | .star, _ => False

/-- declarative matching: `*` matches any (possibly empty) sequence, every other item one symbol -/
inductive Matches : List GItem → List Nat → Prop
  | nil : Matches [] []
  | star_skip {is s} : Matches is s → Matches (.star :: is) s
  | star_take {is s x} : Matches (.star :: is) s → Matches (.star :: is) (x :: s)
  | one {i is x s} : i ≠ .star → Accepts i x → Matches is s → Matches (i :: is) (x :: s)

end TrashVerif.C12
