/-
  Spec/C01.lean — "trash-put conserves data: each argument ends fully trashed or untouched".
  Observation: snapshot before, snapshot after, the trash directories in scope, and per argument
  the designated entry (as the kernel resolved it before the run; `none` for dot entries and
  non-existent paths) and whether the run reported a failure for it.
-/
import TrashVerif.Spec.Trash
namespace TrashVerif.C01
open TrashVerif Spec

structure Item where
  entry : Option CPath
  reported : Bool
deriving Repr

inductive Verdict where
  | ok
  | lostEntry (i : Nat)             -- argument i is complete neither at its place nor under any new payload: data lost
  | strayInfo | strayPayload        -- something new without its counterpart
  | lostOrHalf (i : Nat)            -- argument i is neither untouched nor completely trashed
  | reportedButTouched (i : Nat)    -- failure reported for i, yet it was moved
  | extraPairs                      -- more new pairs than trashed arguments
deriving DecidableEq, Repr

/-- for a path that is an ancestor of a trash directory in scope: it may have been created (a
    missing ancestor of the trash directory) or have got a fresh mtime -/
def sameButMtime : Option Node → Option Node → Bool
  | some (.dir m _), some (.dir m' _) => m = m'
  | none, some (.dir ..) => true
  | a, c => a == c

/-- the entry is still at its place, unchanged; trash directories in scope that live inside it may
    have been created or filled (they are accounted for separately), which also refreshes the
    mtime of their ancestors -/
def untouched (before after : FS) (dirs : List CPath) (e : CPath) : Bool :=
  (before.get e).isSome &&
  (relsUnder before e ++ relsUnder after e).all fun rel =>
    let q := e ++ rel
    if dirs.any (fun t => FS.under t q) then true
    else if dirs.any (fun t => FS.under q t) then sameButMtime (before.get q) (after.get q)
    else before.get q == after.get q

def check (before after : FS) (dirs : List CPath) (items : List Item) : Verdict :=
  let np := newPayloads before after dirs
  let ni := newInfos before after dirs
  -- first of all: nothing may be lost
  match (List.range items.length).find? fun i =>
      match items[i]? with
      | some it => (match it.entry with
          | some e => ¬ untouched before after dirs e && ¬ np.any fun (t, n) => subtreeEq before e after (payloadPath t n)
          | none => false)
      | none => false with
  | some i => .lostEntry i
  | none =>
  if ¬ ni.all (np.contains ·) then .strayInfo
  else if ¬ np.all (ni.contains ·) then .strayPayload
  else
    let entries := (items.filterMap (·.entry)).eraseDups
    let moved := entries.filter fun e => ¬ untouched before after dirs e
    -- a reported failure implies untouched
    match (List.range items.length).find? fun i =>
        match items[i]? with
        | some it => it.reported && (match it.entry with | some e => ¬ untouched before after dirs e | none => false)
        | none => false with
    | some i => .reportedButTouched i
    | none =>
      -- every moved entry is gone from its place and complete under exactly one new payload
      match (List.range moved.length).find? fun i =>
          match moved[i]? with
          | some e => ¬ absent after e
          | none => false with
      | some i => .lostOrHalf i
      | none =>
        match assign before after moved np with
        | none => .lostOrHalf 0
        | some asg => if asg.length = np.length then .ok else .extraPairs

def Holds (before after : FS) (dirs : List CPath) (items : List Item) : Bool :=
  check before after dirs items = .ok

end TrashVerif.C01
