import Lean.Data.Json
open Lean

partial def loop (h : IO.FS.Stream) (out : IO.FS.Stream) : IO Unit := do
  let line ← h.getLine
  if line.isEmpty then return ()
  match Json.parse line with
  | .ok j => out.putStrLn (j.compress)
  | .error e => out.putStrLn s!"err {e}"
  out.flush
  loop h out

def main : IO Unit := do loop (← IO.getStdin) (← IO.getStdout)
