/-
  Driver/Main.lean — line protocol between the Python harness and the Lean model.
  One JSON object per input line, one JSON object per output line.
  Imports Model + Spec only (core Lean), so it links as a native executable.
-/
import Lean.Data.Json
import TrashVerif.Model.Date
import TrashVerif.Model.PathStr
import TrashVerif.Spec.C03
import TrashVerif.Model.Index
import TrashVerif.Driver.World
import TrashVerif.Driver.Oracle
open Lean TrashVerif

def hexOf (j : Json) (k : String) : Except String Bytes := do
  let s ← j.getObjValAs? String k
  match Bytes.ofHex? s.toList with
  | some b => pure b
  | none => throw s!"bad hex in field {k}"

def natOf (j : Json) (k : String) : Except String Nat := j.getObjValAs? Nat k

def jhex (b : Bytes) : Json := Json.str (Bytes.toHex b)
def jopt (o : Option Bytes) : Json := match o with | some b => jhex b | none => Json.null

def dateJson (t : Date) : Json :=
  Json.arr #[t.y, t.m, t.d, t.H, t.M, t.S]

def dateOf (j : Json) (k : String) : Except String Date := do
  let a ← j.getObjValAs? (Array Nat) k
  if a.size ≠ 6 then throw "date needs 6 numbers"
  pure { y := a[0]!, m := a[1]!, d := a[2]!, H := a[3]!, M := a[4]!, S := a[5]! }

def handle (j : Json) : Except String Json := do
  let op ← j.getObjValAs? String "op"
  match op with
  | "ping" => pure (Json.mkObj [("r", "pong")])
  | "quote" => do
    let s ← hexOf j "s"
    pure (Json.mkObj [("r", jhex (quote s))])
  | "unquote" => do
    let s ← hexOf j "s"
    pure (Json.mkObj [("r", jhex (unquote s)), ("lossy", unquoteLossy s)])
  | "readText" => do
    let s ← hexOf j "s"
    pure (Json.mkObj [("r", jopt (readText s))])
  | "parsePath" => do
    let s ← hexOf j "s"
    match readText s with
    | none => pure (Json.mkObj [("r", "decode-error")])
    | some t =>
      match parsePathRaw t with
      | none => pure (Json.mkObj [("r", "parse-error")])
      | some raw => pure (Json.mkObj [("r", "ok"), ("path", jhex (unquote raw)), ("lossy", unquoteLossy raw)])
  | "parseDate" => do
    let s ← hexOf j "s"
    match readText s with
    | none => pure (Json.mkObj [("r", "decode-error")])
    | some t =>
      match parseDate t with
      | .missing => pure (Json.mkObj [("r", "missing")])
      | .invalid => pure (Json.mkObj [("r", "invalid")])
      | .date d => pure (Json.mkObj [("r", "date"), ("date", dateJson d), ("str", jhex d.str)])
  | "format" => do
    let loc ← hexOf j "loc"
    let d ← dateOf j "date"
    pure (Json.mkObj [("r", jhex (formatTrashinfoWith loc d.fmt))])
  | "olderThan" => do
    let days ← natOf j "days"
    let now ← dateOf j "now"
    let us ← natOf j "us"
    let d ← dateOf j "date"
    let r := match olderThan days now us d with
      | .overflow => "overflow" | .yes => "yes" | .no => "no"
    pure (Json.mkObj [("r", r)])
  | "c03holds" => do
    pure (Json.mkObj [("r", C03.Holds (← hexOf j "content") (← hexOf j "loc"))])
  | "glob" => do
    pure (Json.mkObj [("r", Glob.globMatch (decodeSE (← hexOf j "pat")) (decodeSE (← hexOf j "name")))])
  | "rmMatches" => do
    match rmMatches (← hexOf j "pat") (← hexOf j "loc") with
    | some r => pure (Json.mkObj [("r", r)])
    | none => pure (Json.mkObj [("r", "crash")])
  | "parseIndexes" => do
    match parseIndexes (← hexOf j "s") (← natOf j "n") with
    | .ok is => pure (Json.mkObj [("r", "ok"), ("indexes", Json.arr (is.toArray.map fun (i : Nat) => (i : Json)))])
    | .invalid => pure (Json.mkObj [("r", "invalid")])
    | .crash => pure (Json.mkObj [("r", "crash")])
  | "inScope" => do
    pure (Json.mkObj [("r", inScope (← hexOf j "dir") (← hexOf j "loc"))])
  | "sortEntries" => do
    let mode := match (← j.getObjValAs? String "mode") with
      | "date" => SortMode.date | "path" => .path | _ => .none
    let es ← (Oracle.arrOf j "entries").mapM fun e => do
      let d : Option Date := match dateOf e "date" with | .ok d => some d | .error _ => none
      pure ({ loc := ← hexOf e "loc", date := d, info := ← hexOf e "info" } : Entry)
    pure (Json.mkObj [("r", Json.arr ((sortEntries mode es).map fun e => jhex e.info).toArray)])
  | "emptyReply" => do pure (Json.mkObj [("r", emptyReplyYes (← hexOf j "s"))])
  | "oracle" => Oracle.handle j
  | "run" => do
    match ← j.getObjValAs? String "cmd" with
    | "put" => World.runPutWorld j
    | c => World.runOther c j
  | "restoreDir" => do pure (Json.mkObj [("r", jhex (restoreScopeDir (← hexOf j "cwd") (← hexOf j "path")))])
  | "normpath" => do pure (Json.mkObj [("r", jhex (normpath (← hexOf j "s")))])
  | "dirname" => do pure (Json.mkObj [("r", jhex (dirname (← hexOf j "s")))])
  | "basename" => do pure (Json.mkObj [("r", jhex (basename (← hexOf j "s")))])
  | "join" => do pure (Json.mkObj [("r", jhex (pjoin (← hexOf j "a") (← hexOf j "b")))])
  | _ => throw s!"unknown op {op}"

partial def loop (h : IO.FS.Stream) (out : IO.FS.Stream) : IO Unit := do
  let line ← h.getLine
  if line.isEmpty then return ()
  let resp := match Json.parse line with
    | .ok j => match handle j with
      | .ok r => r
      | .error e => Json.mkObj [("error", e)]
    | .error e => Json.mkObj [("error", s!"json: {e}")]
  out.putStrLn resp.compress
  out.flush
  loop h out

def main : IO Unit := do loop (← IO.getStdin) (← IO.getStdout)
